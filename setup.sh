#!/bin/sh
# Offline setup: nothing to build; verify the tools the checks need.
set -e
java -version 2>&1 | head -1
test -f /opt/veriftools/tla/tla2tools.jar
/venv/bin/python -c "import sys; sys.path.insert(0,'/repo/src'); import aiortc, hypothesis; print('aiortc', aiortc.__version__)"
mkdir -p /verif/evidence /verif/replays
echo setup-ok
