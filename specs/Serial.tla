------------------------------- MODULE Serial -------------------------------
(* C17 part 1 - serial-number arithmetic modulo M (RFC 1982 style), the      *)
(* reference against which aiortc.utils.uint16_* / uint32_* and              *)
(* rtcsctptransport.tsn_plus_one / tsn_minus_one are judged, plus a          *)
(* transcription of the code's comparison formula (CodeGt) so that TLC can   *)
(* prove, exhaustively for a small modulus, that the formula is the          *)
(* reference order and has the properties C17 states.                        *)
EXTENDS Naturals, Integers, FiniteSets, TLC

CONSTANT M           \* modulus, even

Half == M \div 2
Add(a, d) == (a + d) % M
Dist(a, b) == (a - b + M) % M                 \* how far a is ahead of b
Gt(a, b) == a # b /\ Dist(a, b) < Half       \* reference: a is "after" b
Gte(a, b) == a = b \/ Gt(a, b)

\* the formula used by aiortc.utils.uintNN_gt
CodeGt(a, b) == ((a < b) /\ ((b - a) > Half)) \/ ((a > b) /\ ((a - b) < Half))
CodeGte(a, b) == (a = b) \/ CodeGt(a, b)

VARIABLE a           \* the model steps through all first operands

Init == a = 0
Next == a < M - 1 /\ a' = a + 1
Spec == Init /\ [][Next]_a

N == 0..(M - 1)

\* the code's formula is the reference order
FormulaIsReference == \A b \in N : CodeGt(a, b) = Gt(a, b) /\ CodeGte(a, b) = Gte(a, b)
\* antisymmetry, irreflexivity
Antisymmetric == \A b \in N : ~(Gt(a, b) /\ Gt(b, a)) /\ ~Gt(a, a)
\* consistency with modular addition below half the number space
AddConsistent == \A d \in 1..(Half - 1) : Gt(Add(a, d), a) /\ ~Gt(a, Add(a, d)) /\ Gte(Add(a, d), a)
\* totality except for the antipode
TotalBelowHalf == \A b \in N : (a # b /\ Dist(a, b) # Half) => (Gt(a, b) \/ Gt(b, a))
\* translation invariance: the order does not depend on the origin
OriginFree == \A b \in N : \A o \in {1, Half - 1, Half, M - 1} : Gt(a, b) = Gt(Add(a, o), Add(b, o))
\* witness (must be violated): comparisons do cross the wrap point
W_NoWrapCase == ~(\E b \in N : Gt(a, b) /\ a < b)
=============================================================================
