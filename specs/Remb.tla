-------------------------------- MODULE Remb --------------------------------
(* C15 - receive-side bandwidth estimation (REMB).  Two models share this    *)
(* module (one SPECIFICATION each, selected by the configuration):           *)
(*                                                                           *)
(*  SpecRate  the incoming-bitrate measurement of RemoteBitrateEstimator:    *)
(*            RateCounter (1 ms buckets, total, moving origin) as exact      *)
(*            integer arithmetic plus the reset-when-no-rate logic and the   *)
(*            SSRC table.  Theorem: after every arrival the total is the sum *)
(*            over exactly the packets of the last W ms, and the SSRC list   *)
(*            is the set of SSRCs seen.                                      *)
(*  SpecAimd  the AIMD rate controller (hold / increase / decrease, near-max *)
(*            mode, initialisation).  The detector hypothesis, the measured  *)
(*            throughput and the outcome of the two sigma tests are          *)
(*            environment inputs (the Kalman filter and the running          *)
(*            mean/variance are floating point and are not modelled); the    *)
(*            multiplicative increase is bounded nondeterminism.  Theorems   *)
(*            = the clauses of the property: an estimate is a non-negative   *)
(*            integer REMB can encode, it never rises above                  *)
(*            max(previous, floor(1.5 thr) + 10000), on over-use it is at    *)
(*            most round(0.85 thr), and every step is defined: a step whose  *)
(*            divisor would be 0 sets `err` and NoError is an invariant.     *)
(*                                                                           *)
(* `Deviations` re-enables in the model what the code does (or did):         *)
(*  "WindowOffByOne"   _erase_old drops the bucket that is exactly W-1 ms old *)
(*  "NearMaxDivZero"   packets_per_frame = ceil(..) may be 0                 *)
EXTENDS Integers, Sequences, FiniteSets, TLC

CONSTANTS W,          \* window in ms (real: 1000)
          Scale,      \* 8000: bytes per ms -> bits per second
          Sizes,      \* payload sizes
          Gaps,       \* arrival gaps in ms (SpecRate) / time steps (SpecAimd)
          Ssrcs,
          ThrSet,     \* throughput measurements offered to the controller (subset of Nat)
          MaxOps,
          RembMax,    \* largest estimate the model admits as encodable (real: 2^18 * 2^63 - ...)
          Deviations

VARIABLES rc,     \* RateCounter: [b: bucket array, tot, oidx, oms]
          ini,    \* RemoteBitrateEstimator.incoming_bitrate_initialized
          tab,    \* RemoteBitrateEstimator.ssrcs (as a set)
          meas,   \* rate handed to the controller after the last arrival (NoneV: none)
          pk,     \* history: all arrivals [t, v]
          seen,   \* history: SSRCs seen
          clk,    \* time of the last arrival / update
          ac,     \* AimdRateControl
          out,    \* last update: inputs and result
          err,    \* a step was undefined (division by zero, None arithmetic)
          nops,
          act

vars == <<rc, ini, tab, meas, pk, seen, clk, ac, out, err, nops, act>>
rateVars == <<rc, ini, tab, meas, pk, seen>>
aimdVars == <<ac, out, err>>

NoneV == -1
Max(a, b) == IF a > b THEN a ELSE b
Min(a, b) == IF a < b THEN a ELSE b

\* Python round(n / d) for n >= 0, d > 0 (round half to even)
RoundHalfEven(n, d) ==
  LET q == n \div d
      r == n % d
  IN IF 2 * r < d THEN q ELSE IF 2 * r > d THEN q + 1 ELSE IF q % 2 = 0 THEN q ELSE q + 1

\* round(0.85 * t) without leaving 32 bits
Round85(t) ==
  LET a == 85 * (t \div 100)
      mm == 85 * (t % 100)
      q == a + mm \div 100
      r == mm % 100
  IN IF r < 50 THEN q ELSE IF r > 50 THEN q + 1 ELSE IF q % 2 = 0 THEN q ELSE q + 1

Floor85(t) == 85 * (t \div 100) + (85 * (t % 100)) \div 100
Bound15(t) == (3 * t) \div 2 + 10000          \* int(1.5 * t) + 10000

------------------------------------------------------------------------
(* RateCounter                                                            *)

Bucket0 == [c |-> 0, v |-> 0]
RcInit == [b |-> [i \in 0..(W - 1) |-> Bucket0], tot |-> Bucket0, oidx |-> 0, oms |-> NoneV]

RECURSIVE EraseOld(_, _)
EraseOld(r, newOrigin) ==            \* RateCounter._erase_old
  IF r.oms >= newOrigin + (IF "WindowOffByOne" \in Deviations THEN 1 ELSE 0) THEN r
  ELSE LET bk == r.b[r.oidx]
       IN EraseOld([r EXCEPT !.tot = [c |-> r.tot.c - bk.c, v |-> r.tot.v - bk.v],
                             !.b[r.oidx] = Bucket0,
                             !.oidx = (r.oidx + 1) % W,
                             !.oms = r.oms + 1], newOrigin)

RcAdd(r, v, now) ==                  \* RateCounter.add
  LET r1 == IF r.oms = NoneV THEN [r EXCEPT !.oms = now] ELSE EraseOld(r, now - W + 1)
      idx == (r1.oidx + now - r1.oms) % W
  IN [r1 EXCEPT !.b[idx] = [c |-> @.c + 1, v |-> @.v + v],
                !.tot = [c |-> @.c + 1, v |-> @.v + v]]

RcRate(r, now) ==                    \* RateCounter.rate -> <<counter afterwards, value>>
  IF r.oms = NoneV THEN <<r, NoneV>>
  ELSE LET r1 == EraseOld(r, now - W + 1)
           aw == now - r1.oms + 1
       IN <<r1, IF r1.tot.c > 0 /\ aw > 1 THEN RoundHalfEven(Scale * r1.tot.v, aw) ELSE NoneV>>

\* the reference: packets of the last W ms
RECURSIVE WindowSum(_, _, _)
WindowSum(h, k, now) ==
  IF k = 0 THEN Bucket0
  ELSE LET s == WindowSum(h, k - 1, now)
       IN IF h[k].t > now - W /\ h[k].t <= now THEN [c |-> s.c + 1, v |-> s.v + h[k].v] ELSE s

------------------------------------------------------------------------
(* AimdRateControl                                                        *)

InitRate == 30000000
AimdInit == [avgSet |-> FALSE, cur |-> InitRate, initd |-> FALSE, firstAge |-> NoneV, sinceLast |-> NoneV,
             nearMax |-> FALSE, latest |-> InitRate, st |-> "HOLD"]

\* one call of AimdRateControl.update; dt = time since the previous call
AimdUpdate(a0, hyp, thrOpt, dt, sigHi, sigLo, pick) ==
  LET \* clocks: age of first_estimated_throughput_time and of last_change_ms
      a == [a0 EXCEPT !.firstAge = IF a0.firstAge = NoneV THEN NoneV ELSE Min(a0.firstAge + dt, 3001),
                      !.sinceLast = IF a0.sinceLast = NoneV THEN NoneV ELSE a0.sinceLast + dt]
      a1 == IF ~a.initd /\ thrOpt # NoneV
              THEN IF a.firstAge = NoneV THEN [a EXCEPT !.firstAge = 0]
                   ELSE IF a.firstAge > 3000 THEN [a EXCEPT !.cur = thrOpt, !.initd = TRUE] ELSE a
              ELSE a
      silent == [a |-> a1, res |-> NoneV, lo |-> NoneV, hi |-> NoneV, err |-> FALSE, thr |-> NoneV, branch |-> "wait",
                 clamped |-> FALSE]
  IN IF ~a1.initd /\ hyp # "OVER" THEN silent
     ELSE
     LET toInc == hyp = "NORMAL" /\ a1.st = "HOLD"
         st1 == IF toInc THEN "INCREASE" ELSE IF hyp = "OVER" THEN "DECREASE"
                ELSE IF hyp = "UNDER" THEN "HOLD" ELSE a1.st
         thr == IF thrOpt # NoneV THEN thrOpt ELSE a1.latest
         a2 == [a1 EXCEPT !.st = st1, !.sinceLast = IF toInc THEN 0 ELSE a1.sinceLast, !.latest = thr]
         maxb == Max(Bound15(thr), a1.cur)                        \* _clamp_bitrate
         fin(rec, new, lo, hi, e, br) ==
           [a |-> [rec EXCEPT !.cur = Min(new, maxb)], res |-> Min(new, maxb),
            lo |-> Min(lo, maxb), hi |-> Min(hi, maxb), err |-> e, thr |-> thr, branch |-> br,
            clamped |-> new > maxb]
     IN IF st1 = "INCREASE" THEN
          LET clear == a2.avgSet /\ sigHi
              a3 == [a2 EXCEPT !.nearMax = IF clear THEN FALSE ELSE a2.nearMax,
                               !.avgSet = IF clear THEN FALSE ELSE a2.avgSet,
                               !.sinceLast = 0]
          IN IF a3.nearMax THEN
               \* _additive_rate_increase / _near_max_rate_increase
               LET ppf0 == (a2.cur + 287999) \div 288000           \* ceil(cur / 30 / 9600)
                   ppf == IF "NearMaxDivZero" \in Deviations THEN ppf0 ELSE Max(ppf0, 1)
               IN IF ppf = 0 \/ a2.sinceLast = NoneV
                    THEN [a |-> a2, res |-> NoneV, lo |-> NoneV, hi |-> NoneV, err |-> TRUE, thr |-> thr,
                          branch |-> "additive", clamped |-> FALSE]
                  ELSE LET inc == Max(4000, a2.cur \div (9 * ppf))
                           amount == a2.sinceLast * (inc \div 1000) + (a2.sinceLast * (inc % 1000)) \div 1000
                       IN fin(a3, a2.cur + amount, a2.cur + amount - 1, a2.cur + amount + 1, FALSE, "additive")
             ELSE
               \* _multiplicative_rate_increase: int(max((1.08 ** (min(dt, 1000) / 1000) - 1) * cur, 1000))
               LET top == Max(1000, (2 * a2.cur) \div 25 + 1)
                   amount == IF pick = "min" THEN 1000 ELSE top
               IN fin(a3, a2.cur + amount, a2.cur + 1000, a2.cur + top, FALSE, "multiplicative")
        ELSE IF st1 = "DECREASE" THEN
          LET a3 == [a2 EXCEPT !.avgSet = TRUE,      \* cleared if sigLo, then set by _update_max_throughput_estimate
                               !.nearMax = TRUE, !.sinceLast = 0, !.st = "HOLD"]
              new == Round85(thr)
          IN fin(a3, new, new - 1, new + 1, FALSE, "decrease")
        ELSE fin(a2, a2.cur, a2.cur, a2.cur, FALSE, "hold")

------------------------------------------------------------------------
Init ==
  /\ rc = RcInit /\ ini = TRUE /\ tab = {} /\ meas = NoneV
  /\ pk = <<>> /\ seen = {} /\ clk = 0
  /\ ac = AimdInit /\ err = FALSE
  /\ out = [res |-> NoneV, prev |-> InitRate, thr |-> NoneV, hyp |-> "NORMAL"]
  /\ nops = 0 /\ act = [op |-> "init"]

\* RemoteBitrateEstimator.add, measurement part
Arrive(v, s, gap) ==
  LET now == clk + gap
      rr == RcRate(rc, now)
      keep == rr[2] # NoneV \/ ~ini
      r1 == IF keep THEN rr[1] ELSE RcInit                      \* reset()
      r2 == RcAdd(r1, v, now)
      m == RcRate(r2, now)
  IN /\ nops < MaxOps /\ nops' = nops + 1
     /\ rc' = m[1] /\ meas' = m[2]
     /\ ini' = IF rr[2] # NoneV THEN TRUE ELSE IF ini THEN FALSE ELSE ini
     /\ tab' = tab \cup {s} /\ seen' = seen \cup {s}
     /\ pk' = Append(pk, [t |-> now, v |-> v]) /\ clk' = now
     /\ UNCHANGED aimdVars
     /\ act' = [op |-> "arrive", v |-> v, s |-> s, gap |-> gap, t |-> now, rate |-> m[2],
                total |-> m[1].tot.v, count |-> m[1].tot.c, reset |-> ~keep]

NextRate == \E v \in Sizes, s \in Ssrcs, g \in Gaps : Arrive(v, s, g)
SpecRate == Init /\ [][NextRate]_vars

Update(hyp, thrOpt, dt, sigHi, sigLo, pick) ==
  LET u == AimdUpdate(ac, hyp, thrOpt, dt, sigHi, sigLo, pick)
  IN /\ nops < MaxOps /\ nops' = nops + 1 /\ ~err
     /\ ac' = u.a /\ err' = u.err /\ clk' = clk + dt
     /\ out' = [res |-> u.res, prev |-> ac.cur, thr |-> u.thr, hyp |-> hyp]
     /\ UNCHANGED rateVars
     /\ act' = [op |-> "update", hyp |-> hyp, thr |-> thrOpt, dt |-> dt, sigHi |-> sigHi, sigLo |-> sigLo,
                res |-> u.res, lo |-> u.lo, hi |-> u.hi, err |-> u.err, branch |-> u.branch, clamped |-> u.clamped,
                cur |-> u.a.cur, st |-> u.a.st, nearMax |-> u.a.nearMax, initd |-> u.a.initd,
                avgSet |-> u.a.avgSet]

NextAimd ==
  \E hyp \in {"NORMAL", "UNDER", "OVER"}, thrOpt \in ThrSet \cup {NoneV}, dt \in Gaps :
    \* the sigma tests and the size of the multiplicative step only matter on some branches
    \E sig \in (IF ac.avgSet /\ hyp # "UNDER" THEN BOOLEAN ELSE {FALSE}),
       pick \in (IF hyp = "NORMAL" THEN {"min", "max"} ELSE {"min"}) :
         Update(hyp, thrOpt, dt, sig, sig, pick)
SpecAimd == Init /\ [][NextAimd]_vars

View == <<rc, ini, tab, meas, pk, seen, clk, ac, out, err, nops>>

------------------------------------------------------------------------
(* Theorems of SpecRate                                                   *)

WindowExact == pk # <<>> => rc.tot = WindowSum(pk, Len(pk), clk)
BucketsSum ==
  LET RECURSIVE S(_)
      S(i) == IF i < 0 THEN Bucket0 ELSE [c |-> S(i - 1).c + rc.b[i].c, v |-> S(i - 1).v + rc.b[i].v]
  IN S(W - 1) = rc.tot
MeasureDefined ==      \* the rate handed on is the scaled window total over the active window
  meas # NoneV => /\ rc.oms > clk - W /\ rc.oms <= clk
                  /\ meas = RoundHalfEven(Scale * WindowSum(pk, Len(pk), clk).v, clk - rc.oms + 1)
SsrcExact == tab = seen

WitnessNothingExpires == pk # <<>> => WindowSum(pk, Len(pk), clk).c = Len(pk)
WitnessNoReset == ~(act.op = "arrive" /\ act.reset /\ Len(pk) > 1)
WitnessNoMeasure == meas = NoneV
WitnessZeroRate == meas # 0

(* Theorems of SpecAimd                                                   *)

EstimateEncodable == out.res # NoneV => out.res \in 0..RembMax
RiseBound == out.res # NoneV => out.res <= Max(out.prev, Bound15(out.thr))
OveruseBound == (out.res # NoneV /\ out.hyp = "OVER") => out.res <= Round85(out.thr)
NoError == ~err

WitnessNoAdditive == ~(act.op = "update" /\ act.branch = "additive")
WitnessNoDecrease == ~(act.op = "update" /\ act.branch = "decrease")
WitnessNoInit == ~ac.initd
WitnessNoClamp == ~(act.op = "update" /\ act.clamped)
WitnessNeverZero == ac.cur # 0

\* The witnesses observed inside the exhaustive runs: always TRUE; prints <<"WITNESS", name>>
\* the first time a worker meets a state that violates the witness (registers are per worker).
ASSUME \A i \in 1..9 : TLCSet(i, 0)
Probe(i, name, violated) == (violated /\ TLCGet(i) = 0) => (TLCSet(i, 1) /\ PrintT(<<"WITNESS", name>>))
WitnessProbe ==
  /\ Probe(1, "WitnessNothingExpires", ~WitnessNothingExpires)
  /\ Probe(2, "WitnessNoReset", ~WitnessNoReset)
  /\ Probe(3, "WitnessNoMeasure", ~WitnessNoMeasure)
  /\ Probe(4, "WitnessZeroRate", ~WitnessZeroRate)
  /\ Probe(5, "WitnessNoAdditive", ~WitnessNoAdditive)
  /\ Probe(6, "WitnessNoDecrease", ~WitnessNoDecrease)
  /\ Probe(7, "WitnessNoInit", ~WitnessNoInit)
  /\ Probe(8, "WitnessNoClamp", ~WitnessNoClamp)
  /\ Probe(9, "WitnessNeverZero", ~WitnessNeverZero)
=============================================================================
