----------------------------- MODULE TraceDtls -----------------------------
(* Code -> spec direction for C04: judges NDJSON traces recorded from real  *)
(* RTCDtlsTransport pairs against the policy operators of Dtls.tla.         *)
(* Total verdict function: every trace runs to its end or to its first      *)
(* failing clause; one <<"RESULT", id, verdict, position>> line per trace.  *)
(*                                                                          *)
(* Trace = [id, cfg, steps]; cfg has the shape of Dtls!cfg.  Steps:         *)
(*  [op "state",  side, st]            a statechange event was emitted      *)
(*  [op "settled", st:[a,b], keys:[a,b]]  both start() calls have returned  *)
(*  [op "send", id, from, kind, data, ok, opt]   _send_rtp/_send_data call  *)
(*  [op "transit", id, tam]            the datagram(s) of packet id reached *)
(*                                     the peer, altered in transit if tam  *)
(*  [op "recv", side, kind, data, st]  a registered receiver was called; st *)
(*                                     is transport.state at that moment    *)
(*  [op "quiet"] / [op "end"]          nothing more can happen without a    *)
(*                                     further step of the driver           *)
(*  [op "close", side], [op "note", ...]                                    *)
(* Clauses (property text):                                                 *)
(*  C04.connect_policy            connected although the policy says fail,  *)
(*                                or not connected/failed as it demands     *)
(*  C04.delivered_before_connected  receiver called on a side that is not   *)
(*                                connected (and must not / did not connect)*)
(*  C04.keys_without_connected    SRTP sessions exist on a side that is not *)
(*                                connected                                 *)
(*  C04.not_delivered_intact      unaltered packet between connected sides  *)
(*                                not handed to the receiver (or send fails)*)
(*  C04.tampered_accepted         altered packet handed to a receiver       *)
(*  C04.connected_side_gave_up    a connected transport left `connected`    *)
(*                                while its peer is connected too and       *)
(*                                nobody closed either side (e.g. because   *)
(*                                of a packet altered in transit)           *)
(*  C04.spurious_delivery         receiver got something that was not sent  *)
(*                                to it (wrong content, kind, duplicate)    *)
EXTENDS Dtls, Json, IOUtils, TLCExt, SequencesExt

VARIABLES tid, l, verdict, done,
          pk,       \* packet id -> [from, kind, data, sok, opt, rel, tam, must, dl]
          lastRel,  \* side -> id of the packet released to it last (0 = none)
          stopped   \* sides on which the driver called stop()

Traces == ndJsonDeserialize(IOEnv.TRACE_FILE)

tvars == <<vars, tid, l, verdict, done, pk, lastRel, stopped>>

TraceInit ==
  /\ tid \in 1..Len(Traces)
  /\ cfg = Traces[tid].cfg
  /\ state = [s \in Sides |-> "new"]
  /\ conn = [s \in Sides |-> FALSE]
  /\ keys = [s \in Sides |-> NoKeys]
  /\ net = [s \in Sides |-> <<>>]
  /\ sent = {} /\ delivered = [s \in Sides |-> {}]
  /\ n = 0 /\ ntam = 0 /\ act = [op |-> "trace"]
  /\ l = 1 /\ verdict = "ok" /\ done = FALSE
  /\ pk = <<>>
  /\ lastRel = [s \in Sides |-> 0]
  /\ stopped = {}

Steps == Traces[tid].steps

Unused == UNCHANGED <<cfg, keys, net, sent, delivered, n, ntam, act>>
KeepJ == UNCHANGED <<state, conn, pk, lastRel>>
LinkCut == "env" \in DOMAIN Traces[tid] /\ Traces[tid].env.kind = "cut"

MinOf(S) == CHOOSE x \in S : \A y \in S : x <= y

\* packets that had to arrive by now and did not
Overdue == {i \in DOMAIN pk : pk[i].rel /\ pk[i].must /\ ~pk[i].opt /\ ~pk[i].dl}

Consume ==
  /\ ~done /\ verdict = "ok" /\ l <= Len(Steps)
  /\ l' = l + 1 /\ UNCHANGED <<tid, done>> /\ Unused
  /\ stopped' = IF Steps[l].op = "close" THEN stopped \cup {Steps[l].side} ELSE stopped
  /\ LET ev == Steps[l] IN
     CASE ev.op = "state" ->
            IF ev.st = "connected" /\ ~ShouldConnect(cfg, ev.side)
              THEN verdict' = "C04.connect_policy" /\ KeepJ
            ELSE IF /\ ev.st \in {"closed", "failed"} /\ state[ev.side] = "connected"
                    /\ conn[Peer(ev.side)] /\ state[Peer(ev.side)] = "connected"     \* (a peer that never connected may refuse)
                    /\ stopped = {} /\ ~LinkCut
              THEN verdict' = "C04.connected_side_gave_up" /\ KeepJ
            ELSE /\ state' = [state EXCEPT ![ev.side] = ev.st]
                 /\ conn' = [conn EXCEPT ![ev.side] = @ \/ ev.st = "connected"]
                 /\ UNCHANGED <<verdict, pk, lastRel>>
       [] ev.op = "settled" ->
            LET wrong(s) == IF ShouldConnect(cfg, s) THEN ev.st[s] # "connected"
                                                      ELSE ev.st[s] # "failed"
                keyed(s) == ev.keys[s] /\ ev.st[s] # "connected" IN
            IF \E s \in Sides : wrong(s) THEN verdict' = "C04.connect_policy" /\ KeepJ
            ELSE IF \E s \in Sides : keyed(s) THEN verdict' = "C04.keys_without_connected" /\ KeepJ
            ELSE /\ state' = [s \in Sides |-> ev.st[s]]
                 /\ conn' = [s \in Sides |-> conn[s] \/ ev.st[s] = "connected"]
                 /\ UNCHANGED <<verdict, pk, lastRel>>
       [] ev.op = "send" ->
            IF ~ev.ok /\ state[ev.from] = "connected"
              THEN verdict' = "C04.not_delivered_intact" /\ KeepJ
            ELSE /\ pk' = pk @@ (ev.id :> [from |-> ev.from, kind |-> ev.kind, data |-> ev.data,
                                           sok |-> ev.ok /\ state[ev.from] = "connected",
                                           opt |-> ev.opt, rel |-> FALSE, tam |-> FALSE,
                                           must |-> FALSE, dl |-> FALSE])
                 /\ UNCHANGED <<verdict, state, conn, lastRel>>
       [] ev.op = "transit" ->
            IF ev.id \notin DOMAIN pk THEN verdict' = "machinery.transit_unknown_packet" /\ KeepJ
            ELSE LET to == Peer(pk[ev.id].from) IN
                 /\ pk' = [pk EXCEPT ![ev.id] = [@ EXCEPT !.rel = TRUE, !.tam = ev.tam,
                                !.must = pk[ev.id].sok /\ ~ev.tam /\ state[to] = "connected"]]
                 /\ lastRel' = [lastRel EXCEPT ![to] = ev.id]
                 /\ UNCHANGED <<verdict, state, conn>>
       [] ev.op = "recv" ->
            LET r == ev.side
                cands == {i \in DOMAIN pk : /\ pk[i].rel /\ ~pk[i].tam /\ ~pk[i].dl
                                            /\ pk[i].from = Peer(r) /\ pk[i].kind = ev.kind
                                            /\ pk[i].data = ev.data}
                lt == lastRel[r] IN
            IF ev.st = "connected" /\ ~ShouldConnect(cfg, r)
              THEN verdict' = "C04.connect_policy" /\ KeepJ
            ELSE IF ev.st # "connected" /\ (~ShouldConnect(cfg, r) \/ ev.st # "connecting")
              THEN verdict' = "C04.delivered_before_connected" /\ KeepJ
            ELSE IF cands # {}
              THEN /\ pk' = [pk EXCEPT ![MinOf(cands)] = [@ EXCEPT !.dl = TRUE]]
                   /\ UNCHANGED <<verdict, state, conn, lastRel>>
            ELSE IF lt # 0 /\ pk[lt].tam /\ ~pk[lt].dl
              THEN verdict' = "C04.tampered_accepted" /\ KeepJ
            ELSE verdict' = "C04.spurious_delivery" /\ KeepJ
       [] ev.op \in {"quiet", "end"} ->
            /\ verdict' = IF Overdue # {} THEN "C04.not_delivered_intact" ELSE "ok"
            /\ KeepJ
       [] ev.op = "close" ->
            /\ state' = [state EXCEPT ![ev.side] = "closed"]
            /\ UNCHANGED <<verdict, conn, pk, lastRel>>
       [] ev.op = "note" -> UNCHANGED verdict /\ KeepJ
       [] OTHER -> verdict' = "machinery.unknown_op" /\ KeepJ

Finish_ ==
  /\ ~done /\ (verdict # "ok" \/ l > Len(Steps))
  /\ done' = TRUE
  /\ PrintT(<<"RESULT", Traces[tid].id, verdict, l - 1>>)
  /\ UNCHANGED <<vars, tid, l, verdict, pk, lastRel, stopped>>

TraceNext == Consume \/ Finish_

TraceSpec == TraceInit /\ [][TraceNext]_tvars
=============================================================================
