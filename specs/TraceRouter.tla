---------------------------- MODULE TraceRouter ----------------------------
(* Code -> spec direction for C12: validates NDJSON traces recorded from   *)
(* the real RtpRouter against the rules of RtpRouter.tla.  Total verdict:  *)
(* every trace runs to its end or to its first failing clause, and one     *)
(* <<"RESULT", id, verdict, position>> line is printed per trace.          *)
EXTENDS RtpRouter, Json, IOUtils, TLCExt, SequencesExt

VARIABLES tid, l, verdict, done

Traces == ndJsonDeserialize(IOEnv.TRACE_FILE)

tvars == <<vars, tid, l, verdict, done>>

S(seq) == ToSet(seq)

TraceInit ==
  /\ Init
  /\ tid \in 1..Len(Traces)
  /\ l = 1 /\ verdict = "ok" /\ done = FALSE

Steps == Traces[tid].steps

Keep == UNCHANGED <<ssrcTab, ptTab, sndTab, regR, regS>>

Consume ==
  /\ ~done /\ verdict = "ok" /\ l <= Len(Steps)
  /\ l' = l + 1 /\ UNCHANGED <<tid, done, n, act>>
  /\ LET ev == Steps[l] IN
     CASE ev.op = "reg_recv" ->
            /\ LET a == AfterRegR(ssrcTab, ptTab, ev.r, S(ev.ssrcs), S(ev.pts))
               IN ssrcTab' = a[1] /\ ptTab' = a[2]
            /\ regR' = regR \cup {ev.r} /\ UNCHANGED <<sndTab, regS, verdict>>
       [] ev.op = "unreg_recv" ->
            /\ LET a == AfterUnregR(ssrcTab, ptTab, ev.r) IN ssrcTab' = a[1] /\ ptTab' = a[2]
            /\ regR' = regR \ {ev.r} /\ UNCHANGED <<sndTab, regS, verdict>>
       [] ev.op = "reg_send" ->
            /\ sndTab' = Put(sndTab, ev.ssrc, ev.s) /\ regS' = regS \cup {ev.s}
            /\ UNCHANGED <<ssrcTab, ptTab, regR, verdict>>
       [] ev.op = "unreg_send" ->
            /\ sndTab' = Without(sndTab, ev.s) /\ regS' = regS \ {ev.s}
            /\ UNCHANGED <<ssrcTab, ptTab, regR, verdict>>
       [] ev.op = "rtp" ->
            LET exp == RtpTarget(ssrcTab, ptTab, ev.ssrc, ev.pt) IN
            IF ev.res # None /\ ev.res \notin regR
              THEN verdict' = "C12.rtp_to_unregistered" /\ Keep
            ELSE IF ev.res # exp
              THEN verdict' = "C12.rtp_rule" /\ Keep
            ELSE /\ verdict' = "ok"
                 /\ ssrcTab' = IF RtpLatches(ssrcTab, ptTab, ev.ssrc, ev.pt)
                                 THEN Put(ssrcTab, ev.ssrc, exp) ELSE ssrcTab
                 /\ UNCHANGED <<ptTab, sndTab, regR, regS>>
       [] ev.op = "rtcp" ->
            LET pkt == [kind |-> ev.kind, ssrc |-> ev.ssrc, ssrcs |-> S(ev.ssrcs)]
                exp == RtcpTargets(ssrcTab, sndTab, pkt) IN
            /\ Keep
            /\ verdict' = IF ~ (S(ev.res) \subseteq regR \cup regS) THEN "C12.rtcp_to_unregistered"
                          ELSE IF S(ev.res) # exp THEN "C12.rtcp_rule" ELSE "ok"
       [] OTHER -> verdict' = "machinery.unknown_op" /\ Keep

Finish ==
  /\ ~done /\ (verdict # "ok" \/ l > Len(Steps))
  /\ done' = TRUE
  /\ PrintT(<<"RESULT", Traces[tid].id, verdict, l - 1>>)
  /\ UNCHANGED <<vars, tid, l, verdict>>

TraceNext == Consume \/ Finish

TraceSpec == TraceInit /\ [][TraceNext]_tvars
=============================================================================
