---------------------------- MODULE RtpRouter ----------------------------
(* C12 - bundled RTP/RTCP routing.                                        *)
(*                                                                        *)
(* The property statement *is* the routing rule, so the observable        *)
(* specification (A) and the implementation-shaped model (M) coincide:    *)
(* the tables below are the abstraction of the registration history, and  *)
(* RtpTarget / RtcpTargets are the rules of the property text.            *)
(* TraceRouter.tla reuses these operators to judge recorded executions.   *)
EXTENDS Naturals, Sequences, FiniteSets, TLC

CONSTANTS Receivers, Senders, Ssrcs, Pts, MaxOps

VARIABLES ssrcTab,  \* partial function: ssrc -> receiver (registered or latched)
          ptTab,    \* partial function: payload type -> set of receivers
          sndTab,   \* partial function: ssrc -> sender
          regR,     \* history variable: receivers currently registered
          regS,     \* history variable: senders currently registered
          n,        \* number of operations so far (bound)
          act       \* last operation with arguments and result (for replay)

tables == <<ssrcTab, ptTab, sndTab>>
vars == <<ssrcTab, ptTab, sndTab, regR, regS, n, act>>

None == "none"

Get(f, k) == IF k \in DOMAIN f THEN f[k] ELSE None
GetSet(f, k) == IF k \in DOMAIN f THEN f[k] ELSE {}
Rng(f) == {f[k] : k \in DOMAIN f}
Put(f, k, v) == [x \in DOMAIN f \cup {k} |-> IF x = k THEN v ELSE f[x]]
Without(f, v) == [x \in {k \in DOMAIN f : f[k] # v} |-> f[x]]

RtcpKinds == {"SR", "RR", "BYE", "RTPFB", "PSFB", "REMB", "SDES"}

------------------------------------------------------------------------
(* The rules of the property.                                            *)

\* Who gets an RTP packet with this SSRC and payload type.
RtpTarget(st, pt_, ssrc, pt) ==
  LET owner == Get(st, ssrc)
      acc == GetSet(pt_, pt)
  IN IF owner # None
       THEN (IF owner \in acc THEN owner ELSE None)
       ELSE (IF Cardinality(acc) = 1 THEN CHOOSE r \in acc : TRUE ELSE None)

\* Does routing that packet latch the SSRC to the receiver?
RtpLatches(st, pt_, ssrc, pt) ==
  Get(st, ssrc) = None /\ Cardinality(GetSet(pt_, pt)) = 1

\* Who gets an RTCP packet.  pkt = [kind, ssrc, ssrcs]:
\*   SR: ssrc = sender SSRC, ssrcs = SSRCs of the report blocks
\*   RR: ssrcs = SSRCs of the report blocks;  BYE: ssrcs = sources
\*   RTPFB / PSFB: ssrc = media SSRC;  REMB: ssrc = media SSRC (0 by convention, but any value
\*   may arrive), ssrcs = SSRC list inside the FCI.  SSRC 0 is never registered.
RtcpTargets(st, sn, pkt) ==
  LET recvOf(S) == {st[s] : s \in S \cap DOMAIN st}
      sendOf(S) == {sn[s] : s \in S \cap DOMAIN sn}
  IN CASE pkt.kind = "SR"    -> recvOf({pkt.ssrc}) \cup sendOf(pkt.ssrcs)
       [] pkt.kind = "RR"    -> sendOf(pkt.ssrcs)
       [] pkt.kind = "BYE"   -> recvOf(pkt.ssrcs)
       [] pkt.kind = "RTPFB" -> sendOf({pkt.ssrc})
       [] pkt.kind = "PSFB"  -> sendOf({pkt.ssrc})
       [] pkt.kind = "REMB"  -> sendOf(pkt.ssrcs \cup {pkt.ssrc})
       [] OTHER              -> {}

------------------------------------------------------------------------
(* Table updates (shared with the trace specification).                  *)

AfterRegR(st, pt_, r, ssrcs, pts) ==
  << [s \in DOMAIN st \cup ssrcs |-> IF s \in ssrcs THEN r ELSE st[s]],
     [p \in DOMAIN pt_ \cup pts |-> IF p \in pts THEN GetSet(pt_, p) \cup {r} ELSE pt_[p]] >>

AfterUnregR(st, pt_, r) ==
  << Without(st, r), [p \in DOMAIN pt_ |-> pt_[p] \ {r}] >>

------------------------------------------------------------------------
Init ==
  /\ ssrcTab = <<>> /\ ptTab = <<>> /\ sndTab = <<>>
  /\ regR = {} /\ regS = {} /\ n = 0
  /\ act = [op |-> "init"]

RegisterReceiver(r, ssrcs, pts) ==
  /\ LET a == AfterRegR(ssrcTab, ptTab, r, ssrcs, pts) IN ssrcTab' = a[1] /\ ptTab' = a[2]
  /\ regR' = regR \cup {r}
  /\ UNCHANGED <<sndTab, regS>>
  /\ act' = [op |-> "reg_recv", r |-> r, ssrcs |-> ssrcs, pts |-> pts]

UnregisterReceiver(r) ==
  /\ LET a == AfterUnregR(ssrcTab, ptTab, r) IN ssrcTab' = a[1] /\ ptTab' = a[2]
  /\ regR' = regR \ {r}
  /\ UNCHANGED <<sndTab, regS>>
  /\ act' = [op |-> "unreg_recv", r |-> r]

RegisterSender(s, ssrc) ==
  /\ sndTab' = Put(sndTab, ssrc, s)
  /\ regS' = regS \cup {s}
  /\ UNCHANGED <<ssrcTab, ptTab, regR>>
  /\ act' = [op |-> "reg_send", s |-> s, ssrc |-> ssrc]

UnregisterSender(s) ==
  /\ sndTab' = Without(sndTab, s)
  /\ regS' = regS \ {s}
  /\ UNCHANGED <<ssrcTab, ptTab, regR>>
  /\ act' = [op |-> "unreg_send", s |-> s]

RouteRtp(ssrc, pt) ==
  LET res == RtpTarget(ssrcTab, ptTab, ssrc, pt) IN
  /\ ssrcTab' = IF RtpLatches(ssrcTab, ptTab, ssrc, pt) THEN Put(ssrcTab, ssrc, res) ELSE ssrcTab
  /\ UNCHANGED <<ptTab, sndTab, regR, regS>>
  /\ act' = [op |-> "rtp", ssrc |-> ssrc, pt |-> pt, res |-> res]

RouteRtcp(pkt) ==
  /\ UNCHANGED <<ssrcTab, ptTab, sndTab, regR, regS>>
  /\ act' = [op |-> "rtcp", kind |-> pkt.kind, ssrc |-> pkt.ssrc, ssrcs |-> pkt.ssrcs,
             res |-> RtcpTargets(ssrcTab, sndTab, pkt)]

RtcpPackets == [kind : RtcpKinds, ssrc : Ssrcs \cup {0}, ssrcs : SUBSET Ssrcs]

Next ==
  /\ n < MaxOps
  /\ n' = n + 1
  /\ \/ \E r \in Receivers, ss \in SUBSET Ssrcs, ps \in SUBSET Pts : RegisterReceiver(r, ss, ps)
     \/ \E r \in Receivers : UnregisterReceiver(r)
     \/ \E s \in Senders, ssrc \in Ssrcs : RegisterSender(s, ssrc)
     \/ \E s \in Senders : UnregisterSender(s)
     \/ \E ssrc \in Ssrcs, pt \in Pts : RouteRtp(ssrc, pt)
     \/ \E pkt \in RtcpPackets : RouteRtcp(pkt)

Spec == Init /\ [][Next]_vars

View == <<ssrcTab, ptTab, sndTab, regR, regS, n>>

------------------------------------------------------------------------
(* Design-level theorems (checked by TLC in every reachable state, for   *)
(* every packet that could arrive in that state).                        *)

\* Nothing is ever routed to a party that is not currently registered.
NoRouteToUnregistered ==
  /\ \A ssrc \in Ssrcs, pt \in Pts :
        RtpTarget(ssrcTab, ptTab, ssrc, pt) \in regR \cup {None}
  /\ \A pkt \in RtcpPackets :
        RtcpTargets(ssrcTab, sndTab, pkt) \subseteq regR \cup regS

\* Tables never mention an unregistered party (latched SSRCs die with the receiver).
TablesClean ==
  /\ Rng(ssrcTab) \subseteq regR
  /\ UNION Rng(ptTab) \subseteq regR
  /\ Rng(sndTab) \subseteq regS

\* A packet whose SSRC is unknown and whose payload type is accepted by
\* several receivers (or none) is dropped and latches nothing.
AmbiguousDropped ==
  \A ssrc \in Ssrcs, pt \in Pts :
     (Get(ssrcTab, ssrc) = None /\ Cardinality(GetSet(ptTab, pt)) # 1)
        => RtpTarget(ssrcTab, ptTab, ssrc, pt) = None

\* Witness (must be VIOLATED in a non-vacuous configuration): an SSRC gets latched.
WitnessNeverLatched ==
  ~ (act.op = "rtp" /\ act.res # None /\ n > 0)

=============================================================================
