----------------------------- MODULE SerialApa -----------------------------
(* C17 part 1 for the REAL moduli: the lemmas of Serial.tla stated over three   *)
(* unconstrained integers and discharged symbolically by Apalache (SMT, length  *)
(* 0), so that they hold for ALL pairs of 16-bit / 32-bit serial numbers, not   *)
(* only for the small modulus TLC enumerates.  Same definitions as Serial.tla.  *)
EXTENDS Integers

CONSTANT
    \* @type: Int;
    M

VARIABLES
    \* @type: Int;
    a,
    \* @type: Int;
    b,
    \* @type: Int;
    d

Half == M \div 2
Add(x, k) == (x + k) % M
Dist(x, y) == (x - y + M) % M
Gt(x, y) == x # y /\ Dist(x, y) < Half
Gte(x, y) == x = y \/ Gt(x, y)
CodeGt(x, y) == ((x < y) /\ ((y - x) > Half)) \/ ((x > y) /\ ((x - y) < Half))
CodeGte(x, y) == (x = y) \/ CodeGt(x, y)

CInit16 == M = 65536
CInit32 == M = 65536 * 65536
CInit8 == M = 256

Init == /\ a \in Int /\ b \in Int /\ d \in Int
        /\ 0 <= a /\ a < M /\ 0 <= b /\ b < M /\ 0 <= d /\ d < M
Next == UNCHANGED <<a, b, d>>

FormulaIsReference == CodeGt(a, b) = Gt(a, b) /\ CodeGte(a, b) = Gte(a, b)
Antisymmetric == ~(Gt(a, b) /\ Gt(b, a)) /\ ~Gt(a, a)
AddConsistent == (1 <= d /\ d < Half) => (Gt(Add(a, d), a) /\ ~Gt(a, Add(a, d)) /\ Gte(Add(a, d), a))
TotalBelowHalf == (a # b /\ Dist(a, b) # Half) => (Gt(a, b) \/ Gt(b, a))
OriginFree == Gt(a, b) = Gt(Add(a, d), Add(b, d))
\* transitivity inside a window smaller than half the space
TransitiveBelowHalf == (Gt(a, b) /\ Gt(b, d) /\ Dist(a, d) < Half) => Gt(a, d)
\* tsn_plus_one / tsn_minus_one are inverse to each other, also at the wrap point
SuccPredInverse == Add(Add(a, 1), M - 1) = a /\ Add(Add(a, M - 1), 1) = a
\* adding d moves exactly d ahead
DistAdd == Dist(Add(a, d), a) = d
\* moving further ahead inside the half-space window keeps the order (cumulative TSN walks)
MonotoneWithinHalf == (Gt(a, b) /\ Dist(a, b) + d < Half) => Gt(Add(a, d), b)
\* sorting by distance from a base d that lies less than half the space behind both operands is
\* sorting in serial order (the rule the repaired `_sack_misordered` walks rely on)
SortKeyIsSerialOrder == (Dist(a, d) < Half /\ Dist(b, d) < Half /\ a # b) => (Gt(a, b) <=> Dist(a, d) > Dist(b, d))
AllLemmas == /\ FormulaIsReference /\ Antisymmetric /\ AddConsistent /\ TotalBelowHalf /\ OriginFree
             /\ TransitiveBelowHalf /\ SuccPredInverse /\ DistAdd /\ MonotoneWithinHalf /\ SortKeyIsSerialOrder
\* witness (must be violated): numeric sort keys are NOT the serial order (the defect repaired by e4fb4d8)
W_NumericSortKey == (Dist(a, d) < Half /\ Dist(b, d) < Half /\ a # b) => (Gt(a, b) <=> a > b)
\* witness (must be violated): the order is not the numeric order
W_NumericOrder == Gt(a, b) => a > b
\* witness (must be violated): without the half-space side condition totality fails
W_TotalEverywhere == a # b => (Gt(a, b) \/ Gt(b, a))
=============================================================================
