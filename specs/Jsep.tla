------------------------------- MODULE Jsep -------------------------------
(* C14 - signalling follows the JSEP state machine; illegal calls have no  *)
(* side effects.                                                           *)
(*                                                                         *)
(* The property statement *is* the table, so the observable specification  *)
(* (A) and the model (M) coincide (as for C12): the first part of this     *)
(* module is the table itself (Legal / Allowed / NextSig / JsepEdges),     *)
(* written over plain values so that TraceJsep.tla can judge recorded      *)
(* executions of the real RTCPeerConnection with exactly these operators;  *)
(* the second part is a model of a PAIR of peers between which offers and  *)
(* answers flow, used (a) to check the table's own consequences            *)
(* exhaustively over all call sequences up to MaxCalls and (b) as the      *)
(* source of call sequences replayed into the real code.                   *)
EXTENDS Naturals, Sequences, FiniteSets, TLC

CONSTANTS MaxCalls,     \* bound on the length of the call sequence
          MaxDescs,     \* bound on the number of descriptions created in one behaviour
          KeepPending   \* slot rule when an answer is applied (see ApplyAnswer)

------------------------------------------------------------------------
(* Part 1 - the table (shared with TraceJsep).                           *)
(*                                                                       *)
(* A call is a record                                                    *)
(*   [op, type, ice, mux, role, match]                                   *)
(* op    \in {"createOffer","createAnswer","setLocal","setRemote","close"}*)
(* type  \in {"offer","answer","implicit","none"}                        *)
(* ice   : every media section carries ICE ufrag and password            *)
(* mux   : every audio/video section carries a=rtcp-mux                  *)
(* role  : every media section has a definite DTLS role (active/passive) *)
(* match : (answers) media sections equal those of the pending offer     *)

Sigs == {"stable", "have-local-offer", "have-remote-offer", "closed"}
OK  == "ok"
ISE == "InvalidStateError"
VE  == "ValueError"

\* setLocalDescription() without argument: answer if an offer is pending, else offer
EffType(sig, c) ==
  IF c.type = "implicit"
    THEN (IF sig = "have-remote-offer" THEN "answer" ELSE "offer")
    ELSE c.type

\* Is the call legal in signalling state `sig`?  (the JSEP state/type table)
\*  - an answer needs the other side's pending offer (local answer) or our own
\*    pending offer (remote answer);
\*  - an offer is illegal while the other side's offer is pending;
\*  - nothing but close is legal after close.
Legal(sig, c) ==
  CASE c.op = "close"        -> TRUE
    [] sig = "closed"        -> FALSE
    [] c.op = "createOffer"  -> TRUE
    [] c.op = "createAnswer" -> sig = "have-remote-offer"
    [] c.op = "setLocal"     -> IF EffType(sig, c) = "offer"
                                  THEN sig \in {"stable", "have-local-offer"}
                                  ELSE sig = "have-remote-offer"
    [] c.op = "setRemote"    -> IF c.type = "offer"
                                  THEN sig \in {"stable", "have-remote-offer"}
                                  ELSE sig = "have-local-offer"

\* "lacking ICE credentials, rtcp-mux or a definite DTLS role where required":
\* credentials and rtcp-mux are required in every description, a definite role in answers.
Defective(c) ==
  /\ c.op \in {"setLocal", "setRemote"} /\ c.type \in {"offer", "answer"}
  /\ (~c.ice \/ ~c.mux \/ (c.type = "answer" /\ ~c.role))

\* "an answer whose media sections do not match the pending offer"
\* (only meaningful when there is a pending offer, i.e. the call is legal)
Mismatched(sig, c) ==
  /\ c.op \in {"setLocal", "setRemote"} /\ c.type = "answer"
  /\ Legal(sig, c) /\ ~c.match

\* The set of outcomes the property allows.  Where the statement demands two
\* different errors for the same call (illegal state AND defective description)
\* either is accepted; createOffer while the remote offer is pending is left
\* open by the statement (legal in JSEP, InvalidStateError in W3C webrtc-pc).
Allowed(sig, c) ==
  LET errs == (IF ~Legal(sig, c) THEN {ISE} ELSE {})
              \cup (IF Defective(c) \/ Mismatched(sig, c) THEN {VE} ELSE {})
  IN IF errs # {} THEN errs
     ELSE IF c.op = "createOffer" /\ sig = "have-remote-offer" THEN {OK, ISE}
     ELSE {OK}

\* Signalling state after a call that returned normally.
NextSig(sig, c) ==
  CASE c.op = "close"     -> "closed"
    [] c.op = "setLocal"  -> IF EffType(sig, c) = "offer" THEN "have-local-offer" ELSE "stable"
    [] c.op = "setRemote" -> IF c.type = "offer" THEN "have-remote-offer" ELSE "stable"
    [] OTHER              -> sig

\* The JSEP state machine as a plain edge relation (RFC 8829 fig. 1 without
\* pranswer/rollback, plus close), stated independently of the operators above.
JsepEdges ==
  { <<"stable", "have-local-offer">>, <<"stable", "have-remote-offer">>,
    <<"have-local-offer", "have-local-offer">>, <<"have-remote-offer", "have-remote-offer">>,
    <<"have-local-offer", "stable">>, <<"have-remote-offer", "stable">> }
  \cup { <<s, "closed">> : s \in Sigs }

NoArg == [type |-> "none", ice |-> TRUE, mux |-> TRUE, role |-> TRUE, match |-> TRUE]

------------------------------------------------------------------------
(* Part 2 - a pair of peers.                                             *)

Peers == {"A", "B"}
Other(p) == IF p = "A" THEN "B" ELSE "A"

VARIABLES st,     \* peer -> [sig, pl, cl, pr, cr]: signalling state and the four slots
                  \*   (pending/current local/remote) holding description ids, 0 = empty
          descs,  \* sequence of descriptions created so far; id = index
                  \*   [type, by, for, ep, epo]: `for` = offer an answer answers,
                  \*   ep/epo = epoch of creator / of the other peer at creation
          lastO,  \* peer -> id of the offer it created last (0 = none): what is "on the wire"
          lastA,  \* peer -> id of the answer it created last
          epoch,  \* peer -> number of descriptions applied successfully
          n,      \* calls so far
          act     \* history: the last call, its arguments and outcome (for replay)

vars == <<st, descs, lastO, lastA, epoch, n, act>>
View == <<st, descs, lastO, lastA, epoch, n>>

Defects == {"noice", "nomux", "badrole"}

Init ==
  /\ st = [p \in Peers |-> [sig |-> "stable", pl |-> 0, cl |-> 0, pr |-> 0, cr |-> 0]]
  /\ descs = <<>>
  /\ lastO = [p \in Peers |-> 0] /\ lastA = [p \in Peers |-> 0]
  /\ epoch = [p \in Peers |-> 0]
  /\ n = 0
  /\ act = [op |-> "init"]

Sig(p) == st[p].sig

Rec(p, op, type, defect, d, base, out, alw, new) ==
  [p |-> p, op |-> op, type |-> type, defect |-> defect, d |-> d, base |-> base,
   out |-> out, alw |-> alw, new |-> new]

NewDesc(p, type, for) ==
  [type |-> type, by |-> p, for |-> for, ep |-> epoch[p], epo |-> epoch[Other(p)]]

\* JSEP: when an answer is applied the pending description of the other direction
\* becomes current and both pending slots are emptied.  aiortc (KeepPending) leaves
\* the other direction untouched; localDescription/remoteDescription (pending or
\* current) read the same either way, and the property text does not fix the slots
\* of successful calls, so this is a configuration of the model, not a clause.
ApplyAnswer(s, local, d) ==
  IF local
    THEN IF KeepPending
           THEN [s EXCEPT !.sig = "stable", !.cl = d, !.pl = 0]
           ELSE [s EXCEPT !.sig = "stable", !.cl = d, !.pl = 0, !.cr = s.pr, !.pr = 0]
    ELSE IF KeepPending
           THEN [s EXCEPT !.sig = "stable", !.cr = d, !.pr = 0]
           ELSE [s EXCEPT !.sig = "stable", !.cr = d, !.pr = 0, !.cl = s.pl, !.pl = 0]

ApplyOffer(s, local, d) ==
  IF local THEN [s EXCEPT !.sig = "have-local-offer", !.pl = d]
           ELSE [s EXCEPT !.sig = "have-remote-offer", !.pr = d]

Keep == UNCHANGED <<st, descs, lastO, lastA, epoch>>
Tick == n < MaxCalls /\ n' = n + 1
Room == Len(descs) < MaxDescs     \* a call that may create a description needs room

CreateOffer(p) ==
  LET c == NoArg @@ [op |-> "createOffer"] IN
  /\ Tick
  /\ \E out \in Allowed(Sig(p), c) :
    /\ out = OK => Room
    /\ IF out = OK
      THEN /\ descs' = Append(descs, NewDesc(p, "offer", 0))
           /\ lastO' = [lastO EXCEPT ![p] = Len(descs) + 1]
           /\ UNCHANGED <<st, lastA, epoch>>
           /\ act' = Rec(p, "createOffer", "none", "none", 0, "none", out, Allowed(Sig(p), c), Len(descs) + 1)
      ELSE /\ Keep
           /\ act' = Rec(p, "createOffer", "none", "none", 0, "none", out, Allowed(Sig(p), c), 0)

CreateAnswer(p) ==
  LET c == NoArg @@ [op |-> "createAnswer"] IN
  /\ Tick
  /\ \E out \in Allowed(Sig(p), c) :
    /\ out = OK => Room
    /\ IF out = OK
      THEN /\ descs' = Append(descs, NewDesc(p, "answer", st[p].pr))
           /\ lastA' = [lastA EXCEPT ![p] = Len(descs) + 1]
           /\ UNCHANGED <<st, lastO, epoch>>
           /\ act' = Rec(p, "createAnswer", "none", "none", 0, "none", out, {OK}, Len(descs) + 1)
      ELSE /\ Keep
           /\ act' = Rec(p, "createAnswer", "none", "none", 0, "none", out, Allowed(Sig(p), c), 0)

\* Which description does setLocalDescription(type) get?  The one this peer created
\* last.  When the call is legal it must be usable: created since the last
\* description was applied here (W3C [[LastCreatedOffer/Answer]]), and an answer
\* must answer the pending remote offer.  When the call is illegal any description
\* of that type will do (0 = a description of a donor pair with the same media).
LocalArgOk(p, type, d) ==
  IF type = "offer"
    THEN Sig(p) \in {"stable", "have-local-offer"} => (d # 0 /\ descs[d].ep = epoch[p])
    ELSE Sig(p) = "have-remote-offer" => (d # 0 /\ descs[d].for = st[p].pr /\ descs[d].ep = epoch[p])

SetLocal(p, type) ==
  LET d == IF type = "offer" THEN lastO[p] ELSE lastA[p]
      c == [NoArg EXCEPT !.type = type] @@ [op |-> "setLocal"]
      alw == Allowed(Sig(p), c) IN
  /\ Tick
  /\ LocalArgOk(p, type, d)
  /\ \E out \in alw :
       /\ act' = Rec(p, "setLocal", type, "none", d, "desc", out, alw, 0)
       /\ IF out = OK
            THEN /\ st' = [st EXCEPT ![p] = IF type = "offer" THEN ApplyOffer(@, TRUE, d)
                                                                ELSE ApplyAnswer(@, TRUE, d)]
                 /\ epoch' = [epoch EXCEPT ![p] = @ + 1]
                 /\ UNCHANGED <<descs, lastO, lastA>>
            ELSE Keep

\* setLocalDescription(): creates the offer or answer itself.
SetLocalImplicit(p) ==
  LET c == [NoArg EXCEPT !.type = "implicit"] @@ [op |-> "setLocal"]
      alw == Allowed(Sig(p), c)
      ty == EffType(Sig(p), c)
      d == Len(descs) + 1 IN
  /\ Tick
  /\ \E out \in alw :
    /\ out = OK => Room
    /\ IF out = OK
      THEN /\ descs' = Append(descs, NewDesc(p, ty, IF ty = "answer" THEN st[p].pr ELSE 0))
           /\ IF ty = "offer" THEN lastO' = [lastO EXCEPT ![p] = d] /\ UNCHANGED lastA
                              ELSE lastA' = [lastA EXCEPT ![p] = d] /\ UNCHANGED lastO
           /\ st' = [st EXCEPT ![p] = IF ty = "offer" THEN ApplyOffer(@, TRUE, d)
                                                       ELSE ApplyAnswer(@, TRUE, d)]
           /\ epoch' = [epoch EXCEPT ![p] = @ + 1]
           /\ act' = Rec(p, "setLocal", "implicit", "none", 0, "none", out, alw, d)
      ELSE /\ Keep
           /\ act' = Rec(p, "setLocal", "implicit", "none", 0, "none", out, alw, 0)

\* Which description arrives from the other peer?  Its last offer / answer.  When
\* the call is legal the description must be current: an offer must have been
\* created against the present state of both sides (or be the sender's pending
\* local offer), an answer must answer our pending local offer.
RemoteArgOk(p, type, d) ==
  LET q == Other(p) IN
  IF type = "offer"
    THEN Sig(p) \in {"stable", "have-remote-offer"}
           => (d # 0 /\ descs[d].epo = epoch[p] /\ (descs[d].ep = epoch[q] \/ st[q].pl = d))
    ELSE Sig(p) = "have-local-offer" => (d # 0 /\ descs[d].for = st[p].pl)

SetRemote(p, type) ==
  LET q == Other(p)
      d == IF type = "offer" THEN lastO[q] ELSE lastA[q]
      c == [NoArg EXCEPT !.type = type] @@ [op |-> "setRemote"]
      alw == Allowed(Sig(p), c) IN
  /\ Tick
  /\ RemoteArgOk(p, type, d)
  /\ \E out \in alw :
       /\ act' = Rec(p, "setRemote", type, "none", d, "desc", out, alw, 0)
       /\ IF out = OK
            THEN /\ st' = [st EXCEPT ![p] = IF type = "offer" THEN ApplyOffer(@, FALSE, d)
                                                                ELSE ApplyAnswer(@, FALSE, d)]
                 /\ epoch' = [epoch EXCEPT ![p] = @ + 1]
                 /\ UNCHANGED <<descs, lastO, lastA>>
            ELSE Keep

\* An answer whose media sections differ from the pending offer, or a description
\* with one defect.  Built by the environment from a base description: for an
\* answer in have-local-offer the peer's own pending offer turned into an answer
\* ("derived"), otherwise the other peer's last description of that type (0 = donor).
SetRemoteBad(p, type, defect) ==
  LET q == Other(p)
      derived == type = "answer" /\ Sig(p) = "have-local-offer"
      d == IF derived THEN st[p].pl ELSE IF type = "offer" THEN lastO[q] ELSE lastA[q]
      c == [NoArg EXCEPT !.type = type, !.ice = defect # "noice", !.mux = defect # "nomux",
                         !.role = defect # "badrole", !.match = defect # "mismatch"]
             @@ [op |-> "setRemote"]
      alw == Allowed(Sig(p), c) IN
  /\ Tick
  /\ defect = "badrole" => type = "answer"
  /\ defect = "mismatch" => type = "answer"
  /\ \E out \in alw :
       /\ out # OK      \* never: a bad description is illegal, defective or mismatched
       /\ act' = Rec(p, "setRemote", type, defect, d, IF derived THEN "derived" ELSE "desc", out, alw, 0)
       /\ Keep

Close(p) ==
  /\ Tick
  /\ st' = [st EXCEPT ![p].sig = "closed"]
  /\ UNCHANGED <<descs, lastO, lastA, epoch>>
  /\ act' = Rec(p, "close", "none", "none", 0, "none", OK, {OK}, 0)

Next ==
  \/ \E p \in Peers : CreateOffer(p)
  \/ \E p \in Peers : CreateAnswer(p)
  \/ \E p \in Peers, type \in {"offer", "answer"} : SetLocal(p, type)
  \/ \E p \in Peers : SetLocalImplicit(p)
  \/ \E p \in Peers, type \in {"offer", "answer"} : SetRemote(p, type)
  \/ \E p \in Peers, type \in {"offer", "answer"}, defect \in Defects \cup {"mismatch"} : SetRemoteBad(p, type, defect)
  \/ \E p \in Peers : Close(p)

Spec == Init /\ [][Next]_vars

------------------------------------------------------------------------
(* Design-level theorems.                                                *)

Slots(s) == <<s.pl, s.cl, s.pr, s.cr>>

TypeOK ==
  /\ \A p \in Peers : st[p].sig \in Sigs /\ \A x \in {st[p].pl, st[p].cl, st[p].pr, st[p].cr} : x \in 0..Len(descs)
  /\ n \in 0..MaxCalls

\* A call that raises leaves signalling state and all four slots unchanged
\* (of both peers), and creates nothing.
ErrorNoSideEffect == [][act'.out # OK => UNCHANGED <<st, descs, lastO, lastA, epoch>>]_vars

\* closed is absorbing; after close every negotiation call raises InvalidStateError.
ClosedAbsorbing == [][\A p \in Peers : st[p].sig = "closed" => st'[p].sig = "closed"]_vars
ClosedRejects ==
  [][(st[act'.p].sig = "closed" /\ act'.op # "close") => (act'.out # OK /\ ISE \in act'.alw)]_vars

\* Every change of signalling state is an edge of the JSEP machine, only the peer
\* that was called moves, and only set*Description / close move it.
FollowsJsep ==
  [][\A p \in Peers :
        st'[p].sig # st[p].sig =>
          /\ <<st[p].sig, st'[p].sig>> \in JsepEdges
          /\ act'.p = p /\ act'.out = OK
          /\ act'.op \in {"setLocal", "setRemote", "close"}]_vars
\* ... and a successful set*Description takes exactly the edge the table names.
OkTakesEdge ==
  [][(act'.out = OK /\ act'.op \in {"setLocal", "setRemote"}) =>
        <<st[act'.p].sig, st'[act'.p].sig>> \in JsepEdges /\ st'[act'.p].sig # "closed"]_vars

\* The pending slots agree with the signalling state.
PendingMatchesState ==
  \A p \in Peers :
    /\ st[p].sig = "have-local-offer"  => st[p].pl # 0 /\ descs[st[p].pl].type = "offer" /\ descs[st[p].pl].by = p
    /\ st[p].sig = "have-remote-offer" => st[p].pr # 0 /\ descs[st[p].pr].type = "offer" /\ descs[st[p].pr].by = Other(p)
    /\ (st[p].sig = "stable" /\ ~KeepPending) => st[p].pl = 0 /\ st[p].pr = 0
    /\ st[p].cl # 0 => descs[st[p].cl].by = p
    /\ st[p].cr # 0 => descs[st[p].cr].by = Other(p)

\* An answer is never applied without the offer it answers being pending there.
AnswersAnswerPendingOffer ==
  [][(act'.out = OK /\ act'.op \in {"setLocal", "setRemote"} /\ act'.type = "answer") =>
        LET p == act'.p IN
        descs[act'.d].for = (IF act'.op = "setLocal" THEN st[p].pr ELSE st[p].pl)]_vars

\* Witnesses (each must be VIOLATED in a non-vacuous configuration).
\* W1: an offer/answer round is never completed.
WitnessNoRound ==
  ~ (n > 0 /\ act.op = "setRemote" /\ act.type = "answer" /\ act.out = OK
     /\ st[act.p].sig = "stable" /\ st[act.p].cr # 0 /\ st[Other(act.p)].cl = st[act.p].cr)
\* W2: a legal call is never rejected for its content.
WitnessNoValueError == ~ (n > 0 /\ act.out = VE /\ act.alw = {VE})
\* W3: nothing is ever called on a closed peer.
WitnessNoCallAfterClose == ~ (n > 0 /\ act.out = ISE /\ act.op = "setRemote" /\ st[act.p].sig = "closed")
\* W4: createOffer is never called while the remote offer is pending.
WitnessNoOpenCase == ~ (n > 0 /\ act.op = "createOffer" /\ act.alw = {OK, ISE})

=============================================================================
