---------------------------- MODULE DcLifecycle ----------------------------
(* C13 - design-level model of the data channel lifecycle as implemented by *)
(* aiortc.rtcsctptransport / rtcdatachannel:                                 *)
(*   RTCDataChannel() -> _data_channel_open      -> Create                   *)
(*   _data_channel_flush (id allocation, hand-over to SCTP) -> Flush         *)
(*   _data_channel_receive (DCEP OPEN / ACK / user message) -> DeliverData   *)
(*   channel.close() -> _data_channel_close       -> Close                   *)
(*   _transmit_reconfig / _receive_reconfig_param -> TxReconfig, DeliverReq, *)
(*                                                   DeliverResp             *)
(*   _set_state(ESTABLISHED / CLOSED)             -> Establish, AssocEnd     *)
(* Reliable, ordered delivery of DATA per direction is what SctpAssoc.tla    *)
(* establishes; here it is a FIFO per direction, and "all data of a stream   *)
(* acknowledged" = no item of that stream left in the FIFO.  RE-CONFIG       *)
(* chunks travel outside that order (a bag); up to MaxLoss of them are lost,  *)
(* and a request whose exchange has no datagram in flight any more is sent    *)
(* again by the requester's timer (RetxReconfig; absent from the code until   *)
(* the repair of K02: deviation "NoReconfigRetx").                            *)
(*                                                                           *)
(* Objects are numbered 1..MaxObj in creation order.  A creates with odd     *)
(* ids, B with even ids.  The clauses checked are those of C13 (and the      *)
(* "right channel" clause of C01): forward-only readyState, at most one      *)
(* open/close event, exactly one faithful datachannel event, id parity and   *)
(* no collision, close() closes both ends, association end closes all.       *)
EXTENDS Naturals, Integers, Sequences, FiniteSets, TLC

CONSTANTS MaxObj,      \* channel objects that may ever exist
          MaxApiCreate,\* RTCDataChannel() calls by the application
          MaxSend,     \* user messages
          AllowReuse,  \* may the application create channels after a close() (id reuse)?
          MaxLoss,     \* RE-CONFIG datagrams the network may lose
          Dev          \* subset of DevNames

\* "TwoWayClose" is not a defect but a design option (a proposed repair of K03, RFC 8831 6.7): a
\* stream id is released only when BOTH directions have been reset - the own outgoing reset is
\* confirmed AND the peer's reset request for the stream has been seen.
DevNames == {"TwoWayClose",
             "NoReconfigRetx",         \* K02 (repaired): a lost RE-CONFIG request / response is never sent again
             "DupRequestReprocessed",  \* a retransmitted request resets the streams a second time
             "AckReopens",             \* fixed e27f12d: ACK sets `open` unconditionally
             "ResetBeforeAck",         \* fixed 27baa27: reset sent while stream data is outstanding
             "CloseNoIdQueuesReset",   \* fixed b45d83a: close() before id assignment queues a reset of "no id"
             "QueuedNotClosedAtEnd"}   \* fixed 76653cf: association end ignores channels in the flush queue

E == {"A", "B"}
Peer(e) == IF e = "A" THEN "B" ELSE "A"
Objs == 1..MaxObj
NoId == 0 - 1

VARIABLES
  obj,      \* o -> [used, owner, id, rs, remote, pair, nopen, nclose]   rs: 0 connecting .. 3 closed
  est,      \* e -> association state: "new" | "up" | "down"
  reg,      \* e -> (id -> object)         (_data_channels)
  dcq,      \* e -> sequence of [o, kind]  (_data_channel_queue; kind OPEN | ACK | MSG)
  fifo,     \* e -> sequence of [sid, kind, o]  DATA sent by e and not yet delivered / acknowledged
  rq,       \* e -> sequence of stream ids waiting for a reset request (_reconfig_queue)
  req,      \* e -> set of stream ids in the outstanding reset request (_reconfig_request), {} if none
  bag,      \* RE-CONFIG chunks in flight: set of [to, kind, ids, n]
  nreq,     \* e -> reset request sequence number
  rdone,    \* e -> number of the peer's last request handled here (0: none) (_reconfig_response_seq)
  half,     \* e -> (TwoWayClose) ids whose outgoing reset is confirmed, incoming reset still awaited
  inres,    \* e -> (TwoWayClose) ids whose incoming reset has been seen, outgoing reset not yet confirmed
  closed,   \* objects on which close() was called
  bad,      \* first violated clause observed inside an action ("" if none)
  nsend, ncreate, nlost,
  act       \* the action that led here, with its parameters (history; hidden by View; used by the lock-step replay)

vars == <<obj, est, reg, dcq, fifo, rq, req, bag, nreq, rdone, half, inres, closed, bad, nsend, ncreate, nlost, act>>
View == <<obj, est, reg, dcq, fifo, rq, req, bag, nreq, rdone, half, inres, closed, bad, nsend, ncreate, nlost>>

NoObj == [used |-> FALSE, owner |-> "A", id |-> NoId, rs |-> 0, remote |-> FALSE, pair |-> 0, nopen |-> 0, nclose |-> 0]
FreeObjs == {o \in Objs : ~obj[o].used}
NewObj == CHOOSE o \in FreeObjs : \A p \in FreeObjs : o <= p

SetRs(ob, o, s) ==   \* _setReadyState: events fire on change only
  IF ob[o].rs = s THEN ob
  ELSE [ob EXCEPT ![o].rs = s,
                  ![o].nopen = IF s = 1 THEN @ + 1 ELSE @,
                  ![o].nclose = IF s = 3 THEN @ + 1 ELSE @]

Init ==
  /\ obj = [o \in Objs |-> NoObj]
  /\ est = [e \in E |-> "new"]
  /\ reg = [e \in E |-> <<>>]
  /\ dcq = [e \in E |-> <<>>] /\ fifo = [e \in E |-> <<>>]
  /\ rq = [e \in E |-> <<>>] /\ req = [e \in E |-> {}]
  /\ bag = {} /\ nreq = [e \in E |-> 0] /\ rdone = [e \in E |-> 0]
  /\ half = [e \in E |-> {}] /\ inres = [e \in E |-> {}]
  /\ closed = {} /\ bad = "" /\ nsend = 0 /\ ncreate = 0 /\ nlost = 0
  /\ act = [op |-> "init"]

-----------------------------------------------------------------------------
(* State transformers on a record st = [obj, reg, dcq, fifo, rq, req, bag, nreq] *)

St == [obj |-> obj, reg |-> reg, dcq |-> dcq, fifo |-> fifo, rq |-> rq, req |-> req, bag |-> bag, nreq |-> nreq,
       half |-> half, inres |-> inres]
Commit(st) ==
  /\ obj' = st.obj /\ reg' = st.reg /\ dcq' = st.dcq /\ fifo' = st.fifo
  /\ rq' = st.rq /\ req' = st.req /\ bag' = st.bag /\ nreq' = st.nreq
  /\ half' = st.half /\ inres' = st.inres

FirstFreeId(st, e) ==
  LET base == IF e = "A" THEN 1 ELSE 0
      cand == {base + 2 * k : k \in 0..MaxObj}
      free == {i \in cand : i \notin DOMAIN st.reg[e]}
  IN CHOOSE i \in free : \A j \in free : i <= j

\* _data_channel_flush: only when established; the queue is handed over completely
RECURSIVE Flush(_, _)
Flush(st, e) ==
  IF est[e] # "up" \/ st.dcq[e] = <<>> THEN st
  ELSE LET it == Head(st.dcq[e])
           o == it.o
           needId == st.obj[o].id = NoId
           i == IF needId THEN FirstFreeId(st, e) ELSE st.obj[o].id
           st1 == [st EXCEPT !.dcq[e] = Tail(@),
                             !.obj[o].id = i,
                             !.reg[e] = IF needId THEN (i :> o) @@ @ ELSE @,
                             !.fifo[e] = Append(@, [sid |-> i, kind |-> it.kind, o |-> o])]
       IN Flush(st1, e)

\* _transmit_reconfig
TxReconfig(st, e) ==
  IF est[e] # "up" \/ st.rq[e] = <<>> \/ st.req[e] # {} THEN st
  ELSE LET busy == IF "ResetBeforeAck" \in Dev THEN {}
                   ELSE {st.fifo[e][k].sid : k \in 1..Len(st.fifo[e])}
                        \cup {st.obj[st.dcq[e][k].o].id : k \in 1..Len(st.dcq[e])}
           ids == {st.rq[e][k] : k \in 1..Len(st.rq[e])} \ busy
       IN IF ids = {} THEN st
          ELSE [st EXCEPT !.rq[e] = SelectSeq(@, LAMBDA x : x \notin ids),
                          !.req[e] = ids,
                          !.nreq[e] = @ + 1,
                          !.bag = @ \cup {[to |-> Peer(e), kind |-> "REQ", ids |-> ids, n |-> st.nreq[e] + 1]}]

\* _data_channel_close
CloseCh(st, e, o) ==
  IF st.obj[o].rs \in {2, 3} THEN st
  ELSE LET st1 == [st EXCEPT !.obj = SetRs(@, o, 2)] IN
       IF est[e] = "up" /\ (st.obj[o].id # NoId \/ "CloseNoIdQueuesReset" \in Dev)
         THEN TxReconfig([st1 EXCEPT !.rq[e] = Append(@, st.obj[o].id)], e)
         ELSE \* local close: drop queued messages, unregister, closed
              [st1 EXCEPT !.dcq[e] = SelectSeq(@, LAMBDA it : it.o # o),
                          !.reg[e] = [i \in (DOMAIN @) \ {st.obj[o].id} |-> @[i]],
                          !.obj = SetRs(st1.obj, o, 3)]

\* _data_channel_closed
ClosedCh(st, e, i) ==
  IF i \notin DOMAIN st.reg[e] THEN [st EXCEPT !.obj = @]   \* (KeyError in the code; flagged by the caller)
  ELSE [st EXCEPT !.obj = SetRs(@, st.reg[e][i], 3),
                  !.reg[e] = [j \in (DOMAIN @) \ {i} |-> @[j]]]

-----------------------------------------------------------------------------
(* Actions                                                                   *)

Establish(e) ==
  /\ est[e] = "new"
  /\ IF e = "B" THEN est["A"] = "new"      \* by the client's COOKIE-ECHO (a client that has ended sends none)
                ELSE est["B"] = "up"       \* the server is established first (COOKIE-ACK)
  /\ est' = [est EXCEPT ![e] = "up"]
  /\ LET st == [St EXCEPT !.dcq = dcq] IN
       \* Flush reads est[e]; evaluate it against the new value by inlining the guard
       LET RECURSIVE F(_)
           F(s) == IF s.dcq[e] = <<>> THEN s
                   ELSE LET it == Head(s.dcq[e])
                            o == it.o
                            needId == s.obj[o].id = NoId
                            i == IF needId THEN FirstFreeId(s, e) ELSE s.obj[o].id
                        IN F([s EXCEPT !.dcq[e] = Tail(@), !.obj[o].id = i,
                                        !.reg[e] = IF needId THEN (i :> o) @@ @ ELSE @,
                                        !.fifo[e] = Append(@, [sid |-> i, kind |-> it.kind, o |-> o])])
       IN Commit(F(st))
  /\ act' = [op |-> "establish", e |-> e]
  /\ UNCHANGED <<rdone, closed, bad, nsend, ncreate, nlost>>

Create(e) ==
  /\ est[e] # "down" /\ ncreate < MaxApiCreate /\ FreeObjs # {}
  /\ LET o == NewObj
         st0 == [St EXCEPT !.obj[o] = [NoObj EXCEPT !.used = TRUE, !.owner = e],
                           !.dcq[e] = Append(@, [o |-> o, kind |-> "OPEN"])]
     IN Commit(st0)      \* the flush runs as a separate task (FlushTask)
  /\ ncreate' = ncreate + 1
  /\ act' = [op |-> "create", e |-> e, o |-> NewObj]
  /\ UNCHANGED <<est, rdone, closed, bad, nsend, nlost>>

Send(e, o) ==
  /\ obj[o].used /\ obj[o].owner = e /\ obj[o].rs = 1 /\ nsend < MaxSend
  /\ Commit([St EXCEPT !.dcq[e] = Append(@, [o |-> o, kind |-> "MSG"])])
  /\ nsend' = nsend + 1
  /\ act' = [op |-> "send", e |-> e, o |-> o]
  /\ UNCHANGED <<est, rdone, closed, bad, ncreate, nlost>>

\* the _data_channel_flush task scheduled by _data_channel_open / _data_channel_send
FlushTask(e) ==
  /\ est[e] = "up" /\ dcq[e] # <<>>
  /\ Commit(TxReconfig(Flush(St, e), e))
  /\ act' = [op |-> "flush", e |-> e]
  /\ UNCHANGED <<est, rdone, closed, bad, nsend, ncreate, nlost>>

\* Without AllowReuse the application closes only when no other channel is still waiting
\* for its id (ids are allocated at flush time), so that no id is ever used twice.
NoPendingIds(o) ==
  /\ ncreate = MaxApiCreate
  /\ \A e \in E : \A k \in 1..Len(dcq[e]) : (dcq[e][k].kind = "OPEN") => dcq[e][k].o = o

Close(e, o) ==
  /\ obj[o].used /\ obj[o].owner = e /\ obj[o].rs \in {0, 1} /\ o \notin closed
  /\ AllowReuse \/ NoPendingIds(o)
  /\ Commit(CloseCh(St, e, o))
  /\ closed' = closed \cup {o}
  /\ act' = [op |-> "close", e |-> e, o |-> o]
  /\ UNCHANGED <<est, rdone, bad, nsend, ncreate, nlost>>

\* one DATA chunk of the peer is delivered (and thereby acknowledged: the SACK goes straight
\* back; _receive_sack_chunk at the sender ends with _data_channel_flush and _transmit_reconfig)
Acked(st, p) == TxReconfig(Flush(st, p), p)
DeliverData(e) ==
  LET p == Peer(e) IN
  /\ est[e] = "up" /\ fifo[p] # <<>>
  /\ LET it == Head(fifo[p])
         st0 == [St EXCEPT !.fifo[p] = Tail(@)]
         known == it.sid \in DOMAIN reg[e]
     IN CASE it.kind = "OPEN" ->
               IF known
                 THEN /\ Commit(st0) /\ bad' = (IF bad = "" THEN "open_on_registered_id" ELSE bad)
                 ELSE LET o == NewObj
                          srcSeen == \E q \in Objs : obj[q].used /\ obj[q].pair = it.o
                          st1 == [st0 EXCEPT !.obj[o] = [NoObj EXCEPT !.used = TRUE, !.owner = e, !.id = it.sid,
                                                                   !.rs = 1, !.remote = TRUE, !.pair = it.o, !.nopen = 1],
                                             !.obj[it.o].pair = IF @ = 0 THEN o ELSE @,
                                             !.reg[e] = (it.sid :> o) @@ @,
                                             !.dcq[e] = Append(@, [o |-> o, kind |-> "ACK"])]
                      IN /\ FreeObjs # {}
                         /\ Commit(Acked(Flush(st1, e), p))
                         /\ bad' = (IF bad = "" /\ srcSeen THEN "datachannel_event_twice" ELSE bad)
          [] it.kind = "ACK" ->
               /\ IF known /\ (obj[reg[e][it.sid]].rs = 0 \/ "AckReopens" \in Dev)
                    THEN Commit(Acked([st0 EXCEPT !.obj = SetRs(@, reg[e][it.sid], 1)], p))
                    ELSE Commit(Acked(st0, p))
               /\ UNCHANGED bad
          [] OTHER ->      \* user message
               /\ Commit(Acked(st0, p))
               /\ bad' = (IF bad = "" /\ known /\ obj[reg[e][it.sid]].pair # it.o /\ obj[it.o].pair # reg[e][it.sid]
                            THEN "message_on_wrong_channel" ELSE bad)
  /\ act' = [op |-> "data", e |-> e, sid |-> Head(fifo[p]).sid, kind |-> Head(fifo[p]).kind]
  /\ UNCHANGED <<est, rdone, closed, nsend, ncreate, nlost>>

DeliverReconfig(m) ==
  LET e == m.to IN
  /\ m \in bag /\ est[e] = "up"
  /\ LET st0 == [St EXCEPT !.bag = @ \ {m}] IN
     IF m.kind = "REQ"
       THEN LET RECURSIVE CloseAll(_, _)
                CloseAll(s, ids) ==
                  IF ids = {} THEN s
                  ELSE LET i == CHOOSE x \in ids : TRUE
                           s1 == IF "TwoWayClose" \notin Dev
                                   THEN (IF i \in DOMAIN s.reg[e] THEN CloseCh(s, e, s.reg[e][i]) ELSE s)
                                 ELSE IF i \in s.half[e]          \* own reset already confirmed: both directions done
                                   THEN [ClosedCh(s, e, i) EXCEPT !.half[e] = @ \ {i}]
                                 ELSE IF i \in DOMAIN s.reg[e]    \* reset the own direction too, remember the peer's
                                   THEN [CloseCh(s, e, s.reg[e][i]) EXCEPT !.inres[e] = @ \cup {i}]
                                 ELSE \* no object (any more): the outgoing stream is reset all the same
                                      TxReconfig([s EXCEPT !.rq[e] = IF i \in req[e] \/ \E k \in 1..Len(@) : @[k] = i
                                                                        THEN @ ELSE Append(@, i)], e)
                       IN CloseAll(s1, ids \ {i})
                \* a retransmitted request is only answered again
                st1 == IF m.n = rdone[e] /\ "DupRequestReprocessed" \notin Dev THEN st0 ELSE CloseAll(st0, m.ids)
            IN /\ Commit([st1 EXCEPT !.bag = @ \cup {[to |-> Peer(e), kind |-> "RESP", ids |-> m.ids, n |-> m.n]}])
               /\ rdone' = [rdone EXCEPT ![e] = m.n]
               /\ UNCHANGED bad
       ELSE IF req[e] # {} /\ m.n = nreq[e]
              THEN LET RECURSIVE Fin(_, _)
                       Fin(s, ids) == IF ids = {} THEN s
                                      ELSE LET i == CHOOSE x \in ids : TRUE
                                               s1 == IF "TwoWayClose" \notin Dev THEN ClosedCh(s, e, i)
                                                     ELSE IF i \in s.inres[e] \/ i \notin DOMAIN s.reg[e]
                                                       THEN [ClosedCh(s, e, i) EXCEPT !.inres[e] = @ \ {i}]
                                                     ELSE [s EXCEPT !.half[e] = @ \cup {i}]    \* wait for the peer's reset
                                           IN Fin(s1, ids \ {i})
                       st1 == Fin(st0, req[e])
                   IN /\ Commit(TxReconfig([st1 EXCEPT !.req[e] = {}], e))
                      /\ bad' = (IF bad = "" /\ "TwoWayClose" \notin Dev /\ \E i \in req[e] : i \notin DOMAIN reg[e]
                                   THEN "reset_of_unregistered_stream" ELSE bad)
                      /\ UNCHANGED rdone
              ELSE Commit(st0) /\ UNCHANGED <<bad, rdone>>
  /\ act' = [op |-> "reconfig", e |-> e, kind |-> m.kind, ids |-> m.ids, n |-> m.n]
  /\ UNCHANGED <<est, closed, nsend, ncreate, nlost>>

LoseReconfig(m) ==
  /\ m \in bag /\ nlost < MaxLoss
  /\ bag' = bag \ {m} /\ nlost' = nlost + 1
  /\ act' = [op |-> "lose", e |-> m.to, kind |-> m.kind, ids |-> m.ids, n |-> m.n]
  /\ UNCHANGED <<obj, est, reg, dcq, fifo, rq, req, nreq, rdone, half, inres, closed, bad, nsend, ncreate>>

\* _reconfig_timer_expired: the pending request is sent again.  The model lets the timer
\* fire only when no datagram of the exchange is in flight any more (a real time-out comes
\* after the network has drained), so every retransmission answers a loss.
InFlight(e) == \E m \in bag : m.n = nreq[e] /\ ((m.kind = "REQ" /\ m.to = Peer(e)) \/ (m.kind = "RESP" /\ m.to = e))
RetxEnabled(e) == est[e] = "up" /\ req[e] # {} /\ "NoReconfigRetx" \notin Dev /\ ~InFlight(e)
RetxReconfig(e) ==
  /\ RetxEnabled(e)
  /\ bag' = bag \cup {[to |-> Peer(e), kind |-> "REQ", ids |-> req[e], n |-> nreq[e]]}
  /\ act' = [op |-> "retx", e |-> e]
  /\ UNCHANGED <<obj, est, reg, dcq, fifo, rq, req, nreq, rdone, half, inres, closed, bad, nsend, ncreate, nlost>>

\* _set_state(CLOSED): abort / shutdown / transport failure at e
AssocEnd(e) ==
  /\ est[e] # "down"
  /\ est' = [est EXCEPT ![e] = "down"]
  /\ LET regd == {reg[e][i] : i \in DOMAIN reg[e]}
         queued == IF "QueuedNotClosedAtEnd" \in Dev THEN {} ELSE {dcq[e][k].o : k \in 1..Len(dcq[e])}
         RECURSIVE Fin(_, _)
         Fin(ob, os) == IF os = {} THEN ob ELSE LET o == CHOOSE x \in os : TRUE IN Fin(SetRs(ob, o, 3), os \ {o})
     IN /\ obj' = Fin(obj, regd \cup queued)
        /\ reg' = [reg EXCEPT ![e] = <<>>]
        /\ dcq' = [dcq EXCEPT ![e] = <<>>]
  /\ act' = [op |-> "end", e |-> e]
  /\ half' = [half EXCEPT ![e] = {}] /\ inres' = [inres EXCEPT ![e] = {}]
  /\ UNCHANGED <<fifo, rq, req, bag, nreq, rdone, closed, bad, nsend, ncreate, nlost>>

Next ==
  \/ \E e \in E : Establish(e) \/ Create(e) \/ FlushTask(e) \/ DeliverData(e) \/ AssocEnd(e) \/ RetxReconfig(e)
  \/ \E e \in E, o \in Objs : Send(e, o) \/ Close(e, o)
  \/ \E m \in bag : DeliverReconfig(m) \/ LoseReconfig(m)

Spec == Init /\ [][Next]_vars
\* for tlc -simulate (lock-step replay): associations end late, so that random behaviours
\* exercise the lifecycle first
SimNext == Next /\ (act'.op = "end" => (TLCGet("level") > 14 \/ RandomElement(1..8) = 1))
SimSpec == Init /\ [][SimNext]_vars
FairSpec == Spec /\ \A e \in E : WF_vars(Establish(e)) /\ WF_vars(DeliverData(e)) /\ WF_vars(FlushTask(e))
                 /\ WF_vars(\E m \in bag : DeliverReconfig(m)) /\ WF_vars(RetxReconfig(e))

-----------------------------------------------------------------------------
(* C13 clauses                                                               *)

\* readyState only moves forward; at most one open and one close event
StateForward == [][\A o \in Objs : obj'[o].rs >= obj[o].rs]_vars
EventsOnce == \A o \in Objs : obj[o].nopen <= 1 /\ obj[o].nclose <= 1
\* ids: parity by role for automatically chosen ids, no two live objects of an endpoint share an id
IdParity == \A o \in Objs : (obj[o].used /\ ~obj[o].remote /\ obj[o].id # NoId) =>
                              (obj[o].id % 2 = (IF obj[o].owner = "A" THEN 1 ELSE 0))
NoCollision == \A o, q \in Objs : (o # q /\ obj[o].used /\ obj[q].used /\ obj[o].owner = obj[q].owner
                                    /\ obj[o].id # NoId /\ obj[o].id = obj[q].id) => (obj[o].rs = 3 \/ obj[q].rs = 3)
\* the announcing event is faithful: same id as the creating object
Faithful == \A o \in Objs : (obj[o].used /\ obj[o].remote) => obj[obj[o].pair].id = obj[o].id
\* nothing flagged inside the actions (duplicate announcement, OPEN on a registered id,
\* message on the wrong channel, reset of an unregistered stream)
NoBad == bad = ""
\* a closed association has no channel that is not closed
EndClosesAll == \A o \in Objs : (obj[o].used /\ est[obj[o].owner] = "down") => obj[o].rs = 3
\* close() closes both ends (liveness; checked under FairSpec when nothing is lost and no association ends)
BothUp == est["A"] = "up" /\ est["B"] = "up"
CloseCompletes ==
  \A o \in Objs : (o \in closed /\ obj[o].id # NoId) ~>
     (~BothUp \/ (obj[o].rs = 3 /\ (obj[o].pair = 0 \/ obj[obj[o].pair].rs = 3)))
\* safety core of the same clause: when everything is quiet every closed channel is closed at both ends
Quiet == \A e \in E : fifo[e] = <<>> /\ dcq[e] = <<>>
CloseCompleteWhenQuiet ==
  (BothUp /\ Quiet /\ bag = {} /\ \A e \in E : ~RetxEnabled(e)) =>
     \A o \in closed : obj[o].rs = 3 /\ (obj[o].pair = 0 \/ obj[obj[o].pair].rs = 3)

\* witnesses (must be violated)
W_NeverBothClosed == ~(\E o \in closed : obj[o].rs = 3 /\ obj[o].pair # 0 /\ obj[obj[o].pair].rs = 3)
W_NoIdReuse == ~(\E o, q \in Objs : o # q /\ obj[o].used /\ obj[q].used /\ obj[o].owner = obj[q].owner
                                     /\ ~obj[o].remote /\ ~obj[q].remote /\ obj[o].id # NoId /\ obj[o].id = obj[q].id)
W_NoMessage == nsend = 0 \/ \E e \in E : fifo[e] # <<>>
=============================================================================
