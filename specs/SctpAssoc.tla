----------------------------- MODULE SctpAssoc -----------------------------
(* Layer M - implementation-shaped model of the SCTP data path of           *)
(* aiortc.rtcsctptransport (sender A -> receiver B, SACK / FORWARD-TSN       *)
(* feedback), written handler by handler after the code:                     *)
(*   _data_channel_send/_data_channel_flush/_send  -> ApiSend, Flush, Send   *)
(*   _transmit                                      -> Transmit (Retx, NewTx) *)
(*   _receive_sack_chunk                            -> RecvSack               *)
(*   _maybe_abandon, _update_advanced_peer_ack_point-> MaybeAbandon, UpdateAdv*)
(*   _t3_expired                                    -> T3Expired              *)
(*   _receive_data_chunk, _mark_received, InboundStream.add_chunk /          *)
(*   pop_messages / prune_chunks, _receive_forward_tsn_chunk, _send_sack     *)
(*                                                  -> RecvData, RecvFwd      *)
(* One TLA+ action = one run-to-completion step of the event loop (an API    *)
(* call, one datagram handed to _handle_data, one timer callback).  The      *)
(* environment drops, duplicates and reorders datagrams and fires T3 at any  *)
(* time, within budgets.  TSNs and stream sequence numbers are relative to   *)
(* their origins (SctpWrap / the harness map real 32-bit values to them).    *)
(*                                                                           *)
(* The history variables sentH / dlvH / badH are the observable state of     *)
(* DataChannelObs (layer A); the invariants at the end are A's clauses for   *)
(* C01, C02 and C06.  `Dev` re-enables, in the model only, defects that the  *)
(* code has or had (sensitivity tests; see harness/c02_sctp_model.py).       *)
EXTENDS Naturals, Integers, Sequences, FiniteSets, TLC

CONSTANTS
  MaxNet,   \* state constraint: datagrams in flight (exploration bound, see NetBound)
  Chans,    \* channel -> [sid, ordered, maxRtx, life]   (maxRtx = -1: not retransmit-limited; life: lifetime-limited)
  Msgs,     \* sequence of [ch, frags]; frags = fragment sizes (1200 except the last)
  MaxDrop, MaxDup, MaxT3,   \* fault budgets before Heal
  CntCap,   \* cap of the per-chunk transmission counter
  Mod, Origin,   \* TSN space: 0 = unbounded naturals; otherwise TSNs live modulo Mod and start at Origin (C17)
  SMod, SOrigin, \* stream sequence number space, likewise
  Dev       \* deviations: subset of DevNames

DevNames == {"FlightLeakOnAbandon", "AbandonSentOnly", "NoFwdResend", "FwdSeqBackward",
             "PruneAllStreams", "NoT3OnRetx", "DupNotFiltered", "NoFlushOnSack",
             "NumericTsnCompare",      \* C17: TSNs compared as plain integers (numeric sorted() of e4fb4d8's defect)
             \* harmless since ordered delivery skips undeliverable chunks (be1f8ac): kept as history
             "PopNoReset", "NoPopAfterPrune"}

VARIABLES snd, rcv, net, sentH, dlvH, badH, nDrop, nDup, nT3, healed, act

vars == <<snd, rcv, net, sentH, dlvH, badH, nDrop, nDup, nT3, healed, act>>
View == <<snd, rcv, net, sentH, dlvH, badH, nDrop, nDup, nT3, healed>>

MTU == 1200
Min(a, b) == IF a < b THEN a ELSE b
Max(a, b) == IF a > b THEN a ELSE b
SetMax(S) == CHOOSE x \in S : \A y \in S : y <= x
SetMin(S) == CHOOSE x \in S : \A y \in S : x <= y
Sids == {Chans[c].sid : c \in DOMAIN Chans}

\* Sequence-number spaces (C17).  The state holds WRAPPED numbers; every comparison the code
\* makes with uint32_gt / uint32_gte / tsn_plus_one (uint16_* for stream sequence numbers) is
\* made with the serial operators below; with Mod = 0 they are the ordinary ones.
W(t) == IF Mod = 0 THEN t ELSE (Origin + t) % Mod                  \* abstract TSN t = 0, 1, 2 ... -> wire
TGt(a, b) == IF Mod = 0 \/ "NumericTsnCompare" \in Dev THEN a > b
             ELSE a # b /\ ((a - b + Mod) % Mod) < (Mod \div 2)
TGe(a, b) == a = b \/ TGt(a, b)
TSucc(a) == IF Mod = 0 THEN a + 1 ELSE (a + 1) % Mod
TDist(a, b) == IF Mod = 0 THEN a - b ELSE (a - b + Mod) % Mod      \* how far a is ahead of b
WS(q) == IF SMod = 0 THEN q ELSE (SOrigin + q) % SMod
SGt(a, b) == IF SMod = 0 THEN a > b ELSE a # b /\ ((a - b + SMod) % SMod) < (SMod \div 2)
SGe(a, b) == a = b \/ SGt(a, b)
SSucc(a) == IF SMod = 0 THEN a + 1 ELSE (a + 1) % SMod

-----------------------------------------------------------------------------
(* Static chunk table: what _send() produces for the messages, in order.     *)

RECURSIVE BuildChunks(_, _, _)
BuildChunks(i, acc, sseqs) ==
  IF i > Len(Msgs) THEN acc
  ELSE LET m == Msgs[i]
           c == Chans[m.ch]
           ss == IF c.ordered THEN sseqs[c.sid] ELSE 0
           n == Len(m.frags)
           new == [k \in 1..n |-> [msg |-> i, ch |-> m.ch, sid |-> c.sid, sseq |-> ss,
                                   b |-> (k = 1), e |-> (k = n), u |-> ~c.ordered,
                                   size |-> m.frags[k], maxRtx |-> c.maxRtx, life |-> c.life]]
       IN BuildChunks(i + 1, acc \o new,
                      IF c.ordered THEN [sseqs EXCEPT ![c.sid] = @ + 1] ELSE sseqs)

CTA == BuildChunks(1, <<>>, [s \in Sids |-> 0])     \* CTA[t], abstract t = 1..Len(CTA)
Abs(w) == IF Mod = 0 THEN w ELSE CHOOSE t \in 1..Len(CTA) : W(t) = w   \* (fewer than Mod/2 chunks)
\* attributes of the chunk with wire TSN w (in the code they are fields of the chunk object);
\* the stream sequence number is the wire value
CT == [w \in {W(t) : t \in 1..Len(CTA)} |-> [CTA[Abs(w)] EXCEPT !.sseq = WS(@)]]
MsgTsns(i) == {t \in 1..Len(CTA) : CTA[t].msg = i}
TsnSeq(i) == [k \in 1..Cardinality(MsgTsns(i)) |-> W(SetMin(MsgTsns(i)) + k - 1)]

-----------------------------------------------------------------------------
(* Packets.  One datagram carries one chunk (the code does not bundle).      *)
Data(t) == [k |-> "DATA", a |-> t, g |-> {}, st |-> {}]
Sack(cum, gaps) == [k |-> "SACK", a |-> cum, g |-> gaps, st |-> {}]
Fwd(cum, streams) == [k |-> "FWD", a |-> cum, g |-> {}, st |-> streams]   \* st: {sid * 1000 + sseq}
NoFwd == [cum |-> 0, st |-> {}, on |-> FALSE]

-----------------------------------------------------------------------------
(* Sender.                                                                   *)

Entry(t, cnt, aband, infl) ==
  [tsn |-> t, acked |-> FALSE, retx |-> FALSE, misses |-> 0, cnt |-> cnt, aband |-> aband, infl |-> infl]

FlightDec(s, i) ==
  IF s.sentq[i].infl
    THEN [s EXCEPT !.sentq[i].infl = FALSE, !.flight = Max(0, @ - CT[s.sentq[i].tsn].size)]
    ELSE s
FlightInc(s, i) ==
  IF ~s.sentq[i].infl
    THEN [s EXCEPT !.sentq[i].infl = TRUE, !.flight = @ + CT[s.sentq[i].tsn].size]
    ELSE s

\* _maybe_abandon(chunk at position i): <<sender', abandoned?>>
MaybeAbandon(s, i) ==
  LET q == s.sentq
      e == q[i]
      c == CT[e.tsn]
  IN IF e.aband THEN <<s, TRUE>>
     ELSE IF ~((c.maxRtx >= 0 /\ e.cnt > c.maxRtx) \/ (c.life /\ c.msg <= s.expired)) THEN <<s, FALSE>>
     ELSE
       LET loS == {j \in 1..i : CT[q[j].tsn].b}
           lo == IF loS = {} THEN 1 ELSE SetMax(loS)
           hiS == {j \in i..Len(q) : CT[q[j].tsn].e}
           hi == IF hiS = {} THEN Len(q) ELSE SetMin(hiS)
           q1 == [j \in 1..Len(q) |-> IF j >= lo /\ j <= hi
                                        THEN [q[j] EXCEPT !.aband = TRUE, !.retx = FALSE] ELSE q[j]]
           \* the rest of the message has not been transmitted yet
           tailS == {k \in 1..Len(s.outq) : CT[s.outq[k]].e}
           tailLen == IF hiS # {} \/ "AbandonSentOnly" \in Dev THEN 0
                      ELSE IF tailS = {} THEN Len(s.outq) ELSE SetMin(tailS)
           tail == [k \in 1..tailLen |-> Entry(s.outq[k], 0, TRUE, FALSE)]
       IN << [s EXCEPT !.sentq = q1 \o tail, !.outq = SubSeq(@, tailLen + 1, Len(@))], TRUE >>

\* _update_advanced_peer_ack_point
UpdateAdv(s0) ==
  LET s1 == IF TGe(s0.lastSacked, s0.adv)
              THEN [s0 EXCEPT !.adv = s0.lastSacked, !.fwdPending = FALSE, !.fwdStreams = {}]
              ELSE s0
      q == s1.sentq
      nonAb == {j \in 1..Len(q) : ~q[j].aband}
      n == IF nonAb = {} THEN Len(q) ELSE SetMin(nonAb) - 1
      \* per ordered stream the highest skipped stream sequence number (later chunk wins)
      sidsPopped == {CT[q[j].tsn].sid : j \in {k \in 1..n : ~CT[q[k].tsn].u}}
      newSt == {sd * 1000 + CT[q[SetMax({j \in 1..n : ~CT[q[j].tsn].u /\ CT[q[j].tsn].sid = sd})].tsn].sseq
                  : sd \in sidsPopped}
      oldSt == IF "NoFwdResend" \in Dev THEN {} ELSE s1.fwdStreams
      merged == {x \in oldSt : (x \div 1000) \notin sidsPopped} \cup newSt
      leak == "FlightLeakOnAbandon" \in Dev
      inflBytes == LET RECURSIVE F(_) F(j) == IF j > n THEN 0
                                               ELSE (IF q[j].infl THEN CT[q[j].tsn].size ELSE 0) + F(j + 1)
                   IN F(1)
      s2 == IF n > 0
              THEN [s1 EXCEPT !.sentq = SubSeq(q, n + 1, Len(q)), !.adv = q[n].tsn,
                              !.fwdPending = TRUE, !.fwdStreams = merged,
                              !.flight = IF leak THEN @ ELSE Max(0, @ - inflBytes)]
              ELSE s1
      build == IF "NoFwdResend" \in Dev THEN n > 0 ELSE s2.fwdPending
  IN IF build THEN [s2 EXCEPT !.fwd = [cum |-> s2.adv, st |-> s2.fwdStreams, on |-> TRUE]] ELSE s2

\* _transmit: retransmissions first, then new data, within min(flight + burst, cwnd)
RECURSIVE Retx(_, _, _, _)
Retx(s, i, cw, out) ==
  IF i > Len(s.sentq) THEN [s |-> s, out |-> out, stop |-> FALSE]
  ELSE IF ~s.sentq[i].retx THEN Retx(s, i + 1, cw, out)
  ELSE IF ~s.frTx /\ s.flight >= cw THEN [s |-> s, out |-> out, stop |-> TRUE]
  ELSE LET sa == FlightInc([s EXCEPT !.frTx = FALSE], i)
           sb == [sa EXCEPT !.sentq[i].misses = 0, !.sentq[i].retx = FALSE,
                            !.sentq[i].cnt = Min(@ + 1, CntCap),
                            !.t3 = IF i = 1 /\ "NoT3OnRetx" \notin Dev THEN TRUE ELSE @]
       IN Retx(sb, i + 1, cw, Append(out, Data(s.sentq[i].tsn)))

RECURSIVE NewTx(_, _, _)
NewTx(s, cw, out) ==
  IF s.outq = <<>> \/ s.flight >= cw THEN <<s, out>>
  ELSE LET t == Head(s.outq)
       IN NewTx([s EXCEPT !.outq = Tail(@), !.sentq = Append(@, Entry(t, 1, FALSE, TRUE)),
                          !.flight = @ + CT[t].size, !.t3 = TRUE],
                cw, Append(out, Data(t)))

Transmit(s0, out0) ==
  LET s1 == IF s0.fwd.on THEN [s0 EXCEPT !.fwd = NoFwd, !.t3 = TRUE] ELSE s0
      out1 == IF s0.fwd.on THEN Append(out0, Fwd(s0.fwd.cum, s0.fwd.st)) ELSE out0
      burst == IF s1.frOn THEN 2 * MTU ELSE 4 * MTU
      cw == Min(s1.flight + burst, s1.cwnd)
      r == Retx(s1, 1, cw, out1)
  IN IF r.stop THEN <<r.s, r.out>> ELSE NewTx(r.s, cw, r.out)

\* _data_channel_flush: hand queued messages to _send() while the outbound queue is empty
RECURSIVE Flush(_, _)
Flush(s, out) ==
  IF s.dcq = <<>> \/ s.outq # <<>> THEN <<s, out>>
  ELSE LET m == Head(s.dcq)
           r == Transmit([s EXCEPT !.dcq = Tail(@), !.outq = TsnSeq(m)], out)
       IN Flush(r[1], r[2])

\* _receive_sack_chunk
RECURSIVE GapAck(_, _, _, _, _, _)
GapAck(s, i, hs, gaps, db, htna) ==
  IF i > Len(s.sentq) \/ TGt(s.sentq[i].tsn, hs) THEN [s |-> s, db |-> db, htna |-> htna]
  ELSE IF s.sentq[i].tsn \in gaps /\ ~s.sentq[i].acked
    THEN GapAck(FlightDec([s EXCEPT !.sentq[i].acked = TRUE], i), i + 1, hs, gaps,
                db + CT[s.sentq[i].tsn].size, s.sentq[i].tsn)
    ELSE GapAck(s, i + 1, hs, gaps, db, htna)

RECURSIVE Strike(_, _, _, _, _, _)
Strike(s, i, n0, htna, gaps, loss) ==
  IF i > n0 \/ TGt(s.sentq[i].tsn, htna) THEN [s |-> s, loss |-> loss]
  ELSE IF s.sentq[i].tsn \in gaps THEN Strike(s, i + 1, n0, htna, gaps, loss)
  ELSE IF s.sentq[i].misses + 1 # 3
    THEN Strike([s EXCEPT !.sentq[i].misses = @ + 1], i + 1, n0, htna, gaps, loss)
    ELSE LET s1 == [s EXCEPT !.sentq[i].misses = 0]
             ma == MaybeAbandon(s1, i)
             s2 == IF ma[2] THEN ma[1] ELSE [ma[1] EXCEPT !.sentq[i].retx = TRUE]
             s3 == FlightDec([s2 EXCEPT !.sentq[i].acked = FALSE], i)
         IN Strike(s3, i + 1, n0, htna, gaps, TRUE)

RecvSack(s0, cum, gaps) ==
  IF TGt(s0.lastSacked, cum) THEN <<s0, <<>>>>
  ELSE
    LET fully == s0.flight >= s0.cwnd
        q == s0.sentq
        RECURSIVE PopN(_)     \* chunks at the head of the sent queue covered by the cumulative ack
        PopN(j) == IF j <= Len(q) /\ TGe(cum, q[j].tsn) THEN PopN(j + 1) ELSE j - 1
        np == PopN(1)
        RECURSIVE PopB(_)     \* bytes newly acknowledged among the popped chunks
        PopB(j) == IF j > np THEN 0 ELSE (IF q[j].acked THEN 0 ELSE CT[q[j].tsn].size) + PopB(j + 1)
        RECURSIVE PopF(_, _)  \* flight size after releasing the popped chunks
        PopF(j, f) == IF j > np THEN f
                      ELSE PopF(j + 1, IF q[j].infl THEN Max(0, f - CT[q[j].tsn].size) ELSE f)
        s1 == [s0 EXCEPT !.lastSacked = cum, !.sentq = SubSeq(q, np + 1, Len(q)), !.flight = PopF(1, @)]
        ga == IF gaps = {} THEN [s |-> s1, db |-> PopB(1), htna |-> cum]
              ELSE GapAck(s1, 1, CHOOSE g \in gaps : \A h \in gaps : TDist(g, cum) >= TDist(h, cum),
                          gaps, PopB(1), cum)
        sk == IF gaps = {} THEN [s |-> ga.s, loss |-> FALSE]
              ELSE Strike(ga.s, 1, Len(ga.s.sentq), ga.htna, gaps, FALSE)
        s2 == sk.s
        db == ga.db
        \* congestion window
        s3 == IF ~s2.frOn
                THEN LET sa == IF np > 0 /\ fully
                                 THEN (IF s2.cwnd <= s2.ssthresh
                                         THEN [s2 EXCEPT !.cwnd = @ + Min(db, MTU)]
                                         ELSE IF s2.pba + db >= s2.cwnd
                                                THEN [s2 EXCEPT !.pba = @ + db - s2.cwnd, !.cwnd = @ + MTU]
                                                ELSE [s2 EXCEPT !.pba = @ + db])
                                 ELSE s2
                     IN IF sk.loss
                          THEN LET th == Max(sa.cwnd \div 2, 4 * MTU)
                               IN [sa EXCEPT !.ssthresh = th, !.cwnd = th, !.pba = 0, !.frOn = TRUE,
                                             !.frExit = sa.sentq[Len(sa.sentq)].tsn, !.frTx = TRUE]
                          ELSE sa
                ELSE IF TGe(cum, s2.frExit) THEN [s2 EXCEPT !.frOn = FALSE, !.frExit = 0] ELSE s2
        s4 == IF s3.sentq = <<>> THEN [s3 EXCEPT !.t3 = FALSE]
              ELSE IF np > 0 THEN [s3 EXCEPT !.t3 = TRUE] ELSE s3
        s5 == UpdateAdv(s4)
        fl == IF "NoFlushOnSack" \in Dev THEN <<s5, <<>>>> ELSE Flush(s5, <<>>)
    IN Transmit(fl[1], fl[2])

\* _t3_expired (followed by the _transmit task it schedules)
RECURSIVE T3Mark(_, _, _)
T3Mark(s, i, n0) ==
  IF i > n0 THEN s
  ELSE LET ma == MaybeAbandon(s, i)
       IN T3Mark(IF ma[2] THEN ma[1] ELSE [ma[1] EXCEPT !.sentq[i].retx = TRUE], i + 1, n0)

T3Expired(s0) ==
  LET s1 == UpdateAdv(T3Mark([s0 EXCEPT !.t3 = FALSE], 1, Len(s0.sentq)))
      s2 == [s1 EXCEPT !.frOn = FALSE, !.frExit = 0, !.flight = 0, !.pba = 0,
                       !.sentq = [j \in 1..Len(s1.sentq) |-> [s1.sentq[j] EXCEPT !.infl = FALSE]],
                       !.ssthresh = Max(s1.cwnd \div 2, 4 * MTU), !.cwnd = MTU]
  IN Transmit(s2, <<>>)

-----------------------------------------------------------------------------
(* Receiver.                                                                 *)

\* InboundStream.pop_messages, statement by statement.  sp = 0 encodes start_pos None.
\* out: sequence of [msg, ok]; ok = the fragments handed up are exactly the message's.
RECURSIVE Pop(_, _, _, _, _, _, _)
PopStep(re, pos, sp, exp, ord, sq, out) ==
  LET c == CT[re[pos]] IN
  IF c.e
    THEN LET frs == SubSeq(re, sp, pos)
             re2 == SubSeq(re, 1, sp - 1) \o SubSeq(re, pos + 1, Len(re))
             sq2 == IF ord /\ c.sseq = sq THEN SSucc(sq) ELSE sq
             o2 == Append(out, [msg |-> c.msg, ok |-> (frs = TsnSeq(c.msg))])
         IN IF "PopNoReset" \in Dev
              THEN Pop(re2, sp, sp, TSucc(exp), ord, sq2, o2)   \* old code: scan state kept (harmless since be1f8ac)
              ELSE Pop(re2, sp, 0, TSucc(exp), ord, sq2, o2)
    ELSE Pop(re, pos + 1, sp, TSucc(exp), ord, sq, out)

Pop(re, pos, sp, exp, ord, sq, out) ==
  IF pos > Len(re) THEN [re |-> re, seq |-> sq, out |-> out]
  ELSE LET c == CT[re[pos]] IN
    IF sp = 0
      THEN LET o == ~c.u IN
           \* a chunk that cannot start a deliverable message is skipped, it does not block
           \* what follows (fragment without its beginning; stream sequence number ahead)
           IF ~c.b THEN Pop(re, pos + 1, 0, exp, o, sq, out)
           ELSE IF o /\ SGt(c.sseq, sq) THEN Pop(re, pos + 1, 0, exp, o, sq, out)
           ELSE PopStep(re, pos, pos, re[pos], o, sq, out)
      ELSE IF re[pos] # exp
             \* the message that starts at sp is incomplete; an ordered stream looks at this
             \* chunk again (it may start another message), an unordered one moves on
             THEN (IF ord THEN Pop(re, pos, 0, exp, ord, sq, out)
                          ELSE Pop(re, pos + 1, 0, exp, ord, sq, out))
             ELSE PopStep(re, pos, sp, exp, ord, sq, out)

PopMessages(st) == Pop(st.re, 1, 0, W(0), TRUE, st.seq, <<>>)

InsertSorted(re, t) ==
  LET lower == {j \in 1..Len(re) : TGt(t, re[j])}
      k == Cardinality(lower)
  IN SubSeq(re, 1, k) \o <<t>> \o SubSeq(re, k + 1, Len(re))

Absorb(r) ==     \* consolidate the misordered set into the cumulative TSN
  LET RECURSIVE Up(_)
      Up(x) == IF TSucc(x) \in r.mis THEN Up(TSucc(x)) ELSE x
      lr == Up(r.last)
  IN [r EXCEPT !.last = lr, !.mis = {x \in @ : TGt(x, lr)}]

\* _handle_data with one DATA chunk: <<receiver', delivered, sack>>
RecvData(r0, t) ==
  IF (~TGt(t, r0.last) \/ t \in r0.mis) /\ "DupNotFiltered" \notin Dev      \* (only TSNs strictly ahead are new: d8a6d4d)
    THEN <<r0, <<>>, Sack(r0.last, r0.mis)>>
    ELSE LET r1 == Absorb([r0 EXCEPT !.mis = @ \cup {t}])
             sd == CT[t].sid
             st == [r1.streams[sd] EXCEPT !.re = InsertSorted(@, t)]
             pm == PopMessages(st)
             r2 == [r1 EXCEPT !.streams[sd] = [re |-> pm.re, seq |-> pm.seq]]
         IN <<r2, pm.out, Sack(r2.last, r2.mis)>>

\* _handle_data with one FORWARD-TSN chunk
RECURSIVE FwdStreams(_, _, _)
FwdStreams(r, todo, out) ==
  IF todo = {} THEN <<r, out>>
  ELSE LET x == SetMin(todo)
           sd == x \div 1000
           ss == x % 1000
           st0 == r.streams[sd]
           st1 == IF "FwdSeqBackward" \in Dev \/ SGe(ss, st0.seq) THEN [st0 EXCEPT !.seq = SSucc(ss)] ELSE st0
           pm == PopMessages(st1)
       IN FwdStreams([r EXCEPT !.streams[sd] = [re |-> pm.re, seq |-> pm.seq]], todo \ {x}, out \o pm.out)

RecvFwd(r0, cum, streams) ==
  IF TGe(r0.last, cum) THEN <<r0, <<>>, Sack(r0.last, r0.mis)>>
  ELSE LET r1 == Absorb([r0 EXCEPT !.last = cum, !.mis = {x \in @ : TGt(x, cum)}])
           fs == FwdStreams(r1, {x \in streams : (x \div 1000) \in Sids}, <<>>)
           upto == IF "PruneAllStreams" \in Dev THEN fs[1].last ELSE cum
           \* prune obsolete chunks; pruning may unblock messages queued behind them
           RECURSIVE PruneAll(_, _, _)
           PruneAll(r, todo, out) ==
             IF todo = {} THEN <<r, out>>
             ELSE LET sd == SetMin(todo)
                      st1 == [r.streams[sd] EXCEPT !.re = SelectSeq(@, LAMBDA t : TGt(t, upto))]
                      pm == IF "NoPopAfterPrune" \in Dev THEN [re |-> st1.re, seq |-> st1.seq, out |-> <<>>]
                            ELSE PopMessages(st1)
                  IN PruneAll([r EXCEPT !.streams[sd] = [re |-> pm.re, seq |-> pm.seq]], todo \ {sd}, out \o pm.out)
           pr == PruneAll(fs[1], Sids, fs[2])
           r2 == pr[1]
       IN <<r2, pr[2], Sack(r2.last, r2.mis)>>

-----------------------------------------------------------------------------
Init ==
  /\ snd = [next |-> 1, dcq |-> <<>>, outq |-> <<>>, sentq |-> <<>>, flight |-> 0,
            cwnd |-> 3 * MTU, ssthresh |-> 1048576, pba |-> 0, frOn |-> FALSE, frExit |-> 0, frTx |-> FALSE,
            lastSacked |-> W(0), adv |-> W(0), fwd |-> NoFwd, fwdPending |-> FALSE, fwdStreams |-> {},
            t3 |-> FALSE, expired |-> 0]
  /\ rcv = [last |-> W(0), mis |-> {}, streams |-> [sd \in Sids |-> [re |-> <<>>, seq |-> WS(0)]]]
  /\ net = {}
  /\ sentH = [c \in DOMAIN Chans |-> <<>>]
  /\ dlvH = [c \in DOMAIN Chans |-> <<>>]
  /\ badH = FALSE
  /\ nDrop = 0 /\ nDup = 0 /\ nT3 = 0 /\ healed = FALSE
  /\ act = [op |-> "init"]

Emit(out) == net' = net \cup {out[i] : i \in 1..Len(out)}
EmitFrom(base, out) == net' = base \cup {out[i] : i \in 1..Len(out)}

\* channel.send(): _data_channel_send + the _data_channel_flush task
ApiSend ==
  /\ snd.next <= Len(Msgs)
  /\ LET m == snd.next
         fl == Flush([snd EXCEPT !.next = @ + 1, !.dcq = Append(@, m)], <<>>)
     IN /\ snd' = fl[1]
        /\ Emit(fl[2])
        /\ sentH' = [sentH EXCEPT ![Msgs[m].ch] = Append(@, m)]
        /\ act' = [op |-> "send", m |-> m]
  /\ UNCHANGED <<rcv, dlvH, badH, nDrop, nDup, nT3, healed>>

Deliverable(out) ==   \* history update for delivered messages
  /\ dlvH' = [c \in DOMAIN Chans |->
                dlvH[c] \o SelectSeq([i \in 1..Len(out) |-> out[i].msg], LAMBDA m : Msgs[m].ch = c)]
  /\ badH' = (badH \/ \E i \in 1..Len(out) : ~out[i].ok)

Handle(p, keep) ==
  LET base == IF keep THEN net ELSE net \ {p} IN
  CASE p.k = "DATA" ->
         LET r == RecvData(rcv, p.a) IN
         /\ rcv' = r[1] /\ Deliverable(r[2]) /\ net' = base \cup {r[3]} /\ UNCHANGED snd
    [] p.k = "FWD" ->
         LET r == RecvFwd(rcv, p.a, p.st) IN
         /\ rcv' = r[1] /\ Deliverable(r[2]) /\ net' = base \cup {r[3]} /\ UNCHANGED snd
    [] p.k = "SACK" ->
         LET r == RecvSack(snd, p.a, p.g) IN
         /\ snd' = r[1] /\ EmitFrom(base, r[2]) /\ UNCHANGED <<rcv, dlvH, badH>>

Deliver(p) ==
  /\ p \in net /\ Handle(p, FALSE)
  /\ act' = [op |-> "deliver", p |-> p]
  /\ UNCHANGED <<sentH, nDrop, nDup, nT3, healed>>

Duplicate(p) ==
  /\ p \in net /\ ~healed /\ nDup < MaxDup /\ Handle(p, TRUE)
  /\ nDup' = nDup + 1
  /\ act' = [op |-> "dup", p |-> p]
  /\ UNCHANGED <<sentH, nDrop, nT3, healed>>

Drop(p) ==
  /\ p \in net /\ ~healed /\ nDrop < MaxDrop
  /\ net' = net \ {p} /\ nDrop' = nDrop + 1
  /\ act' = [op |-> "drop", p |-> p]
  /\ UNCHANGED <<snd, rcv, sentH, dlvH, badH, nDup, nT3, healed>>

T3Fire ==
  /\ snd.t3 /\ (healed \/ nT3 < MaxT3)
  /\ LET r == T3Expired(snd) IN snd' = r[1] /\ Emit(r[2])
  /\ nT3' = IF healed THEN nT3 ELSE nT3 + 1
  /\ act' = [op |-> "t3"]
  /\ UNCHANGED <<rcv, sentH, dlvH, badH, nDrop, nDup, healed>>

\* the wall clock passes the lifetime of every message flushed to SCTP so far (maxPacketLifeTime);
\* abandonment itself happens at the next strike or T3 expiry (_maybe_abandon reads the clock)
Expire ==
  /\ \E c \in DOMAIN Chans : Chans[c].life
  /\ snd.expired < snd.next - 1 - Len(snd.dcq)
  /\ snd' = [snd EXCEPT !.expired = snd.next - 1 - Len(snd.dcq)]   \* the expiry is stamped at flush time
  /\ act' = [op |-> "expire"]
  /\ UNCHANGED <<rcv, net, sentH, dlvH, badH, nDrop, nDup, nT3, healed>>

Heal ==
  /\ ~healed /\ healed' = TRUE
  /\ act' = [op |-> "heal"]
  /\ UNCHANGED <<snd, rcv, net, sentH, dlvH, badH, nDrop, nDup, nT3>>

\* after Heal, T3 only fires when the network is empty (a fault-free network delivers
\* within the retransmission time-out); this keeps the healed suffix finite
T3FireHealedOK == ~healed \/ net = {}

Next ==
  \/ ApiSend
  \/ \E p \in net : Deliver(p) \/ Duplicate(p) \/ Drop(p)
  \/ (T3FireHealedOK /\ T3Fire)
  \/ Expire
  \/ Heal

Spec == Init /\ [][Next]_vars
FairSpec == Spec /\ WF_vars(\E p \in net : Deliver(p)) /\ WF_vars(T3FireHealedOK /\ T3Fire) /\ WF_vars(ApiSend)

-----------------------------------------------------------------------------
(* Layer A clauses on the history variables.                                 *)

IsPrefixOf(s, t) == Len(s) <= Len(t) /\ \A i \in 1..Len(s) : s[i] = t[i]
NoDup(s) == \A i, j \in 1..Len(s) : i # j => s[i] # s[j]
SeqSet(s) == {s[i] : i \in 1..Len(s)}
Reliable(c) == Chans[c].maxRtx < 0 /\ ~Chans[c].life
Increasing(s) == \A i, j \in 1..Len(s) : i < j => s[i] < s[j]

\* C01: reliable channels - prefix (ordered) / duplicate-free subset (unordered), intact
C01_Delivery ==
  \A c \in DOMAIN Chans : Reliable(c) =>
     IF Chans[c].ordered THEN IsPrefixOf(dlvH[c], sentH[c])
     ELSE NoDup(dlvH[c]) /\ SeqSet(dlvH[c]) \subseteq SeqSet(sentH[c])
C01_Intact == ~badH

\* C06: partially reliable channels - exact copies, no duplicates, sending order if ordered
C06_Delivery ==
  \A c \in DOMAIN Chans : ~Reliable(c) =>
     /\ NoDup(dlvH[c]) /\ SeqSet(dlvH[c]) \subseteq SeqSet(sentH[c])
     /\ Chans[c].ordered => Increasing(dlvH[c])

\* C02: an association with work to do can always make progress ...
Work == snd.dcq # <<>> \/ snd.outq # <<>> \/ snd.sentq # <<>>
C02_NoDeadStall == Work => (snd.t3 \/ net # {})
\* ... and when it is idle and the network is empty nothing reliable is missing
C02_NoLoss ==
  (~Work /\ net = {} /\ snd.next > Len(Msgs)) =>
     \A c \in DOMAIN Chans : Reliable(c) => SeqSet(sentH[c]) = SeqSet(dlvH[c])
\* liveness form (checked under FairSpec on the small configuration)
Quiescent == ~Work /\ net = {}
C02_Drains == healed ~> Quiescent

\* C06: abandoning never blocks anything: once healed and at rest (nothing to send, empty
\* network, no timer), the receiver has caught up with the sender's advanced peer ack
\* point and holds no stranded chunk (a complete message left in a reassembly queue is a
\* blocked stream; fragments of abandoned messages must have been pruned)
AtRest == ~Work /\ net = {} /\ healed /\ ~snd.t3
C06_CaughtUp == AtRest => (TGe(rcv.last, snd.adv) /\ TGe(rcv.last, snd.lastSacked) /\ rcv.mis = {})
C06_NoOrphans == AtRest => \A sd \in Sids : rcv.streams[sd].re = <<>>

\* M-level sanity (not a property clause): the flight size is what is in flight
FlightConsistent ==
  LET q == snd.sentq
      RECURSIVE F(_)
      F(j) == IF j > Len(q) THEN 0 ELSE (IF q[j].infl THEN CT[q[j].tsn].size ELSE 0) + F(j + 1)
  IN snd.flight = F(1)

\* exploration bound used as CONSTRAINT by the exhaustive configurations
NetBound == Cardinality(net) <= MaxNet

\* witnesses (must be violated: the configuration exercises these mechanisms)
W_NoRetransmission == \A j \in 1..Len(snd.sentq) : snd.sentq[j].cnt <= 1
W_NoFastRecovery == ~snd.frOn
W_NoAbandon == TGe(snd.lastSacked, snd.adv)
W_NoReassembly == \A sd \in Sids : Len(rcv.streams[sd].re) <= 1
W_NotAllDelivered == ~(snd.next > Len(Msgs) /\ \A c \in DOMAIN Chans : SeqSet(sentH[c]) = SeqSet(dlvH[c]))
=============================================================================
