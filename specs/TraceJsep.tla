---------------------------- MODULE TraceJsep ----------------------------
(* Code -> spec direction for C14: judges NDJSON traces recorded from real  *)
(* RTCPeerConnection pairs with the table of Jsep.tla (Allowed / NextSig).  *)
(* Total verdict function: every trace runs to its end or to its first      *)
(* failing clause; one <<"RESULT", id, verdict, position>> line per trace.  *)
(*                                                                          *)
(* A trace is {id, init: {A: obs, B: obs}, steps: [step]} with              *)
(*   obs  = {sig, s}    s = one string naming the identities of the four     *)
(*                      slots, localDescription and remoteDescription      *)
(*   step = {p, op, type, ms, ice, mux, role,   the call and the facts of   *)
(*                                              the description passed in   *)
(*           out,                               "ok" or the exception class *)
(*           nms,                               media sections of the       *)
(*                                              description an implicit     *)
(*                                              setLocalDescription made    *)
(*           post: {A: obs, B: obs},            observation after the call  *)
(*           ev:   {A: [sig..], B: [sig..]}}    signalingState read at each *)
(*                                              signalingstatechange event  *)
(* The specification keeps, per peer, the signalling state the TABLE        *)
(* prescribes, the media sections of the pending offer, and the previous    *)
(* observation.  The slots after a successful call are not prescribed (the  *)
(* property text fixes them only for failing calls): they are adopted.      *)
EXTENDS Jsep, Json, IOUtils, TLCExt, SequencesExt

VARIABLES tid, l, verdict, done, ts

Traces == ndJsonDeserialize(IOEnv.TRACE_FILE)

tvars == <<vars, tid, l, verdict, done, ts>>

Ops == {"createOffer", "createAnswer", "setLocal", "setRemote", "close"}
Types == {"offer", "answer", "implicit", "none"}

TraceInit ==
  /\ Init
  /\ tid \in 1..Len(Traces)
  /\ l = 1 /\ done = FALSE
  /\ ts = [p \in Peers |-> [sig |-> "stable", haspend |-> FALSE, pend |-> <<>>,
                            obs |-> Traces[tid].init[p]]]
  \* a connection starts in "stable"
  /\ verdict = IF \A p \in Peers : Traces[tid].init[p].sig = "stable" THEN "ok" ELSE "C14.state"

Steps == Traces[tid].steps

Consume ==
  /\ ~done /\ verdict = "ok" /\ l <= Len(Steps)
  /\ l' = l + 1 /\ UNCHANGED <<vars, tid, done>>
  /\ LET ev == Steps[l] IN
     IF ~ (ev.op \in Ops /\ ev.type \in Types /\ ev.p \in Peers)
       THEN verdict' = "machinery.bad_step" /\ UNCHANGED ts
       ELSE
     LET p == ev.p
         q == Other(p)
         pre == ts[p]
         match == IF ev.type = "answer" /\ pre.haspend THEN ev.ms = pre.pend ELSE TRUE
         c == [op |-> ev.op, type |-> ev.type, ice |-> ev.ice, mux |-> ev.mux,
               role |-> ev.role, match |-> match]
         nsig == IF ev.out = OK THEN NextSig(pre.sig, c) ELSE pre.sig
         seen(r) == ToSet(ev.ev[r])      \* states shown by signalingstatechange events
         v == IF \E r \in Peers : /\ ts[r].sig = "closed"
                                  /\ (ev.post[r].sig # "closed" \/ seen(r) \ {"closed"} # {})
                THEN "C14.closed_absorbing"
              ELSE IF ev.out \notin Allowed(pre.sig, c)
                THEN "C14.outcome"
              ELSE IF ev.out # OK /\ (ev.post[p] # pre.obs \/ seen(p) \ {pre.sig} # {})
                THEN "C14.side_effect"
              \* only the peer that was called moves
              ELSE IF ev.post[q].sig # ts[q].sig \/ seen(q) \ {ts[q].sig} # {}
                THEN "C14.state"
              \* a successful call takes exactly the edge of the JSEP machine
              ELSE IF ev.post[p].sig # nsig \/ seen(p) \ {pre.sig, nsig} # {}
                THEN "C14.state"
              ELSE "ok"
         eff == EffType(pre.sig, c)
         applied == ev.out = OK /\ ev.op \in {"setLocal", "setRemote"}
     IN /\ verdict' = v
        /\ IF v # "ok" THEN UNCHANGED ts
           ELSE ts' = [r \in Peers |->
                  IF r = q THEN [ts[q] EXCEPT !.obs = ev.post[q]]
                  ELSE [sig |-> nsig,
                        haspend |-> IF applied THEN eff = "offer" ELSE pre.haspend,
                        pend |-> IF applied
                                   THEN (IF eff = "offer"
                                           THEN (IF ev.type = "implicit" THEN ev.nms ELSE ev.ms)
                                           ELSE <<>>)
                                   ELSE pre.pend,
                        obs |-> ev.post[p]]]

Finish ==
  /\ ~done /\ (verdict # "ok" \/ l > Len(Steps))
  /\ done' = TRUE
  /\ PrintT(<<"RESULT", Traces[tid].id, verdict, l - 1>>)
  /\ UNCHANGED <<vars, tid, l, verdict, ts>>

TraceNext == Consume \/ Finish

TraceSpec == TraceInit /\ [][TraceNext]_tvars
=============================================================================
