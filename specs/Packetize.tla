---------------------------- MODULE Packetize ----------------------------
(* C16 - H.264 (RFC 6184, packetization-mode 1) and VP8 (RFC 7741)        *)
(* packetisation is lossless and respects the payload size limit.         *)
(*                                                                        *)
(* This is the "self-contained function with rich case analysis" use of   *)
(* the technique (DESIGN 5/C16, 6).  The module has three parts:          *)
(*                                                                        *)
(*  A. the property:  ValidPacketization(input, payloads, limit), built   *)
(*     from the verdict functions H264Verdict / Vp8Verdict.  They judge   *)
(*     *descriptors* of payloads (length, first bytes, aggregated unit    *)
(*     lengths ...) plus reassembly facts, so that the same operators     *)
(*     judge the model's own byte sequences (small constants) and the     *)
(*     payloads recorded from the real packetiser at real sizes           *)
(*     (TracePacketize.tla).  Clause names are those of the property.     *)
(*  M. a packetiser shaped like the code under test (FU-A fragment        *)
(*     sizing, STAP-A budget, dispatch; VP8 descriptor + chunking), at    *)
(*     plan level (lengths only, usable at limit 1300) and at byte level  *)
(*     (bytes are distinct tokens, usable for small constants).           *)
(*  a small state machine that enumerates inputs; TLC checks that M       *)
(*     satisfies A exhaustively for the configured constants, and         *)
(*     -simulate with the real limit generates inputs + expected plans    *)
(*     for the spec -> code direction.                                    *)
EXTENDS Integers, Sequences, FiniteSets, SequencesExt, TLC

CONSTANTS Limits,      \* payload size limits explored (the real one is 1300)
          NalSizes,    \* sizes of the first MaxWide NAL units of a sequence
          SmallSizes,  \* sizes of the later NAL units
          Hdrs,        \* NAL header bytes (F | NRI | type 1..23) of the first MaxWide units
          SmallHdrs,   \* ... of the later units
          MaxNals,     \* NAL units per sequence
          MaxWide,
          MaxAgg,      \* at most this many units per STAP-A (9 in the code)
          VpSizes,     \* VP8 frame buffer sizes
          VpPids,      \* picture id of the first VP8 frame
          MaxFrames,   \* VP8 frames per behaviour (picture id increments mod 2^15)
          ByteLevel,   \* TRUE: check ValidPacketization on byte sequences
          TwoPhase     \* TRUE (simulation): choosing an input and computing its plan are
                       \* separate steps, so that TLC does not plan every candidate successor

VARIABLES codec,   \* "init" | "h264" | "vp8"
          lim,     \* the payload size limit of this behaviour
          nals,    \* H.264 input: sequence of [hdr, len]
          vn, vpid, vcnt,   \* VP8 input: buffer size, picture id, frames so far
          act      \* history: the input and the model packetiser's plan (for replay)

vars == <<codec, lim, nals, vn, vpid, vcnt, act>>

------------------------------------------------------------------------
(* Bit fields.                                                           *)

Typ(b)  == b % 32              \* NAL unit type / FU type
FNri(b) == (b \div 32) * 32    \* F and NRI bits of a NAL header / FU indicator
FBit(b) == b \div 128
Nri(b)  == (b \div 32) % 4
SBit(b) == b \div 128          \* FU header: start
EBit(b) == (b \div 64) % 2     \* FU header: end

CeilDiv(a, b) == (a + b - 1) \div b
Min2(a, b) == IF a < b THEN a ELSE b
Max2(a, b) == IF a > b THEN a ELSE b

SumSeq(s) == FoldLeft(LAMBDA a, b : a + b, 0, s)

StartCode == <<0, 0, 0, 1>>

\* TLC keeps [i \in 1..n |-> e] as a lambda and re-evaluates e on every application;
\* concatenation turns it into an explicit tuple (each element evaluated once).
Force(s) == <<>> \o s

------------------------------------------------------------------------
(* A.  The property, over payload descriptors.                           *)
(*                                                                       *)
(* H.264 input:  ns = sequence of [hdr, len, eq]; eq = "the i-th NAL     *)
(*   unit of the depacketised, concatenated stream is byte-identical to  *)
(*   the i-th input NAL unit".                                           *)
(* H.264 payload descriptor d:                                           *)
(*   len   payload length            b0, b1  first two bytes             *)
(*   units, uh   STAP-A: the 16-bit length prefixes met when walking the *)
(*               payload and the first byte of each unit                 *)
(*   walk  STAP-A: the walk ended exactly at the end of the payload      *)
(* re = [nout, garbage]: number of NAL units in the depacketised stream, *)
(*   bytes outside any NAL unit seen.                                    *)

\* One pass over the payloads in order (a fold: FoldLeft is evaluated iteratively by TLC,
\* a recursive operator would overflow the stack on frames of several hundred payloads).
\* st.k = next input NAL unit, st.infu = inside a fragmented unit, st.acc = fragment
\* bytes so far, st.v / st.pos = first failing clause and its payload index.
H264Step(ns, ds, st, i) ==
  IF st.v # "ok" THEN st
  ELSE
    LET d == ds[i]
        t == Typ(d.b0)
        k == st.k
        Fail(c, p) == [st EXCEPT !.v = c, !.pos = p]
    IN
    IF st.infu /\ t # 28 THEN Fail("C16.fua_markers", i)       \* fragment run not ended
    ELSE IF t \in 1..23 THEN                                   \* single NAL unit packet
      (IF k > Len(ns) \/ d.len # ns[k].len \/ d.b0 # ns[k].hdr \/ ~ns[k].eq
         THEN Fail("C16.reassembly", i)
         ELSE [st EXCEPT !.k = k + 1])
    ELSE IF t = 24 THEN                                        \* STAP-A: every unit whole, in order
      LET m == Len(d.units) IN
      (IF \/ ~d.walk \/ m = 0 \/ k + m - 1 > Len(ns)
          \/ \E j \in 1..m : \/ d.units[j] # ns[k + j - 1].len
                             \/ d.uh[j] # ns[k + j - 1].hdr
                             \/ ~ns[k + j - 1].eq
         THEN Fail("C16.stap_whole", i)
         ELSE [st EXCEPT !.k = k + m])
    ELSE IF t = 28 THEN                                        \* FU-A fragment
      (IF d.len < 2 \/ k > Len(ns) THEN Fail("C16.reassembly", i)
       ELSE IF SBit(d.b1) # (IF st.infu THEN 0 ELSE 1) THEN Fail("C16.fua_markers", i)
       ELSE IF FNri(d.b0) + Typ(d.b1) # ns[k].hdr THEN Fail("C16.fua_header", i)
       ELSE
         LET acc == (IF st.infu THEN st.acc ELSE 0) + d.len - 2 IN
         IF EBit(d.b1) = 1 THEN
           (IF i < Len(ds) /\ Typ(ds[i + 1].b0) = 28 /\ ds[i + 1].len >= 2 /\ SBit(ds[i + 1].b1) = 0
              THEN Fail("C16.fua_markers", i + 1)              \* fragment after the end marker
            ELSE IF acc + 1 # ns[k].len \/ ~ns[k].eq THEN Fail("C16.reassembly", i)
            ELSE [st EXCEPT !.k = k + 1, !.infu = FALSE, !.acc = 0])
         ELSE [st EXCEPT !.infu = TRUE, !.acc = acc])
    ELSE Fail("C16.reassembly", i)                             \* cannot be depacketised

H264Walk(ns, ds) ==
  LET fin == FoldLeft(LAMBDA st, i : H264Step(ns, ds, st, i),
                      [k |-> 1, infu |-> FALSE, acc |-> 0, v |-> "ok", pos |-> 0],
                      [i \in 1..Len(ds) |-> i])
  IN IF fin.v # "ok" THEN <<fin.v, fin.pos>>
     ELSE IF fin.infu THEN <<"C16.fua_markers", Len(ds)>>         \* no end marker
     ELSE IF fin.k # Len(ns) + 1 THEN <<"C16.reassembly", Len(ds)>>  \* units missing
     ELSE <<"ok", 0>>

H264Verdict(ns, ds, re, limit) ==
  LET over == {i \in 1..Len(ds) : ds[i].len > limit} IN
  IF over # {} THEN <<"C16.size_limit", CHOOSE i \in over : \A j \in over : i <= j>>
  ELSE LET w == H264Walk(ns, ds) IN
       IF w[1] # "ok" THEN w
       ELSE IF re.nout # Len(ns) \/ re.garbage THEN <<"C16.reassembly", 0>>
       ELSE <<"ok", 0>>

(* VP8 payload descriptor (RFC 7741 4.2), decoded from the first four    *)
(* bytes d of a payload of length len:                                   *)
(*    |X|R|N|S|R| PID |   |I|L|T|K| RSV |   |M| PictureID (7 or 15) |    *)
Vp8Decode(d, len) ==
  LET n  == Min2(len, Len(d))
      x  == IF n >= 1 THEN d[1] \div 128 ELSE 0
      s  == IF n >= 1 THEN (d[1] \div 16) % 2 ELSE 0
      eb == IF x = 1 /\ n >= 2 THEN d[2] ELSE 0
      i  == eb \div 128
      l  == (eb \div 64) % 2
      tk == IF (eb \div 16) % 4 # 0 THEN 1 ELSE 0
      m  == IF i = 1 /\ n >= 3 THEN d[3] \div 128 ELSE 0
      has == x = 1 /\ i = 1 /\ n >= 3 + m
  IN [ok   |-> n >= 1 /\ (x = 0 \/ n >= 2),
      s    |-> s,
      has  |-> has,
      pid  |-> IF ~has THEN -1 ELSE IF m = 1 THEN (d[3] % 128) * 256 + d[4] ELSE d[3],
      dlen |-> 1 + x * (1 + i * (1 + m) + l + tk)]

\* fr = [n, pid, eq, olen]: buffer size, the frame's picture id, depacketised
\* concatenation equals the buffer, its length.  ds[i] = [len, d, ppid] with ppid the
\* picture id the real descriptor parser returned (-1: none).
Vp8Verdict(fr, ds, limit) ==
  LET N == Len(ds)
      dec == Force([i \in 1..N |-> Vp8Decode(ds[i].d, ds[i].len)])
      over == {i \in 1..N : ds[i].len > limit}
      badS == {i \in 1..N : dec[i].s # (IF i = 1 THEN 1 ELSE 0)}
      badP == {i \in 1..N : ~dec[i].has \/ dec[i].pid # fr.pid \/ ds[i].ppid # fr.pid}
      badD == {i \in 1..N : ~dec[i].ok \/ dec[i].dlen > ds[i].len}
      First(S) == CHOOSE i \in S : \A j \in S : i <= j
  IN IF over # {} THEN <<"C16.size_limit", First(over)>>
     ELSE IF badS # {} THEN <<"C16.vp8_start_bit", First(badS)>>
     ELSE IF badP # {} THEN <<"C16.vp8_picture_id", First(badP)>>
     ELSE IF badD # {} THEN <<"C16.reassembly", First(badD)>>
     ELSE IF \/ SumSeq([i \in 1..N |-> ds[i].len - dec[i].dlen]) # fr.n
             \/ fr.olen # fr.n \/ ~fr.eq THEN <<"C16.reassembly", 0>>
     ELSE <<"ok", 0>>

------------------------------------------------------------------------
(* M.  The packetiser, plan level (lengths and header bytes only).       *)

\* FU-A: a NAL unit of len bytes (1 header + len-1 body) is cut into the least number
\* of fragments whose payload fits limit-2, sizes differing by at most one.
FuaSizes(len, limit) ==
  LET psize == len - 1
      n == CeilDiv(psize, limit - 2)
      big == psize % n
      base == psize \div n
  IN Force([i \in 1..n |-> IF i <= big THEN base + 1 ELSE base])

RECURSIVE PrefixSum(_, _)
PrefixSum(s, i) == IF i = 0 THEN 0 ELSE s[i] + PrefixSum(s, i - 1)

FuaItems(i, len, limit) ==
  LET sz == FuaSizes(len, limit) IN
  [j \in 1..Len(sz) |-> [k |-> "fua", i |-> i, off |-> PrefixSum(sz, j - 1), n |-> sz[j],
                         s |-> IF j = 1 THEN 1 ELSE 0, e |-> IF j = Len(sz) THEN 1 ELSE 0]]

\* STAP-A: greedy; a unit is added while it fits the remaining budget (limit - 1 header
\* - 2 length bytes) and fewer than maxagg units are in; each unit costs 2 + its length.
RECURSIVE AggFrom(_, _, _, _, _)
AggFrom(ns, j, budget, cnt, maxagg) ==
  IF j <= Len(ns) /\ cnt < maxagg /\ ns[j].len <= budget
    THEN 1 + AggFrom(ns, j + 1, budget - 2 - ns[j].len, cnt + 1, maxagg)
    ELSE 0

\* Dispatch: > limit -> FU-A; else aggregate with the following units if at least two fit.
RECURSIVE PlanFrom(_, _, _, _)
PlanFrom(ns, i, limit, maxagg) ==
  IF i > Len(ns) THEN <<>>
  ELSE IF ns[i].len > limit
    THEN FuaItems(i, ns[i].len, limit) \o PlanFrom(ns, i + 1, limit, maxagg)
  ELSE LET m == AggFrom(ns, i, limit - 3, 0, maxagg) IN
       IF m <= 1 THEN <<[k |-> "single", i |-> i]>> \o PlanFrom(ns, i + 1, limit, maxagg)
       ELSE <<[k |-> "stap", i |-> i, m |-> m]>> \o PlanFrom(ns, i + m, limit, maxagg)

H264Plan(ns, limit, maxagg) == PlanFrom(ns, 1, limit, maxagg)

\* STAP-A header: type 24, F = OR of the units' F bits, NRI = their maximum.
MaxSet(S) == CHOOSE x \in S : \A y \in S : y <= x
StapHdr(ns, i, m) ==
  128 * MaxSet({FBit(ns[i + j - 1].hdr) : j \in 1..m}) + 32 * MaxSet({Nri(ns[i + j - 1].hdr) : j \in 1..m}) + 24

\* The descriptor of a planned payload (what the harness would log for it).
PlanDesc(ns, it) ==
  CASE it.k = "single" ->
         [len |-> ns[it.i].len, b0 |-> ns[it.i].hdr, b1 |-> 0, units |-> <<>>, uh |-> <<>>, walk |-> TRUE]
    [] it.k = "stap" ->
         [len |-> 1 + SumSeq([j \in 1..it.m |-> 2 + ns[it.i + j - 1].len]),
          b0 |-> StapHdr(ns, it.i, it.m), b1 |-> 0,
          units |-> [j \in 1..it.m |-> ns[it.i + j - 1].len],
          uh |-> [j \in 1..it.m |-> ns[it.i + j - 1].hdr], walk |-> TRUE]
    [] it.k = "fua" ->
         [len |-> 2 + it.n, b0 |-> FNri(ns[it.i].hdr) + 28,
          b1 |-> 128 * it.s + 64 * it.e + Typ(ns[it.i].hdr),
          units |-> <<>>, uh |-> <<>>, walk |-> TRUE]

PlanKind(it) == it.k
PlanDescs(ns, plan) == Force([j \in 1..Len(plan) |-> PlanDesc(ns, plan[j])])

\* VP8: descriptor X=1, S on the first packet only, PID 0, I=1, picture id in the 7-bit
\* form below 128 and the 15-bit form (M=1) from 128; the buffer is cut into chunks of
\* limit - descriptor length.
Vp8DescLen(pid) == IF pid < 128 THEN 3 ELSE 4
Vp8DescBytes(s, pid) ==
  <<128 + 16 * s, 128>> \o (IF pid < 128 THEN <<pid>> ELSE <<128 + pid \div 256, pid % 256>>)
Vp8ChunkSizes(n, pid, limit) ==
  LET c == limit - Vp8DescLen(pid)
      cnt == CeilDiv(n, c)
  IN Force([j \in 1..cnt |-> IF j < cnt THEN c ELSE n - (cnt - 1) * c])
Vp8PlanLens(n, pid, limit) ==
  LET cs == Vp8ChunkSizes(n, pid, limit) IN [j \in 1..Len(cs) |-> Vp8DescLen(pid) + cs[j]]

\* Picture id round trip through the descriptor layout, for every 15-bit value and
\* both values of S (checked once by TLC as an ASSUME-like invariant of Init).
PicIdRoundTrip ==
  \A pid \in 0..32767 : \A s \in {0, 1} :
    LET d == Vp8DescBytes(s, pid)
        r == Vp8Decode(d, Len(d))
    IN r.ok /\ r.has /\ r.pid = pid /\ r.s = s /\ r.dlen = Len(d) /\ Len(d) = Vp8DescLen(pid)

------------------------------------------------------------------------
(* M, byte level.  Body bytes are distinct tokens so that any loss,      *)
(* duplication or reordering changes the reassembled sequence.           *)

Tok(i, j) == 1000 + 100 * i + j
NalBytes(i, nal) == <<nal.hdr>> \o [j \in 1..(nal.len - 1) |-> Tok(i, j)]
Bitstream(ns) == FlattenSeq([i \in 1..Len(ns) |-> StartCode \o NalBytes(i, ns[i])])

PayloadBytes(ns, it) ==
  CASE it.k = "single" -> NalBytes(it.i, ns[it.i])
    [] it.k = "stap" ->
         <<StapHdr(ns, it.i, it.m)>> \o
         FlattenSeq([j \in 1..it.m |->
            LET nal == ns[it.i + j - 1] IN <<nal.len \div 256, nal.len % 256>> \o NalBytes(it.i + j - 1, nal)])
    [] it.k = "fua" ->
         <<FNri(ns[it.i].hdr) + 28, 128 * it.s + 64 * it.e + Typ(ns[it.i].hdr)>> \o
         [j \in 1..it.n |-> Tok(it.i, it.off + j)]

H264Packetize(ns, limit, maxagg) ==
  LET plan == H264Plan(ns, limit, maxagg) IN Force([j \in 1..Len(plan) |-> PayloadBytes(ns, plan[j])])

\* Walk of a STAP-A payload from position pos: length prefixes, first bytes, exact end.
RECURSIVE StapWalk(_, _)
StapWalk(p, pos) ==
  IF pos > Len(p) THEN [units |-> <<>>, uh |-> <<>>, ok |-> TRUE]
  ELSE IF pos + 1 > Len(p) THEN [units |-> <<>>, uh |-> <<>>, ok |-> FALSE]
  ELSE LET L == p[pos] * 256 + p[pos + 1] IN
       IF pos + 1 + L > Len(p) \/ L = 0
         THEN [units |-> <<L>>, uh |-> <<0>>, ok |-> FALSE]
         ELSE LET r == StapWalk(p, pos + 2 + L) IN
              [units |-> <<L>> \o r.units, uh |-> <<p[pos + 2]>> \o r.uh, ok |-> r.ok]

\* The abstraction from payload bytes to the descriptor (the harness does the same on
\* the real bytes).
Describe(p) ==
  LET w == IF Len(p) >= 1 /\ Typ(p[1]) = 24 THEN StapWalk(p, 2)
           ELSE [units |-> <<>>, uh |-> <<>>, ok |-> TRUE]
  IN [len |-> Len(p), b0 |-> IF Len(p) >= 1 THEN p[1] ELSE 0, b1 |-> IF Len(p) >= 2 THEN p[2] ELSE 0,
      units |-> w.units, uh |-> w.uh, walk |-> w.ok]

\* RFC 6184 receiver, per payload (single NAL unit, STAP-A, FU-A), Annex B output.
RECURSIVE StapOut(_, _)
StapOut(p, pos) ==
  IF pos + 1 > Len(p) THEN <<>>
  ELSE LET L == p[pos] * 256 + p[pos + 1] IN
       StartCode \o SubSeq(p, pos + 2, Min2(Len(p), pos + 1 + L)) \o StapOut(p, pos + 2 + L)

Depay(p) ==
  LET t == Typ(p[1]) IN
  IF t \in 1..23 THEN StartCode \o p
  ELSE IF t = 24 THEN StapOut(p, 2)
  ELSE IF t = 28 THEN (IF SBit(p[2]) = 1 THEN StartCode \o <<FNri(p[1]) + Typ(p[2])>> ELSE <<>>)
                      \o SubSeq(p, 3, Len(p))
  ELSE <<>>

Vp8Bytes(n) == [j \in 1..n |-> 1000 + j]
Vp8Packetize(n, pid, limit) ==
  LET cs == Vp8ChunkSizes(n, pid, limit)
      buf == Vp8Bytes(n)
  IN Force([j \in 1..Len(cs) |-> Vp8DescBytes(IF j = 1 THEN 1 ELSE 0, pid)
                           \o SubSeq(buf, PrefixSum(cs, j - 1) + 1, PrefixSum(cs, j))])
Vp8Depay(p) == SubSeq(p, Vp8Decode(SubSeq(p, 1, Min2(4, Len(p))), Len(p)).dlen + 1, Len(p))
Vp8Describe(p) ==
  LET d == SubSeq(p, 1, Min2(4, Len(p))) IN
  [len |-> Len(p), d |-> d, ppid |-> Vp8Decode(d, Len(p)).pid]

------------------------------------------------------------------------
(* The property as one predicate over byte sequences.                    *)
(*   input = [codec |-> "h264", nals |-> seq of [hdr, len]]   (bytes are NalBytes)   *)
(*         | [codec |-> "vp8", n |-> size, pid |-> picture id] (bytes are Vp8Bytes)  *)

ValidPacketization(input, payloads, limit) ==
  IF input.codec = "h264" THEN
    LET ns == input.nals
        out == FlattenSeq([j \in 1..Len(payloads) |-> Depay(payloads[j])])
        same == out = Bitstream(ns)
        ans == [i \in 1..Len(ns) |-> [hdr |-> ns[i].hdr, len |-> ns[i].len, eq |-> same]]
        re == [nout |-> IF same THEN Len(ns) ELSE 0, garbage |-> FALSE]
    IN H264Verdict(Force(ans), Force([j \in 1..Len(payloads) |-> Describe(payloads[j])]), re, limit)[1] = "ok"
  ELSE
    LET out == FlattenSeq([j \in 1..Len(payloads) |-> Vp8Depay(payloads[j])])
        fr == [n |-> input.n, pid |-> input.pid, eq |-> out = Vp8Bytes(input.n), olen |-> Len(out)]
    IN Vp8Verdict(fr, Force([j \in 1..Len(payloads) |-> Vp8Describe(payloads[j])]), limit)[1] = "ok"

\* The same judgement on the plan only (no bytes): usable at the real limit.
PlanValid(ns, plan, limit) ==
  LET ans == [i \in 1..Len(ns) |-> [hdr |-> ns[i].hdr, len |-> ns[i].len, eq |-> TRUE]]
  IN H264Verdict(Force(ans), PlanDescs(ns, plan), [nout |-> Len(ns), garbage |-> FALSE], limit)[1] = "ok"

------------------------------------------------------------------------
(* Input enumeration.                                                    *)

Init ==
  /\ codec = "init" /\ lim \in Limits /\ nals = <<>>
  /\ vn = 0 /\ vpid = 0 /\ vcnt = 0
  /\ act = [op |-> "init"]

H264Act(ns, l) ==
  LET plan == H264Plan(ns, l, MaxAgg) IN
  [op |-> "h264", limit |-> l, nals |-> ns,
   kinds |-> [j \in 1..Len(plan) |-> plan[j].k],
   lens |-> [j \in 1..Len(plan) |-> PlanDesc(ns, plan[j]).len]]
Vp8Act(n, p, l) == [op |-> "vp8", limit |-> l, n |-> n, pid |-> p, lens |-> Vp8PlanLens(n, p, l)]

AddNal ==
  /\ codec \in {"init", "h264"} /\ Len(nals) < MaxNals /\ act.op # "pick"
  /\ \E h \in (IF Len(nals) < MaxWide THEN Hdrs ELSE SmallHdrs),
        s \in (IF Len(nals) < MaxWide THEN NalSizes ELSE SmallSizes) :
       /\ nals' = Append(nals, [hdr |-> h, len |-> s])
       /\ act' = IF TwoPhase THEN [op |-> "pick"] ELSE H264Act(nals', lim)
  /\ codec' = "h264" /\ UNCHANGED <<lim, vn, vpid, vcnt>>

Vp8Frame ==
  /\ codec \in {"init", "vp8"} /\ vcnt < MaxFrames /\ act.op # "pick"
  /\ \E n \in VpSizes :
       /\ vn' = n
       /\ IF codec = "init" THEN vpid' \in VpPids ELSE vpid' = (vpid + 1) % 32768
       /\ act' = IF TwoPhase THEN [op |-> "pick"] ELSE Vp8Act(n, vpid', lim)
  /\ codec' = "vp8" /\ vcnt' = vcnt + 1 /\ UNCHANGED <<lim, nals>>

Plan ==
  /\ TwoPhase /\ act.op = "pick"
  /\ act' = IF codec = "h264" THEN H264Act(nals, lim) ELSE Vp8Act(vn, vpid, lim)
  /\ UNCHANGED <<codec, lim, nals, vn, vpid, vcnt>>

Next == AddNal \/ Vp8Frame \/ Plan

Spec == Init /\ [][Next]_vars

View == <<codec, lim, nals, vn, vpid, vcnt>>

------------------------------------------------------------------------
(* Design-level theorems.                                                *)

Input == IF codec = "h264" THEN [codec |-> "h264", nals |-> nals]
         ELSE [codec |-> "vp8", n |-> vn, pid |-> vpid]
Output == IF codec = "h264" THEN H264Packetize(nals, lim, MaxAgg) ELSE Vp8Packetize(vn, vpid, lim)

\* The model's packetiser satisfies the property (bytes; small constants).
PacketizerValid ==
  (ByteLevel /\ codec # "init") => ValidPacketization(Input, Output, lim)

\* ... and its plan satisfies the structural clauses (any constants, used at limit 1300).
PlanIsValid ==
  /\ codec = "h264" =>
       LET plan == H264Plan(nals, lim, MaxAgg) IN
       /\ PlanValid(nals, plan, lim)
       /\ ByteLevel => \A j \in 1..Len(plan) :
             LET a == PlanDesc(nals, plan[j])
                 b == Describe(PayloadBytes(nals, plan[j]))
             IN a.len = b.len /\ a.b0 = b.b0 /\ a.units = b.units /\ a.uh = b.uh /\ b.walk
                /\ (plan[j].k = "fua" => a.b1 = b.b1)
  /\ codec = "vp8" =>
       LET ls == Vp8PlanLens(vn, vpid, lim) IN
       /\ \A j \in 1..Len(ls) : ls[j] <= lim /\ ls[j] > Vp8DescLen(vpid)
       /\ SumSeq(ls) = vn + Len(ls) * Vp8DescLen(vpid)

\* Evaluated in one initial state only (it does not depend on the state).
PicIdLemma == (codec = "init" /\ \A l \in Limits : lim <= l) => PicIdRoundTrip

\* The verdict functions are not vacuous: damaging the model's own output in one
\* place is rejected with the expected clause (checked in every state that has the
\* required shape).
Damaged ==
  /\ (ByteLevel /\ codec = "h264") =>
       LET plan == H264Plan(nals, lim, MaxAgg)
           ds == PlanDescs(nals, plan)
           ans == Force([i \in 1..Len(nals) |-> [hdr |-> nals[i].hdr, len |-> nals[i].len, eq |-> TRUE]])
           re == [nout |-> Len(nals), garbage |-> FALSE]
           V(x) == H264Verdict(ans, x, re, lim)[1]
       IN \A j \in 1..Len(ds) :
            /\ V([ds EXCEPT ![j].len = lim + 1]) = "C16.size_limit"
            /\ plan[j].k = "fua" =>
                 /\ V([ds EXCEPT ![j].b1 = 128 * (1 - plan[j].s) + (ds[j].b1 % 128)]) = "C16.fua_markers"
                 /\ V([ds EXCEPT ![j].b1 = (ds[j].b1 \div 128) * 128 + 64 * (1 - plan[j].e) + (ds[j].b1 % 64)])
                      = "C16.fua_markers"
                 /\ V([ds EXCEPT ![j].b0 = ((ds[j].b0 + 32) % 128) + 128 * (ds[j].b0 \div 128)]) = "C16.fua_header"
                 /\ V([ds EXCEPT ![j].len = @ - 1]) = "C16.reassembly"
            /\ plan[j].k = "stap" =>
                 /\ V([ds EXCEPT ![j].units[1] = @ + 1]) = "C16.stap_whole"
                 /\ V([ds EXCEPT ![j].walk = FALSE]) = "C16.stap_whole"
            /\ plan[j].k = "single" => V([ds EXCEPT ![j].len = @ + 1]) \in {"C16.reassembly", "C16.size_limit"}
  /\ (ByteLevel /\ codec = "vp8" /\ vn > 0) =>
       LET ps == Vp8Packetize(vn, vpid, lim)
           ds == Force([j \in 1..Len(ps) |-> Vp8Describe(ps[j])])
           fr == [n |-> vn, pid |-> vpid, eq |-> TRUE, olen |-> vn]
           V(x) == Vp8Verdict(fr, x, lim)[1]
       IN \A j \in 1..Len(ds) :
            /\ V([ds EXCEPT ![j].d[1] = IF j = 1 THEN @ - 16 ELSE @ + 16]) = "C16.vp8_start_bit"
            /\ V([ds EXCEPT ![j].d[3] = IF @ % 2 = 0 THEN @ + 1 ELSE @ - 1]) = "C16.vp8_picture_id"
            /\ V([ds EXCEPT ![j].ppid = (vpid + 1) % 32768]) = "C16.vp8_picture_id"
            /\ V([ds EXCEPT ![j].len = @ + 1]) \in {"C16.reassembly", "C16.size_limit"}

------------------------------------------------------------------------
(* Witnesses (each must be VIOLATED: the interesting cases are reachable) *)

HasKind(k) == codec = "h264" /\ \E j \in 1..Len(act.kinds) : act.kinds[j] = k

\* a NAL unit whose body is an exact multiple of the fragment payload size is fragmented
WitnessNoExactFua ==
  ~ (HasKind("fua") /\ \E i \in 1..Len(nals) : nals[i].len > lim /\ (nals[i].len - 1) % (lim - 2) = 0)
\* uneven fragments
WitnessNoUnevenFua ==
  ~ (HasKind("fua") /\ \E i \in 1..Len(nals) : nals[i].len > lim /\ (nals[i].len - 1) % CeilDiv(nals[i].len - 1, lim - 2) # 0)
\* a STAP-A that fills the payload limit exactly, followed by something else
WitnessNoFullStap ==
  ~ (HasKind("stap") /\ \E j \in 1..Len(act.lens) : act.kinds[j] = "stap" /\ act.lens[j] = lim /\ j < Len(act.lens))
\* an aggregation stopped by the unit-count cap
WitnessNoAggCap ==
  ~ (codec = "h264" /\ LET plan == H264Plan(nals, lim, MaxAgg) IN
       \E j \in 1..Len(plan) :
          /\ plan[j].k = "stap" /\ plan[j].m = MaxAgg /\ plan[j].i + MaxAgg <= Len(nals)
          /\ PlanDesc(nals, plan[j]).len + 2 + nals[plan[j].i + MaxAgg].len <= lim)
\* single, STAP-A and FU-A in one sequence
WitnessNoMixture == ~ (HasKind("single") /\ HasKind("stap") /\ HasKind("fua"))
\* a multi-packet VP8 frame whose last chunk is full
WitnessNoVp8Full ==
  ~ (codec = "vp8" /\ Len(act.lens) >= 2 /\ act.lens[Len(act.lens)] = lim)
\* the picture id wraps from 32767 to 0
WitnessNoPidWrap == ~ (codec = "vp8" /\ vcnt >= 2 /\ vpid = 0)

\* Combined witnesses: all the H.264 (resp. VP8) boundary cases in one input.
WitnessNoRichH264 == WitnessNoExactFua \/ WitnessNoFullStap \/ WitnessNoAggCap
WitnessNoRichVp8 == WitnessNoVp8Full \/ WitnessNoPidWrap

=============================================================================
