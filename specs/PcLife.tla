------------------------------- MODULE PcLife -------------------------------
(***************************************************************************)
(* C19 - close() always completes, is idempotent and leaves nothing        *)
(* running.  Lifecycle model of ONE RTCPeerConnection (the other side is   *)
(* environment: it answers ICE checks / the DTLS handshake / SCTP while it *)
(* is alive and may go away at any time).                                  *)
(*                                                                         *)
(* Layer A (the oracle shared with TracePcLife.tla) is the pair of         *)
(* operators StateClause / FinalClause over an *observation* record -      *)
(* exactly what the property statement names: signalling / ICE /           *)
(* connection state, data channel states, received tracks, the task and    *)
(* thread census.                                                          *)
(*                                                                         *)
(* Layer M is shaped like the code.  The whole state is one record `st`;   *)
(* every handler of the code is a pure operator over that record, and one  *)
(* TLA+ action is one run-to-suspension step of a coroutine / task of the  *)
(* real event loop (the labels are the await points = the interruption     *)
(* points of the property):                                                *)
(*   Connect c   RTCPeerConnection.__connect (spawned by setLocal- and     *)
(*               setRemoteDescription): iceconn, icewait, icefix, dtlshs   *)
(*   Close k     RTCPeerConnection.close (two user calls + the automatic   *)
(*               one): waitfut, rcvstarted, rcvexited, sndstarted,         *)
(*               sndexited, consent, proto, mon                            *)
(*   tasks       ICE monitor, aioice check + consent, DTLS pump, sender     *)
(*               RTP/RTCP, receiver RTCP;  thread: decoder                 *)
(*   SetLocal / SetRemote  negotiation calls with their await              *)
(* `Deviations` re-enables, in the model only, defects that exist(ed) in   *)
(* the code; with Deviations = {} the design satisfies the property.       *)
(***************************************************************************)
EXTENDS Naturals, Sequences, FiniteSets, TLC

CONSTANTS Shapes,       \* subset of {"m", "d", "md", "md2"}: media / data channel / both bundled / two transports
          Roles,        \* subset of {"offerer", "answerer"}
          PeerGoes,     \* subset of BOOLEAN: may the remote side go away?
          Deviations,   \* subset of AllDeviations: defects re-enabled in every configuration
          DevSel,       \* subset of AllDeviations \cup {"none"}: one extra deviation chosen per configuration
          AppChans,     \* subset of {0, 1}: data channels the application may create at ANY time before close()
          Levels,       \* subset of Nat: earliest level of the first close() (simulation only; {0} otherwise)
          Users         \* subset of {"u1","u2"}: user close() calls available

Configs ==
  {[nt |-> IF x = "md2" THEN 2 ELSE 1, media |-> x \in {"m", "md", "md2"}, dc |-> x \in {"d", "md", "md2"},
    role |-> r, pg |-> g, dev |-> d, lvl |-> v, app |-> a] :
     x \in Shapes, r \in Roles, g \in PeerGoes, d \in DevSel, v \in Levels, a \in AppChans}

AllDeviations == {"ConsentAfterClose",  \* ice.start() ignores that stop() overtook aioice connect()
                  "SigAfterClose",      \* setRemoteDescription never looks at the closed latch
                  "TrackNotEnded",      \* receiver.stop() of a never started receiver does not end the track
                  "MediaAfterClose",    \* __connect goes on after close() (handshake finishing late)
                  "NoRtcpWait",         \* receiver.stop() cancels without waiting for rtcp_started
                  "SkipSctpStop",       \* close() skips sctp.stop()
                  "NotIdempotent",      \* second close() signals again
                  "DecoderNotJoined",   \* receiver.stop() leaves the decoder thread
                  "SctpStopGuard",      \* sctp.stop() returns at once when the association already died by itself
                  "ChanOnClosed",       \* createDataChannel works on a closed connection (no closed latch check)
                  "StartEventSkipped",  \* ice.start() interrupted by stop() returns without setting its `started` event
                  "ReconfigTimerSurvivesStop"}  \* sctp _set_state(CLOSED) leaves the RE-CONFIG retransmission timer armed

ASSUME Deviations \subseteq AllDeviations /\ DevSel \subseteq AllDeviations \cup {"none"} /\ Levels \subseteq Nat /\ AppChans \subseteq {0, 1}
ASSUME Users \subseteq {"u1", "u2"}
ASSUME Shapes \subseteq {"m", "d", "md", "md2"} /\ Roles \subseteq {"offerer", "answerer"} /\ PeerGoes \subseteq BOOLEAN

VARIABLES st, act
vars == <<st, act>>
View == st

Dev(s, d) == d \in Deviations \/ s.cfg.dev = d

T  == {1, 2}                       \* transports (only 1..cfg.nt exist)
C  == {1, 2}                       \* __connect coroutines
K  == {"u1", "u2", "auto"}         \* close() coroutines

-----------------------------------------------------------------------------
(* Layer A: the post-conditions of the property over an observation.        *)

SeqAll(seq, v) == \A i \in DOMAIN seq : seq[i] = v

\* all clauses an observation violates, in a fixed order.  `final` observations are taken
\* once everything had time to settle and carry the track / task / thread census.
FailingClauses(o, final) ==
  (IF o.sig # "closed" \/ o.ice # "closed" \/ o.conn # "closed" THEN <<"C19.state_not_closed">> ELSE <<>>) \o
  (IF ~SeqAll(o.channels, "closed") THEN <<"C19.channel_not_closed">> ELSE <<>>) \o
  (IF final /\ ~SeqAll(o.tracks, "ended") THEN <<"C19.track_not_ended">> ELSE <<>>) \o
  (IF final /\ Len(o.tasks) > 0 THEN <<"C19.task_left_running">> ELSE <<>>) \o
  (IF final /\ Len(o.threads) > 0 THEN <<"C19.thread_left_running">> ELSE <<>>)

First(cs) == IF cs = <<>> THEN "ok" ELSE cs[1]
StateClause(o) == First(FailingClauses(o, FALSE))     \* must hold as soon as close() has returned
FinalClause(o) == First(FailingClauses(o, TRUE))      \* must hold once the loop is quiet

-----------------------------------------------------------------------------
(* Configuration                                                            *)

Secs(cfg) ==
  (IF cfg.media THEN <<[kind |-> "media", t |-> 1]>> ELSE <<>>) \o
  (IF cfg.dc THEN <<[kind |-> "sctp", t |-> IF cfg.nt = 2 THEN 2 ELSE 1]>> ELSE <<>>)

Ts(s) == 1..s.cfg.nt

Live(x) == x \in {"ready", "run", "cancelled", "cancelled0"}     \* a task that still exists

Init ==
  /\ act = [op |-> "init"]
  /\ \E cfg \in Configs :
     st = [cfg |-> cfg, sig |-> "stable", fut |-> "none", pcIce |-> "new", pcConn |-> "new",
           gath |-> [t \in T |-> "new"],
           ice  |-> [t \in T |-> [st |-> "new", started |-> FALSE, done |-> FALSE, lis |-> TRUE]],
           conn |-> [t \in T |-> [closed |-> FALSE, res |-> "none", cdone |-> FALSE, nom |-> FALSE,
                                  consent |-> "none", check |-> "none", local |-> FALSE]],
           mon  |-> [t \in T |-> "none"],
           dtls |-> [t \in T |-> [st |-> "new", pump |-> "none"]],
           sctp |-> [started |-> FALSE, assoc |-> "closed", reg |-> FALSE, dead |-> FALSE, rtimer |-> FALSE],
           chan |-> IF cfg.dc THEN "connecting" ELSE "none",
           chan2 |-> "none",        \* a channel the application creates later (createDataChannel never looks at SCTP)
           snd  |-> [started |-> FALSE, rtp |-> "none", rtcp |-> "none"],
           rcv  |-> [started |-> FALSE, rtcp |-> "none", dec |-> "none"],
           trk  |-> [st |-> "none", q |-> FALSE, ended |-> FALSE],
           co   |-> [c \in C |-> [lbl |-> "idle", k |-> 1]],
           cl   |-> [k \in K |-> [lbl |-> "idle", j |-> 1]],
           sl |-> "idle", sr |-> "idle", remote |-> FALSE,
           peer |-> "alive", late |-> {}, exc |-> {},
           called |-> [k \in {"u1", "u2"} |-> FALSE], ret |-> [k \in {"u1", "u2"} |-> FALSE]]

AnyRet(s) == s.ret["u1"] \/ s.ret["u2"]

-----------------------------------------------------------------------------
(* Observation of a model state                                             *)

TaskNames(s) ==
  {<<"monitor", t>> : t \in {x \in T : s.mon[x] \in {"waiting", "woken"}}} \cup
  {<<"consent", t>> : t \in {x \in T : s.conn[x].consent \in {"run", "cancelled"}}} \cup
  {<<"check", t>>   : t \in {x \in T : s.conn[x].check \in {"run", "cancelled"}}} \cup
  {<<"pump", t>>    : t \in {x \in T : Live(s.dtls[x].pump)}} \cup
  {<<"connect", c>> : c \in {x \in C : s.co[x].lbl \notin {"idle", "done"}}} \cup
  (IF Live(s.snd.rtp) THEN {<<"rtp", 0>>} ELSE {}) \cup
  (IF Live(s.snd.rtcp) THEN {<<"srtcp", 0>>} ELSE {}) \cup
  (IF Live(s.rcv.rtcp) THEN {<<"rrtcp", 0>>} ELSE {}) \cup
  (IF s.cl["auto"].lbl \notin {"idle", "done"} THEN {<<"autoclose", 0>>} ELSE {}) \cup
  \* a retransmission timer left armed by a closed association keeps starting send tasks
  (IF s.sctp.rtimer /\ s.sctp.assoc = "closed" THEN {<<"reconfig_retransmission", 0>>} ELSE {})

ThreadNames(s) == IF s.rcv.dec = "run" THEN {"decoder"} ELSE {}

Obs(s) ==
  [sig |-> s.sig, ice |-> s.pcIce, conn |-> s.pcConn,
   channels |-> (IF s.chan = "none" THEN <<>> ELSE <<s.chan>>) \o (IF s.chan2 = "none" THEN <<>> ELSE <<s.chan2>>),
   tracks |-> IF s.trk.st = "live" THEN <<IF s.trk.ended THEN "ended" ELSE "live">> ELSE <<>>,
   tasks |-> IF TaskNames(s) = {} THEN <<>> ELSE <<"some">>,
   threads |-> IF ThreadNames(s) = {} THEN <<>> ELSE <<"decoder">>]

-----------------------------------------------------------------------------
(* Handlers: pure operators over the state record                           *)

Emit(s, e) == IF AnyRet(s) THEN [s EXCEPT !.late = @ \cup {e}] ELSE s

\* RTCPeerConnection.__updateIceConnectionState
UpdIce(s) ==
  LET sts == {s.ice[t].st : t \in Ts(s)}
      new == IF s.fut # "none" THEN "closed"
             ELSE IF "failed" \in sts THEN "failed"
             ELSE IF sts = {"completed"} THEN "completed"
             ELSE IF "checking" \in sts THEN "checking" ELSE "new"
  IN IF new # s.pcIce THEN Emit([s EXCEPT !.pcIce = new], "pc:iceconnectionstatechange") ELSE s

\* RTCPeerConnection.__updateConnectionState (with the automatic close)
UpdConn(s) ==
  LET ists == {s.ice[t].st : t \in Ts(s)}
      dsts == {s.dtls[t].st : t \in Ts(s)}
      new == IF s.fut # "none" THEN "closed"
             ELSE IF "failed" \in ists \/ "failed" \in dsts THEN "failed"
             ELSE IF ists \subseteq {"new", "closed"} /\ dsts \subseteq {"new", "closed"} THEN "new"
             ELSE IF "checking" \in ists \/ "connecting" \in dsts THEN "connecting"
             ELSE IF "new" \in dsts THEN "connecting" ELSE "connected"
      s1 == IF new # s.pcConn THEN Emit([s EXCEPT !.pcConn = new], "pc:connectionstatechange") ELSE s
  IN IF s1.fut = "none" /\ s1.cl["auto"].lbl = "idle" /\ dsts = {"closed"}
       THEN [s1 EXCEPT !.cl["auto"] = [lbl |-> "ready", j |-> 1]] ELSE s1

\* RTCIceTransport.__setState (listeners are dropped once closed)
SetIce(s, t, new) ==
  IF s.ice[t].st = new THEN s
  ELSE LET s1 == [s EXCEPT !.ice[t].st = new]
           s2 == IF s.ice[t].lis THEN UpdConn(UpdIce(s1)) ELSE s1
       IN IF new = "closed" THEN [s2 EXCEPT !.ice[t].lis = FALSE] ELSE s2

\* RTCDtlsTransport._set_state
SetDtls(s, t, new) ==
  IF s.dtls[t].st = new THEN s ELSE UpdConn([s EXCEPT !.dtls[t].st = new])

SetChan(s, new) ==
  IF s.chan \in {"none", new} \/ (new = "open" /\ s.chan # "connecting") THEN s     \* a closed channel never reopens
  ELSE Emit([s EXCEPT !.chan = new], IF new = "open" THEN "channel:open" ELSE "channel:close")

SetChan2(s, new) ==
  IF s.chan2 \in {"none", new} \/ (new = "open" /\ s.chan2 # "connecting") THEN s
  ELSE Emit([s EXCEPT !.chan2 = new], IF new = "open" THEN "channel:open" ELSE "channel:close")

\* RTCSctpTransport._set_state(CLOSED): public state "closed", every channel known NOW is closed
SctpClosed(s) == SetChan2(SetChan([s EXCEPT !.sctp.assoc = "closed", !.sctp.dead = TRUE,
                                                !.sctp.rtimer = IF Dev(s, "ReconfigTimerSurvivesStop") THEN @ ELSE FALSE],
                                   "closed"), "closed")

\* RTCRtpReceiver.__stop_decoder: the thread ends, puts None into the track queue, is joined
StopDecoder(s) ==
  IF s.rcv.dec = "run"
    THEN IF Dev(s, "DecoderNotJoined") THEN [s EXCEPT !.trk.q = TRUE]
         ELSE [s EXCEPT !.rcv.dec = "joined", !.trk.q = TRUE]
    ELSE s

FreeCo(s) == IF s.co[1].lbl = "idle" THEN 1 ELSE 2
SpawnConnect(s) == [s EXCEPT !.co[FreeCo(s)] = [lbl |-> "start", k |-> 1]]

-----------------------------------------------------------------------------
(* __connect                                                                *)

CoDone(s, c) == [s EXCEPT !.co[c].lbl = "done"]

\* the closed latch is looked at after every await (absent in the code: MediaAfterClose)
CoGivesUp(s) == ~Dev(s, "MediaAfterClose") /\ s.fut # "none"

RECURSIVE CoFrom(_, _, _)

\* after `if dtlsTransport.state == "connected"`: start media / sctp, next section
CoAfterDtls(s, c, k) ==
  LET sec == Secs(s.cfg)[k]
      t == sec.t
      up == s.dtls[t].st = "connected"
      s1 == IF up /\ sec.kind = "media"
              THEN LET a == IF s.snd.started THEN s
                            ELSE [s EXCEPT !.snd = [started |-> TRUE, rtp |-> "ready", rtcp |-> "ready"]]
                   IN IF a.rcv.started THEN a
                      ELSE [a EXCEPT !.rcv = [started |-> TRUE, rtcp |-> "ready", dec |-> "run"]]
            ELSE IF up /\ sec.kind = "sctp" /\ ~s.sctp.started
              THEN [s EXCEPT !.sctp.started = TRUE, !.sctp.assoc = "wait", !.sctp.reg = TRUE]
            ELSE s
  IN CoFrom(s1, c, k + 1)

\* after `await iceTransport.start()`: maybe dtlsTransport.start()
CoAfterIce(s, c, k) ==
  LET t == Secs(s.cfg)[k].t IN
  IF CoGivesUp(s) THEN CoDone(s, c)
  ELSE IF s.dtls[t].st = "new"
    THEN LET s1 == SetDtls(s, t, "connecting") IN
         IF s1.conn[t].nom /\ ~s1.conn[t].closed
           THEN [s1 EXCEPT !.co[c] = [lbl |-> "dtlshs", k |-> k]]       \* handshake in flight
           ELSE CoAfterDtls(SetDtls(s1, t, "failed"), c, k)              \* first flight: ConnectionError
    ELSE CoAfterDtls(s, c, k)

CoFrom(s, c, k) ==
  IF k > Len(Secs(s.cfg)) THEN CoDone(s, c)
  ELSE LET t == Secs(s.cfg)[k].t IN
    IF ~(s.conn[t].local /\ s.remote) THEN CoFrom(s, c, k + 1)
    ELSE IF s.ice[t].st = "closed"                      \* InvalidStateError ends the coroutine
      THEN [CoDone(s, c) EXCEPT !.exc = @ \cup {"connect:ice_closed"}]
    ELSE IF s.ice[t].started
      THEN IF s.ice[t].done THEN CoAfterIce(s, c, k)
           ELSE [s EXCEPT !.co[c] = [lbl |-> "icewait", k |-> k]]
    ELSE LET s1 == [s EXCEPT !.ice[t].started = TRUE, !.mon[t] = "waiting"]
             s2 == SetIce(s1, t, "checking")
         IN [s2 EXCEPT !.conn[t].check = "run", !.co[c] = [lbl |-> "iceconn", k |-> k]]

CoStart(c) ==
  /\ st.co[c].lbl = "start"
  /\ st' = CoFrom(st, c, 1)
  /\ act' = [op |-> "co_start", c |-> c]

\* aioice connect() returns (queue.get): consent task is spawned on success
CoIceConn(c) ==
  /\ st.co[c].lbl = "iceconn"
  /\ LET k == st.co[c].k
         t == Secs(st.cfg)[k].t
         ok == st.conn[t].res = "completed"
         s0 == [st EXCEPT !.conn[t].check = IF @ = "run" THEN "cancelled" ELSE @,
                          !.conn[t].consent = IF ok THEN "run" ELSE @]
     IN /\ st.conn[t].res # "none"
        /\ IF Dev(st, "ConsentAfterClose")
             THEN LET s1 == SetIce(s0, t, IF ok THEN "completed" ELSE "failed")
                  IN st' = CoAfterIce([s1 EXCEPT !.ice[t].done = TRUE], c, k)
           ELSE IF s0.ice[t].st = "closed"
             THEN IF ok   \* stop() overtook connect(): close the aioice connection again
                    THEN st' = [s0 EXCEPT !.conn[t].consent = "cancelled", !.co[c] = [lbl |-> "icefix", k |-> k]]
                    ELSE st' = CoAfterIce([s0 EXCEPT !.ice[t].done = ~Dev(st, "StartEventSkipped")], c, k)
           ELSE LET s1 == SetIce(s0, t, IF ok THEN "completed" ELSE "failed")
                IN st' = CoAfterIce([s1 EXCEPT !.ice[t].done = TRUE], c, k)
  /\ act' = [op |-> "co_iceconn", c |-> c]

CoIceFix(c) ==
  /\ st.co[c].lbl = "icefix"
  /\ LET k == st.co[c].k
         t == Secs(st.cfg)[k].t
     IN /\ st.conn[t].consent = "none"
        /\ st' = CoAfterIce([st EXCEPT !.ice[t].done = TRUE], c, k)
  /\ act' = [op |-> "co_icefix", c |-> c]

CoIceWait(c) ==
  /\ st.co[c].lbl = "icewait"
  /\ LET k == st.co[c].k
         t == Secs(st.cfg)[k].t
     IN /\ st.ice[t].done
        /\ st' = CoAfterIce(st, c, k)
  /\ act' = [op |-> "co_icewait", c |-> c]

\* the DTLS handshake ends: completed (flights may already sit in the ICE queue when
\* the transport is being stopped) or ConnectionError once the ICE connection is closed
CoDtlsHs(c, ok) ==
  /\ st.co[c].lbl = "dtlshs"
  /\ LET k == st.co[c].k
         t == Secs(st.cfg)[k].t
     IN IF ok
          THEN /\ st.peer = "alive" /\ ~st.conn[t].closed /\ st.dtls[t].st = "connecting"
               /\ LET s1 == [SetDtls(st, t, "connected") EXCEPT !.dtls[t].pump = "ready"]
                  IN st' = IF CoGivesUp(s1) THEN CoDone(s1, c) ELSE CoAfterDtls(s1, c, k)
          ELSE /\ st.conn[t].closed
               /\ st' = (IF CoGivesUp(st) THEN CoDone(SetDtls(st, t, "failed"), c)
                         ELSE CoAfterDtls(SetDtls(st, t, "failed"), c, k))
  /\ act' = [op |-> "co_dtlshs", c |-> c, ok |-> ok]

-----------------------------------------------------------------------------
(* Tasks and the decoder thread                                             *)

CheckDone(t, ok) ==
  /\ st.conn[t].check = "run" /\ ~st.conn[t].closed
  /\ ok => st.peer = "alive"
  /\ st' = [st EXCEPT !.conn[t].check = "none", !.conn[t].cdone = TRUE, !.conn[t].nom = ok,
                      !.conn[t].res = IF @ = "none" THEN (IF ok THEN "completed" ELSE "failed") ELSE @]
  /\ act' = [op |-> "check_done", t |-> t, ok |-> ok]

CheckCancelled(t) ==
  /\ st.conn[t].check = "cancelled"
  /\ st' = [st EXCEPT !.conn[t].check = "none"]
  /\ act' = [op |-> "check_cancelled", t |-> t]

\* RTCIceTransport._monitor.  The task is spawned by start() BEFORE aioice connect() runs and
\* the asyncio ready queue is FIFO, so its first step (registering the event waiter) precedes
\* every step that could close the connection: spawn and first step are one model step.
\* (Were the connection closed first, get_event() would return None for ever without
\* yielding: the harness bounds every execution to catch a frozen loop.)
MonWake(t) ==
  /\ st.mon[t] = "woken"
  /\ st' = [(IF st.ice[t].st = "completed" THEN SetIce(st, t, "failed") ELSE st) EXCEPT !.mon[t] = "done"]
  /\ act' = [op |-> "mon_wake", t |-> t]

ConsentCancelled(t) ==
  /\ st.conn[t].consent = "cancelled"
  /\ st' = [st EXCEPT !.conn[t].consent = "none"]
  /\ act' = [op |-> "consent_cancelled", t |-> t]

\* consent freshness fails (peer gone): aioice closes the connection itself
ConsentExpire(t) ==
  /\ st.conn[t].consent = "run" /\ st.peer = "gone" /\ ~st.conn[t].closed
  /\ st' = [st EXCEPT !.conn[t].consent = "none", !.conn[t].closed = TRUE, !.conn[t].nom = FALSE,
                      !.conn[t].local = FALSE,
                      !.mon[t] = IF @ = "waiting" THEN "woken" ELSE @]
  /\ act' = [op |-> "consent_expire", t |-> t]

PumpStart(t) ==
  /\ st.dtls[t].pump = "ready"
  /\ st' = [st EXCEPT !.dtls[t].pump = "run"]
  /\ act' = [op |-> "pump_start", t |-> t]

\* cancelled before its first step: the coroutine body (and its finally) never runs
PumpCancelled(t) ==
  /\ st.dtls[t].pump \in {"cancelled", "cancelled0"}
  /\ st' = [(IF st.dtls[t].pump = "cancelled" THEN SetDtls(st, t, "closed") ELSE st) EXCEPT !.dtls[t].pump = "done"]
  /\ act' = [op |-> "pump_cancelled", t |-> t]

\* ConnectionError in the pump: close_notify from the peer, or the ICE connection closed
PumpError(t) ==
  /\ st.dtls[t].pump = "run"
  /\ st.peer = "gone" \/ st.conn[t].closed
  /\ LET s1 == IF st.cfg.media /\ t = 1 THEN StopDecoder(st) ELSE st
     IN st' = [SetDtls(s1, t, "closed") EXCEPT !.dtls[t].pump = "done"]
  /\ act' = [op |-> "pump_error", t |-> t]

\* f in {"rtp","rtcp"} of the sender, "rrtcp" = receiver RTCP
TaskOf(s, f) == IF f = "rtp" THEN s.snd.rtp ELSE IF f = "rtcp" THEN s.snd.rtcp ELSE s.rcv.rtcp
WithTask(s, f, v) == IF f = "rtp" THEN [s EXCEPT !.snd.rtp = v]
                     ELSE IF f = "rtcp" THEN [s EXCEPT !.snd.rtcp = v] ELSE [s EXCEPT !.rcv.rtcp = v]

RtpTaskStart(f) ==
  /\ TaskOf(st, f) = "ready"
  /\ st' = WithTask(st, f, "run")
  /\ act' = [op |-> "task_start", f |-> f]

\* a cancelled task that had started sets its `exited` event; one cancelled before its
\* first step never runs (`exited` stays unset)
RtpTaskCancelled(f) ==
  /\ TaskOf(st, f) \in {"cancelled", "cancelled0"}
  /\ st' = WithTask(st, f, IF TaskOf(st, f) = "cancelled" THEN "done" ELSE "dead")
  /\ act' = [op |-> "task_cancelled", f |-> f]

\* _run_rtp ends by itself on ConnectionError
RtpDies ==
  /\ st.snd.rtp = "run" /\ st.dtls[1].st # "connected"
  /\ st' = [st EXCEPT !.snd.rtp = "done"]
  /\ act' = [op |-> "rtp_dies"]

SctpT(s) == IF s.cfg.nt = 2 THEN 2 ELSE 1

SctpUp ==
  /\ st.sctp.reg /\ st.sctp.assoc = "wait" /\ st.peer = "alive"
  /\ st.dtls[SctpT(st)].st = "connected" /\ st.dtls[SctpT(st)].pump = "run"
  /\ st' = SetChan([st EXCEPT !.sctp.assoc = "est"], "open")
  /\ act' = [op |-> "sctp_up"]

SctpPeerAbort ==
  /\ st.sctp.reg /\ st.sctp.assoc # "closed" /\ st.peer = "gone"
  /\ st.dtls[SctpT(st)].pump = "run"
  /\ st' = SctpClosed(st)
  /\ act' = [op |-> "sctp_peer_abort"]

\* the application creates a data channel - at any time before close(), also after the
\* association has died; it is only queued (createDataChannel never looks at the SCTP state)
AppChan ==
  /\ st.cfg.app > 0 /\ st.chan2 = "none"
  /\ st.fut = "none" \/ Dev(st, "ChanOnClosed")      \* InvalidStateError once close() (also the automatic one) has begun
  /\ st' = [st EXCEPT !.chan2 = "connecting"]
  /\ act' = [op |-> "app_chan"]

\* the application closes its open channel: a stream reset request is sent and the
\* retransmission timer armed (RTCSctpTransport._transmit_reconfig / _reconfig_timer_start)
AppCloseChan ==
  /\ st.cfg.app > 0 /\ st.chan = "open" /\ st.sctp.assoc = "est" /\ st.fut = "none"
  /\ st' = [st EXCEPT !.chan = "closing", !.sctp.rtimer = TRUE]
  /\ act' = [op |-> "app_close_chan"]

\* the peer answers the reset: the channel is closed, the timer cancelled
ChanReset ==
  /\ st.chan = "closing" /\ st.sctp.rtimer /\ st.sctp.assoc = "est" /\ st.peer = "alive"
  /\ st.dtls[SctpT(st)].st = "connected" /\ st.dtls[SctpT(st)].pump = "run"
  /\ st' = SetChan([st EXCEPT !.sctp.rtimer = FALSE], "closed")
  /\ act' = [op |-> "chan_reset"]

\* DCEP OPEN / ACK for the late channel on an established association
Chan2Up ==
  /\ st.chan2 = "connecting" /\ st.sctp.reg /\ st.sctp.assoc = "est" /\ st.peer = "alive"
  /\ st.dtls[SctpT(st)].st = "connected" /\ st.dtls[SctpT(st)].pump = "run"
  /\ st' = SetChan2(st, "open")
  /\ act' = [op |-> "chan2_up"]

\* the application's consumer of the received track sees the end marker
Consume ==
  /\ st.trk.st = "live" /\ st.trk.q /\ ~st.trk.ended
  /\ st' = [st EXCEPT !.trk.ended = TRUE]
  /\ act' = [op |-> "consume"]

PeerLeaves ==
  /\ st.cfg.pg /\ st.peer = "alive"
  /\ st' = [st EXCEPT !.peer = "gone"]
  /\ act' = [op |-> "peer_goes"]

-----------------------------------------------------------------------------
(* Negotiation calls                                                        *)

FirstCall(s) == IF s.cfg.role = "offerer" THEN "sl" ELSE "sr"

SLCall ==
  /\ st.sl = "idle" /\ st.fut = "none"
  /\ FirstCall(st) = "sl" \/ st.sr = "done"
  /\ LET s1 == Emit([st EXCEPT !.sig = IF st.cfg.role = "offerer" THEN "have-local-offer" ELSE "stable"],
                    "pc:signalingstatechange")
         s2 == [s1 EXCEPT !.gath = [t \in T |-> IF t \in Ts(st) THEN "gathering" ELSE @[t]], !.sl = "gather"]
     IN st' = Emit(s2, "pc:icegatheringstatechange")
  /\ act' = [op |-> "sl_call"]

SLGathered ==
  /\ st.sl = "gather"
  /\ LET lis == \E t \in Ts(st) : st.ice[t].lis
         s1 == [st EXCEPT !.gath = [t \in T |-> IF t \in Ts(st) THEN "completed" ELSE @[t]],
                          !.conn = [t \in T |-> IF t \in Ts(st) THEN [@[t] EXCEPT !.local = TRUE] ELSE @[t]]]
         s2 == IF lis THEN Emit(s1, "pc:icegatheringstatechange") ELSE s1
     IN st' = IF ~Dev(st, "SigAfterClose") /\ st.fut # "none"
                THEN [s2 EXCEPT !.sl = "raised"]
                ELSE [SpawnConnect(s2) EXCEPT !.sl = "done"]
  /\ act' = [op |-> "sl_gathered"]

SRCall ==
  /\ st.sr = "idle" /\ st.fut = "none"     \* only calls already in flight when close() begins (later ones: C14)
  /\ FirstCall(st) = "sr" \/ st.sl = "done"
  /\ st' = [st EXCEPT !.remote = TRUE, !.sr = "cands",
                      !.trk.st = IF st.cfg.media /\ @ = "none" THEN "created" ELSE @]
  /\ act' = [op |-> "sr_call"]

SRDone ==
  /\ st.sr = "cands"
  /\ st' = IF ~Dev(st, "SigAfterClose") /\ st.fut # "none"
             THEN [st EXCEPT !.sr = "raised"]
             ELSE LET s1 == IF st.trk.st = "created" THEN Emit([st EXCEPT !.trk.st = "live"], "pc:track") ELSE st
                      s2 == SpawnConnect(s1)
                      s3 == Emit([s2 EXCEPT !.sig = IF st.cfg.role = "offerer" THEN "stable" ELSE "have-remote-offer"],
                                 "pc:signalingstatechange")
                  IN [s3 EXCEPT !.sr = "done"]
  /\ act' = [op |-> "sr_done"]

-----------------------------------------------------------------------------
(* close()                                                                  *)

ClRet(s, k) ==
  LET s1 == [s EXCEPT !.cl[k].lbl = "done"]
  IN IF k \in {"u1", "u2"} THEN [s1 EXCEPT !.ret[k] = TRUE] ELSE s1

ClFinish(s, k) ==
  LET s1 == UpdConn(UpdIce(s))
  IN ClRet([s1 EXCEPT !.fut = "done"], k)

RECURSIVE ClTransport(_, _, _)

\* ice.stop(), last part: `await self.__monitor_task`
ClAfterConnClose(s, k, j) ==
  LET t == Secs(s.cfg)[j].t IN
  IF s.mon[t] \in {"none", "done"} THEN ClTransport(s, k, j + 1)
  ELSE [s EXCEPT !.cl[k] = [lbl |-> "mon", j |-> j]]

\* aioice Connection.close(), last part: forget candidates, emit ConnectionClosed once
ClConnClose3(s, k, j) ==
  LET t == Secs(s.cfg)[j].t
      s1 == [s EXCEPT !.conn[t].local = FALSE, !.conn[t].closed = TRUE,
                      !.mon[t] = IF ~s.conn[t].closed /\ @ = "waiting" THEN "woken" ELSE @]
  IN ClAfterConnClose(s1, k, j)

\* aioice Connection.close(), middle part: fail the check list, close the sockets
ClConnClose2(s, k, j) ==
  LET t == Secs(s.cfg)[j].t
      s1 == [s EXCEPT !.conn[t].nom = FALSE,
                      !.conn[t].res = IF s.ice[t].started /\ ~s.conn[t].cdone /\ @ = "none" THEN "failed" ELSE @]
  IN IF s.conn[t].local THEN [s1 EXCEPT !.cl[k] = [lbl |-> "proto", j |-> j]]
     ELSE ClConnClose3(s1, k, j)

\* dtls.stop(); ice.stop() of section j
ClTransport(s, k, j) ==
  IF j > Len(Secs(s.cfg)) THEN ClFinish(s, k)
  ELSE LET t == Secs(s.cfg)[j].t
           s1 == [s EXCEPT !.dtls[t].pump = IF @ = "ready" THEN "cancelled0"
                                             ELSE IF @ = "run" THEN "cancelled" ELSE @]
       IN IF s1.ice[t].st = "closed" THEN ClTransport(s1, k, j + 1)
          ELSE LET s2 == SetIce(s1, t, "closed") IN
               IF s2.conn[t].consent = "run"
                 THEN [s2 EXCEPT !.conn[t].consent = "cancelled", !.cl[k] = [lbl |-> "consent", j |-> j]]
                 ELSE ClConnClose2(s2, k, j)

ClSctp(s, k) ==
  LET s1 == IF (s.cfg.dc \/ s.chan2 # "none") /\ ~Dev(s, "SkipSctpStop")
                 /\ ~(Dev(s, "SctpStopGuard") /\ s.sctp.dead)
              THEN SctpClosed([s EXCEPT !.sctp.reg = FALSE])
              ELSE s
  IN ClTransport(s1, k, 1)

ClSndCancel(s, k) ==
  LET s1 == [s EXCEPT !.snd.rtp = IF @ = "run" THEN "cancelled" ELSE @,
                      !.snd.rtcp = IF @ = "run" THEN "cancelled" ELSE @]
  IN IF s1.snd.rtp = "done" /\ s1.snd.rtcp = "done" THEN ClSctp(s1, k)
     ELSE [s1 EXCEPT !.cl[k].lbl = "sndexited"]

ClSender(s, k) ==
  IF s.cfg.media /\ s.snd.started
    THEN IF s.snd.rtp = "ready" \/ s.snd.rtcp = "ready" THEN [s EXCEPT !.cl[k].lbl = "sndstarted"]
         ELSE ClSndCancel(s, k)
    ELSE ClSctp(s, k)

ClRcvCancel(s, k) ==
  LET s1 == [s EXCEPT !.rcv.rtcp = IF @ = "run" THEN "cancelled"
                                   ELSE IF @ = "ready" THEN "cancelled0" ELSE @]
  IN IF s1.rcv.rtcp = "done" THEN ClSender(s1, k) ELSE [s1 EXCEPT !.cl[k].lbl = "rcvexited"]

\* transceiver.stop(): receiver.stop() then sender.stop()
ClReceiver(s, k) ==
  IF s.cfg.media /\ s.rcv.started
    THEN LET s1 == StopDecoder(s) IN
         IF s1.rcv.rtcp = "ready" /\ ~Dev(s, "NoRtcpWait") THEN [s1 EXCEPT !.cl[k].lbl = "rcvstarted"]
         ELSE ClRcvCancel(s1, k)
    ELSE LET s1 == IF ~Dev(s, "TrackNotEnded") /\ s.trk.st # "none" THEN [s EXCEPT !.trk.q = TRUE] ELSE s
         IN ClSender(s1, k)

ClBody(s, k) ==
  IF s.fut = "done"
    THEN IF Dev(s, "NotIdempotent")
           THEN ClRet([s EXCEPT !.late = @ \cup {"pc:signalingstatechange"}], k)
           ELSE ClRet(s, k)
  ELSE IF s.fut = "pending" THEN [s EXCEPT !.cl[k].lbl = "waitfut"]
  ELSE ClReceiver(Emit([s EXCEPT !.fut = "pending", !.sig = "closed"], "pc:signalingstatechange"), k)

CloseCall(k) ==
  /\ k \in Users /\ ~st.called[k]
  /\ k = "u2" => st.called["u1"]
  /\ k = "u1" => TLCGet("level") >= st.cfg.lvl      \* 0 except in simulation (spreads the call over the run)
  /\ st' = ClBody([st EXCEPT !.called[k] = TRUE], k)
  /\ act' = [op |-> "close_call", k |-> k]

AutoRun ==
  /\ st.cl["auto"].lbl = "ready"
  /\ st' = ClBody(st, "auto")
  /\ act' = [op |-> "auto_run"]

ClWaitFut(k) ==
  /\ st.cl[k].lbl = "waitfut" /\ st.fut = "done"
  /\ st' = ClRet(st, k)
  /\ act' = [op |-> "cl_waitfut", k |-> k]

ClRcvStarted(k) ==
  /\ st.cl[k].lbl = "rcvstarted" /\ st.rcv.rtcp # "ready"
  /\ st' = ClRcvCancel(st, k)
  /\ act' = [op |-> "cl_rcvstarted", k |-> k]

ClRcvExited(k) ==
  /\ st.cl[k].lbl = "rcvexited" /\ st.rcv.rtcp = "done"
  /\ st' = ClSender(st, k)
  /\ act' = [op |-> "cl_rcvexited", k |-> k]

ClSndStarted(k) ==
  /\ st.cl[k].lbl = "sndstarted" /\ st.snd.rtp # "ready" /\ st.snd.rtcp # "ready"
  /\ st' = ClSndCancel(st, k)
  /\ act' = [op |-> "cl_sndstarted", k |-> k]

ClSndExited(k) ==
  /\ st.cl[k].lbl = "sndexited" /\ st.snd.rtp = "done" /\ st.snd.rtcp = "done"
  /\ st' = ClSctp(st, k)
  /\ act' = [op |-> "cl_sndexited", k |-> k]

ClConsent(k) ==
  /\ st.cl[k].lbl = "consent"
  /\ LET j == st.cl[k].j IN
     /\ st.conn[Secs(st.cfg)[j].t].consent = "none"
     /\ st' = ClConnClose2(st, k, j)
  /\ act' = [op |-> "cl_consent", k |-> k]

\* the sockets are closed
ClProto(k) ==
  /\ st.cl[k].lbl = "proto"
  /\ st' = ClConnClose3(st, k, st.cl[k].j)
  /\ act' = [op |-> "cl_proto", k |-> k]

ClMon(k) ==
  /\ st.cl[k].lbl = "mon"
  /\ LET j == st.cl[k].j IN
     /\ st.mon[Secs(st.cfg)[j].t] = "done"
     /\ st' = ClTransport(st, k, j + 1)
  /\ act' = [op |-> "cl_mon", k |-> k]

-----------------------------------------------------------------------------

\* steps the application / the remote side may or may not take
Optional ==
  \/ \E k \in {"u1", "u2"} : CloseCall(k)
  \/ SLCall \/ SRCall \/ PeerLeaves \/ AppChan \/ AppCloseChan

\* steps that happen by themselves (weak fairness)
Internal ==
  \/ \E c \in C : CoStart(c) \/ CoIceConn(c) \/ CoIceFix(c) \/ CoIceWait(c) \/ \E ok \in BOOLEAN : CoDtlsHs(c, ok)
  \/ \E t \in T : \/ \E ok \in BOOLEAN : CheckDone(t, ok)
                  \/ CheckCancelled(t) \/ MonWake(t) \/ ConsentCancelled(t) \/ ConsentExpire(t)
                  \/ PumpStart(t) \/ PumpCancelled(t) \/ PumpError(t)
  \/ \E f \in {"rtp", "rtcp", "rrtcp"} : RtpTaskStart(f) \/ RtpTaskCancelled(f)
  \/ RtpDies \/ SctpUp \/ SctpPeerAbort \/ Chan2Up \/ ChanReset \/ Consume
  \/ SLGathered \/ SRDone
  \/ AutoRun
  \/ \E k \in K : ClWaitFut(k) \/ ClRcvStarted(k) \/ ClRcvExited(k) \/ ClSndStarted(k) \/ ClSndExited(k)
                  \/ ClConsent(k) \/ ClProto(k) \/ ClMon(k)

Next == Optional \/ Internal

Spec == Init /\ [][Next]_vars /\ WF_vars(Internal)

-----------------------------------------------------------------------------
(* Properties                                                               *)

\* at and after the return of a user's close(): states closed, channels closed
PostStates == AnyRet(st) => StateClause(Obs(st)) = "ok"

\* no event on the connection, its channels or its tracks after close() returned
NoLateEvent == st.late = {}

\* once nothing can happen by itself any more: every close() has returned, nothing runs
Settled == ~ENABLED Internal
SettledOK ==
  Settled =>
     /\ \A k \in {"u1", "u2"} : st.called[k] => st.ret[k]
     /\ AnyRet(st) => FinalClause(Obs(st)) = "ok"

\* a close() after the first one has completed changes nothing observable
ObsCore(s) == <<s.sig, s.pcIce, s.pcConn, s.chan, s.chan2, s.trk, s.late, s.fut>>
SecondCloseNoop ==
  [][(st.fut = "done" /\ st'.called # st.called) => ObsCore(st') = ObsCore(st)]_vars

CloseLive == \A k \in {"u1", "u2"} : st.called[k] ~> st.ret[k]
QuietLive == AnyRet(st) ~> (AnyRet(st) /\ FinalClause(Obs(st)) = "ok")

\* witnesses (each must be VIOLATED: the situation is reachable)
Closing(s) == \E k \in K : s.cl[k].lbl \notin {"idle", "done", "ready"}
WitCloseAtIceConn == ~(Closing(st) /\ \E c \in C : st.co[c].lbl = "iceconn")
WitCloseAtDtlsHs  == ~(Closing(st) /\ \E c \in C : st.co[c].lbl = "dtlshs")
WitCloseFlowing   == ~(Closing(st) /\ st.snd.started /\ st.chan = "closed" /\ st.sctp.started)
WitCloseInNeg     == ~(Closing(st) /\ (st.sr = "cands" \/ st.sl = "gather"))
WitAutoClose      == ~(st.cl["auto"].lbl = "done")
WitSecondWaits    == ~(st.cl["u2"].lbl = "waitfut")
WitSecondAfter    == ~(st.ret["u1"] /\ st.ret["u2"] /\ st.cl["auto"].lbl = "idle")
WitPeerGoneFirst  == ~(st.peer = "gone" /\ Closing(st) /\ st.snd.started)
WitRcvStartedWait == ~(\E k \in K : st.cl[k].lbl = "rcvstarted")
WitIceFix         == ~(\E c \in C : st.co[c].lbl = "icefix")
WitLateChannel    == ~(st.chan2 = "connecting" /\ st.sctp.dead /\ st.fut = "none")   \* created after the association died
WitTimerAtClose == ~(st.chan = "closing" /\ st.sctp.rtimer /\ st.fut = "none")   \* a stream reset is unanswered and close() may come
\* (that close() then meets the armed timer is shown by the deviation ReconfigTimerSurvivesStop,
\*  which must break SettledOK; without media the whole close() body is one atomic step)
WitIceWaitClosing == ~(Closing(st) /\ \E c \in C : st.co[c].lbl = "icewait")     \* a second __connect is parked behind ice.start()
\* Sensitivity: with DevSel = a set of deviations (and none of the invariants above in the
\* configuration) every chosen deviation must break one of them somewhere.
ASSUME \A i \in 20..30 : TLCSet(i, {})
DevBroken(name, ok) ==
  (~ok /\ st.cfg.dev \notin TLCGet(20)) =>
     (TLCSet(20, TLCGet(20) \cup {st.cfg.dev}) /\ PrintT(<<"DEVBREAK", st.cfg.dev, name>>))
DevProbe == DevBroken("PostStates", PostStates) /\ DevBroken("NoLateEvent", NoLateEvent) /\ DevBroken("SettledOK", SettledOK)

\* Reports the witnesses seen inside an exhaustive run of the other invariants: prints
\* <<"WITNESS", name>> the first time a worker reaches a state violating the witness.
ASSUME \A i \in 1..13 : TLCSet(i, 0)
Probe(i, name, violated) == (violated /\ TLCGet(i) = 0) => (TLCSet(i, 1) /\ PrintT(<<"WITNESS", name>>))
WitnessProbe ==
  /\ Probe(1, "WitCloseAtIceConn", ~WitCloseAtIceConn)
  /\ Probe(2, "WitCloseAtDtlsHs", ~WitCloseAtDtlsHs)
  /\ Probe(3, "WitCloseFlowing", ~WitCloseFlowing)
  /\ Probe(4, "WitCloseInNeg", ~WitCloseInNeg)
  /\ Probe(5, "WitAutoClose", ~WitAutoClose)
  /\ Probe(6, "WitSecondWaits", ~WitSecondWaits)
  /\ Probe(7, "WitSecondAfter", ~WitSecondAfter)
  /\ Probe(8, "WitPeerGoneFirst", ~WitPeerGoneFirst)
  /\ Probe(9, "WitRcvStartedWait", ~WitRcvStartedWait)
  /\ Probe(10, "WitIceFix", ~WitIceFix)
  /\ Probe(11, "WitLateChannel", ~WitLateChannel)
  /\ Probe(12, "WitIceWaitClosing", ~WitIceWaitClosing)
  /\ Probe(13, "WitTimerAtClose", ~WitTimerAtClose)
=============================================================================
