------------------------- MODULE TraceJitterBuffer -------------------------
(* Code -> spec direction for C10 and the jitter-buffer part of C17.        *)
(*                                                                          *)
(* Validates NDJSON traces recorded from the real                           *)
(* aiortc.jitterbuffer.JitterBuffer against the clauses of                  *)
(* JitterBufferObs.tla.  One trace = one arrival schedule:                  *)
(*   id, cap, pf, video, mm, mod   parameters of the buffer / number space  *)
(*   pk   [{seq, ts, fi}]          the packets that exist (index = packet id, *)
(*                                 seq / ts relative to the origins)        *)
(*   fs   [id]                     first packet of every sent frame + sentinel *)
(*   arr  [id]                     which packet is passed to add(), in order *)
(*   runs [{out: [{exc, pli, rel, ids, fts, proj, gone, occ}]}]             *)
(*        what add() returned, once per sequence-number / timestamp origin; *)
(*        released frames are decomposed into packet ids by the recorder,   *)
(*        sequence numbers and timestamps are logged origin-relative.       *)
(* Total verdict function: run 1 is judged call by call by A's clauses      *)
(* (StepVerdict, EndVerdict); then the observable outputs of every other    *)
(* run must equal those of run 1 (clause C17.jitter_origin).  One line      *)
(* <<"RESULT", id, verdict, position, run, flags>> is printed per trace      *)
(* (flags: 1 = a packet was 100+ late, 2 = the completeness premise held at *)
(* the end of run 1, 4 = some packet arrived after a later one).            *)
EXTENDS JitterBufferObs, Json, IOUtils, TLCExt, SequencesExt

VARIABLES tid, l, run, verdict, done

Traces == ndJsonDeserialize(IOEnv.TRACE_FILE)

tvars == <<h, tid, l, run, verdict, done>>

Tr == Traces[tid]
Cfg == [cap |-> Tr.cap, pf |-> Tr.pf, mm |-> Tr.mm, mod |-> Tr.mod, video |-> Tr.video]

EvOf(o, id) == [id |-> id, exc |-> o.exc, pli |-> o.pli, rel |-> o.rel, ids |-> o.ids,
                fts |-> o.fts, proj |-> o.proj, gone |-> ToSet(o.gone), occ |-> o.occ]

\* what the C17 clause compares: the return value of add(), nothing internal
Obs(o) == <<o.exc, o.pli, o.rel, o.ids, o.fts>>

WellFormed(t) ==
  /\ Len(t.runs) >= 1
  /\ \A k \in 1..Len(t.runs) : Len(t.runs[k].out) = Len(t.arr)
  /\ \A k \in 1..Len(t.arr) : t.arr[k] \in 1..Len(t.pk)
  /\ Len(t.fs) >= 2 /\ t.fs[1] = 1 /\ t.fs[Len(t.fs)] = Len(t.pk) + 1
  /\ \A k \in 1..(Len(t.fs) - 1) :
        /\ t.fs[k] < t.fs[k + 1]
        /\ \A i \in t.fs[k]..(t.fs[k + 1] - 1) : t.pk[i].fi = k - 1 /\ t.pk[i].ts = t.pk[t.fs[k]].ts
        /\ k > 1 => t.pk[t.fs[k]].ts # t.pk[t.fs[k] - 1].ts
  \* distinct packets of one history have distinct sequence numbers
  /\ Cardinality({t.pk[i].seq : i \in 1..Len(t.pk)}) = Len(t.pk)

TraceInit ==
  /\ h = EmptyH
  /\ tid \in 1..Len(Traces)
  /\ l = 1 /\ run = 1 /\ done = FALSE
  /\ verdict = IF WellFormed(Traces[tid]) THEN "ok" ELSE "machinery.bad_trace"

\* run 1: one add() call per step, judged by the clauses of A
Consume ==
  /\ ~done /\ verdict = "ok" /\ run = 1 /\ l <= Len(Tr.arr)
  /\ \E jd \in {Judge(Cfg, Tr, h, EvOf(Tr.runs[1].out[l], Tr.arr[l]))} :
     \E e \in {IF jd.v = "ok" THEN EndVerdict(Cfg, Tr, jd.h) ELSE "ok"} :
        IF jd.v # "ok" THEN verdict' = jd.v /\ UNCHANGED <<h, l, run>>
        ELSE IF e = "C10.complete_lost" THEN verdict' = e /\ h' = jd.h /\ UNCHANGED <<l, run>>
        ELSE IF l = Len(Tr.arr) /\ e # "ok" THEN verdict' = e /\ h' = jd.h /\ UNCHANGED <<l, run>>
        ELSE /\ h' = jd.h /\ UNCHANGED verdict
             /\ IF l = Len(Tr.arr) THEN l' = 1 /\ run' = 2 ELSE l' = l + 1 /\ run' = 1
  /\ UNCHANGED <<tid, done>>

\* an empty schedule has nothing to judge
SkipEmpty ==
  /\ ~done /\ verdict = "ok" /\ run = 1 /\ Len(Tr.arr) = 0
  /\ run' = 2 /\ UNCHANGED <<h, tid, l, verdict, done>>

\* runs 2..: the same schedule under another origin must give the same outputs
FirstDiff(a, b) == CHOOSE k \in 1..Len(a) : Obs(a[k]) # Obs(b[k]) /\ \A j \in 1..(k - 1) : Obs(a[j]) = Obs(b[j])

Compare ==
  /\ ~done /\ verdict = "ok" /\ run >= 2 /\ run <= Len(Tr.runs)
  /\ LET a == Tr.runs[1].out
         b == Tr.runs[run].out
         same == \A k \in 1..Len(a) : Obs(a[k]) = Obs(b[k])
     IN IF same THEN run' = run + 1 /\ UNCHANGED <<verdict, l>>
        ELSE verdict' = "C17.jitter_origin" /\ l' = FirstDiff(a, b) /\ UNCHANGED run
  /\ UNCHANGED <<h, tid, done>>

Finish ==
  /\ ~done /\ (verdict # "ok" \/ run > Len(Tr.runs))
  /\ done' = TRUE
  /\ PrintT(<<"RESULT", Tr.id, verdict, IF verdict = "ok" THEN Len(Tr.arr) ELSE l, run,
              (IF h.late THEN 1 ELSE 0) + (IF CompletePremise(Cfg, Tr, h) THEN 2 ELSE 0)
                + (IF h.reord THEN 4 ELSE 0)>>)
  /\ UNCHANGED <<h, tid, l, run, verdict>>

TraceNext == Consume \/ SkipEmpty \/ Compare \/ Finish

TraceSpec == TraceInit /\ [][TraceNext]_tvars
=============================================================================
