---------------------------- MODULE MediaLoop ----------------------------
(* C11 - layer M: the closed retransmission loop, shaped like the code.   *)
(*                                                                        *)
(*   RTCRtpSender    history ring indexed seq % HistorySize, _retransmit  *)
(*                   (verbatim or wrapped as RTX), NACK handling          *)
(*   media path      FIFO with faults: drop, duplicate, hold back and     *)
(*                   release later (reordering), also for retransmissions *)
(*   RTCRtpReceiver  RTX unwrap, NackGenerator.add / truncate, JitterBuffer*)
(*                   (ring of Capacity slots, frame assembly by timestamp,*)
(*                   smart_remove, mis-order reset), PLI                  *)
(*   feedback path   FIFO, delivered at once or lost (budget)             *)
(*                                                                        *)
(* Sequence numbers are unbounded naturals here (origin-free); the        *)
(* wrap-around side of the property (C17) is checked on the code.         *)
(* The observer record `obs` of MediaLoopObs is carried as a history      *)
(* variable; TLC checks A's clauses on it.                                *)
EXTENDS MediaLoopObs, TLC

CONSTANTS MaxFrames,    \* frames sent in one behaviour
          MaxPkts,      \* packets per frame: 1..MaxPkts
          Capacity,     \* jitter buffer slots
          MaxMisorder,  \* jitter buffer: packets this far behind the origin reset it
          MaxFaults,    \* budget of drop / dup / hold on the media path
          MaxFbFaults,  \* budget of lost feedback packets
          MaxRe,        \* retransmissions per sequence number (bound)
          RunAhead,     \* sender may send while at most this many packets are in flight
          RtxModes,     \* subset of BOOLEAN: RTX negotiated or not
          Dev           \* deviations (seeded model defects), {} for the design

VARIABLES rtx,      \* RTX negotiated
          nsent,    \* next sequence number = number of packets sent
          hist,     \* sender history ring: slot -> sequence number or -1
          nre,      \* retransmissions made per sequence number
          net,      \* media path, FIFO of [s, re, w]: seq, copy number, wrapped as RTX
          held,     \* packets held back by the network (reordering / second copies)
          fb,       \* feedback path, FIFO of [k, lost]
          ng,       \* NackGenerator: [max, missing]
          jb,       \* JitterBuffer: [origin, ring]
          faults, fbFaults,
          reFault,  \* a fault hit a retransmission, a feedback packet was lost, or an original
                    \* packet overtook a waiting retransmission (retransmission not prompt)
          act       \* last action, for replay (hidden by View)

mvars == <<rtx, nsent, hist, nre, net, held, fb, ng, jb, faults, fbFaults, reFault>>
vars == <<obs, mvars, act>>
View == <<obs, mvars>>

None == -1
Slots == 0..(Capacity - 1)

\* frame (= timestamp) of a sequence number, from the frames sent so far
FrameOf(o, s) == CHOOSE f \in 1..Len(o.frames) : s \in FrameSeqs(o, f)
SetToSeq(S) ==   \* ascending
  LET RECURSIVE R(_) R(T) == IF T = {} THEN <<>> ELSE
        LET m == CHOOSE x \in T : \A y \in T : x <= y IN <<m>> \o R(T \ {m})
  IN R(S)

------------------------------------------------------------------------
(* NackGenerator.add + truncate.  Result: [ng, missed].                  *)
NgAdd(g, s) ==
  IF g.max = None THEN [ng |-> [max |-> s, missing |-> {}], missed |-> FALSE]
  ELSE LET m1 == IF s > g.max THEN g.missing \cup ((g.max + 1)..(s - 1)) ELSE g.missing \ {s}
           mx == IF s > g.max THEN s ELSE g.max
           m2 == IF "no_truncate" \in Dev THEN m1 ELSE {m \in m1 : m >= mx - HistorySize}
       IN [ng |-> [max |-> mx, missing |-> m2], missed |-> (s > g.max + 1)]

------------------------------------------------------------------------
(* JitterBuffer (video, prefetch 0).                                     *)
EmptyRing == [p \in Slots |-> None]

RECURSIVE JbRemove(_, _, _)          \* remove(count)
JbRemove(ring, origin, count) ==
  IF count = 0 THEN [ring |-> ring, origin |-> origin]
  ELSE JbRemove([ring EXCEPT ![origin % Capacity] = None], origin + 1, count - 1)

RECURSIVE JbSmart(_, _, _, _, _, _)  \* smart_remove(count): whole frames only
JbSmart(o, ring, origin, ts, i, count) ==
  IF i = Capacity THEN [ring |-> ring, origin |-> origin, full |-> TRUE]
  ELSE LET pkt == ring[origin % Capacity] IN
       IF pkt # None /\ i >= count /\ ts # FrameOf(o, pkt)
         THEN [ring |-> ring, origin |-> origin, full |-> FALSE]
         ELSE JbSmart(o, [ring EXCEPT ![origin % Capacity] = None], origin + 1,
                      IF pkt # None THEN FrameOf(o, pkt) ELSE ts, i + 1, count)

RECURSIVE JbWalk(_, _, _, _, _, _)   \* _remove_frame: packets of the first complete frame
JbWalk(o, ring, origin, count, ts, pkts) ==
  IF count = Capacity THEN <<>>
  ELSE LET pkt == ring[(origin + count) % Capacity] IN
       IF pkt = None
         THEN (IF "jb_hole" \in Dev /\ pkts # <<>> /\ count + 1 < Capacity
                    /\ ring[(origin + count + 1) % Capacity] # None
                 THEN JbWalk(o, ring, origin, count + 1, ts, pkts)    \* seeded defect: skip a hole
                 ELSE <<>>)
       ELSE IF ts # 0 /\ FrameOf(o, pkt) # ts THEN <<pkts, count>>
       ELSE JbWalk(o, ring, origin, count + 1, FrameOf(o, pkt), Append(pkts, pkt))

\* add(packet).  Result: [jb, pli, frame] with frame = Seq of sequence numbers or <<>>.
\* (`CHOOSE r \in {e(x) : x \in {v}} : TRUE` binds x to the VALUE of v: TLC would
\* otherwise re-evaluate a LET definition at every reference.)
JbAdd(o, b, s) ==
  LET first == b.origin = None
      d0    == IF first THEN 0 ELSE s - b.origin
      late  == d0 < 0
      reset == late /\ (0 - d0) >= MaxMisorder
  IN IF late /\ ~reset THEN [jb |-> b, pli |-> FALSE, frame |-> <<>>]
     ELSE
       LET b1  == IF first \/ reset THEN [origin |-> s, ring |-> IF reset THEN EmptyRing ELSE b.ring] ELSE b
           d1  == s - b1.origin
           pli == reset \/ d1 >= Capacity
       IN CHOOSE res \in
            { CHOOSE r \in
                { IF w = <<>>
                    THEN [jb |-> [origin |-> (IF sm.full THEN s ELSE sm.origin),
                                  ring |-> [sm.ring EXCEPT ![s % Capacity] = s]],
                          pli |-> pli, frame |-> <<>>]
                    ELSE LET rm == JbRemove([sm.ring EXCEPT ![s % Capacity] = s],
                                            IF sm.full THEN s ELSE sm.origin, w[2]) IN
                         [jb |-> [origin |-> rm.origin, ring |-> rm.ring], pli |-> pli, frame |-> w[1]]
                  : w \in { JbWalk(o, [sm.ring EXCEPT ![s % Capacity] = s],
                                   IF sm.full THEN s ELSE sm.origin, 0, 0, <<>>) } } : TRUE
              : sm \in { IF d1 >= Capacity
                           THEN JbSmart(o, b1.ring, b1.origin, 0, 0, d1 - Capacity + 1)
                           ELSE [ring |-> b1.ring, origin |-> b1.origin, full |-> FALSE] } } : TRUE

\* the decoder input as segments of sent frames (unit = packet)
SegsOf(o, pkts) ==
  [i \in 1..Len(pkts) |->
     LET f == FrameOf(o, pkts[i]) IN <<f, pkts[i] - o.frames[f].s0, pkts[i] - o.frames[f].s0 + 1>>]

------------------------------------------------------------------------
Init ==
  /\ obs = ObsInit
  /\ rtx \in RtxModes
  /\ nsent = 0
  /\ hist = [i \in 0..(HistorySize - 1) |-> None]
  /\ nre = <<>>
  /\ net = <<>> /\ held = {} /\ fb = <<>>
  /\ ng = [max |-> None, missing |-> {}]
  /\ jb = [origin |-> None, ring |-> EmptyRing]
  /\ faults = 0 /\ fbFaults = 0 /\ reFault = FALSE
  /\ act = [op |-> "init"]

NRe(s) == IF s \in DOMAIN nre THEN nre[s] ELSE 0

\* delivering p lets an original overtake a retransmission that is still under way
Overtakes(p) == p.re = 0 /\ ((\E i \in 1..Len(net) : net[i].re > 0) \/ (\E q \in held : q.re > 0))

\* RTCRtpSender._run_rtp: one frame of n packets
SendFrame(n) ==
  /\ fb = <<>> /\ Len(obs.frames) < MaxFrames /\ Len(net) <= RunAhead
  /\ LET seqs == nsent..(nsent + n - 1) IN
     /\ net' = net \o [i \in 1..n |-> [s |-> nsent + i - 1, re |-> 0, w |-> FALSE]]
     /\ hist' = [i \in DOMAIN hist |->
                   IF \E s \in seqs : s % HistorySize = i
                     THEN CHOOSE s \in seqs : s % HistorySize = i /\ \A t \in seqs : t % HistorySize = i => t <= s
                     ELSE hist[i]]
     /\ obs' = ObsSend(obs, n, nsent, n)
  /\ nsent' = nsent + n
  /\ UNCHANGED <<rtx, nre, held, fb, ng, jb, faults, fbFaults, reFault>>
  /\ act' = [op |-> "send", n |-> n]

\* RTCRtpReceiver._handle_rtp_packet for packet p (unwrap_rtx restores the original
\* number, so p.s is what the NACK generator and the jitter buffer see).
\* The bounded quantifiers over singleton sets bind VALUES (evaluated once).
Receive(p, opname) ==
  \E g \in {NgAdd(ng, p.s)} : \E j \in {JbAdd(obs, jb, p.s)} :
  \* the receiver hands a frame on only if it is newer than the last one handed on
  \* (without this guard - deviation "misorder_redeliver", the code as it is - packets
  \* that arrive MaxMisorder or more late reset the buffer and old frames come out again)
  \E segs \in {IF j.frame # <<>> /\ ("misorder_redeliver" \in Dev \/ FrameOf(obs, j.frame[1]) > obs.lastF)
                 THEN Norm(SegsOf(obs, j.frame)) ELSE <<>>} :
  \E o1 \in {ObsArrive(obs, p.s, nsent - 1)} :
  \E o2 \in {IF g.missed THEN ObsNack(o1, Cardinality(g.ng.missing)) ELSE o1} :
  \E o3 \in {IF j.pli THEN ObsDiscard(o2) ELSE o2} :
     /\ ng' = g.ng
     /\ jb' = j.jb
     /\ fb' = fb \o (IF g.missed THEN <<[k |-> "nack", lost |-> g.ng.missing]>> ELSE <<>>)
                 \o (IF j.pli THEN <<[k |-> "pli", lost |-> {}]>> ELSE <<>>)
     /\ obs' = IF segs # <<>> THEN ObsDecode(o3, segs) ELSE o3
     /\ act' = [op |-> opname, s |-> p.s, re |-> p.re, out |-> segs]

Deliver ==
  /\ fb = <<>> /\ net # <<>>
  /\ net' = Tail(net) /\ Receive(Head(net), "deliver")
  /\ reFault' = (reFault \/ Overtakes(Head(net)))
  /\ UNCHANGED <<rtx, nsent, hist, nre, held, faults, fbFaults>>

Drop ==
  /\ fb = <<>> /\ net # <<>> /\ faults < MaxFaults
  /\ net' = Tail(net) /\ faults' = faults + 1
  /\ reFault' = (reFault \/ Head(net).re > 0)
  /\ UNCHANGED <<obs, rtx, nsent, hist, nre, held, fb, ng, jb, fbFaults>>
  /\ act' = [op |-> "drop", s |-> Head(net).s, re |-> Head(net).re]

Hold ==
  /\ fb = <<>> /\ net # <<>> /\ faults < MaxFaults
  /\ net' = Tail(net) /\ held' = held \cup {Head(net)} /\ faults' = faults + 1
  /\ reFault' = (reFault \/ Head(net).re > 0)
  /\ UNCHANGED <<obs, rtx, nsent, hist, nre, fb, ng, jb, fbFaults>>
  /\ act' = [op |-> "hold", s |-> Head(net).s, re |-> Head(net).re]

Dup ==
  /\ fb = <<>> /\ net # <<>> /\ faults < MaxFaults /\ Head(net) \notin held
  /\ net' = Tail(net) /\ held' = held \cup {Head(net)} /\ faults' = faults + 1
  /\ Receive(Head(net), "dup")
  /\ reFault' = (reFault \/ Overtakes(Head(net)))
  /\ UNCHANGED <<rtx, nsent, hist, nre, fbFaults>>

Release(p) ==
  /\ fb = <<>> /\ p \in held
  /\ held' = held \ {p}
  /\ Receive(p, "release")
  /\ reFault' = (reFault \/ Overtakes(p))
  /\ UNCHANGED <<rtx, nsent, hist, nre, net, faults, fbFaults>>

ReleaseAny == \E p \in held : Release(p)

\* RTCRtpSender._handle_rtcp_packet: NACK -> _retransmit for every listed number
\* still in the history; PLI -> key frame request (no effect on packetised frames)
FbDeliver ==
  /\ fb # <<>>
  /\ fb' = Tail(fb)
  /\ LET m == Head(fb)
         HSlot(s) == IF "hist_modulus" \in Dev THEN s % (HistorySize - 1) ELSE s % HistorySize
         again == {s \in m.lost : hist[HSlot(s)] = s /\ NRe(s) < MaxRe}
         which(s) == s
         lst == SetToSeq(again)
     IN /\ net' = net \o [i \in 1..Len(lst) |-> [s |-> which(lst[i]), re |-> NRe(which(lst[i])) + 1, w |-> rtx]]
        /\ nre' = [s \in DOMAIN nre \cup {which(x) : x \in again} |->
                     IF s \in {which(x) : x \in again} THEN NRe(s) + 1 ELSE nre[s]]
        /\ act' = [op |-> "fbdeliver", k |-> m.k, n |-> Cardinality(m.lost)]
  /\ UNCHANGED <<obs, rtx, nsent, hist, held, ng, jb, faults, fbFaults, reFault>>

FbDrop ==
  /\ fb # <<>> /\ fbFaults < MaxFbFaults
  /\ fb' = Tail(fb) /\ fbFaults' = fbFaults + 1 /\ reFault' = TRUE
  /\ UNCHANGED <<obs, rtx, nsent, hist, nre, net, held, ng, jb, faults>>
  /\ act' = [op |-> "fbdrop", k |-> Head(fb).k]

Next ==
  \/ \E n \in 1..MaxPkts : SendFrame(n)
  \/ Deliver \/ Drop \/ Hold \/ Dup
  \/ ReleaseAny
  \/ FbDeliver \/ FbDrop

Spec == Init /\ [][Next]_vars

------------------------------------------------------------------------
(* What TLC checks.                                                      *)
Terminal == Len(obs.frames) = MaxFrames /\ net = <<>> /\ held = {} /\ fb = <<>>

\* A's safety clauses hold for every decoder input and NACK            (ClausesHold)
\* A's recovery clause at the end of every behaviour.  The jitter buffer hands on one
\* frame per arriving packet, so when the traffic stops a demanded frame may still sit
\* complete in the buffer, with no hole before it: further traffic would release it.
\* (On the code, the harness keeps the traffic going until nothing more comes out.)
Buffered(f) ==
  /\ jb.origin # None /\ jb.origin <= obs.frames[f].s0
  /\ \A s \in jb.origin..(obs.frames[f].s0 + obs.frames[f].n - 1) : jb.ring[s % Capacity] = s
RecoveryHolds ==
  Terminal /\ ~reFault /\ TrafficContinued(obs, 1)
     => \A f \in Missing(obs, 1) : Buffered(f)

\* structure: the jitter buffer never holds more than it can, every held number is in window
JbSane == /\ \A p \in Slots : jb.ring[p] # None => jb.ring[p] % Capacity = p
          /\ jb.origin # None =>
               \A p \in Slots : jb.ring[p] # None => (jb.ring[p] >= jb.origin /\ jb.ring[p] < jb.origin + Capacity)

\* Witnesses: each must be VIOLATED (the situation is reachable).
WitnessNoTail       == \A i \in 1..Len(obs.dec) : obs.dec[i][2] = 0
WitnessNoRetransmit == \A i \in 1..Len(net) : net[i].re = 0
WitnessNoDiscard    == obs.discards = 0
WitnessNoUnrec      == obs.unrec = {}
WitnessNackNotFull  == obs.nackMax < HistorySize
\* a loss was repaired: a frame with a dropped packet got delivered whole
WitnessNoRepair     == ~(Terminal /\ ~reFault /\ faults > 0 /\ TrafficContinued(obs, 1)
                          /\ \E s \in DOMAIN nre : FrameOf(obs, s) \in obs.delivered
                          /\ Missing(obs, 1) = {} /\ \E f \in 1..Len(obs.frames) : Demanded(obs, f, 1))
\* recovery is not promised for everything: some frame stays undelivered at the end
WitnessAllDelivered == ~(Terminal /\ ~reFault /\ TrafficContinued(obs, 1)
                          /\ \E f \in 1..(Len(obs.frames) - 1) : f \notin obs.delivered /\ ~Buffered(f))
\* a repaired frame is still waiting in the buffer when the traffic stops
WitnessNoBacklog    == ~(Terminal /\ ~reFault /\ TrafficContinued(obs, 1) /\ Missing(obs, 1) # {})
=============================================================================
