----------------------------- MODULE TraceRemb -----------------------------
(* Code -> spec direction for C15.  Judges NDJSON traces recorded from the   *)
(* real RemoteBitrateEstimator.add (one step per packet) with the clauses of *)
(* the property, using the arithmetic of Remb.tla at the real window size.   *)
(*                                                                           *)
(* Total verdict function: every trace runs to its end; <<"RESULT", id,      *)
(* verdict, position>> names the first failing clause; a clause that failed  *)
(* is not judged again in that trace; one <<"FAIL", id, clause, position>>   *)
(* line per failed clause.                                                   *)
(*                                                                           *)
(* Trace object: [id, skip, steps]; step (all integers below 2^31):          *)
(*  [op |-> "add", t, size, s, exc, meas, tot, hyp, rep, res, isint, enc, list]*)
(*   t     arrival time in ms relative to the first arrival (non-decreasing) *)
(*   size  payload size, s = SSRC number (1..), exc = 1: add() raised        *)
(*   meas  incoming_bitrate.rate(t) after the call (-1: None), saturated     *)
(*   ctl   throughput argument of rate_control.update during the call        *)
(*         (-1: None or update not called), saturated                        *)
(*   tot   bytes the rate counter holds after the call                       *)
(*   hyp   detector hypothesis after the call: "N", "U", "O"                 *)
(*   rep   1: add() returned an estimate; res = the estimate (saturated to   *)
(*         +-(2^31-1)), isint = 1: it is a Python int, enc = 1: pack_remb_fci *)
(*         accepted it; list = SSRC numbers it lists (0: an SSRC never fed)  *)
EXTENDS Remb, Json, IOUtils, TLCExt

VARIABLES tid, l, verdict, vpos, done, fails,
          win,      \* reference window: arrivals of the last 1000 ms as [t, c], c = bytes of
                    \* all arrivals of the trace up to and including this one
          wsum,     \* bytes of all arrivals that have left the window
          seenS,    \* SSRCs seen
          lastThr,  \* latest measurement (-1: none yet)
          lastCtl,  \* latest measurement handed to the rate controller (-1: none yet)
          prevEst   \* previous estimate reported (-1: none yet)

Traces == ndJsonDeserialize(IOEnv.TRACE_FILE)
tvars == <<vars, tid, l, verdict, vpos, done, fails, win, wsum, seenS, lastThr, lastCtl, prevEst>>

Window == 1000
Steps == Traces[tid].steps
Skip == {Traces[tid].skip[i] : i \in 1..Len(Traces[tid].skip)}
Judge(c) == c \notin Skip /\ \A i \in 1..Len(fails) : fails[i][1] # c

ClauseOrder == <<"C15.raised", "C15.integer", "C15.encodable", "C15.ssrcs", "C15.rise_bound",
                 "C15.overuse_bound", "C15.window">>
Running == verdict = "ok" \/ \E i \in 1..Len(ClauseOrder) : verdict = ClauseOrder[i]

TraceInit ==
  /\ Init
  /\ tid \in 1..Len(Traces)
  /\ l = 1 /\ verdict = "ok" /\ vpos = 0 /\ done = FALSE /\ fails = <<>>
  /\ win = <<>> /\ wsum = 0 /\ seenS = {} /\ lastThr = -1 /\ lastCtl = -1 /\ prevEst = -1

\* Arrival times do not decrease, so the arrivals that are Window ms old or older form a
\* prefix of the window (no recursion: thousands of packets may leave after an idle period).
Expired(w, now) == Cardinality({i \in 1..Len(w) : w[i].t <= now - Window})

SeqSet(q) == {q[i] : i \in 1..Len(q)}

Record(F) ==
  LET newf == SelectSeq(ClauseOrder, LAMBDA c : c \in F)
  IN /\ fails' = fails \o [i \in 1..Len(newf) |-> <<newf[i], l>>]
     /\ verdict' = IF verdict = "ok" /\ newf # <<>> THEN newf[1] ELSE verdict
     /\ vpos' = IF verdict = "ok" /\ newf # <<>> THEN l ELSE vpos

Consume ==
  /\ ~done /\ l <= Len(Steps) /\ Running
  /\ l' = l + 1 /\ UNCHANGED <<vars, tid, done>>
  /\ LET ev == Steps[l] IN
     IF ev.op # "add"
       THEN /\ verdict' = "machinery.unknown_op" /\ vpos' = l
            /\ UNCHANGED <<fails, win, wsum, seenS, lastThr, lastCtl, prevEst>>
     ELSE IF l > 1 /\ ev.t < Steps[l - 1].t
       THEN /\ verdict' = "machinery.time_goes_back" /\ vpos' = l
            /\ UNCHANGED <<fails, win, wsum, seenS, lastThr, lastCtl, prevEst>>
     ELSE
       LET k == Expired(win, ev.t)
           gone == IF k = 0 THEN wsum ELSE win[k].c                 \* bytes that have left the window
           all == (IF win = <<>> THEN wsum ELSE win[Len(win)].c) + ev.size
           win1 == Append(SubSeq(win, k + 1, Len(win)), [t |-> ev.t, c |-> all])
           inWindow == all - gone                                    \* the reference: bytes of the last 1000 ms
           seen1 == seenS \cup {ev.s}
           meas1 == IF ev.exc = 0 /\ ev.meas # -1 THEN ev.meas ELSE lastThr
           ctl1 == IF ev.exc = 0 /\ ev.ctl # -1 THEN ev.ctl ELSE lastCtl
           \* "the latest measured incoming bitrate": the text does not say whether this is the
           \* latest measurement made (every packet) or the latest one the controller was given
           \* (it falls back to that when there is no rate); the bounds are judged against the
           \* larger of the two
           thr1 == Max(meas1, ctl1)
           reported == ev.exc = 0 /\ ev.rep = 1
           F == {c \in SeqSet(ClauseOrder) :
                   /\ Judge(c)
                   /\ CASE c = "C15.raised"   -> ev.exc = 1
                        [] c = "C15.window"   -> ev.exc = 0 /\ ev.meas # -1 /\ ev.tot # inWindow
                        [] c = "C15.integer"  -> reported /\ (ev.isint = 0 \/ ev.res < 0)
                        [] c = "C15.encodable" -> reported /\ ev.enc = 0
                        [] c = "C15.ssrcs"    -> reported /\ (SeqSet(ev.list) # seen1
                                                              \/ Len(ev.list) # Cardinality(seen1))
                        [] c = "C15.rise_bound" -> /\ reported /\ prevEst # -1 /\ thr1 # -1
                                                   /\ ev.res > Max(prevEst, Bound15(thr1))
                        [] c = "C15.overuse_bound" -> /\ reported /\ ev.hyp = "O" /\ thr1 # -1
                                                      /\ ev.res > Floor85(thr1) + 1}
       IN /\ Record(F)
          /\ win' = win1 /\ wsum' = gone /\ seenS' = seen1 /\ lastThr' = meas1 /\ lastCtl' = ctl1
          /\ prevEst' = IF reported THEN ev.res ELSE prevEst

Finish ==
  /\ ~done /\ (l > Len(Steps) \/ ~Running)
  /\ done' = TRUE
  /\ PrintT(<<"RESULT", Traces[tid].id, verdict, vpos>>)
  /\ \A i \in 1..Len(fails) : PrintT(<<"FAIL", Traces[tid].id, fails[i][1], fails[i][2]>>)
  /\ UNCHANGED <<vars, tid, l, verdict, vpos, fails, win, wsum, seenS, lastThr, lastCtl, prevEst>>

TraceNext == Consume \/ Finish
TraceSpec == TraceInit /\ [][TraceNext]_tvars
=============================================================================
