--------------------------- MODULE DataChannelObs ---------------------------
(* Layer A - the OBSERVABLE specification of data channels over one SCTP     *)
(* association (properties C01, C02, C06, C13; C17 = the same spec accepts   *)
(* every sequence-number origin).                                            *)
(*                                                                           *)
(* Variables are exactly what the application can see: which messages were   *)
(* passed to send() on which channel, which `message` events fired where,    *)
(* readyState, open/close/datachannel/bufferedamountlow events, ids and      *)
(* bufferedAmount samples.  Every clause below is a transcription of a       *)
(* sentence of a property statement and carries that property's id; nothing  *)
(* here says HOW the transport achieves it.  The implementation-shaped model *)
(* SctpAssoc.tla carries these variables as history variables and TLC checks *)
(* the clauses on it; TraceDataChannel.tla evaluates the same clauses on     *)
(* executions recorded from the real code.                                   *)
EXTENDS Naturals, Integers, Sequences, FiniteSets, TLC

VARIABLES
  chans,    \* c -> [ordered: BOOLEAN, rel: "rel"|"rtx"|"life", negotiated: BOOLEAN, creator: "A"|"B"]
  sentm,    \* <<c, e>> -> sequence of message ids passed to send() on c at endpoint e
  dlv,      \* <<c, e>> -> sequence of message ids delivered by `message` events at e
  rs,       \* <<c, e>> -> readyState of the channel object at e (0 connecting .. 3 closed)
  nopen,    \* <<c, e>> -> number of `open` events
  nclose,   \* <<c, e>> -> number of `close` events
  ndc,      \* c -> number of `datachannel` events announcing c
  sid,      \* <<c, e>> -> stream id of the object (absent until assigned)
  closereq, \* set of channels on which close() was called by either side
  healed,   \* the network has stopped misbehaving
  probes,   \* message ids sent after the network healed (C06 recovery)
  closepre, \* channels on which close() was called while the association was not established
  rclost    \* a datagram carrying a RE-CONFIG chunk was lost

obsvars == <<chans, sentm, dlv, rs, nopen, nclose, ndc, sid, closereq, healed, probes, closepre, rclost>>

Peer(e) == IF e = "A" THEN "B" ELSE "A"
SeqAt(f, k) == IF k \in DOMAIN f THEN f[k] ELSE <<>>
NatAt(f, k) == IF k \in DOMAIN f THEN f[k] ELSE 0
Upd(f, k, v) == [x \in DOMAIN f \cup {k} |-> IF x = k THEN v ELSE f[x]]
SeqSet(s) == {s[i] : i \in 1..Len(s)}
IndexOf(s, x) == IF x \in SeqSet(s) THEN CHOOSE i \in 1..Len(s) : s[i] = x ELSE 0
Last(s) == s[Len(s)]

Reliable(c) == chans[c].rel = "rel"

ObsInit ==
  /\ chans = <<>> /\ sentm = <<>> /\ dlv = <<>> /\ rs = <<>>
  /\ nopen = <<>> /\ nclose = <<>> /\ ndc = <<>> /\ sid = <<>>
  /\ closereq = {} /\ healed = FALSE /\ probes = {}
  /\ closepre = {} /\ rclost = FALSE

-----------------------------------------------------------------------------
(* Clause evaluation.  Each operator returns "ok" or the name of the first   *)
(* failing clause; the prefix of the name is the property it belongs to.     *)
(* `pr` says whether partially reliable channels exist on the association:   *)
(* then damage to a reliable channel is (also) a C06 violation.              *)

\* `message` event at endpoint e on channel c carrying message m
\*   known  : the value corresponds to some message that was sent
\*   onchan : ... by the peer on this very channel
\*   intact : value and type (str/bytes) equal what was sent
MsgVerdict(c, e, m, known, onchan, intact, pr) ==
  LET snt == SeqAt(sentm, <<c, Peer(e)>>)
      got == SeqAt(dlv, <<c, e>>)
      P == IF Reliable(c) THEN (IF pr THEN "C06.reliable_" ELSE "C01.") ELSE "C06.pr_"
  IN IF c \notin DOMAIN chans THEN P \o "channel"
     ELSE IF ~known THEN P \o "intact"             \* not a value anybody sent
     ELSE IF ~onchan \/ m \notin SeqSet(snt) THEN P \o "channel"   \* sent on another channel
     ELSE IF ~intact THEN P \o "intact"
     ELSE IF m \in SeqSet(got) THEN P \o "nodup"
     ELSE IF chans[c].ordered /\ Reliable(c) /\ m # snt[Len(got) + 1] THEN P \o "order"
     ELSE IF chans[c].ordered /\ ~Reliable(c) /\ got # <<>>
             /\ IndexOf(snt, m) < IndexOf(snt, Last(got)) THEN P \o "order"
     ELSE "ok"

\* readyState observed to be s
StateVerdict(c, e, s) ==
  IF <<c, e>> \in DOMAIN rs /\ s < rs[<<c, e>>] THEN "C13.state_backward" ELSE "ok"

OpenEvVerdict(c, e) == IF NatAt(nopen, <<c, e>>) >= 1 THEN "C13.open_twice" ELSE "ok"
CloseEvVerdict(c, e) == IF NatAt(nclose, <<c, e>>) >= 1 THEN "C13.close_twice" ELSE "ok"

\* `datachannel` event at e announcing channel c (c = -1: nobody created such a channel,
\* or it was announced before); same = all parameters equal the creator's
DcEventVerdict(c, e, same, evsid) ==
  IF c = -1 \/ c \notin DOMAIN chans THEN "C13.dcevent_spurious"
  ELSE IF NatAt(ndc, c) >= 1 THEN "C13.dcevent_twice"
  ELSE IF chans[c].negotiated THEN "C13.dcevent_spurious"
  ELSE IF ~same THEN "C13.dcevent_params"
  ELSE IF <<c, Peer(e)>> \in DOMAIN sid /\ sid[<<c, Peer(e)>>] # evsid THEN "C13.dcevent_id"
  ELSE "ok"

\* stream ids currently in use at endpoint e by channel objects other than c
LiveIds(e, c) == { sid[k] : k \in { k2 \in DOMAIN sid : k2[2] = e /\ k2[1] # c
                                      /\ k2 \in DOMAIN rs /\ rs[k2] # 3 } }

\* the object of channel c at e got stream id s (auto = chosen by the library)
\* (an id is free for reuse only once the channel that used it is closed at BOTH ends)
IdVerdict(c, e, s, auto) ==
  IF auto /\ (s % 2) # (IF e = "A" THEN 1 ELSE 0) THEN "C13.id_parity"
  ELSE IF s \in LiveIds(e, c) THEN "C13.id_collision"
  ELSE IF s \in LiveIds(Peer(e), c) THEN "C13.id_reuse_before_peer_closed"
  ELSE IF <<c, Peer(e)>> \in DOMAIN sid /\ sid[<<c, Peer(e)>>] # s THEN "C13.id_mismatch"
  ELSE "ok"

\* bufferedAmount went from b0 to b1 during one run-to-completion step in which `sent`
\* bytes were accepted by send() (-1: no send), `lows` bufferedamountlow events fired,
\* threshold thr; q = bytes accepted and not yet handed to the transport (-1 unknown)
BufVerdict(c, e, b0, b1, sent, lows, thr, q) ==
  LET peakLo == IF sent >= 0 THEN b0 + sent ELSE b0
      peakHi == IF sent >= 0 THEN b0 + (IF sent = 0 THEN 1 ELSE sent) ELSE b0
      lowMin == IF peakLo > thr /\ b1 <= thr THEN 1 ELSE 0
      lowMax == IF peakHi > thr /\ b1 <= thr THEN 1 ELSE 0
      st == IF <<c, e>> \in DOMAIN rs THEN rs[<<c, e>>] ELSE 0
  IN IF b1 < 0 THEN "C13.buffered_negative"
     ELSE IF b1 > peakHi THEN "C13.buffered_overcount"
     ELSE IF q >= 0 /\ st \in {1, 2} /\ b1 # q /\ ~(q = b1 + 1 \/ q + 1 = b1) THEN "C13.buffered_exact"
     ELSE IF (st # 3 /\ lows < lowMin) \/ lows > lowMax THEN "C13.low_event"
     ELSE "ok"

\* a bufferedamountlow event whose observed amount was above the threshold
LowEvVerdict(ok) == IF ok THEN "ok" ELSE "C13.low_event"

\* send() refused although the channel object reported `open`
SendFailedVerdict(st) == IF st = 1 THEN "C13.send_refused_when_open" ELSE "ok"

\* creating a channel with explicit id s at e failed although no live channel uses s
CreateFailedVerdict(e, s) ==
  IF s >= 0 /\ s \notin LiveIds(e, -1) THEN "C13.id_not_freed" ELSE "ok"

\* Final observation after the network healed and everything was drained.
\*   ep[e] = [outq, sentq, dcq, connected, closed]; chq = set of [c, e, b, s]
QuiesceVerdict(epA, epB, chq, pr) ==
  LET ep(e) == IF e = "A" THEN epA ELSE epB
      stalled(e) == ep(e).connected /\ (ep(e).outq + ep(e).sentq + ep(e).dcq > 0)
      bothUp == epA.connected /\ epB.connected
      lost(c, e) ==  \* something sent by e on reliable c never arrived at the peer
         /\ Reliable(c) /\ bothUp
         /\ ~(c \in closereq)
         /\ SeqSet(SeqAt(sentm, <<c, e>>)) \ SeqSet(SeqAt(dlv, <<c, Peer(e)>>)) # {}
      probeLost(c, e) ==
         /\ ~Reliable(c) /\ bothUp /\ ~(c \in closereq)
         /\ (SeqSet(SeqAt(sentm, <<c, e>>)) \cap probes) \ SeqSet(SeqAt(dlv, <<c, Peer(e)>>)) # {}
  IN IF \E e \in {"A", "B"} : stalled(e) THEN (IF pr THEN "C06.blocked" ELSE "C02.stall")
     ELSE IF \E c \in DOMAIN chans, e \in {"A", "B"} : lost(c, e)
            THEN (IF pr THEN "C06.reliable_lost" ELSE "C02.lost")
     ELSE IF \E c \in DOMAIN chans, e \in {"A", "B"} : probeLost(c, e) THEN "C06.no_recovery"
     ELSE IF \E x \in chq : x.s \in {1, 2} /\ ep(x.e).connected /\ x.b # 0 THEN "C02.buffered_nonzero"
     ELSE IF \E x \in chq : ep(x.e).closed /\ x.s # 3 THEN "C13.assoc_end_not_closed"
     ELSE IF \E x \in chq : bothUp /\ x.c \in closereq /\ x.s # 3 /\ x.c \notin closepre /\ ~rclost
            THEN "C13.close_incomplete"
     ELSE IF \E x \in chq : bothUp /\ x.c \in closereq /\ x.s # 3 /\ x.c \in closepre
            THEN "C13.close_incomplete.before_established"
     ELSE IF \E x \in chq : bothUp /\ x.c \in closereq /\ x.s # 3
            THEN "C13.close_incomplete.reconfig_lost"
     ELSE IF \E x \in chq : bothUp /\ x.s = 0 /\ x.c \in DOMAIN chans THEN "C13.never_opened"
     ELSE "ok"

-----------------------------------------------------------------------------
(* State updates for accepted events (shared by the model and the traces).  *)

DoCreate(c, e, ordered, rel, negotiated, first) ==
  /\ chans' = IF first THEN Upd(chans, c, [ordered |-> ordered, rel |-> rel,
                                            negotiated |-> negotiated, creator |-> e])
              ELSE chans
  /\ UNCHANGED <<sentm, dlv, rs, nopen, nclose, ndc, sid, closereq, healed, probes, closepre, rclost>>

DoSend(c, e, m, probe) ==
  /\ sentm' = Upd(sentm, <<c, e>>, Append(SeqAt(sentm, <<c, e>>), m))
  /\ probes' = IF probe THEN probes \cup {m} ELSE probes
  /\ UNCHANGED <<chans, dlv, rs, nopen, nclose, ndc, sid, closereq, healed, closepre, rclost>>

DoMsg(c, e, m) ==
  /\ dlv' = Upd(dlv, <<c, e>>, Append(SeqAt(dlv, <<c, e>>), m))
  /\ UNCHANGED <<chans, sentm, rs, nopen, nclose, ndc, sid, closereq, healed, probes, closepre, rclost>>

DoState(c, e, s) ==
  /\ rs' = Upd(rs, <<c, e>>, s)
  /\ UNCHANGED <<chans, sentm, dlv, nopen, nclose, ndc, sid, closereq, healed, probes, closepre, rclost>>

DoOpenEv(c, e) ==
  /\ nopen' = Upd(nopen, <<c, e>>, NatAt(nopen, <<c, e>>) + 1)
  /\ UNCHANGED <<chans, sentm, dlv, rs, nclose, ndc, sid, closereq, healed, probes, closepre, rclost>>

DoCloseEv(c, e) ==
  /\ nclose' = Upd(nclose, <<c, e>>, NatAt(nclose, <<c, e>>) + 1)
  /\ UNCHANGED <<chans, sentm, dlv, rs, nopen, ndc, sid, closereq, healed, probes, closepre, rclost>>

DoDcEvent(c) ==
  /\ ndc' = Upd(ndc, c, NatAt(ndc, c) + 1)
  /\ UNCHANGED <<chans, sentm, dlv, rs, nopen, nclose, sid, closereq, healed, probes, closepre, rclost>>

DoId(c, e, s) ==
  /\ sid' = Upd(sid, <<c, e>>, s)
  /\ UNCHANGED <<chans, sentm, dlv, rs, nopen, nclose, ndc, closereq, healed, probes, closepre, rclost>>

DoCloseReq(c, est, hasid) ==
  /\ closereq' = closereq \cup {c}
  /\ closepre' = IF ~est /\ hasid THEN closepre \cup {c} ELSE closepre
  /\ UNCHANGED <<chans, sentm, dlv, rs, nopen, nclose, ndc, sid, healed, probes, rclost>>

DoDrop(reconfig) ==
  /\ rclost' = (rclost \/ reconfig)
  /\ UNCHANGED <<chans, sentm, dlv, rs, nopen, nclose, ndc, sid, closereq, healed, probes, closepre>>

DoHeal ==
  /\ healed' = TRUE
  /\ UNCHANGED <<chans, sentm, dlv, rs, nopen, nclose, ndc, sid, closereq, probes, closepre, rclost>>

-----------------------------------------------------------------------------
(* Invariants: the "at every instant" reading of C01 / C06 on the history   *)
(* variables (what SctpAssoc.tla is checked against).                        *)

IsPrefixOf(s, t) == Len(s) <= Len(t) /\ \A i \in 1..Len(s) : s[i] = t[i]
NoDup(s) == \A i, j \in 1..Len(s) : i # j => s[i] # s[j]
IsSubseqIncreasing(s, t) ==   \* s is duplicate free, drawn from t, in t's order
  /\ NoDup(s) /\ SeqSet(s) \subseteq SeqSet(t)
  /\ \A i, j \in 1..Len(s) : i < j => IndexOf(t, s[i]) < IndexOf(t, s[j])

C01_Invariant ==
  \A c \in DOMAIN chans, e \in {"A", "B"} :
    Reliable(c) =>
      LET snt == SeqAt(sentm, <<c, Peer(e)>>)
          got == SeqAt(dlv, <<c, e>>)
      IN IF chans[c].ordered THEN IsPrefixOf(got, snt)
         ELSE NoDup(got) /\ SeqSet(got) \subseteq SeqSet(snt)

C06_Invariant ==
  \A c \in DOMAIN chans, e \in {"A", "B"} :
    ~Reliable(c) =>
      LET snt == SeqAt(sentm, <<c, Peer(e)>>)
          got == SeqAt(dlv, <<c, e>>)
      IN IF chans[c].ordered THEN IsSubseqIncreasing(got, snt)
         ELSE NoDup(got) /\ SeqSet(got) \subseteq SeqSet(snt)

C13_StateInvariant ==
  \A k \in DOMAIN nopen : nopen[k] <= 1
=============================================================================
