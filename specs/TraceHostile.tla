---------------------------- MODULE TraceHostile ----------------------------
(* Code -> spec direction for C05: a total verdict function over executions *)
(* recorded from the real code by harness/c05_hostile.py.  A trace is a     *)
(* list of steps:                                                           *)
(*   hostile  one hostile datagram injected through a receive-path entry    *)
(*            point (entry, exc, fn, timeout, work, len, task_exc, down,    *)
(*            st = protocol state before, ctl = chunk types it carries     *)
(*            with a correct tag / "BYE_KNOWN", probe_reset)                *)
(*   probe    the valid traffic that follows (served)                       *)
(*   parse    a wire parser called directly (exc, isval = is a ValueError)  *)
(* Every trace runs to its end or to its first failing clause; one line     *)
(* <<"RESULT", id, verdict, position>> is printed per trace.                *)
EXTENDS Hostile, Json, IOUtils, TLCExt, SequencesExt

VARIABLES tid, l, verdict, done

Traces == ndJsonDeserialize(IOEnv.TRACE_FILE)

tvars == <<vars, tid, l, verdict, done>>

Steps == Traces[tid].steps

Hang(ev) == ev.timeout \/ ev.work > Budget(ev.len)

Verdict(ev) ==
  CASE ev.op = "hostile" ->
         IF Hang(ev) THEN "C05.hang"
         ELSE IF ev.exc # "none" \/ ev.task_exc # "none" THEN "C05.exception_escaped"
         ELSE IF ev.down /\ ~Exempt(ev.st, ToSet(ev.ctl), ev.probe_reset) THEN "C05.transport_down"
         ELSE "ok"
    [] ev.op = "probe" ->
         IF ~ev.served /\ ~Exempt(ev.st, ToSet(ev.ctl), ev.probe_reset) THEN "C05.valid_traffic_broken"
         ELSE "ok"
    [] ev.op = "parse" ->
         IF Hang(ev) THEN "C05.hang"
         ELSE IF ev.exc # "none" /\ ~ev.isval THEN "C05.parser_wrong_exception"
         ELSE "ok"
    [] OTHER -> "machinery.unknown_op"

TraceInit ==
  /\ sub = "trace" /\ role = "-" /\ st = "-" /\ phase = "-" /\ inp = NoInput /\ out = Out0
  /\ act = [op |-> "trace"]
  /\ tid \in 1..Len(Traces)
  /\ l = 1 /\ verdict = "ok" /\ done = FALSE

Consume ==
  /\ ~done /\ verdict = "ok" /\ l <= Len(Steps)
  /\ verdict' = Verdict(Steps[l])
  /\ l' = l + 1
  /\ UNCHANGED <<vars, tid, done>>

Finish ==
  /\ ~done /\ (verdict # "ok" \/ l > Len(Steps))
  /\ done' = TRUE
  /\ PrintT(<<"RESULT", Traces[tid].id, verdict, l - 1>>)
  /\ UNCHANGED <<vars, tid, l, verdict>>

TraceNext == Consume \/ Finish

TraceSpec == TraceInit /\ [][TraceNext]_tvars
=============================================================================
