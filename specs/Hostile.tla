------------------------------ MODULE Hostile ------------------------------
(* C05 - no received datagram can crash, hang or wedge the receive path.     *)
(*                                                                         *)
(* Fault model.  A small protocol state machine (SCTP association of the   *)
(* victim in both roles, media transport idle / flowing, stateless wire    *)
(* parsers) is composed with an alphabet of hostile inputs:                *)
(*   (a) well-formed but nonsensical inputs  [k = chunk / packet type,     *)
(*       c = field class, m = "none"];                                     *)
(*   (b) byte-level mutation tags applied to a valid packet of type k      *)
(*       [c = "valid", m = tag], and raw datagrams [k = "RAW"].            *)
(* One behaviour = valid set-up steps, ONE hostile step, then the probe    *)
(* (valid traffic).  TLC enumerates every (reachable state) x (input)     *)
(* pair = the fault enumeration; each pair is announced with PrintT and   *)
(* realised on the real code by harness/c05_hostile.py.                    *)
(*                                                                         *)
(* The design (Deviations = {}) is total over the alphabet: a hostile step *)
(* never lets an exception escape, does bounded work, leaves the transport *)
(* up unless the input legitimately ends / steers the association, and the *)
(* probe is served.  Every element of Deviations re-enables, in the model, *)
(* one defect class that exists or existed in the code; TLC must then find *)
(* a counter-example (sensitivity), and the set of deviations still        *)
(* present predicts which pairs crash on the real tree (agreement).        *)
EXTENDS Naturals, Sequences, FiniteSets, TLC

CONSTANTS Deviations,     \* subset of DevNames: defects enabled in the model
          Present,        \* subset of DevNames: defects still present in the code (announced prediction only)
          Announce        \* TRUE: print one <<"PAIR", ...>> line per pair

VARIABLES sub, role, st, phase, inp, out, act
vars == <<sub, role, st, phase, inp, out, act>>
View == <<sub, role, st, phase, inp, out>>

DevNames == {"ParamLenZeroLoop", "ShortBody", "InitBundled", "DcepOpenExisting", "SackReversedGaps",
             "SackGapWork", "SackGapOverflow", "NoTcb", "BadUtf8", "SackBeyondSent",
             "RembCount", "HdrExtLen", "EmptyDatagram",
             "SsnHeadOfLine", "ReinitKeepsSackState", "RembSsrcOverflow", "StaleFrameGuard"}
ASSUME Deviations \subseteq DevNames

(* ---- step budget: "work proportional to the datagram size" (profile events of the harness) ---- *)
BudgetBase == 400000
BudgetPerByte == 4000
Budget(n) == BudgetBase + BudgetPerByte * n

(* ------------------------------------------------------------------ alphabet *)
SctpSem == {
    <<"ABORT", "plain">>, <<"ABORT", "then_reinit">>, <<"ABORT", "wrong_tag">>, <<"ANY", "bad_checksum">>,
    <<"DATA", "sseq_stale">>, <<"DATA", "sseq_wrapped">>, <<"DATA", "sseq_future">>, <<"DATA", "orphan_fragment">>,
    <<"ANY", "wrong_tag">>, <<"COOKIE_ACK", "plain">>, <<"COOKIE_ECHO", "garbage">>,
    <<"DATA", "dcep_ack_open">>, <<"DATA", "dcep_ack_unknown">>, <<"DATA", "dcep_open_bad_utf8">>,
    <<"DATA", "dcep_open_existing">>, <<"DATA", "dcep_open_new">>,
    <<"DATA", "dcep_open_overrun">>, <<"DATA", "dcep_open_short">>,
    <<"DATA", "dcep_unknown_type">>, <<"DATA", "empty_user_data">>, <<"DATA", "frag_no_first">>,
    <<"DATA", "frag_no_last">>, <<"DATA", "many_chunks">>, <<"DATA", "ppid_unknown">>,
    <<"DATA", "sseq_far">>, <<"DATA", "stream_huge">>, <<"DATA", "stream_reset">>,
    <<"DATA", "string_bad_utf8">>, <<"DATA", "tsn_far_ahead">>, <<"DATA", "tsn_far_behind">>,
    <<"DATA", "tsn_gap">>, <<"DATA", "unknown_stream">>, <<"DATA", "zero_body">>,
    <<"ERROR", "plain">>, <<"FORWARD_TSN", "ahead_small">>, <<"FORWARD_TSN", "backwards">>,
    <<"FORWARD_TSN", "far_ahead">>, <<"FORWARD_TSN", "many_streams">>,
    <<"FORWARD_TSN", "unknown_streams">>, <<"HEARTBEAT", "odd_params">>,
    <<"HEARTBEAT_ACK", "unsolicited">>, <<"INIT", "bundled">>, <<"INIT", "params_odd">>,
    <<"INIT", "plain">>, <<"INIT", "tag_nonzero">>, <<"INIT", "zero_fields">>,
    <<"INIT_ACK", "no_cookie">>, <<"INIT_ACK", "plain">>, <<"RECONFIG", "add_streams">>,
    <<"RECONFIG", "reset_seq_odd">>, <<"RECONFIG", "reset_unknown_streams">>,
    <<"RECONFIG", "response_to_nothing">>, <<"RECONFIG", "unknown_param">>,
    <<"SACK", "acks_all">>, <<"SACK", "cum_far_ahead">>, <<"SACK", "cum_far_behind">>,
    <<"SACK", "cum_unsent">>, <<"SACK", "dups_many">>, <<"SACK", "gaps_full_range">>,
    <<"SACK", "gaps_out_of_range">>, <<"SACK", "gaps_overlapping">>, <<"SACK", "gaps_reversed">>,
    <<"SACK", "rwnd_extreme">>, <<"SHUTDOWN", "plain">>, <<"SHUTDOWN", "wrong_tag">>,
    <<"SHUTDOWN_ACK", "plain">>, <<"SHUTDOWN_COMPLETE", "plain">>,
    <<"SHUTDOWN_COMPLETE", "wrong_tag">>, <<"UNKNOWN", "type">> }

SctpKinds == {"DATA", "INIT", "INIT_ACK", "SACK", "HEARTBEAT", "HEARTBEAT_ACK", "ABORT", "SHUTDOWN",
              "SHUTDOWN_ACK", "ERROR", "COOKIE_ECHO", "COOKIE_ACK", "SHUTDOWN_COMPLETE", "RECONFIG",
              "FORWARD_TSN", "UNKNOWN"}
SctpParamKinds == {"INIT", "INIT_ACK", "HEARTBEAT", "HEARTBEAT_ACK", "ABORT", "ERROR", "RECONFIG"}
SctpFixedKinds == {"DATA", "INIT", "INIT_ACK", "SACK", "SHUTDOWN", "FORWARD_TSN"}
SctpMuts == {"trunc", "body_short", "len_zero", "len_small", "len_big", "random_body", "bitflip",
             "bitflip_raw", "dup_chunk", "pad_garbage"}
SctpParamMuts == {"param_len_0", "param_len_small", "param_len_big"}
SctpRawMuts == {"empty", "random_bytes", "random_chunks"}

MediaSem == {
    <<"BYE", "known">>, <<"BYE", "unknown">>, <<"PSFB", "pli_fir_odd">>, <<"PSFB", "remb_odd">>,
    <<"RR", "odd">>, <<"RTCP", "framing_odd">>, <<"RTCP", "unknown_type">>,
    <<"RTP", "abs_send_time_odd">>, <<"RTP", "audio_odd">>, <<"RTP", "csrc_max">>,
    <<"RTP", "ext_bad_text">>, <<"RTP", "ext_framing_odd">>, <<"RTP", "ext_wrong_len">>,
    <<"RTP", "h264_odd">>, <<"RTP", "looks_like_rtcp">>, <<"RTP", "many_ssrcs">>, <<"RTP", "padding_odd">>,
    <<"RTP", "rtx_bad_apt">>, <<"RTP", "rtx_short">>, <<"RTP", "rtx_unknown_seq">>,
    <<"RTP", "rtx_unknown_ssrc">>, <<"RTP", "seq_jump">>, <<"RTP", "ts_nonsense">>,
    <<"RTP", "unknown_pt">>, <<"RTP", "unknown_ssrc">>, <<"RTP", "version_bad">>,
    <<"RTP", "vp8_desc_trunc">>, <<"RTPFB", "nack_odd">>, <<"RTPFB", "unknown_fmt">>,
    <<"SDES", "odd">>, <<"SR", "odd">> }
MediaKinds == {"RTP_VP8", "RTP_H264", "RTP_RTX", "RTP_AUDIO", "SR", "RR", "SDES", "BYE", "RTPFB",
               "PSFB_PLI", "PSFB_REMB", "COMPOUND"}
MediaMuts == {"trunc", "len_zero", "len_small", "len_big", "count_odd", "random_body", "bitflip",
              "append_garbage"}
MediaRawMuts == {"empty", "random_bytes"}

Parsers == {"parse_packet", "decode_params", "RtpPacket.parse", "RtcpPacket.parse",
            "unpack_header_extensions", "unpack_remb_fci", "H264PayloadDescriptor.parse",
            "VpxPayloadDescriptor.parse"}
ParserSources == {"corpus", "trunc", "random"}

In(k, c, m) == [k |-> k, c |-> c, m |-> m]
NoInput == In("-", "-", "-")

SctpAlphabet ==
  {In(p[1], p[2], "none") : p \in SctpSem}
  \cup {In(k, "valid", m) : k \in SctpKinds, m \in SctpMuts}
  \cup {In(k, "valid", m) : k \in SctpParamKinds, m \in SctpParamMuts}
  \cup {In("RAW", "raw", m) : m \in SctpRawMuts}
MediaAlphabet ==
  {In(p[1], p[2], "none") : p \in MediaSem}
  \cup {In(k, "valid", m) : k \in MediaKinds, m \in MediaMuts}
  \cup {In("RAW", "raw", m) : m \in MediaRawMuts}
ParserAlphabet == {In(p, c, "none") : p \in Parsers, c \in ParserSources}

Alphabet(s) == CASE s = "sctp" -> SctpAlphabet [] s = "media" -> MediaAlphabet [] s = "parser" -> ParserAlphabet

(* ------------------------------------------------------------------ protocol states *)
Est == {"est_idle", "est_out"}
HasTcb == {"closed_init", "cookie_echoed", "est_idle", "est_out", "shut_ack"}
ReceiveStates ==
  {<<"sctp", "server", "closed">>, <<"sctp", "server", "closed_init">>,
   <<"sctp", "client", "cookie_wait">>, <<"sctp", "client", "cookie_echoed">>}
  \cup {<<"sctp", r, s>> : r \in {"client", "server"}, s \in {"est_idle", "est_out", "shut_ack"}}
  \cup {<<"media", "receiver", "m_idle">>, <<"media", "receiver", "m_flow">>}
  \cup {<<"parser", "parser", "p">>}

(* inputs that legitimately end or steer the association: exempt from StillUp / ServesValidTraffic.
   `ctl` = the chunk types (well framed, correct verification tag) the datagram carries; for media
   "BYE_KNOWN" = an RTCP BYE naming an SSRC that is being received. *)
EndTypes(s) == {"ABORT", "SHUTDOWN", "BYE_KNOWN"}
               \cup (IF s = "shut_ack" THEN {"SHUTDOWN_COMPLETE"} ELSE {})
               \cup (IF s \in {"cookie_wait", "cookie_echoed"} THEN {"ERROR"} ELSE {})
SteerTypes(s) == (IF s \in {"closed", "closed_init"} THEN {"INIT"} ELSE {})
                 \cup (IF s = "cookie_wait" THEN {"INIT_ACK"} ELSE {})
Exempt(s, ctl, probeReset) == probeReset \/ (ctl \cap (EndTypes(s) \cup SteerTypes(s)) # {})

(* does the mutation leave a chunk the receiver accepts like the valid one? *)
AcceptedLike == {"dup_chunk", "pad_garbage", "param_len_small", "param_len_big"}
Unpredictable == {"bitflip", "random_body", "random_chunks", "count_odd", "append_garbage"}

GoodTag(i) == i.m = "none" /\ i.c \notin {"wrong_tag", "bad_checksum", "tag_nonzero"}
              /\ ~(i.k = "INIT" /\ i.c = "bundled")

(* effect of a VALID, correctly tagged chunk of type k (RFC 4960 reading) *)
ValidEffect(r, s, k) ==
  CASE k = "ABORT" -> "ended"
    [] k = "SHUTDOWN" /\ s \in Est -> "shut_ack"
    [] k = "SHUTDOWN_COMPLETE" /\ s = "shut_ack" -> "ended"
    [] k = "ERROR" /\ s \in {"cookie_wait", "cookie_echoed"} -> "ended"
    [] k = "INIT" /\ s \in {"closed", "closed_init"} -> "closed_init"
    [] k = "INIT_ACK" /\ s = "cookie_wait" -> "cookie_echoed"
    [] k = "COOKIE_ACK" /\ s = "cookie_echoed" -> "est_idle"
    [] k = "BYE" -> "ended"
    [] OTHER -> s

(* states the design may be in after the hostile step *)
NewStates(sb, r, s, i) ==
  IF sb = "parser" THEN {s}
  ELSE IF i.m = "none" THEN
         IF sb = "media" THEN (IF i.k = "BYE" /\ i.c = "known" THEN {"ended"} ELSE {s})
         ELSE IF GoodTag(i) /\ i.c \in {"plain", "no_cookie", "acks_all", "then_reinit"}
                THEN (IF i.k = "SACK" THEN (IF s = "est_out" THEN {"est_idle"} ELSE {s}) ELSE {ValidEffect(r, s, i.k)})
                ELSE {s}
  ELSE IF i.m \in AcceptedLike THEN {ValidEffect(r, s, i.k)}
  ELSE IF i.m \in Unpredictable THEN {s, ValidEffect(r, s, i.k)} \cup (IF sb = "sctp" THEN {"ended"} ELSE {})
  ELSE {s}

(* ------------------------------------------------------------------ deviations = defect classes *)
(* "crash" / "over" / "unserved": what the hostile step does under the deviation set D; "maybe" marks
   pairs whose concrete variants may or may not hit the defect (not used for agreement). *)
Reaches(s, i) == \* the chunk gets past the verification tag check to its handler
  i.m = "none" /\ GoodTag(i)

Pred(D, sb, r, s, i) ==
  CASE sb = "sctp" /\ "ParamLenZeroLoop" \in D /\ i.m = "param_len_0" -> "over"
    [] sb = "sctp" /\ "ShortBody" \in D /\ i.m = "body_short" /\ i.k \in SctpFixedKinds -> "crash"
    [] sb = "sctp" /\ "ShortBody" \in D /\ i.m = "body_short" /\ i.k = "RECONFIG" /\ s \in Est -> "crash"
    [] sb = "sctp" /\ "InitBundled" \in D /\ i.k = "INIT" /\ (i.c = "bundled" \/ i.m = "dup_chunk") -> "crash"
    [] sb = "sctp" /\ "SackGapWork" \in D /\ i.k = "SACK" /\ i.c = "gaps_full_range" -> "over"
    [] sb = "sctp" /\ "NoTcb" \in D /\ Reaches(s, i) /\ i.k \in {"DATA", "FORWARD_TSN"} /\ s \notin HasTcb -> "crash"
    [] sb = "sctp" /\ "NoTcb" \in D /\ i.m \in AcceptedLike /\ i.k \in {"DATA", "FORWARD_TSN"} /\ s \notin HasTcb -> "crash"
    [] sb = "sctp" /\ "DcepOpenExisting" \in D /\ i.k = "DATA" /\ i.c = "dcep_open_existing" /\ s \in Est \cup {"shut_ack"} -> "crash"
    [] sb = "sctp" /\ "SackReversedGaps" \in D /\ i.k = "SACK" /\ i.c = "gaps_reversed" /\ s = "est_out" -> "crash"
    [] sb = "sctp" /\ "SackGapOverflow" \in D /\ i.k = "DATA" /\ i.c = "tsn_far_ahead" /\ s \in HasTcb -> "crash"
    [] sb = "sctp" /\ "BadUtf8" \in D /\ i.k = "DATA" /\ i.c = "dcep_open_bad_utf8" /\ s \in HasTcb -> "crash"
    [] sb = "sctp" /\ "BadUtf8" \in D /\ i.k = "DATA" /\ i.c = "string_bad_utf8" /\ s \in Est \cup {"shut_ack"} -> "crash"
    [] sb = "sctp" /\ "SackBeyondSent" \in D /\ i.k = "SACK" /\ i.c \in {"cum_far_ahead", "cum_unsent"} /\ s # "shut_ack" -> "unserved"
    [] sb = "sctp" /\ "SsnHeadOfLine" \in D /\ i.k = "DATA" /\ i.c \in {"sseq_future", "orphan_fragment"} /\ s \in Est -> "unserved"
    [] sb = "sctp" /\ "ReinitKeepsSackState" \in D /\ i.k = "ABORT" /\ i.c = "then_reinit" /\ r = "server" /\ s \in HasTcb -> "crash"
    [] sb = "media" /\ "RembSsrcOverflow" \in D /\ i.k = "RTP" /\ i.c = "many_ssrcs" -> "crash"
    [] sb = "media" /\ "StaleFrameGuard" \in D /\ i.k = "RTP" /\ i.c = "ts_nonsense" /\ s = "m_idle" -> "unserved"
    [] sb = "media" /\ "RembCount" \in D /\ i.k = "PSFB" /\ i.c = "remb_odd" -> "crash"
    [] sb = "media" /\ "HdrExtLen" \in D /\ i.k = "RTP" /\ i.c = "ext_wrong_len" -> "crash"
    [] sb = "media" /\ "EmptyDatagram" \in D /\ i.m = "empty" -> "crash"
    [] sb = "media" /\ "EmptyDatagram" \in D /\ i.m = "trunc" -> "crash"    \* truncation at 0
    [] sb = "parser" /\ "ParamLenZeroLoop" \in D /\ i.k \in {"parse_packet", "decode_params"} /\ i.c = "corpus" -> "over"
    [] sb = "parser" /\ "ShortBody" \in D /\ i.k = "parse_packet" /\ i.c \in {"corpus", "trunc"} -> "crash"
    [] sb = "parser" /\ "HdrExtLen" \in D /\ i.k = "RtpPacket.parse" /\ i.c \in {"corpus", "trunc"} -> "crash"
    [] sb = "sctp" /\ "ParamLenZeroLoop" \in D /\ i.m \in {"param_len_small", "param_len_big"} -> "maybe"
    [] sb = "parser" /\ "RembCount" \in D /\ i.k = "unpack_remb_fci" /\ i.c \in {"corpus", "trunc"} -> "crash"
    [] i.m \in Unpredictable \/ i.k = "RAW" \/ (sb = "parser" /\ i.c = "random") -> IF D = {} THEN "clean" ELSE "maybe"
    [] OTHER -> "clean"

(* sensitivity, checked when the module is loaded: every deviation breaks a clause for some pair,
   and the design (no deviation) breaks none *)
Bad == {"crash", "over", "unserved"}
ASSUME \A d \in DevNames : \E t \in ReceiveStates : \E i \in Alphabet(t[1]) : Pred({d}, t[1], t[2], t[3], i) \in Bad
ASSUME \A t \in ReceiveStates : \A i \in Alphabet(t[1]) : Pred({}, t[1], t[2], t[3], i) = "clean"
ASSUME PrintT(ToString(<<"BUDGET", BudgetBase, BudgetPerByte>>))

(* ------------------------------------------------------------------ behaviour *)
Out0 == [esc |-> FALSE, over |-> FALSE, served |-> TRUE, legit |-> FALSE, pre |-> "-"]

Init ==
  /\ \E t \in {<<"sctp", "server", "closed">>, <<"sctp", "client", "boot">>,
               <<"media", "receiver", "m_idle">>, <<"parser", "parser", "p">>} :
        sub = t[1] /\ role = t[2] /\ st = t[3]
  /\ phase = "setup" /\ inp = NoInput /\ out = Out0
  /\ act = [op |-> "init"]

Step(name, from, to) ==
  /\ phase = "setup" /\ st = from
  /\ st' = to /\ act' = [op |-> name]
  /\ UNCHANGED <<sub, role, phase, inp, out>>

(* valid set-up steps (what the harness does with the real peer) *)
ClientStart   == sub = "sctp" /\ role = "client" /\ Step("start", "boot", "cookie_wait")
ClientInitAck == sub = "sctp" /\ role = "client" /\ Step("init_ack", "cookie_wait", "cookie_echoed")
ClientUp      == sub = "sctp" /\ role = "client" /\ Step("cookie_ack", "cookie_echoed", "est_idle")
ServerInit    == sub = "sctp" /\ role = "server" /\ Step("init", "closed", "closed_init")
ServerUp      == sub = "sctp" /\ role = "server" /\ Step("cookie_echo", "closed_init", "est_idle")
SendData      == sub = "sctp" /\ Step("send", "est_idle", "est_out")
Shutdown      == sub = "sctp" /\ Step("shutdown", "est_idle", "shut_ack")
MediaFlows    == sub = "media" /\ Step("frames", "m_idle", "m_flow")

Hostile ==
  /\ phase = "setup" /\ <<sub, role, st>> \in ReceiveStates
  /\ \E i \in Alphabet(sub) :
       LET p == Pred(Deviations, sub, role, st, i) IN
       \E s2 \in NewStates(sub, role, st, i) :
         /\ (Announce => PrintT(ToString(<<"PAIR", sub, role, st, i.k, i.c, i.m, Pred(Present, sub, role, st, i), NewStates(sub, role, st, i)>>)))
         /\ inp' = i /\ st' = s2 /\ phase' = "probe"
         /\ out' = [esc |-> p = "crash", over |-> p = "over", served |-> TRUE, pre |-> st,
                    legit |-> \/ (sub = "sctp" /\ s2 # st /\ (i.m \in Unpredictable \/ i.m \in AcceptedLike \/ GoodTag(i)))
                              \/ (sub = "media" /\ s2 = "ended")]
         /\ act' = [op |-> "hostile", k |-> i.k, c |-> i.c, m |-> i.m, pred |-> p]
  /\ UNCHANGED <<sub, role>>

Probe ==
  /\ phase = "probe"
  /\ phase' = "done"
  /\ out' = [out EXCEPT !.served = ~(Pred(Deviations, sub, role, out.pre, inp) = "unserved")]
  /\ act' = [op |-> "probe"]
  /\ UNCHANGED <<sub, role, st, inp>>

Next == ClientStart \/ ClientInitAck \/ ClientUp \/ ServerInit \/ ServerUp \/ SendData \/ Shutdown
        \/ MediaFlows \/ Hostile \/ Probe

Spec == Init /\ [][Next]_vars

(* ------------------------------------------------------------------ the property clauses *)
NoEscape == ~out.esc
Terminates == ~out.over
StillUp == (phase # "setup" /\ st = "ended") => out.legit
ServesValidTraffic == phase = "done" => (out.served \/ out.legit)

TypeOK == /\ phase \in {"setup", "probe", "done"}
          /\ out.esc \in BOOLEAN /\ out.over \in BOOLEAN

(* witnesses (must be VIOLATED: the interesting situations are reachable) *)
WitnessNeverEnded == st # "ended"
WitnessNeverProbed == phase # "done"
WitnessNoHostileInShutAck == ~(phase = "probe" /\ out.pre = "shut_ack")
=============================================================================
