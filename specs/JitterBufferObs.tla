-------------------------- MODULE JitterBufferObs --------------------------
(* C10 (and the jitter-buffer part of C17) - layer A: the observable        *)
(* specification of the jitter buffer.                                      *)
(*                                                                          *)
(* Everything here talks about the history of add() calls only:             *)
(*   - the stream  st = [pk |-> <<[seq, ts, fi], ...>>, fs |-> <<...>>]     *)
(*     describes the packets that exist: packet id i (1-based position in   *)
(*     the sent stream) has sequence number pk[i].seq (origin-relative,     *)
(*     modulo c.mod), timestamp pk[i].ts and belongs to sent frame          *)
(*     pk[i].fi (0-based); fs[k+1] is the id of the first packet of sent    *)
(*     frame k, with one sentinel entry Len(pk)+1 at the end;               *)
(*   - an event  ev  is one add() call: which packet arrived and what came  *)
(*     back (exception, PLI flag, released frame decomposed into packet     *)
(*     ids) plus a projection of what the buffer holds (ids that left the   *)
(*     buffer during the call, occupancy);                                  *)
(*   - the history record  h  accumulates what the clauses need.            *)
(*                                                                          *)
(* StepVerdict / EndVerdict are total verdict functions: "ok" or the name   *)
(* of the first clause of the property statement that the event violates.  *)
(* The same operators are the guard of A's own action (Add), the invariant  *)
(* checked by TLC on the implementation model JitterBuffer.tla, and the     *)
(* judge of recorded executions in TraceJitterBuffer.tla.                   *)
(*                                                                          *)
(* Parameters are passed as a record c = [cap, pf, mm, mod, video] so that  *)
(* the trace specification can judge traces with different capacities in    *)
(* one TLC run; C0 is the record made of this module's CONSTANTS.           *)
EXTENDS Integers, Sequences, FiniteSets, TLC

CONSTANTS Capacity,     \* number of slots
          Prefetch,     \* frames to accumulate before the first is released
          MaxMisorder,  \* "100 or more positions late"
          Modulus,      \* size of the sequence-number space (2^16)
          IsVideo       \* video mode: must signal PLI on discard

VARIABLE h              \* the observable history (record, see EmptyH)

C0 == [cap |-> Capacity, pf |-> Prefetch, mm |-> MaxMisorder, mod |-> Modulus, video |-> IsVideo]

None == -1
MaxI(a, b) == IF a >= b THEN a ELSE b
MinI(a, b) == IF a <= b THEN a ELSE b
SeqToSet(s) == {s[k] : k \in 1..Len(s)}

\* (b - a) modulo m for a, b in 0..m-1
Dist(a, b, m) == ((b - a) + m) % m
\* a is before b in serial-number order (less than half the space apart)
SerialLess(a, b, m) == LET d == Dist(a, b, m) IN d >= 1 /\ d < m \div 2

EmptyH ==
  [ n       |-> 0,       \* number of add() calls so far
    arr     |-> {},      \* ids of the packets received so far (seq / ts: st.pk[id])
    used    |-> {},      \* ids that were part of a released frame
    lastOut |-> None,    \* sequence number of the last packet of the last released frame
    late    |-> FALSE,   \* some packet arrived MaxMisorder or more positions late
    \* --- bookkeeping of the completeness clause (meaningful while its premise holds)
    hi      |-> 0,       \* highest id (stream position) that arrived
    first   |-> 0,       \* id of the first arrival
    dup     |-> FALSE,   \* some packet arrived twice
    reord   |-> FALSE,   \* some packet arrived after a later one
    disp    |-> TRUE,    \* every arrival was displaced by less than the capacity
    cons    |-> TRUE,    \* packets 1..hi have consecutive sequence numbers (no jump)
    contig  |-> 0,       \* ids 1..contig have all arrived
    Dn      |-> 0,       \* frames due so far (complete, followed by the prefetch window)
    Ln      |-> 0,       \* the same for a buffer that releases at most one frame per call
    fits    |-> TRUE,    \* no arrival was >= capacity ahead of the oldest frame not yet due
    blog    |-> FALSE,   \* an arrival was >= capacity ahead of the oldest frame a
                         \* one-frame-per-call buffer can have released (known finding)
    R       |-> 0,       \* sent frames 0..R-1 were released whole, once, in order
    broken  |-> FALSE ]  \* something else than sent frame R was released

------------------------------------------------------------------------------
(* Packet arrival: updates that do not depend on what add() returned.      *)

\* "arrives k positions late": an earlier arrival has a sequence number k ahead.
IsLate(c, st, h0, s) ==
  \E j \in h0.arr : LET k == Dist(s, st.pk[j].seq, c.mod) IN k >= c.mm /\ k < c.mod \div 2

RECURSIVE Advance(_, _)
Advance(k, S) == IF (k + 1) \in S THEN Advance(k + 1, S) ELSE k

Window(c) == IF c.pf > 1 THEN c.pf ELSE 1

Arrived(c, st, h0, id) ==
  LET p      == st.pk[id]
      isNew  == id \notin h0.arr
      arr1   == h0.arr \cup {id}
      contig1 == Advance(h0.contig, arr1)
      g      == IF contig1 = 0 THEN -1 ELSE st.pk[contig1].fi
      D1     == MaxI(h0.Dn, g - Window(c) + 1)
      okIdx  == h0.first = 1 \/ (h0.n = 0 /\ id = 1)    \* bookkeeping only from a stream start
      fits1  == h0.fits /\ (~okIdx \/ id - st.fs[h0.Dn + 1] < c.cap)
      blog1  == h0.blog \/ (okIdx /\ fits1 /\ id - st.fs[h0.Ln + 1] >= c.cap)
      L1     == IF isNew THEN MinI(D1, h0.Ln + 1) ELSE h0.Ln
  IN [h0 EXCEPT !.n = h0.n + 1, !.arr = arr1,
                !.late = h0.late \/ IsLate(c, st, h0, p.seq),
                !.hi = MaxI(h0.hi, id),
                !.cons = h0.cons /\ \A i \in MaxI(h0.hi, 1)..(id - 1) :
                                       st.pk[i + 1].seq = (st.pk[i].seq + 1) % c.mod,
                !.first = IF h0.n = 0 THEN id ELSE h0.first,
                !.dup = h0.dup \/ ~isNew,
                !.reord = h0.reord \/ id < h0.hi,
                !.disp = h0.disp /\ (h0.hi - id < c.cap),
                !.contig = contig1, !.Dn = D1, !.Ln = L1, !.fits = fits1, !.blog = blog1]

------------------------------------------------------------------------------
(* The clauses of the property statement, judged on one add() call.        *)

\* ev = [id, exc, pli, rel, ids, fts, proj, gone, occ];  h1 = history including this arrival
StepV(c, st, h1, ev) ==
  LET ids == ev.ids
      n   == Len(ids)
      S   == SeqToSet(ids)
  IN
  IF ev.exc THEN "C10.raised"
  ELSE IF ev.rel /\ n = 0 THEN "C10.frame_empty"
  ELSE IF ev.rel /\ \E k \in 1..n : ids[k] \notin h1.arr THEN "C10.frame_not_received"
  ELSE IF ev.rel /\ \E k \in 1..(n - 1) :
                       st.pk[ids[k + 1]].seq # (st.pk[ids[k]].seq + 1) % c.mod
       THEN "C10.frame_not_consecutive"
  ELSE IF ev.rel /\ \E k \in 1..n : st.pk[ids[k]].ts # ev.fts THEN "C10.frame_timestamp"
  ELSE IF ev.rel /\ ~h1.late /\ S \cap h1.used # {} THEN "C10.packet_reused"
  ELSE IF ev.rel /\ ~h1.late /\ h1.lastOut # None
             /\ ~SerialLess(h1.lastOut, st.pk[ids[1]].seq, c.mod) THEN "C10.frame_order"
  ELSE IF ev.rel /\ n > c.cap THEN "C10.occupancy"
  ELSE IF ev.proj /\ ev.occ > c.cap THEN "C10.occupancy"
  ELSE IF ev.proj /\ c.video /\ ~ev.pli /\ (ev.gone \ (IF ev.rel THEN S ELSE {})) # {}
       THEN "C10.pli_missing"
  ELSE "ok"

\* history after the outputs of the call have been recorded
Released(c, st, h1, ev) ==
  LET ids == ev.ids
      n   == Len(ids)
      S   == SeqToSet(ids)
      known == \A k \in 1..n : ids[k] \in h1.arr
      lo  == IF h1.R + 2 <= Len(st.fs) THEN st.fs[h1.R + 1] ELSE 0
      up  == IF h1.R + 2 <= Len(st.fs) THEN st.fs[h1.R + 2] ELSE 0
      whole == lo > 0 /\ ids = [k \in 1..(up - lo) |-> lo + k - 1]
  IN IF ~ev.rel \/ n = 0 \/ ~known THEN h1
     ELSE [h1 EXCEPT !.used = h1.used \cup S,
                     !.lastOut = st.pk[ids[n]].seq,
                     !.R = IF whole /\ ~h1.broken THEN h1.R + 1 ELSE h1.R,
                     !.broken = h1.broken \/ ~whole]

\* one add() call: verdict and next history (Arrived is evaluated once)
Judge(c, st, h0, ev) ==
  LET h1 == Arrived(c, st, h0, ev.id)
  IN [v |-> StepV(c, st, h1, ev), h |-> Released(c, st, h1, ev)]

StepVerdict(c, st, h0, ev) == Judge(c, st, h0, ev).v
StepH(c, st, h0, ev) == Judge(c, st, h0, ev).h

------------------------------------------------------------------------------
(* Clauses judged on a whole history (every prefix of a history is one).   *)

\* "packets arrive complete and displaced by less than the capacity"
\*  - the stream is the one that starts with the first packet received,
\*  - no sequence jump, every packet up to the highest one has arrived,
\*  - no packet arrived capacity or more positions after a later one,
\*  - duplicates only as long as no packet is MaxMisorder or more late,
\*  - the prefetch window itself fits into the capacity.
CompletePremise(c, st, h0) ==
  /\ h0.n > 0 /\ h0.first = 1
  /\ h0.contig = h0.hi /\ h0.cons
  /\ h0.disp /\ (~h0.dup \/ ~h0.late) /\ h0.fits

\* "every frame except the trailing prefetch window is released exactly once".
\*  complete_lost:    fewer whole frames than even a buffer that releases at most
\*                    one frame per call must have released, or a hole / partial /
\*                    repeated frame.
\*  complete_backlog: the shortfall that follows from releasing at most one frame per
\*                    call (frames stay behind after a reordering; an early packet
\*                    then overflows the buffer and a complete frame is discarded).
EndVerdict(c, st, h0) ==
  IF ~CompletePremise(c, st, h0) THEN "ok"
  ELSE IF h0.broken \/ h0.R < h0.Ln
         THEN (IF h0.blog THEN "C10.complete_backlog" ELSE "C10.complete_lost")
  ELSE IF h0.R < h0.Dn THEN "C10.complete_backlog"
  ELSE "ok"

------------------------------------------------------------------------------
(* A as a specification of its own: one action, whose guard is the property. *)

Init == h = EmptyH

Add(st, ev) ==
  /\ StepVerdict(C0, st, h, ev) = "ok"
  /\ h' = StepH(C0, st, h, ev)
  /\ EndVerdict(C0, st, h') \in {"ok"}

=============================================================================
