------------------------------ MODULE RrStats ------------------------------
(* C18 - RTCP receiver-report statistics (RFC 3550 6.4.1, A.1, A.3, A.8).  *)
(*                                                                          *)
(* Three layers, all parameterised by the moduli so that TLC can check a    *)
(* small instance exhaustively and TraceRrStats.tla can use the real one:   *)
(*                                                                          *)
(*  D  declarative reference (the property text): operators Ref* over the   *)
(*     history `hist` of packets given by their IDEAL, unwrapped sequence   *)
(*     number x, ideal timestamp t and arrival a - what the sender knows.   *)
(*  R  the same reference as a left fold (RefInit/RefStep) over what the    *)
(*     receiver sees: seq = x mod SeqMod, ts = t mod TsMod, a.  This is the *)
(*     oracle TraceRrStats.tla runs over recorded executions of the code.   *)
(*  M  an implementation-shaped counter model of StreamStatistics.add and   *)
(*     of the report construction in RTCRtpReceiver._run_rtcp.              *)
(*                                                                          *)
(* TLC checks R = D and M = D as invariants (environment: every arrival is  *)
(* within half the sequence space of the highest one, timestamps of         *)
(* successive in-order packets differ by less than half the timestamp       *)
(* space).  `Deviations` re-enables, in M only, defects that exist(ed) in   *)
(* the code; each must make TLC produce a counter-example.                  *)
EXTENDS Integers, Sequences, FiniteSets, TLC

CONSTANTS SeqMod,      \* sequence number modulus (real: 2^16)
          TsMod,       \* timestamp modulus       (real: 2^32)
          LostMin,     \* cumulative-lost field, smallest value (real: -2^23)
          LostMax,     \*                        largest value  (real: 2^23-1)
          HighestMax,  \* extended-highest field, largest value (real: 2^32-1)
          JitterMax,   \* jitter field, largest value           (real: 2^32-1)
          MaxPkts,     \* bound on the history length
          MaxReports,  \* bound on the number of reports
          FirstSeqs,   \* ideal sequence number of the first packet, subset of 0..SeqMod-1
          Jumps,       \* x - (highest x so far) of a later packet; |j| < SeqMod/2
          FirstTs,     \* ideal timestamp of the first packet, subset of 0..TsMod-1
          TsSteps,     \* t - (t of the last in-order packet); |d| < TsMod/2
          ArrSteps,    \* a - (a of the previous packet); may be negative (clock jump)
          Deviations,  \* subset of {"NoCycles", "NonModularTs", "NoClamp", "TransitNotModular"}
          CheckD       \* TRUE: evaluate D's jitter in every state (exhaustive runs); FALSE: simulation

VARIABLES hist,   \* sequence of [x, t, a]: the arrival history (ideal values)
          cut,    \* length of hist when the last report was generated (0: none yet)
          nrep,   \* number of reports generated
          ref,    \* R: folded reference state
          m,      \* M: counters as in the code
          dv,     \* environment bookkeeping (highest ideal x, t of the last in-order packet) and
                  \* D's jitter evaluated on hist (a function of hist; evaluated once per state)
          act     \* last action, its arguments and M's observable values (for replay)

vars == <<hist, cut, nrep, ref, m, dv, act>>

NoneV == -1
Abs(v) == IF v < 0 THEN -v ELSE v
Clamp(v, lo, hi) == IF v < lo THEN lo ELSE IF v > hi THEN hi ELSE v
\* (q * d + r) * 2^k \div d by long division, so that no intermediate exceeds 2 * d
\* (TLC integers are 32 bit; lost_interval << 8 does not fit for long loss bursts)
RECURSIVE ShiftDiv(_, _, _, _)
ShiftDiv(q, r, d, k) ==
  IF k = 0 THEN q
  ELSE IF 2 * r >= d THEN ShiftDiv(2 * q + 1, 2 * r - d, d, k - 1) ELSE ShiftDiv(2 * q, 2 * r, d, k - 1)
FractionOf(expInt, recvInt) ==          \* RFC 3550 A.3: (lost_interval << 8) / expected_interval
  LET lostInt == expInt - recvInt
  IN IF expInt = 0 \/ lostInt <= 0 THEN 0 ELSE ShiftDiv(lostInt \div expInt, lostInt % expInt, expInt, 8)
JitterUpdate(jq4, d) == jq4 + d - ((jq4 + 8) \div 16)   \* RFC 3550 A.8, integer form (x16)

\* serial-number arithmetic
SeqGt(s1, s2) == LET d == (s1 - s2) % SeqMod IN d > 0 /\ d < SeqMod \div 2
TsDiff(t1, t0) == LET d == (t1 - t0) % TsMod IN IF d >= TsMod \div 2 THEN d - TsMod ELSE d

Wire(p) == [seq |-> p.x % SeqMod, ts |-> p.t % TsMod, a |-> p.a]

------------------------------------------------------------------------
(* D - the declarative reference over the ideal history.                  *)

RECURSIVE RefHi(_, _)
RefHi(h, k) ==                       \* highest ideal sequence number among the first k packets
  IF k = 1 THEN h[1].x
  ELSE LET r == RefHi(h, k - 1) IN IF h[k].x > r THEN h[k].x ELSE r

RefReceived(h) == Len(h)
RefExpected(h, k) == IF k = 0 THEN 0 ELSE RefHi(h, k) - h[1].x + 1
RefHighest(h) == RefHi(h, Len(h))    \* = cycles * SeqMod + max, because h[1].x < SeqMod
RefLost(h) == Clamp(RefExpected(h, Len(h)) - Len(h), LostMin, LostMax)
RefFraction(h, c) ==                 \* interval = packets c+1 .. Len(h)
  FractionOf(RefExpected(h, Len(h)) - RefExpected(h, c), Len(h) - c)

InOrder(h, i) == i = 1 \/ h[i].x > RefHi(h, i - 1)
MaxOf(S) == CHOOSE v \in S : \A w \in S : w <= v
InSet(h) == {j \in 1..Len(h) : InOrder(h, j)}               \* the in-order packets
PrevIn(h, i) == MaxOf({j \in InSet(h) : j < i})              \* previous in-order packet (i > 1)
LastIn(h) == MaxOf(InSet(h))

\* The recurrence runs over the in-order packets that begin a new timestamp (the first
\* packet begins one); the send-time difference is the timestamp difference to the
\* previous in-order packet (which carries the timestamp of the previous beginner).
\* The text admits two readings of the arrival difference: "A" to the previous in-order
\* packet (what libwebrtc and the code do), "B" to the previous packet that began a
\* timestamp.
RefJq4(h, reading) ==
  LET ins == InSet(h)
      prevIn(i) == MaxOf({j \in ins : j < i})
      begs == {j \in ins : j = 1 \/ h[j].t # h[prevIn(j)].t}
      prevBeg(i) == MaxOf({j \in begs : j < i})
      RECURSIVE J(_)
      J(k) == IF k <= 1 THEN 0
              ELSE IF k \notin begs THEN J(k - 1)
              ELSE LET pa == IF reading = "A" THEN prevIn(k) ELSE prevBeg(k)
                   IN JitterUpdate(J(k - 1), Abs((h[k].a - h[pa].a) - (h[k].t - h[prevIn(k)].t)))
  IN J(Len(h))
RefJitter(h, reading) == RefJq4(h, reading) \div 16

DvNext(d, first, h, p) ==
  [hi |-> IF first \/ p.x > d.hi THEN p.x ELSE d.hi,
   lastInT |-> IF first \/ p.x > d.hi THEN p.t ELSE d.lastInT,
   lastA |-> p.a,
   jitterA |-> IF CheckD THEN RefJitter(h, "A") ELSE 0,
   jitterB |-> IF CheckD THEN RefJitter(h, "B") ELSE 0]

------------------------------------------------------------------------
(* R - the reference as a fold over what the receiver sees.               *)

RefInit == [n |-> 0, base |-> NoneV, hi |-> NoneV,
            expPrior |-> 0, nPrior |-> 0,
            lastTs |-> 0, lastArrA |-> 0, lastArrB |-> 0, jA |-> 0, jB |-> 0]

RefStep(r, p) ==
  IF r.n = 0
    THEN [r EXCEPT !.n = 1, !.base = p.seq, !.hi = p.seq,
                   !.lastTs = p.ts, !.lastArrA = p.a, !.lastArrB = p.a]
  ELSE LET fwd == (p.seq - r.hi) % SeqMod
           inOrder == fwd > 0 /\ fwd < SeqMod \div 2
       IN IF ~inOrder THEN [r EXCEPT !.n = r.n + 1]
          ELSE LET dts == TsDiff(p.ts, r.lastTs)
                   begins == dts # 0
               IN [r EXCEPT !.n = r.n + 1, !.hi = r.hi + fwd,
                            !.lastTs = p.ts, !.lastArrA = p.a,
                            !.lastArrB = IF begins THEN p.a ELSE r.lastArrB,
                            !.jA = IF begins THEN JitterUpdate(r.jA, Abs((p.a - r.lastArrA) - dts)) ELSE r.jA,
                            !.jB = IF begins THEN JitterUpdate(r.jB, Abs((p.a - r.lastArrB) - dts)) ELSE r.jB]

RExpected(r) == r.hi - r.base + 1
RLost(r) == Clamp(RExpected(r) - r.n, LostMin, LostMax)
RFraction(r) == FractionOf(RExpected(r) - r.expPrior, r.n - r.nPrior)
RHighest(r) == r.hi
RJitter(r, reading) == (IF reading = "A" THEN r.jA ELSE r.jB) \div 16
RefReported(r) == [r EXCEPT !.expPrior = RExpected(r), !.nPrior = r.n]

------------------------------------------------------------------------
(* M - the counters of StreamStatistics and the report of _run_rtcp.      *)

MInit == [baseSeq |-> NoneV, maxSeq |-> NoneV, cycles |-> 0, received |-> 0,
          jq4 |-> 0, lastArr |-> 0, lastTs |-> NoneV, expPrior |-> 0, recvPrior |-> 0]

Uint16Gt(s1, s2) ==   \* aiortc.utils.uint16_gt
  LET half == SeqMod \div 2
  IN (s1 < s2 /\ (s2 - s1) > half) \/ (s1 > s2 /\ (s1 - s2) < half)

MAdd(s, p) ==
  LET inOrder == s.maxSeq = NoneV \/ Uint16Gt(p.seq, s.maxSeq)
      recv == s.received + 1
      base == IF s.baseSeq = NoneV THEN p.seq ELSE s.baseSeq
  IN IF ~inOrder THEN [s EXCEPT !.received = recv, !.baseSeq = base]
     ELSE LET cyc == IF s.maxSeq # NoneV /\ p.seq < s.maxSeq THEN s.cycles + SeqMod ELSE s.cycles
              upd == p.ts # s.lastTs /\ recv > 1
              dts == IF "NonModularTs" \in Deviations THEN p.ts - s.lastTs ELSE TsDiff(p.ts, s.lastTs)
              \* "TransitNotModular": the relative transit is kept modulo TsMod, but the difference
              \* of two transits is not reduced again (wrong when the transit crosses 0)
              d == IF "TransitNotModular" \in Deviations
                     THEN Abs(((p.a - p.ts) % TsMod) - ((s.lastArr - s.lastTs) % TsMod))
                     ELSE Abs((p.a - s.lastArr) - dts)
          IN [s EXCEPT !.received = recv, !.baseSeq = base, !.cycles = cyc, !.maxSeq = p.seq,
                       !.jq4 = IF upd THEN JitterUpdate(s.jq4, d) ELSE s.jq4,
                       !.lastArr = p.a, !.lastTs = p.ts]

MExpected(s) == s.cycles + s.maxSeq - s.baseSeq + 1
MLost(s) == IF "NoClamp" \in Deviations THEN MExpected(s) - s.received
            ELSE Clamp(MExpected(s) - s.received, LostMin, LostMax)
MFraction(s) == FractionOf(MExpected(s) - s.expPrior, s.received - s.recvPrior)
MHighest(s) == IF "NoCycles" \in Deviations THEN s.maxSeq ELSE s.cycles + s.maxSeq
MJitter(s) == s.jq4 \div 16
MReported(s) == [s EXCEPT !.expPrior = MExpected(s), !.recvPrior = s.received]

Obs(s) == [received |-> s.received, base |-> s.baseSeq, max |-> s.maxSeq, cycles |-> s.cycles,
           jq4 |-> s.jq4, lost |-> MLost(s), highest |-> MHighest(s), jitter |-> MJitter(s)]

------------------------------------------------------------------------
Init ==
  /\ hist = <<>> /\ cut = 0 /\ nrep = 0
  /\ ref = RefInit /\ m = MInit /\ dv = [hi |-> 0, lastInT |-> 0, lastA |-> 0, jitterA |-> 0, jitterB |-> 0]
  /\ act = [op |-> "init"]

Add(p) ==
  /\ hist' = IF CheckD THEN Append(hist, p) ELSE hist     \* simulation does not need the history
  /\ ref' = RefStep(ref, Wire(p))
  /\ m' = MAdd(m, Wire(p))
  /\ dv' = DvNext(dv, ref.n = 0, hist', p)
  /\ UNCHANGED <<cut, nrep>>
  /\ act' = [op |-> "add", x |-> p.x, t |-> p.t, a |-> p.a,
             seq |-> p.x % SeqMod, ts |-> p.t % TsMod, obs |-> Obs(m')]

AddFirst ==
  /\ ref.n = 0
  /\ \E x \in FirstSeqs, t \in FirstTs : Add([x |-> x, t |-> t, a |-> 0])

AddNext ==
  /\ ref.n > 0 /\ ref.n < MaxPkts
  /\ \E j \in Jumps, dt \in TsSteps, da \in ArrSteps :
        Add([x |-> dv.hi + j,
             t |-> dv.lastInT + dt,
             a |-> dv.lastA + da])

Report ==
  /\ ref.n > 0 /\ nrep < MaxReports
  /\ act' = [op |-> "report", fraction |-> MFraction(m), obs |-> Obs(m)]
  /\ m' = MReported(m) /\ ref' = RefReported(ref)
  /\ cut' = ref.n /\ nrep' = nrep + 1
  /\ UNCHANGED <<hist, dv>>

Next == AddFirst \/ AddNext \/ Report
Spec == Init /\ [][Next]_vars
View == <<hist, cut, nrep, ref, m, dv>>

------------------------------------------------------------------------
(* Theorems checked by TLC (hist # <<>>: a report exists only for a       *)
(* source from which a packet was received).                              *)

Seen == hist # <<>>

\* the environment's bookkeeping is D's
EnvAgrees == Seen => /\ dv.hi = RefHighest(hist) /\ dv.lastInT = hist[LastIn(hist)].t
                     /\ dv.lastA = hist[Len(hist)].a

\* R = D
RefFoldAgrees ==
  Seen => /\ ref.n = RefReceived(hist)
          /\ RHighest(ref) = RefHighest(hist)
          /\ RLost(ref) = RefLost(hist)
          /\ RFraction(ref) = RefFraction(hist, cut)
          /\ RJitter(ref, "A") = dv.jitterA
          /\ RJitter(ref, "B") = dv.jitterB

\* M = D, clause by clause
ModelReceived == m.received = RefReceived(hist)
ModelHighest  == Seen => MHighest(m) = RefHighest(hist)
ModelLost     == Seen => MLost(m) = RefLost(hist)
ModelFraction == Seen => MFraction(m) = RefFraction(hist, cut)
ModelJitter   == Seen => MJitter(m) = dv.jitterA

\* every reported field within its RTCP width
FitsValues(fraction, lost, highest, jitter) ==
  /\ fraction \in 0..255
  /\ lost \in LostMin..LostMax
  /\ highest \in 0..HighestMax
  /\ jitter \in 0..JitterMax
Fits == Seen => FitsValues(MFraction(m), MLost(m), MHighest(m), MJitter(m))

\* Witnesses: each must be VIOLATED, otherwise the configuration is vacuous.
WitnessOneCycle   == Seen => RefHighest(hist) < 2 * SeqMod          \* two sequence wraps
WitnessNoTsWrap   == Seen => dv.lastInT < TsMod           \* timestamp wrap on an in-order packet
WitnessNoReorder  == Seen => InOrder(hist, Len(hist))               \* an old / duplicate packet
WitnessNoClampHi  == Seen => RefExpected(hist, Len(hist)) - Len(hist) <= LostMax
WitnessNoClampLo  == Seen => RefExpected(hist, Len(hist)) - Len(hist) >= LostMin
WitnessNoLoss     == Seen => RefFraction(hist, cut) = 0
WitnessNoJitter   == Seen => dv.jitterA = 0
WitnessReadings   == Seen => dv.jitterA = dv.jitterB
WitnessOneReport  == nrep < 2

\* The same witnesses observed inside an exhaustive run (saves one JVM per witness):
\* always TRUE; prints <<"WITNESS", name>> the first time a worker meets a state that
\* violates the witness.  Registers are per worker, hence at most one line per worker.
ASSUME \A i \in 1..9 : TLCSet(i, 0)
Probe(i, name, violated) == (violated /\ TLCGet(i) = 0) => (TLCSet(i, 1) /\ PrintT(<<"WITNESS", name>>))
WitnessProbe ==
  /\ Probe(1, "WitnessOneCycle", ~WitnessOneCycle)
  /\ Probe(2, "WitnessNoTsWrap", ~WitnessNoTsWrap)
  /\ Probe(3, "WitnessNoReorder", ~WitnessNoReorder)
  /\ Probe(4, "WitnessNoClampHi", ~WitnessNoClampHi)
  /\ Probe(5, "WitnessNoClampLo", ~WitnessNoClampLo)
  /\ Probe(6, "WitnessNoLoss", ~WitnessNoLoss)
  /\ Probe(7, "WitnessNoJitter", ~WitnessNoJitter)
  /\ Probe(8, "WitnessReadings", ~WitnessReadings)
  /\ Probe(9, "WitnessOneReport", ~WitnessOneReport)
=============================================================================
