---------------------------- MODULE MediaLoopObs ----------------------------
(* C11 - layer A: what an observer of a video sender / receiver pair sees,  *)
(* and the clauses of the property over those observations.                 *)
(*                                                                          *)
(* Observations (all numbers are relative to the stream's origins):         *)
(*   Send     the sender packetised frame f: length in units, first          *)
(*            sequence number, number of packets   (framesSent)              *)
(*   Arrive   a media packet (original or retransmission) reached the        *)
(*            receiver, while the sender's newest sequence number was hi     *)
(*   Nack     the receiver put a NACK listing n sequence numbers on the wire *)
(*   Discard  the receiver signalled that its buffer threw packets away      *)
(*            (PLI on the wire)                                              *)
(*   Decode   an encoded frame was handed to the decoder (decoderIn); its    *)
(*            content is described as a sequence of segments <<f, a, b>> =   *)
(*            units a..b-1 of sent frame f (f = 0: content of no sent frame) *)
(* A "unit" is a packet in the model MediaLoop and a byte in recorded       *)
(* executions of the code (TraceMediaLoop); the clauses are the same.       *)
(*                                                                          *)
(* The observer state is ONE record `obs`; every observation is a pure      *)
(* function obs -> obs that also evaluates the clauses it can violate and   *)
(* latches the first failing clause in obs.verdict.  MediaLoop applies them *)
(* as history-variable updates (TLC checks obs.verdict = "ok" as invariant),*)
(* TraceMediaLoop applies them to the events of a recorded execution.       *)
EXTENDS Naturals, Integers, Sequences, FiniteSets

CONSTANTS HistorySize,   \* the sender's retransmission history (128 in the statement)
          LateBound      \* recovery is only demanded while no stale packet arrives this far behind

VARIABLE obs

------------------------------------------------------------------------
ObsInit == [ frames    |-> <<>>,   \* framesSent: Seq of [len, s0, n]
             dec       |-> <<>>,   \* decoderIn, normalised: Seq of <<f, a, b>>
             delivered |-> {},     \* frames handed to the decoder (whole or as a tail)
             tailOk    |-> TRUE,   \* the next decoder input may be the tail of a frame
             lastF     |-> 0,      \* newest frame handed to the decoder
             nackMax   |-> 0,      \* longest NACK seen
             firstArr  |-> -1,     \* first sequence number the receiver ever got
             maxArr    |-> -1,     \* highest sequence number the receiver got
             arrived   |-> {},     \* sequence numbers of which some copy arrived
             unrec     |-> {},     \* gaps that became visible when already out of the history
             late      |-> 0,      \* how far behind the newest a stale packet (duplicate, or from
                                   \* before the receiver's first packet) has arrived at most
             selfReq   |-> {},     \* sequence numbers the receiver asked for AFTER a copy had arrived
             discards  |-> 0,      \* discard signals seen
             verdict   |-> "ok" ]

Fail(o, clause) == IF o.verdict = "ok" THEN [o EXCEPT !.verdict = clause] ELSE o

------------------------------------------------------------------------
(* Segments.                                                              *)

\* merge adjacent segments that continue each other
RECURSIVE NormR(_, _)
NormR(acc, rest) ==
  IF rest = <<>> THEN acc
  ELSE LET s == Head(rest)
           k == Len(acc) IN
       IF k > 0 /\ acc[k][1] = s[1] /\ acc[k][3] = s[2] /\ s[1] # 0
         THEN NormR([acc EXCEPT ![k] = <<s[1], acc[k][2], s[3]>>], Tail(rest))
         ELSE NormR(Append(acc, <<s[1], s[2], s[3]>>), Tail(rest))
Norm(segs) == NormR(<<>>, segs)

\* The clauses about ONE decoder input, in the order in which they are reported.
DecodeVerdict(o, n) ==     \* n: normalised segments
  LET fs == {n[i][1] : i \in 1..Len(n)}
      nf == Len(o.frames)
  IN IF n = <<>> \/ \E f \in fs : f \notin 1..nf
          \/ \E i \in 1..Len(n) : n[i][2] < 0 \/ n[i][2] >= n[i][3] \/ n[i][3] > o.frames[n[i][1]].len
       THEN "C11.unknown_frame"          \* bytes the sender never packetised
     ELSE IF Cardinality(fs) > 1
       THEN "C11.spliced_frame"          \* pieces of two different frames
     ELSE LET f == n[1][1] IN
       IF Len(n) > 1 \/ n[1][3] # o.frames[f].len
         THEN "C11.frame_with_hole"      \* one frame, but a piece is missing
       ELSE IF f <= o.lastF
         THEN "C11.order"                \* not in sending order (or handed over twice)
       ELSE IF n[1][2] > 0 /\ ~o.tailOk
         THEN "C11.tail_not_allowed"     \* a tail, but neither first nor after a discard
       ELSE "ok"

------------------------------------------------------------------------
(* Observations.                                                          *)

ObsSend(o, len, s0, n) ==
  [o EXCEPT !.frames = Append(@, [len |-> len, s0 |-> s0, n |-> n])]

\* A packet with sequence number s arrives; hi = newest sequence number the sender
\* has sent.  A gap becomes visible when a higher number than ever before arrives:
\* the missing numbers that are then already HistorySize or more behind hi cannot
\* be retransmitted any more.
ObsArrive(o, s, hi) ==
  LET newgap == IF o.maxArr >= 0 /\ s > o.maxArr THEN (o.maxArr + 1)..(s - 1) ELSE {}
      stale  == s \in o.arrived \/ (o.firstArr # -1 /\ s < o.firstArr)
      \* a late duplicate the receiver itself asked for (it NACKed a packet it already had) is its
      \* own doing, not the network's: it does not excuse a missing frame
      own    == s \in o.selfReq IN
  [o EXCEPT !.late     = IF stale /\ ~own /\ o.maxArr - s > @ THEN o.maxArr - s ELSE @,
            !.firstArr = IF @ = -1 THEN s ELSE @,
            !.maxArr   = IF s > @ THEN s ELSE @,
            !.arrived  = @ \cup {s},
            !.unrec    = @ \cup {m \in newgap : hi - m >= HistorySize}]

ObsNack(o, n) ==
  LET o1 == [o EXCEPT !.nackMax = IF n > @ THEN n ELSE @] IN
  IF n > HistorySize THEN Fail(o1, "C11.nack_too_long") ELSE o1

\* a NACK with its list of sequence numbers (traces of the real receiver)
ObsNackList(o, n, lost) ==
  LET o1 == ObsNack(o, n) IN [o1 EXCEPT !.selfReq = @ \cup (lost \cap o.arrived)]

ObsDiscard(o) ==
  [o EXCEPT !.tailOk = TRUE, !.discards = IF @ < 1000 THEN @ + 1 ELSE @]

ObsDecode(o, segs) ==
  CHOOSE r \in
    { IF DecodeVerdict(o, n) # "ok" THEN Fail(o, DecodeVerdict(o, n))
      ELSE [o EXCEPT !.dec = Append(@, n[1]),
                     !.delivered = @ \cup {n[1][1]},
                     !.lastF = n[1][1],
                     !.tailOk = FALSE]
      : n \in {Norm(segs)} } : TRUE

------------------------------------------------------------------------
(* Recovery, evaluated when an execution has ended.                       *)
(* lossfree: every retransmission request and every retransmission got    *)
(* through, promptly.  trail: the number of frames at the end of the      *)
(* execution that only kept the traffic going ("while traffic continues": *)
(* a frame can only be recognised as complete, and buffered frames are    *)
(* only handed on, when further packets arrive).  "Traffic continued":    *)
(* every packet of those trailing frames reached the receiver.  A frame   *)
(* is then demanded if                                                    *)
(*   - it is not one of the trailing frames,                              *)
(*   - it starts at or after the first packet the receiver ever got (the  *)
(*     stream starts there for the receiver),                             *)
(*   - no gap became visible only when the missing packet was no longer   *)
(*     in the sender's history (the statement promises nothing for those, *)
(*     and a gap of that size also exceeds what a receiver can hold),     *)
(*   - no stale packet - a duplicate, or a packet from before the         *)
(*     receiver's first one - arrived LateBound or more positions behind  *)
(*     the newest packet (a receiver cannot tell such a packet from a     *)
(*     restarted stream; what it does then is not fixed by the statement).*)
(* A discard signal does NOT excuse a missing frame: under these premises *)
(* nothing forces the receiver to discard.                                *)
FrameSeqs(o, f) == o.frames[f].s0 .. (o.frames[f].s0 + o.frames[f].n - 1)

TrafficContinued(o, trail) ==
  LET nf == Len(o.frames) IN
  /\ trail >= 1 /\ nf > trail
  /\ \A f \in (nf - trail + 1)..nf : FrameSeqs(o, f) \subseteq o.arrived

Demanded(o, f, trail) ==
  /\ f <= Len(o.frames) - trail
  /\ o.firstArr # -1 /\ o.frames[f].s0 >= o.firstArr
  /\ o.unrec = {}
  /\ o.late < LateBound

Missing(o, trail) == {f \in 1..Len(o.frames) : Demanded(o, f, trail) /\ f \notin o.delivered}

RecoveryVerdict(o, lossfree, trail) ==
  IF lossfree /\ TrafficContinued(o, trail) /\ Missing(o, trail) # {} THEN "C11.no_recovery" ELSE "ok"

------------------------------------------------------------------------
(* A as a specification of its own: any sequence of observations that     *)
(* keeps every clause.  (Documentation; TLC checks the clauses on          *)
(* MediaLoop through the history variable obs.)                           *)
ObsSpecInit == obs = ObsInit

ObsSpecNext ==
  /\ \/ \E len \in 1..3, s0 \in 0..20, n \in 1..3 : obs' = ObsSend(obs, len, s0, n)
     \/ \E s \in 0..20, hi \in 0..20 : obs' = ObsArrive(obs, s, hi)
     \/ \E n \in 0..HistorySize : obs' = ObsNack(obs, n)
     \/ obs' = ObsDiscard(obs)
     \/ \E f \in 1..Len(obs.frames), a \in 0..2 :
           obs' = ObsDecode(obs, << <<f, a, obs.frames[f].len>> >>)
  /\ obs'.verdict = "ok"

ObsSpec == ObsSpecInit /\ [][ObsSpecNext]_obs

ClausesHold == obs.verdict = "ok"
=============================================================================
