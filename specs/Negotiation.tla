----------------------------- MODULE Negotiation -----------------------------
(* C03 - offer/answer yields a consistent, connectable session.             *)
(*                                                                          *)
(* Part A: the observable specification.  A description is                  *)
(*   [media : Seq([kind, mid, dir, setup, codecs : Seq([name, pt, rtx,      *)
(*    rtxOf, fb]), exts : Seq([uri, id])]), bundle : Seq(Seq(mid))]         *)
(* and a round record is what the harness observes of one offer/answer      *)
(* round on a pair of peers.  RoundVerdict is the formal reading of the     *)
(* property text; TraceNegotiation.tla applies it to records taken from     *)
(* REAL peer connections, Part M applies it to the model's own rounds.      *)
(*                                                                          *)
(* Part M: an implementation-shaped model of addTrack / addTransceiver /    *)
(* createDataChannel / createOffer / setLocalDescription /                  *)
(* setRemoteDescription / createAnswer on two peers, enumerating the        *)
(* configuration space step by step (history variables cfg, act).           *)
EXTENDS Naturals, Integers, Sequences, FiniteSets, TLC

CONSTANTS MaxA,        \* media/data operations of the first offerer (A) before round 1
          MaxB,        \* ... of the answerer (B) before round 1
          MaxAdd,      \* operations of the offerer of the follow-up round
          MaxAddAns,   \* operations of the answerer of the follow-up round
          Hows,        \* subset of {"track", "trx", "trxtrack", "dc"}
          Dirs,        \* directions used with addTransceiver
          APrefsAudio, APrefsVideo,   \* codec preference tokens used by A (besides "none")
          BPrefsAudio, BPrefsVideo,   \* ... by B; every A set must intersect every B set
          PoliciesA, PoliciesB, TabsA, TabsB,
          FollowUps,   \* subset of {"add", "swap"}
          Deviations   \* defects of the pinned code re-enabled in the model

MediaKinds == {"audio", "video"}
Rng(s) == {s[i] : i \in DOMAIN s}

----------------------------------------------------------------------------
(* Part A                                                                   *)

Reverse(d) == CASE d = "sendonly" -> "recvonly" [] d = "recvonly" -> "sendonly" [] OTHER -> d

HasApp(d) == \E i \in DOMAIN d.media : d.media[i].kind = "application"

\* count, order, kind, mid
SameSections(o, a) ==
  /\ Len(o.media) = Len(a.media)
  /\ \A i \in DOMAIN o.media : o.media[i].kind = a.media[i].kind /\ o.media[i].mid = a.media[i].mid

\* same number of BUNDLE groups; each answers the offered one: same tagged (first) mid,
\* same members
BundleMirrors(o, a) ==
  /\ Len(o.bundle) = Len(a.bundle)
  /\ \A g \in DOMAIN o.bundle :
        /\ Len(o.bundle[g]) = Len(a.bundle[g])
        /\ Rng(o.bundle[g]) = Rng(a.bundle[g])
        /\ (Len(o.bundle[g]) > 0 => o.bundle[g][1] = a.bundle[g][1])

\* verdict for one answered codec c against the offered list oc and its own list ac
CodecVerdict(c, oc, ac) ==
  LET sameKind(x) == IF c.rtx THEN x.rtx ELSE (~x.rtx /\ x.name = c.name)
      exact(x) == sameKind(x) /\ x.pt = c.pt /\ (c.rtx => x.rtxOf = c.rtxOf)
  IN IF ~ \E k \in DOMAIN oc : sameKind(oc[k]) THEN "C03.codec_not_offered"
     ELSE IF ~ \E k \in DOMAIN oc : exact(oc[k]) THEN "C03.payload_type"
     ELSE IF c.rtx /\ ~ \E k \in DOMAIN ac : ~ac[k].rtx /\ ac[k].pt = c.rtxOf THEN "C03.rtx_without_base"
     ELSE IF \E f \in Rng(c.fb) : ~ \E k \in DOMAIN oc : exact(oc[k]) /\ f \in Rng(oc[k].fb)
            THEN "C03.feedback_not_offered"
     ELSE "ok"

ExtVerdict(x, ox) ==
  IF ~ \E k \in DOMAIN ox : ox[k].uri = x.uri THEN "C03.extension_not_offered"
  ELSE IF ~ \E k \in DOMAIN ox : ox[k].uri = x.uri /\ ox[k].id = x.id THEN "C03.extension_id"
  ELSE "ok"

FirstBad(seq) ==   \* first element of a sequence of verdicts that is not "ok"
  IF \A i \in DOMAIN seq : seq[i] = "ok" THEN "ok"
  ELSE seq[CHOOSE i \in DOMAIN seq : seq[i] # "ok" /\ \A j \in 1..(i - 1) : seq[j] = "ok"]

SectionVerdict(os, as) ==
  LET cv == FirstBad([k \in DOMAIN as.codecs |-> CodecVerdict(as.codecs[k], os.codecs, as.codecs)])
      xv == FirstBad([k \in DOMAIN as.exts |-> ExtVerdict(as.exts[k], os.exts)])
  IN IF cv # "ok" THEN cv ELSE xv

\* the answer selects only what was offered (sections are known to correspond)
SelectionVerdict(o, a) ==
  FirstBad([i \in DOMAIN a.media |->
              IF a.media[i].kind \in MediaKinds THEN SectionVerdict(o.media[i], a.media[i]) ELSE "ok"])

SetupDefinite(a) == \A i \in DOMAIN a.media : a.media[i].setup \in {"active", "passive"}

ValidAnswerVerdict(o, a) ==
  IF ~SameSections(o, a) THEN "C03.sections_mismatch"
  ELSE IF ~BundleMirrors(o, a) THEN "C03.bundle_mismatch"
  ELSE LET sv == SelectionVerdict(o, a) IN
       IF sv # "ok" THEN sv
       ELSE IF ~SetupDefinite(a) THEN "C03.setup_indefinite"
       ELSE "ok"

ValidAnswer(o, a) == ValidAnswerVerdict(o, a) = "ok"

\* every media section of the session has a current direction on both sides, and they are
\* each other's reverse
Complementary(dirs, a) ==
  \A i \in DOMAIN a.media : a.media[i].kind \in MediaKinds =>
     \E k \in DOMAIN dirs : /\ dirs[k].mid = a.media[i].mid
                            /\ dirs[k].off \in {"inactive", "sendonly", "recvonly", "sendrecv"}
                            /\ dirs[k].ans = Reverse(dirs[k].off)

RoundVerdict(r) ==
  IF r.exc # "" THEN "C03.exchange_failed" ELSE
  LET va == ValidAnswerVerdict(r.offer, r.answer) IN
  IF va # "ok" THEN va
  ELSE IF r.sigOff # "stable" \/ r.sigAns # "stable" THEN "C03.not_stable"
  ELSE IF ~Complementary(r.dirs, r.answer) THEN "C03.directions_not_complementary"
  ELSE IF r.connOff # "connected" \/ r.connAns # "connected" THEN "C03.not_connected"
  ELSE IF HasApp(r.answer) /\ \E k \in DOMAIN r.chans : ~(r.chans[k].open /\ r.chans[k].ropen)
         THEN "C03.channel_not_open"
  ELSE IF HasApp(r.answer) /\ \E k \in DOMAIN r.chans : ~(r.chans[k].ping /\ r.chans[k].pong)
         THEN "C03.message_not_carried"
  ELSE "ok"

----------------------------------------------------------------------------
(* Part M - tables                                                          *)

Min(S) == CHOOSE x \in S : \A y \in S : x <= y
FirstIdx(seq, P(_)) == IF \E i \in DOMAIN seq : P(seq[i]) THEN Min({i \in DOMAIN seq : P(seq[i])}) ELSE 0

RECURSIVE Concat(_)
Concat(ss) == IF Len(ss) = 0 THEN <<>> ELSE Head(ss) \o Concat(Tail(ss))

HasSend(d) == d \in {"sendonly", "sendrecv"}
HasRecv(d) == d \in {"recvonly", "sendrecv"}
MkDir(s, r) == IF s /\ r THEN "sendrecv" ELSE IF s THEN "sendonly" ELSE IF r THEN "recvonly" ELSE "inactive"
AndDir(a, b) == MkDir(HasSend(a) /\ HasSend(b), HasRecv(a) /\ HasRecv(b))
OrDir(a, b) == MkDir(HasSend(a) \/ HasSend(b), HasRecv(a) \/ HasRecv(b))

RtxName == "rtx/90000"
Codec(name, pt, prof, fb) == [name |-> name, pt |-> pt, rtx |-> FALSE, rtxOf |-> -1, prof |-> prof, fb |-> fb]
RtxC(pt, apt) == [name |-> RtxName, pt |-> pt, rtx |-> TRUE, rtxOf |-> apt, prof |-> "", fb |-> <<>>]
VFB == <<"nack", "nack pli", "goog-remb">>

AudioTab(o) == << Codec("opus/48000/2", o, "", <<>>), Codec("g722/8000", 9, "", <<>>),
                  Codec("pcmu/8000", 0, "", <<>>), Codec("pcma/8000", 8, "", <<>>) >>
VideoTab(b) == << Codec("vp8/90000", b, "", VFB), RtxC(b + 1, b),
                  Codec("h264/90000", b + 2, "42001f", VFB), RtxC(b + 3, b + 2),
                  Codec("h264/90000", b + 4, "42e01f", VFB), RtxC(b + 5, b + 4) >>
Table(tab, kind) == IF kind = "audio" THEN AudioTab(IF tab = "std" THEN 96 ELSE 111)
                    ELSE VideoTab(IF tab = "std" THEN 97 ELSE 100)

UMid == "urn:ietf:params:rtp-hdrext:sdes:mid"
ULevel == "urn:ietf:params:rtp-hdrext:ssrc-audio-level"
UAbs == "http://www.webrtc.org/experiments/rtp-hdrext/abs-send-time"
X(u, i) == [uri |-> u, id |-> i]
ExtTab(tab, kind) ==
  IF tab = "std" THEN (IF kind = "audio" THEN <<X(UMid, 1), X(ULevel, 2)>> ELSE <<X(UMid, 1), X(UAbs, 3)>>)
  ELSE (IF kind = "audio" THEN <<X(UMid, 4), X(ULevel, 1)>> ELSE <<X(UMid, 4), X(UAbs, 2)>>)

Cap(n, p) == [name |-> n, prof |-> p]
PrefCaps(p) ==
  CASE p = "vp8" -> <<Cap("vp8/90000", "")>>
    [] p = "vp8rtx" -> <<Cap("vp8/90000", ""), Cap(RtxName, "")>>
    [] p = "h264" -> <<Cap("h264/90000", "42001f"), Cap("h264/90000", "42e01f")>>
    [] p = "h264rtx" -> <<Cap("h264/90000", "42001f"), Cap("h264/90000", "42e01f"), Cap(RtxName, "")>>
    [] p = "h264b_vp8rtx" -> <<Cap("h264/90000", "42e01f"), Cap("vp8/90000", ""), Cap(RtxName, "")>>
    [] p = "opus" -> <<Cap("opus/48000/2", "")>>
    [] p = "g711" -> <<Cap("pcmu/8000", ""), Cap("pcma/8000", "")>>
    [] p = "pcma_pcmu" -> <<Cap("pcma/8000", ""), Cap("pcmu/8000", "")>>
    [] p = "g722_opus" -> <<Cap("g722/8000", ""), Cap("opus/48000/2", "")>>

\* filter_preferred_codecs
FilterPref(codecs, pref) ==
  IF pref = "none" THEN codecs ELSE
  LET caps == PrefCaps(pref)
      rtxOn == \E i \in DOMAIN caps : caps[i].name = RtxName
      real == SelectSeq(caps, LAMBDA c : c.name # RtxName)
      Pick(c) == LET j == FirstIdx(codecs, LAMBDA x : ~x.rtx /\ x.name = c.name /\ x.prof = c.prof) IN
                 IF j = 0 THEN <<>> ELSE
                 LET k == FirstIdx(codecs, LAMBDA x : x.rtx /\ x.rtxOf = codecs[j].pt) IN
                 <<codecs[j]>> \o (IF rtxOn /\ k # 0 THEN <<codecs[k]>> ELSE <<>>)
  IN Concat([i \in DOMAIN real |-> Pick(real[i])])

\* find_common_codecs
RECURSIVE FC(_, _, _, _)
FC(local, remote, i, acc) ==
  IF i > Len(remote) THEN acc ELSE
  LET c == remote[i] IN
  IF c.rtx
    THEN IF \E k \in DOMAIN acc : ~acc[k].rtx /\ acc[k].pt = c.rtxOf
           THEN FC(local, remote, i + 1, Append(acc, c)) ELSE FC(local, remote, i + 1, acc)
    ELSE LET j == FirstIdx(local, LAMBDA l : ~l.rtx /\ l.name = c.name /\ l.prof = c.prof) IN
         IF j = 0 THEN FC(local, remote, i + 1, acc) ELSE
         LET l == local[j]
             pt == IF c.pt >= 96 /\ c.pt <= 127 THEN c.pt ELSE l.pt
             fb == SelectSeq(l.fb, LAMBDA f : f \in Rng(c.fb))
         IN FC(local, remote, i + 1, Append(acc, [l EXCEPT !.pt = pt, !.fb = fb]))
FindCommon(local, remote) == FC(local, remote, 1, <<>>)

CommonExts(local, remote) == SelectSeq(remote, LAMBDA rx : \E k \in DOMAIN local : local[k].uri = rx.uri)

SetupOf(role) == CASE role = "auto" -> "actpass" [] role = "client" -> "active" [] role = "server" -> "passive"

RECURSIVE NthFree(_, _, _)
NthFree(seen, from, k) == IF ToString(from) \in seen THEN NthFree(seen, from + 1, k)
                          ELSE IF k = 1 THEN from ELSE NthFree(seen, from + 1, k - 1)

----------------------------------------------------------------------------
(* Part M - one peer connection                                             *)

NoSctp == [on |-> FALSE, mid |-> "", ml |-> 0, tp |-> 0, bnd |-> FALSE, nch |-> 0]
NewPeer(pol, tab) == [pol |-> pol, tab |-> tab, trx |-> <<>>, sctp |-> NoSctp, seen |-> {}, role |-> <<>>,
                      live |-> {}, sig |-> "stable", loc |-> <<>>, rem |-> <<>>, closed |-> FALSE]

NewTp(p) == Len(p.role) + 1
WithNewTp(p) == [p EXCEPT !.role = Append(@, "auto"), !.live = @ \cup {NewTp(p)}]

SharedTp(p, kind) ==   \* 0 = a transport of its own (__createTransceiver)
  IF p.pol = "max-bundle" THEN (IF Len(p.trx) > 0 THEN p.trx[1].tp ELSE IF p.sctp.on THEN p.sctp.tp ELSE 0)
  ELSE IF p.pol = "balanced" THEN (LET j == FirstIdx(p.trx, LAMBDA t : t.kind = kind) IN IF j = 0 THEN 0 ELSE p.trx[j].tp)
  ELSE 0

CreateTrx(p, kind, dir, track, pref) ==
  LET s == SharedTp(p, kind)
      q == IF s = 0 THEN WithNewTp(p) ELSE p
      tp == IF s = 0 THEN NewTp(p) ELSE s
  IN [q EXCEPT !.trx = Append(@, [kind |-> kind, dir |-> dir, track |-> track, pref |-> pref, mid |-> "", ml |-> 0,
                                  offDir |-> "none", cur |-> "none", codecs |-> <<>>, exts |-> <<>>,
                                  tp |-> tp, bnd |-> (s # 0)])]

CreateSctp(p) ==   \* __createSctpTransport
  IF p.pol = "max-bundle" /\ Len(p.trx) > 0
    THEN [p EXCEPT !.sctp = [NoSctp EXCEPT !.on = TRUE, !.tp = p.trx[1].tp, !.bnd = TRUE]]
    ELSE [WithNewTp(p) EXCEPT !.sctp = [NoSctp EXCEPT !.on = TRUE, !.tp = NewTp(p), !.bnd = FALSE]]

ApplyItem(p, it) ==
  CASE it.how = "dc" -> LET q == IF p.sctp.on THEN p ELSE CreateSctp(p) IN [q EXCEPT !.sctp.nch = @ + 1]
    [] it.how = "track" ->
         LET j == FirstIdx(p.trx, LAMBDA t : t.kind = it.kind /\ ~t.track) IN
         IF j = 0 THEN CreateTrx(p, it.kind, "sendrecv", TRUE, it.pref)
         ELSE [p EXCEPT !.trx[j].track = TRUE, !.trx[j].dir = OrDir(@, "sendonly"),
                        !.trx[j].pref = IF it.pref = "none" THEN @ ELSE it.pref]
    [] it.how = "trx" -> CreateTrx(p, it.kind, it.dir, FALSE, it.pref)
    [] it.how = "trxtrack" -> CreateTrx(p, it.kind, it.dir, TRUE, it.pref)

MSec(t, mid, dir, setup) == [kind |-> t.kind, mid |-> mid, dir |-> dir, setup |-> setup, codecs |-> t.codecs, exts |-> t.exts]
ASec(mid, setup) == [kind |-> "application", mid |-> mid, dir |-> "none", setup |-> setup, codecs |-> <<>>, exts |-> <<>>]
Shape(media) == [i \in DOMAIN media |-> [kind |-> media[i].kind, mid |-> media[i].mid]]
AllMids(media) == [i \in DOMAIN media |-> media[i].mid]

\* an offer always leaves the DTLS role open (getLocalParameters() says "auto"), also on a
\* re-offer; the answerer then keeps the role its transport already has
OfferSetup == "actpass"

\* createOffer + setLocalDescription(offer)
Offer(p0) ==
  LET p == [p0 EXCEPT !.trx = [i \in DOMAIN p0.trx |->
                 [p0.trx[i] EXCEPT !.codecs = FilterPref(Table(p0.tab, p0.trx[i].kind), p0.trx[i].pref),
                                   !.exts = ExtTab(p0.tab, p0.trx[i].kind)]]]
      nE == IF Len(p.loc) >= Len(p.rem) THEN Len(p.loc) ELSE Len(p.rem)
      src(i) == IF i <= Len(p.loc) THEN p.loc[i] ELSE p.rem[i]
      tOf(mid) == FirstIdx(p.trx, LAMBDA t : t.mid = mid)
      newT == SelectSeq([i \in DOMAIN p.trx |-> i], LAMBDA i : p.trx[i].mid = "")
      newMid(k) == ToString(NthFree(p.seen, 0, k))
      newSctp == p.sctp.on /\ p.sctp.mid = ""
      existing == [i \in 1..nE |->
                     IF src(i).kind \in MediaKinds
                       THEN LET t == p.trx[tOf(src(i).mid)] IN MSec(t, src(i).mid, t.dir, OfferSetup)
                       ELSE ASec(src(i).mid, OfferSetup)]
      fresh == [k \in DOMAIN newT |-> LET t == p.trx[newT[k]] IN MSec(t, newMid(k), t.dir, OfferSetup)]
      app == IF newSctp THEN <<ASec(newMid(Len(newT) + 1), OfferSetup)>> ELSE <<>>
      media == existing \o fresh \o app
      posNew(i) == CHOOSE k \in DOMAIN newT : newT[k] = i
      trx2 == [i \in DOMAIN p.trx |->
                 IF p.trx[i].mid = "" THEN [p.trx[i] EXCEPT !.mid = newMid(posNew(i)), !.ml = nE + posNew(i)]
                 ELSE [p.trx[i] EXCEPT !.ml = CHOOSE j \in 1..nE : src(j).kind \in MediaKinds /\ src(j).mid = p.trx[i].mid]]
      sctp2 == IF newSctp THEN [p.sctp EXCEPT !.mid = newMid(Len(newT) + 1), !.ml = Len(media)] ELSE p.sctp
      broken == \E i \in 1..nE : src(i).kind \in MediaKinds /\ tOf(src(i).mid) = 0
  IN IF broken THEN [p |-> p0, desc |-> [media |-> <<>>, bundle |-> <<>>], fail |-> "createOffer:AttributeError"]
     ELSE [p |-> [p EXCEPT !.trx = trx2, !.sctp = sctp2, !.seen = @ \cup Rng(AllMids(media)),
                           !.sig = "have-local-offer", !.loc = Shape(media)],
           desc |-> [media |-> media, bundle |-> <<AllMids(media)>>], fail |-> ""]

\* the per-section part of setRemoteDescription, folded over the sections
RECURSIVE Sections(_, _, _, _)
Sections(p, desc, isOffer, i) ==
  IF i > Len(desc.media) THEN [p |-> p, fail |-> ""] ELSE
  LET m == desc.media[i]
      seen2 == p.seen \cup {m.mid}
  IN IF m.kind \in MediaKinds THEN
       LET j0 == FirstIdx(p.trx, LAMBDA t : t.kind = m.kind /\ t.mid \in {"", m.mid})
           q == IF j0 = 0 THEN CreateTrx(p, m.kind, "recvonly", FALSE, "none") ELSE p
           j == IF j0 = 0 THEN Len(q.trx) ELSE j0
           t == q.trx[j]
           common == FilterPref(FindCommon(Table(q.tab, m.kind), m.codecs), t.pref)
           d == Reverse(m.dir)
           t2 == [t EXCEPT !.mid = m.mid, !.ml = IF t.mid = "" THEN i ELSE @,
                           !.codecs = common, !.exts = CommonExts(ExtTab(q.tab, m.kind), m.exts),
                           !.offDir = IF isOffer THEN d ELSE @, !.cur = IF isOffer THEN @ ELSE d]
           role2 == IF isOffer THEN (IF m.setup = "active" THEN [q.role EXCEPT ![t.tp] = "server"] ELSE q.role)
                    ELSE [q.role EXCEPT ![t.tp] = IF m.setup = "active" THEN "server" ELSE "client"]
       IN IF Len(common) = 0 THEN [p |-> p, fail |-> "OperationError"]
          ELSE Sections([q EXCEPT !.trx[j] = t2, !.seen = seen2, !.role = role2], desc, isOffer, i + 1)
     ELSE
       LET q == IF p.sctp.on THEN p ELSE CreateSctp(p)
           s2 == IF q.sctp.mid = "" THEN [q.sctp EXCEPT !.mid = m.mid, !.ml = i] ELSE q.sctp
           role2 == IF isOffer THEN (IF m.setup = "active" THEN [q.role EXCEPT ![s2.tp] = "server"] ELSE q.role)
                    ELSE [q.role EXCEPT ![s2.tp] = IF m.setup = "active" THEN "server" ELSE "client"]
       IN Sections([q EXCEPT !.sctp = s2, !.seen = seen2, !.role = role2], desc, isOffer, i + 1)

\* "remove bundled transports"
Bundle(p, desc) ==
  IF Len(desc.bundle) = 0 \/ Len(desc.bundle[1]) = 0 THEN p ELSE
  LET prim == desc.bundle[1][1]
      slaves == Rng(Tail(desc.bundle[1]))
      jt == FirstIdx(p.trx, LAMBDA t : t.mid = prim)
      ptp == IF p.sctp.on /\ p.sctp.mid = prim THEN p.sctp.tp ELSE IF jt # 0 THEN p.trx[jt].tp ELSE 0
      moveT(t) == t.mid \in slaves /\ (IF "BundleStopsPrimary" \in Deviations THEN ~t.bnd ELSE t.tp # ptp)
      moveS == p.sctp.on /\ p.sctp.mid \in slaves /\ (IF "BundleStopsPrimary" \in Deviations THEN ~p.sctp.bnd ELSE p.sctp.tp # ptp)
      old == {p.trx[i].tp : i \in {k \in DOMAIN p.trx : moveT(p.trx[k])}} \cup (IF moveS THEN {p.sctp.tp} ELSE {})
      dead == p.live \cap old
  IN [p EXCEPT !.trx = [i \in DOMAIN p.trx |-> IF moveT(p.trx[i]) THEN [p.trx[i] EXCEPT !.tp = ptp, !.bnd = TRUE] ELSE p.trx[i]],
               !.sctp = IF moveS THEN [p.sctp EXCEPT !.tp = ptp, !.bnd = TRUE] ELSE p.sctp,
               !.live = @ \ old,
               \* stopping a transport that has completed its handshake closes the connection
               !.closed = @ \/ (dead # {} /\ p.live \ old = {} /\ p.loc # <<>> /\ p.rem # <<>>)]

SetRemote(p, desc, isOffer) ==
  IF p.closed THEN [p |-> p, fail |-> "InvalidStateError:closed"]
  ELSE IF ~isOffer /\ Shape(desc.media) # p.loc THEN [p |-> p, fail |-> "ValueError:sections"]
  ELSE LET r == Sections(p, desc, isOffer, 1) IN
       IF r.fail # "" THEN r
       ELSE [p |-> [Bundle(r.p, desc) EXCEPT !.sig = IF isOffer THEN "have-remote-offer" ELSE "stable",
                                             !.rem = Shape(desc.media)],
             fail |-> ""]

\* createAnswer + setLocalDescription(answer); od = the pending remote offer
Answer(p, od) ==
  IF p.closed THEN [p |-> p, desc |-> [media |-> <<>>, bundle |-> <<>>], fail |-> "createAnswer:InvalidStateError:closed"] ELSE
  LET tOf(mid) == FirstIdx(p.trx, LAMBDA t : t.mid = mid)
      ans(role) == IF role = "auto" THEN "active" ELSE SetupOf(role)
      media == [i \in DOMAIN od.media |->
                  IF od.media[i].kind \in MediaKinds
                    THEN LET t == p.trx[tOf(od.media[i].mid)] IN MSec(t, t.mid, AndDir(t.dir, t.offDir), ans(p.role[t.tp]))
                    ELSE ASec(p.sctp.mid, ans(p.role[p.sctp.tp]))]
      tpOf(i) == IF od.media[i].kind \in MediaKinds THEN p.trx[tOf(od.media[i].mid)].tp ELSE p.sctp.tp
      role2 == [x \in DOMAIN p.role |->
                  IF \E i \in DOMAIN media : tpOf(i) = x
                    THEN (IF media[CHOOSE i \in DOMAIN media : tpOf(i) = x].setup = "active" THEN "client" ELSE "server")
                    ELSE p.role[x]]
      unassoc == \E i \in DOMAIN p.trx : p.trx[i].offDir = "none"
      trx2 == [i \in DOMAIN p.trx |-> IF p.trx[i].offDir = "none" THEN p.trx[i]
                                      ELSE [p.trx[i] EXCEPT !.cur = AndDir(p.trx[i].dir, p.trx[i].offDir)]]
  IN IF unassoc /\ "AnswerAllTransceivers" \in Deviations
       THEN [p |-> [p EXCEPT !.sig = "stable", !.role = role2], desc |-> [media |-> <<>>, bundle |-> <<>>],
             fail |-> "setLocal(answer):ValueError"]
       ELSE [p |-> [p EXCEPT !.sig = "stable", !.role = role2, !.trx = trx2, !.loc = Shape(media),
                             !.seen = @ \cup Rng(AllMids(media))],
             desc |-> [media |-> media, bundle |-> <<AllMids(media)>>], fail |-> ""]

\* transports of negotiated sections / connectionState as the peer would report it
Negotiated(p) == {p.trx[i].tp : i \in {k \in DOMAIN p.trx : p.trx[k].mid # ""}}
                   \cup (IF p.sctp.on /\ p.sctp.mid # "" THEN {p.sctp.tp} ELSE {})
\* (a stopped transport is forgotten by the connection: it no longer counts)
Healthy(p) == ~p.closed /\ (Negotiated(p) \cap p.live) # {}
ConnState(p, q) ==
  IF p.closed THEN "closed"
  ELSE IF ~Healthy(p) THEN "new"
  ELSE IF ~Healthy(q) THEN "connecting"
  ELSE IF "UnnegotiatedCounts" \in Deviations /\ p.live \ Negotiated(p) # {} THEN "connecting"
  ELSE "connected"

\* DTLS roles of the two ends of every negotiated section are client/server
RolesOK(p, q, media) ==
  \A i \in DOMAIN media :
     LET tpP == IF media[i].kind \in MediaKinds THEN p.trx[FirstIdx(p.trx, LAMBDA t : t.mid = media[i].mid)].tp ELSE p.sctp.tp
         tpQ == IF media[i].kind \in MediaKinds THEN q.trx[FirstIdx(q.trx, LAMBDA t : t.mid = media[i].mid)].tp ELSE q.sctp.tp
     IN {p.role[tpP], q.role[tpQ]} = {"client", "server"}

----------------------------------------------------------------------------
(* Part M - the pair, building a configuration step by step                 *)

VARIABLES cfg,    \* history: the configuration in the harness' format
          pcs,    \* "A", "B" -> peer
          phase,  \* setupOff, setupAns, offer, remoteOffer, answer, remoteAnswer, done, end
          wire,   \* [offer, answer] of the round under way
          res,    \* round records (same shape as the harness records)
          act     \* last operation (hidden by View)

vars == <<cfg, pcs, phase, wire, res, act>>
View == <<cfg, pcs, phase, wire, res>>

Other(x) == IF x = "A" THEN "B" ELSE "A"
EmptyDesc == [media |-> <<>>, bundle |-> <<>>]
Round == cfg.rounds[Len(cfg.rounds)]
Off == Round.offerer
Ans == Other(Off)

PrefsFor(side, kind) == {"none"} \cup (IF side = "A" THEN (IF kind = "audio" THEN APrefsAudio ELSE APrefsVideo)
                                       ELSE (IF kind = "audio" THEN BPrefsAudio ELSE BPrefsVideo))
Items(side) ==
  (IF "dc" \in Hows THEN {[how |-> "dc", kind |-> "", dir |-> "", pref |-> "none"]} ELSE {})
  \cup (IF "track" \in Hows THEN UNION {{[how |-> "track", kind |-> k, dir |-> "", pref |-> pf] : pf \in PrefsFor(side, k)} : k \in MediaKinds} ELSE {})
  \cup UNION {UNION {{[how |-> h, kind |-> k, dir |-> d, pref |-> pf] : pf \in PrefsFor(side, k), d \in Dirs}
                       : k \in MediaKinds} : h \in Hows \cap {"trx", "trxtrack"}}

Init ==
  /\ \E pa \in PoliciesA, pb \in PoliciesB, ta \in TabsA, tb \in TabsB :
        /\ cfg = [A |-> [bundle |-> pa, tab |-> ta], B |-> [bundle |-> pb, tab |-> tb],
                  rounds |-> <<[offerer |-> "A", addA |-> <<>>, addB |-> <<>>]>>]
        /\ pcs = [A |-> NewPeer(pa, ta), B |-> NewPeer(pb, tb)]
  /\ phase = "setupOff" /\ wire = [offer |-> EmptyDesc, answer |-> EmptyDesc] /\ res = <<>>
  /\ act = [op |-> "init"]

Added(side) == IF side = "A" THEN Round.addA ELSE Round.addB
WithAdded(side, it) ==
  [cfg EXCEPT !.rounds[Len(cfg.rounds)] = IF side = "A" THEN [@ EXCEPT !.addA = Append(@, it)] ELSE [@ EXCEPT !.addB = Append(@, it)]]
LimitOff == IF Len(cfg.rounds) = 1 THEN MaxA ELSE MaxAdd
LimitAns == IF Len(cfg.rounds) = 1 THEN MaxB ELSE MaxAddAns

AddItem(side, it) ==
  /\ \/ phase = "setupOff" /\ side = Off /\ Len(Added(side)) < LimitOff
     \/ phase = "setupAns" /\ side = Ans /\ Len(Added(side)) < LimitAns
  /\ cfg' = WithAdded(side, it)
  /\ pcs' = [pcs EXCEPT ![side] = ApplyItem(@, it)]
  /\ act' = [op |-> "item", side |-> side, item |-> it]
  /\ UNCHANGED <<phase, wire, res>>

\* the very first offer must contain something
DoneOff ==
  /\ phase = "setupOff"
  /\ Len(cfg.rounds) = 1 => Len(Round.addA) >= 1
  /\ phase' = "setupAns" /\ act' = [op |-> "doneOff"]
  /\ UNCHANGED <<cfg, pcs, wire, res>>

DoneAns ==
  /\ phase = "setupAns"
  /\ phase' = "offer" /\ act' = [op |-> "doneAns"]
  /\ UNCHANGED <<cfg, pcs, wire, res>>

Chans(pa, pb, ok) ==
  [k \in 1..(pa.sctp.nch + pb.sctp.nch) |->
     [label |-> IF k <= pa.sctp.nch THEN "A" \o ToString(k - 1) ELSE "B" \o ToString(k - pa.sctp.nch - 1),
      by |-> IF k <= pa.sctp.nch THEN "A" ELSE "B", open |-> ok, ropen |-> ok, ping |-> ok, pong |-> ok]]

Record(exc, o, a) ==
  LET po == pcs'[Off]  pa == pcs'[Ans]
      conn == <<ConnState(po, pa), ConnState(pa, po)>>
      ok == exc = "" /\ conn = <<"connected", "connected">> /\ HasApp(a)
      curOf(p, mid) == LET j == FirstIdx(p.trx, LAMBDA t : t.mid = mid) IN IF j = 0 THEN "none" ELSE p.trx[j].cur
      ms == SelectSeq(a.media, LAMBDA m : m.kind \in MediaKinds)
  IN [offerer |-> Off, exc |-> exc, offer |-> o, answer |-> a,
      sigOff |-> po.sig, sigAns |-> pa.sig,
      dirs |-> [k \in DOMAIN ms |-> [mid |-> ms[k].mid, off |-> curOf(po, ms[k].mid), ans |-> curOf(pa, ms[k].mid)]],
      connOff |-> IF exc = "" THEN conn[1] ELSE "", connAns |-> IF exc = "" THEN conn[2] ELSE "",
      chans |-> Chans(pcs'["A"], pcs'["B"], ok)]

Fail(call, why, o, a) ==
  /\ phase' = "end"
  /\ res' = Append(res, Record(call \o ":" \o why, o, a))
  /\ wire' = [offer |-> o, answer |-> a]

DoOffer ==
  /\ phase = "offer"
  /\ LET r == Offer(pcs[Off]) IN
       /\ pcs' = [pcs EXCEPT ![Off] = r.p]
       /\ act' = [op |-> "offer", side |-> Off]
       /\ UNCHANGED cfg
       /\ IF r.fail # "" THEN Fail("createOffer", r.fail, EmptyDesc, EmptyDesc)
          ELSE /\ wire' = [offer |-> r.desc, answer |-> EmptyDesc] /\ phase' = "remoteOffer" /\ UNCHANGED res

DoRemoteOffer ==
  /\ phase = "remoteOffer"
  /\ LET r == SetRemote(pcs[Ans], wire.offer, TRUE) IN
       /\ pcs' = [pcs EXCEPT ![Ans] = r.p]
       /\ act' = [op |-> "remoteOffer", side |-> Ans]
       /\ UNCHANGED cfg
       /\ IF r.fail # "" THEN Fail("setRemote(offer)", r.fail, wire.offer, EmptyDesc)
          ELSE phase' = "answer" /\ UNCHANGED <<wire, res>>

DoAnswer ==
  /\ phase = "answer"
  /\ LET r == Answer(pcs[Ans], wire.offer) IN
       /\ pcs' = [pcs EXCEPT ![Ans] = r.p]
       /\ act' = [op |-> "answer", side |-> Ans]
       /\ UNCHANGED cfg
       /\ IF r.fail # "" THEN Fail("answer", r.fail, wire.offer, EmptyDesc)
          ELSE /\ wire' = [wire EXCEPT !.answer = r.desc] /\ phase' = "remoteAnswer" /\ UNCHANGED res

DoRemoteAnswer ==
  /\ phase = "remoteAnswer"
  /\ LET r == SetRemote(pcs[Off], wire.answer, FALSE) IN
       /\ pcs' = [pcs EXCEPT ![Off] = r.p]
       /\ act' = [op |-> "remoteAnswer", side |-> Off]
       /\ UNCHANGED <<cfg, wire>>
       /\ IF r.fail # "" THEN Fail("setRemote(answer)", r.fail, wire.offer, wire.answer)
          ELSE /\ res' = Append(res, Record("", wire.offer, wire.answer)) /\ phase' = "done"

Follow(kind) ==
  /\ phase = "done" /\ Len(res) = 1 /\ kind \in FollowUps
  /\ cfg' = [cfg EXCEPT !.rounds = Append(@, [offerer |-> IF kind = "swap" THEN Other(Off) ELSE Off,
                                             addA |-> <<>>, addB |-> <<>>])]
  /\ phase' = "setupOff" /\ act' = [op |-> "follow", kind |-> kind]
  /\ UNCHANGED <<pcs, wire, res>>

Next ==
  \/ \E side \in {"A", "B"} : \E it \in Items(side) : AddItem(side, it)
  \/ DoneOff \/ DoneAns \/ DoOffer \/ DoRemoteOffer \/ DoAnswer \/ DoRemoteAnswer
  \/ \E k \in {"add", "swap"} : Follow(k)

Spec == Init /\ [][Next]_vars

----------------------------------------------------------------------------
(* Design-level theorems: every round of every configuration satisfies the  *)
(* property clauses (Deviations = {}).                                      *)

\* (records never change once appended, so it is enough to look at the newest one when a
\* round has just ended)
Ended == phase \in {"done", "end"} /\ act.op \in {"offer", "remoteOffer", "answer", "remoteAnswer"}
Last == res[Len(res)]
RoundsOK == Ended => RoundVerdict(Last) = "ok"

\* m-line order and mids are preserved by a re-offer
OrderPreserved ==
  Ended /\ Len(res) = 2 /\ res[2].exc = "" =>
     /\ Len(res[2].offer.media) >= Len(res[1].offer.media)
     /\ \A i \in DOMAIN res[1].offer.media :
           /\ res[2].offer.media[i].kind = res[1].offer.media[i].kind
           /\ res[2].offer.media[i].mid = res[1].offer.media[i].mid

MidsUnique ==
  Ended => \A i \in {Len(res)} : \A j, k \in DOMAIN res[i].offer.media :
     j # k => res[i].offer.media[j].mid # res[i].offer.media[k].mid

RolesComplementary ==
  Ended /\ phase = "done" => RolesOK(pcs[Off], pcs[Ans], wire.answer.media)

\* the answer never widens what was offered
DirectionsWithinOffer ==
  Ended => \A i \in {Len(res)} : res[i].exc = "" =>
     \A j \in DOMAIN res[i].answer.media : res[i].answer.media[j].kind \in MediaKinds =>
        AndDir(res[i].answer.media[j].dir, Reverse(res[i].offer.media[j].dir)) = res[i].answer.media[j].dir

\* after a round no section of the session sits on a transport that has been stopped
NoSectionOnStoppedTransport ==
  Ended /\ phase = "done" => \A s \in {"A", "B"} : Negotiated(pcs[s]) \subseteq pcs[s].live

(* Witnesses - each must be VIOLATED (non-vacuity).                          *)
WitnessNoSecondRound == ~(Len(res) = 2 /\ res[2].exc = "")
WitnessNoUnassociated ==   \* an answerer owning a transceiver outside the offer completes a round
  ~(phase = "done" /\ \E i \in DOMAIN pcs[Ans].trx : pcs[Ans].trx[i].mid = "")
WitnessNoCodecFiltered ==
  ~(\E i \in DOMAIN res : res[i].exc = "" /\ \E j \in DOMAIN res[i].answer.media :
        Len(res[i].answer.media[j].codecs) < Len(res[i].offer.media[j].codecs))
WitnessNoChannel == ~(\E i \in DOMAIN res : res[i].exc = "" /\ HasApp(res[i].answer) /\ Len(res[i].chans) > 0)
WitnessNoSwapAnswer == ~(Len(res) = 2 /\ res[2].exc = "" /\ res[2].offerer = "B" /\ HasApp(res[2].answer))
\* several things in one behaviour (used by the quick tier): B offers the second round, which
\* carries open data channels, after a round whose answer dropped offered codecs
WitnessRich ==
  ~(/\ Len(res) = 2 /\ res[2].exc = "" /\ res[2].offerer = "B"
    /\ HasApp(res[2].answer) /\ Len(res[2].chans) > 0
    /\ \E j \in DOMAIN res[1].answer.media : Len(res[1].answer.media[j].codecs) < Len(res[1].offer.media[j].codecs)
    /\ \E s \in {"A", "B"} : Cardinality(pcs[s].live) < Len(pcs[s].role))
WitnessNoTransportMoved ==
  ~(phase = "done" /\ \E s \in {"A", "B"} : Cardinality(pcs[s].live) < Len(pcs[s].role))
=============================================================================
