------------------------------- MODULE Dtls -------------------------------
(* C04 - DTLS connects only to the fingerprinted peer; both sides derive   *)
(* matching keys.                                                          *)
(*                                                                         *)
(* The property statement fixes the connect policy, so the observable      *)
(* specification (A) and the model (M) coincide except for two places      *)
(* where both readings are written down and TLC proves them equal:         *)
(*   PolicyA  (property text: "at least one supported, every supported     *)
(*            one matches")  vs  PolicyM (the counting form of the code),  *)
(*   key mirroring (client tx = server rx and vice versa) vs the Deliver   *)
(*            rule "untampered packets between connected sides arrive".    *)
(* TraceDtls.tla reuses ShouldConnect / Peer to judge recorded executions. *)
EXTENDS Naturals, Sequences, FiniteSets, TLC

CONSTANTS Profiles,     \* SRTP protection profiles the library supports (strings)
          FpListsA,     \* fingerprint lists quantified over for side "a" (use <-)
          FpListsB,     \* ... for side "b"
          ProfPairs,    \* set of <<profile list of a, profile list of b>> (use <-)
          HsChoices,    \* subset of BOOLEAN: does the handshake run to completion
          SimMode,      \* TRUE: start unconfigured, Configure draws a random configuration
          MaxSend,      \* bound on the number of packets sent
          MaxTamper,    \* bound on the number of packets altered in transit
          CloseAfter    \* Close(s) is enabled once this many packets were sent

VARIABLES cfg,        \* [role, fps, profs, hs] - constant once configured
          state,      \* side -> "new" | "connecting" | "connected" | "closed" | "failed"
          conn,       \* history: side -> was ever connected
          keys,       \* side -> NoKeys or [tx, rx, prof] (SRTP key halves in use)
          net,        \* side -> FIFO of packets in flight TOWARDS that side
          sent,       \* history: set of packets handed to Send
          delivered,  \* history: side -> set of packets handed to its receivers
          n, ntam,    \* counters (bounds)
          act         \* last action, arguments, expected result (for replay)

vars == <<cfg, state, conn, keys, net, sent, delivered, n, ntam, act>>
View == <<cfg, state, conn, keys, net, sent, delivered, n, ntam>>

Sides == {"a", "b"}
Peer(s) == IF s = "a" THEN "b" ELSE "a"
States == {"new", "connecting", "connected", "closed", "failed"}
Kinds == {"rtp", "rtcp", "data"}

Algs == {"sha256", "sha384", "sha512", "unsupported"}
SupportedAlgs == {"sha256", "sha384", "sha512"}
Cases == {"lower", "upper", "mixed"}
\* good = the value is the digest of the peer's certificate under alg, written in the
\* given letter case (i.e. it matches when compared case-insensitively);
\* ~good = one hex digit differs.  ncase = letter case in which the NAME of the hash is
\* signalled ("sha-256" / "SHA-256" / "Sha-256"); hash names are case-insensitive, so
\* neither case nor ncase plays a role in the policy.
Fp == [alg : Algs, good : BOOLEAN, case : Cases, ncase : Cases]
\* name case follows value case (24 entries) / additionally every name case with a lower-case value (40)
FpDiag == {f \in Fp : f.ncase = f.case}
FpLite == {f \in Fp : f.ncase = f.case \/ f.case = "lower"}

Rng(f) == {f[i] : i \in DOMAIN f}

------------------------------------------------------------------------
(* The connect policy of the property.                                   *)

IsSupported(f) == f.alg \in SupportedAlgs

\* property text: at least one fingerprint uses a supported hash and every
\* fingerprint with a supported hash matches (case plays no role).
PolicyA(fps) ==
  /\ \E i \in DOMAIN fps : IsSupported(fps[i])
  /\ \A i \in DOMAIN fps : IsSupported(fps[i]) => fps[i].good

\* mechanism shape (two counters, as in _validate_peer_identity)
PolicyM(fps) ==
  LET sup == Cardinality({i \in DOMAIN fps : IsSupported(fps[i])})
      val == Cardinality({i \in DOMAIN fps : IsSupported(fps[i]) /\ fps[i].good})
  IN sup # 0 /\ val = sup

CommonProfile(pa, pb) == Rng(pa) \cap Rng(pb) # {}

\* the profile DTLS negotiates: the server's most preferred one the client offers
Selected(c) ==
  LET srv == CHOOSE s \in Sides : c.role[s] = "server"
      ps == c.profs[srv]
      pc == Rng(c.profs[Peer(srv)])
      i == CHOOSE k \in DOMAIN ps : ps[k] \in pc /\ \A j \in 1..(k - 1) : ps[j] \notin pc
  IN ps[i]

\* Does side s have to end up connected (TRUE) or failed (FALSE)?
ShouldConnect(c, s) ==
  /\ c.hs
  /\ PolicyA(c.fps[s])
  /\ CommonProfile(c.profs.a, c.profs.b)

------------------------------------------------------------------------
(* Configurations.                                                       *)

Roles == {[a |-> "client", b |-> "server"], [a |-> "server", b |-> "client"]}

\* (no definition enumerates [1..3 -> Fp]: TLC evaluates constant definitions at startup)
FpUpTo(k, S) == UNION {[1..m -> S] : m \in 1..k}
FpUpTo2Lite == FpUpTo(2, FpLite)     \* 1 640 lists
FpUpTo2Full == FpUpTo(2, Fp)         \* 5 256 lists
FpUpTo3Diag == FpUpTo(3, FpDiag)     \* 14 424 lists
GN(alg, case, ncase) == [alg |-> alg, good |-> TRUE, case |-> case, ncase |-> ncase]
BN(alg, case, ncase) == [alg |-> alg, good |-> FALSE, case |-> case, ncase |-> ncase]
G(alg, case) == GN(alg, case, "lower")
B(alg, case) == BN(alg, case, "lower")
\* representative lists: accepted, rejected, unsupported only, mixed good/bad, good + unsupported
FpRep == { <<G("sha256", "upper")>>, <<B("sha256", "lower")>>, <<B("unsupported", "upper")>>,
           <<G("sha384", "mixed"), B("sha512", "upper")>>,
           <<B("unsupported", "lower"), G("sha512", "lower")>>,
           <<GN("sha256", "lower", "upper")>>, <<GN("sha512", "upper", "mixed"), BN("sha256", "lower", "upper")>> }
FpOne == { <<G("sha256", "upper")>> }
FpRep2 == { <<G("sha256", "upper")>>, <<B("sha384", "mixed")>> }

\* all non-empty preference lists (sequences without repetition)
ProfLists == UNION { {q \in [1..m -> Profiles] : \A i, j \in 1..m : i # j => q[i] # q[j]}
                     : m \in 1..Cardinality(Profiles) }
ProfAllPairs == ProfLists \X ProfLists
\* a few pairs: same single profile (each), full lists in opposite order, disjoint
ProfRepPairs ==
  LET full == CHOOSE q \in ProfLists : Len(q) = Cardinality(Profiles)
      rev == [i \in DOMAIN full |-> full[Len(full) + 1 - i]]
  IN {<<full, rev>>} \cup {<< <<p>>, <<p>> >> : p \in Profiles}
       \cup {<< <<full[1]>>, <<rev[1]>> >>}

ProfOnePair ==
  LET full == CHOOSE q \in ProfLists : Len(q) = Cardinality(Profiles)
  IN {<<full, [i \in DOMAIN full |-> full[Len(full) + 1 - i]]>>}

\* simulation: start unconfigured, the first step draws a configuration at random
Unset == [role |-> CHOOSE r \in Roles : TRUE, fps |-> [a |-> <<>>, b |-> <<>>],
          profs |-> [a |-> <<>>, b |-> <<>>], hs |-> TRUE]
Configured == cfg.fps.a # <<>>

------------------------------------------------------------------------
NoKeys == [tx |-> "none", rx |-> "none", prof |-> "none"]
\* RFC 5764 4.2: the client writes with the first key/salt half, the server with the second
KeysOf(role, prof) == IF role = "client" THEN [tx |-> "k0", rx |-> "k1", prof |-> prof]
                                         ELSE [tx |-> "k1", rx |-> "k0", prof |-> prof]

Packet == [id : 1..MaxSend, from : Sides, kind : Kinds, tam : BOOLEAN]

Init ==
  /\ IF SimMode THEN cfg = Unset
     ELSE \E r \in Roles, fa \in FpListsA, fb \in FpListsB, pp \in ProfPairs, h \in HsChoices :
            cfg = [role |-> r, fps |-> [a |-> fa, b |-> fb],
                   profs |-> [a |-> pp[1], b |-> pp[2]], hs |-> h]
  /\ state = [s \in Sides |-> "new"]
  /\ conn = [s \in Sides |-> FALSE]
  /\ keys = [s \in Sides |-> NoKeys]
  /\ net = [s \in Sides |-> <<>>]
  /\ sent = {}
  /\ delivered = [s \in Sides |-> {}]
  /\ n = 0 /\ ntam = 0
  /\ act = [op |-> "init"]

RandFp(bias) == IF bias = 1 THEN RandomElement(Fp)
                ELSE RandomElement({f \in Fp : f.good \/ ~IsSupported(f)})
RandFps(k, bias) ==
  IF k = 1 THEN <<RandFp(bias)>>
  ELSE IF k = 2 THEN <<RandFp(bias), RandFp(bias)>>
  ELSE <<RandFp(bias), RandFp(bias), RandFp(bias)>>

\* simulation only: draw a configuration (biased towards accepted lists and hs = TRUE)
Configure ==
  /\ ~Configured
  /\ \E r \in Roles, ka, kb \in 1..3, ga, gb \in 1..3, hk \in 1..5 :
       cfg' = [role |-> r,
               fps |-> [a |-> RandFps(ka, ga), b |-> RandFps(kb, gb)],
               profs |-> [a |-> RandomElement(ProfLists), b |-> RandomElement(ProfLists)],
               hs |-> (hk # 1 /\ TRUE \in HsChoices) \/ FALSE \notin HsChoices]
  /\ act' = [op |-> "configure"]
  /\ UNCHANGED <<state, conn, keys, net, sent, delivered, n, ntam>>

Start(s) ==
  /\ Configured /\ state[s] = "new"
  /\ state' = [state EXCEPT ![s] = "connecting"]
  /\ act' = [op |-> "start", side |-> s]
  /\ UNCHANGED <<cfg, conn, keys, net, sent, delivered, n, ntam>>

\* the handshake has run (or was cut): the outcome is fixed by the configuration
Finish(s) ==
  /\ state[s] = "connecting" /\ state[Peer(s)] # "new"
  /\ LET ok == cfg.hs /\ PolicyM(cfg.fps[s]) /\ CommonProfile(cfg.profs.a, cfg.profs.b) IN
     /\ state' = [state EXCEPT ![s] = IF ok THEN "connected" ELSE "failed"]
     /\ conn' = [conn EXCEPT ![s] = ok]
     /\ keys' = [keys EXCEPT ![s] = IF ok THEN KeysOf(cfg.role[s], Selected(cfg)) ELSE NoKeys]
     /\ act' = [op |-> "finish", side |-> s, res |-> IF ok THEN "connected" ELSE "failed"]
  /\ UNCHANGED <<cfg, net, sent, delivered, n, ntam>>

Send(s, kind, tam) ==
  /\ state[s] = "connected" /\ n < MaxSend
  /\ tam => ntam < MaxTamper
  /\ LET p == [id |-> n + 1, from |-> s, kind |-> kind, tam |-> tam] IN
     /\ net' = [net EXCEPT ![Peer(s)] = Append(@, p)]
     /\ sent' = sent \cup {p}
     /\ act' = [op |-> "send", id |-> p.id, from |-> s, kind |-> kind, tam |-> tam]
  /\ n' = n + 1 /\ ntam' = IF tam THEN ntam + 1 ELSE ntam
  /\ UNCHANGED <<cfg, state, conn, keys, delivered>>

\* can the receiver r authenticate and decrypt what p.from protected?
KeysMatch(p, r) ==
  /\ keys[r] # NoKeys /\ keys[p.from] # NoKeys
  /\ keys[p.from].tx = keys[r].rx /\ keys[p.from].prof = keys[r].prof

\* the head of the queue towards r arrives (r's handshake outcome is known by then)
Transit(r) ==
  /\ net[r] # <<>> /\ state[r] \notin {"new", "connecting"}
  /\ LET p == Head(net[r])
         accept == state[r] = "connected" /\ ~p.tam /\ KeysMatch(p, r) IN
     /\ delivered' = [delivered EXCEPT ![r] = IF accept THEN @ \cup {p} ELSE @]
     /\ act' = [op |-> "transit", id |-> p.id, to |-> r, tam |-> p.tam,
                res |-> IF accept THEN "delivered" ELSE "discarded"]
  /\ net' = [net EXCEPT ![r] = Tail(@)]
  /\ UNCHANGED <<cfg, state, conn, keys, sent, n, ntam>>

Close(s) ==
  /\ state[s] = "connected" /\ n >= CloseAfter
  /\ state' = [state EXCEPT ![s] = "closed"]
  /\ act' = [op |-> "close", side |-> s]
  /\ UNCHANGED <<cfg, conn, keys, net, sent, delivered, n, ntam>>

Next ==
  \/ Configure
  \/ \E s \in Sides : Start(s)
  \/ \E s \in Sides : Finish(s)
  \/ \E s \in Sides, k \in Kinds, t \in BOOLEAN : Send(s, k, t)
  \/ \E r \in Sides : Transit(r)
  \/ \E s \in Sides : Close(s)

Spec == Init /\ [][Next]_vars

------------------------------------------------------------------------
(* Design-level theorems.                                                *)

TypeOK ==
  /\ state \in [Sides -> States]
  /\ conn \in [Sides -> BOOLEAN]
  /\ sent \subseteq Packet
  /\ \A s \in Sides : delivered[s] \subseteq Packet

\* the two readings of the fingerprint policy agree on every list considered
PolicyFormsAgree ==
  \A s \in Sides : PolicyA(cfg.fps[s]) = PolicyM(cfg.fps[s])

\* connected exactly when the property says so; otherwise failed (once decided)
ConnectedOnlyIfPolicy ==
  \A s \in Sides :
     /\ (state[s] = "connected" \/ conn[s]) => ShouldConnect(cfg, s)
     /\ state[s] = "failed" => ~ShouldConnect(cfg, s)
     /\ state[s] = "closed" => conn[s]

\* delivered is a subset of sent, addressed to that side, and intact (never a tampered one)
DeliveredSentIntact ==
  \A s \in Sides : delivered[s] \subseteq {p \in sent : p.from = Peer(s) /\ ~p.tam}

\* nothing is delivered and no keys exist unless the side connected
NothingUnlessConnected ==
  \A s \in Sides : (delivered[s] # {} \/ keys[s] # NoKeys) => conn[s]

\* both connected => mirror-image keys under one profile
MirrorKeys ==
  (conn.a /\ conn.b) =>
     /\ keys.a.tx = keys.b.rx /\ keys.a.rx = keys.b.tx /\ keys.a.tx # keys.a.rx
     /\ keys.a.prof = keys.b.prof /\ keys.a.prof \in Rng(cfg.profs.a) \cap Rng(cfg.profs.b)

\* a packet is discarded only if it was altered or its receiver is not connected
DiscardOnlyIfTamperedOrNotConnected ==
  (act.op = "transit" /\ act.res = "discarded") =>
     (act.tam \/ state[act.to] # "connected")

\* Witnesses: each must be VIOLATED (non-vacuity of the theorems above)
WitnessNeverBothConnected == ~(state.a = "connected" /\ state.b = "connected")
WitnessNothingDelivered == delivered.a = {} /\ delivered.b = {}
WitnessNoTamperDiscard ==
  ~(act.op = "transit" /\ act.tam /\ act.res = "discarded" /\ state[act.to] = "connected")
WitnessNoMixedListFails ==
  ~(\E s \in Sides : /\ state[s] = "failed" /\ cfg.hs /\ CommonProfile(cfg.profs.a, cfg.profs.b)
                     /\ \E i \in DOMAIN cfg.fps[s] : IsSupported(cfg.fps[s][i]) /\ cfg.fps[s][i].good)
WitnessNoUnsupportedIgnored ==
  ~(\E s \in Sides : /\ state[s] = "connected"
                     /\ \E i \in DOMAIN cfg.fps[s] : ~IsSupported(cfg.fps[s][i]) /\ ~cfg.fps[s][i].good)
WitnessNoUnsupportedOnlyFails ==
  ~(\E s \in Sides : /\ state[s] = "failed" /\ cfg.hs /\ CommonProfile(cfg.profs.a, cfg.profs.b)
                     /\ \A i \in DOMAIN cfg.fps[s] : ~IsSupported(cfg.fps[s][i]))
WitnessNoDeliveryToHalfOpen ==
  ~(act.op = "transit" /\ act.res = "discarded" /\ ~act.tam /\ state[act.to] = "failed")
WitnessNoProfileMismatchFails ==
  ~(\E s \in Sides : state[s] = "failed" /\ cfg.hs /\ PolicyA(cfg.fps[s]))
\* a hash named in upper/mixed case counts as supported: it connects when good and makes the list fail when bad
WitnessNoUpperNameConnects ==
  ~(\E s \in Sides : /\ state[s] = "connected"
                     /\ \E i \in DOMAIN cfg.fps[s] : IsSupported(cfg.fps[s][i]) /\ cfg.fps[s][i].ncase # "lower")
WitnessNoUpperNameBadFails ==
  ~(\E s \in Sides : /\ state[s] = "failed" /\ cfg.hs /\ CommonProfile(cfg.profs.a, cfg.profs.b)
                     /\ \E i \in DOMAIN cfg.fps[s] : /\ IsSupported(cfg.fps[s][i]) /\ ~cfg.fps[s][i].good
                                                      /\ cfg.fps[s][i].ncase # "lower"
                     /\ \A i \in DOMAIN cfg.fps[s] : cfg.fps[s][i].ncase = "lower" => cfg.fps[s][i].good)

\* All witnesses in one run: the invariant WitnessCollect is always TRUE and records in TLC
\* registers which witnesses were seen; POSTCONDITION WitnessPost demands all of them.
\* Seen(i, w): register 100+i is set once witness i was observed; the witness predicate is not
\* evaluated any more afterwards (TLCGet first), which keeps the run cheap.
Seen(i, violated) == (TLCGet(100 + i) = FALSE /\ violated) => TLCSet(100 + i, TRUE)
WitnessCollect ==
  /\ Seen(1, ~WitnessNeverBothConnected) /\ Seen(2, ~WitnessNothingDelivered)
  /\ Seen(3, ~WitnessNoTamperDiscard) /\ Seen(4, ~WitnessNoMixedListFails)
  /\ Seen(5, ~WitnessNoUnsupportedIgnored) /\ Seen(6, ~WitnessNoUnsupportedOnlyFails)
  /\ Seen(7, ~WitnessNoDeliveryToHalfOpen) /\ Seen(8, ~WitnessNoProfileMismatchFails)
  /\ Seen(9, ~WitnessNoUpperNameConnects) /\ Seen(10, ~WitnessNoUpperNameBadFails)
WitnessInit == \A i \in 1..10 : TLCSet(100 + i, FALSE)
WInit == WitnessInit /\ Init
WitnessPost == \A i \in 1..10 : (TLCGet(100 + i) = TRUE) \/ PrintT(<<"WITNESS-MISSING", i>>) = FALSE
=============================================================================
