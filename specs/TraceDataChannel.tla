-------------------------- MODULE TraceDataChannel --------------------------
(* Code -> spec: judges flat event traces recorded from a real pair of       *)
(* RTCSctpTransport objects (harness/sctp_env.py) with the clauses of        *)
(* DataChannelObs.tla.  One <<"RESULT", id, verdict, position>> line per     *)
(* trace; a verdict other than "ok" names the failing property clause.       *)
EXTENDS DataChannelObs, Json, IOUtils, TLCExt, SequencesExt

VARIABLES tid, l, verdict, done

Traces == ndJsonDeserialize(IOEnv.TRACE_FILE)
tvars == <<obsvars, tid, l, verdict, done>>

TraceInit ==
  /\ ObsInit
  /\ tid \in 1..Len(Traces)
  /\ l = 1 /\ verdict = "ok" /\ done = FALSE

Evs == Traces[tid].events
Pr == Traces[tid].pr
\* focus: the property ids (and "EXC") whose clauses are decided by this run; clauses of
\* other properties are decided by those properties' own checks and do not stop the trace
Focus == ToSet(Traces[tid].focus)
InFocus(v) == v # "ok" /\ SubSeq(v, 1, 3) \in Focus

\* taint: clauses of recorded findings that belong to ANOTHER property's check.  Once such a
\* root cause has occurred, what follows in this trace may be its consequence; the trace ends
\* there with the verdict "tainted" (the owning property's check reports the finding itself).
Taint == IF "taint" \in DOMAIN Traces[tid] THEN ToSet(Traces[tid].taint) ELSE {}

Accept(v, upd) ==
  \/ ~InFocus(v) /\ v \notin Taint /\ verdict' = "ok" /\ upd
  \/ ~InFocus(v) /\ v \in Taint /\ verdict' = "tainted" /\ UNCHANGED obsvars
  \/ InFocus(v) /\ verdict' = v /\ UNCHANGED obsvars

\* C17: observable events of this run and of the reference run (same schedule, small
\* sequence-number origins) must coincide
IsObs(ev) == ev.k \in {"msg", "state", "openev", "closeev", "dcevent", "id", "send_failed", "create_failed", "exc", "quiesce"}
OriginVerdict ==
  IF "ref" \in DOMAIN Traces[tid] /\ "C17" \in Focus
       /\ SelectSeq(Evs, IsObs) # SelectSeq(Traces[tid].ref, IsObs)
    THEN "C17.origin_divergence" ELSE "ok"

Consume ==
  /\ ~done /\ verdict = "ok" /\ l <= Len(Evs)
  /\ l' = l + 1 /\ UNCHANGED <<tid, done>>
  /\ LET ev == Evs[l] IN
     CASE ev.k = "create" -> Accept("ok", DoCreate(ev.c, ev.e, ev.ordered, ev.rel, ev.negotiated, ev.first))
       [] ev.k = "send"   -> Accept("ok", DoSend(ev.c, ev.e, ev.m, ev.probe))
       [] ev.k = "msg"    -> Accept(MsgVerdict(ev.c, ev.e, ev.m, ev.known, ev.onchan, ev.intact, Pr),
                                    DoMsg(ev.c, ev.e, ev.m))
       [] ev.k = "state"  -> Accept(StateVerdict(ev.c, ev.e, ev.s), DoState(ev.c, ev.e, ev.s))
       [] ev.k = "openev" -> Accept(OpenEvVerdict(ev.c, ev.e), DoOpenEv(ev.c, ev.e))
       [] ev.k = "closeev" -> Accept(CloseEvVerdict(ev.c, ev.e), DoCloseEv(ev.c, ev.e))
       [] ev.k = "dcevent" -> Accept(DcEventVerdict(ev.c, ev.e, ev.same, ev.sid), DoDcEvent(ev.c))
       [] ev.k = "id"     -> Accept(IdVerdict(ev.c, ev.e, ev.sid, ev.auto), DoId(ev.c, ev.e, ev.sid))
       [] ev.k = "buf"    -> Accept(BufVerdict(ev.c, ev.e, ev.b0, ev.b1, ev.sent, ev.lows, ev.thr, ev.q),
                                    UNCHANGED obsvars)
       [] ev.k = "lowev"  -> Accept(LowEvVerdict(ev.ok), UNCHANGED obsvars)
       [] ev.k = "close"  -> Accept("ok", DoCloseReq(ev.c, ev.est, ev.hasid))
       [] ev.k = "drop"   -> Accept("ok", DoDrop(ev.reconfig))
       [] ev.k = "heal"   -> Accept("ok", DoHeal)
       [] ev.k = "send_failed" -> Accept(SendFailedVerdict(ev.st), UNCHANGED obsvars)
       [] ev.k = "create_failed" -> Accept(CreateFailedVerdict(ev.e, ev.sid), UNCHANGED obsvars)
       [] ev.k = "exc"    -> Accept("EXC." \o ev.where \o "." \o ev.name \o "." \o ev.fn, UNCHANGED obsvars)
       [] ev.k = "quiesce" -> Accept(QuiesceVerdict(ev.A, ev.B, ToSet(ev.chans), Pr), UNCHANGED obsvars)
       [] OTHER -> Accept("ok", UNCHANGED obsvars)

Finish ==
  /\ ~done /\ (verdict # "ok" \/ l > Len(Evs))
  /\ done' = TRUE
  /\ LET v == IF verdict = "ok" THEN OriginVerdict ELSE verdict IN
       /\ verdict' = v
       /\ PrintT(<<"RESULT", Traces[tid].id, v, l - 1>>)
  /\ UNCHANGED <<obsvars, tid, l>>

TraceNext == Consume \/ Finish
TraceSpec == TraceInit /\ [][TraceNext]_tvars
=============================================================================
