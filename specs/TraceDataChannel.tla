-------------------------- MODULE TraceDataChannel --------------------------
(* Code -> spec: judges flat event traces recorded from a real pair of       *)
(* RTCSctpTransport objects (harness/sctp_env.py) with the clauses of        *)
(* DataChannelObs.tla.  One <<"RESULT", id, verdict, position>> line per     *)
(* trace; a verdict other than "ok" names the failing property clause.       *)
EXTENDS DataChannelObs, Json, IOUtils, TLCExt, SequencesExt

VARIABLES tid, l, verdict, done

Traces == ndJsonDeserialize(IOEnv.TRACE_FILE)
tvars == <<obsvars, tid, l, verdict, done>>

TraceInit ==
  /\ ObsInit
  /\ tid \in 1..Len(Traces)
  /\ l = 1 /\ verdict = "ok" /\ done = FALSE

Evs == Traces[tid].events
Pr == Traces[tid].pr

Accept(v, upd) ==
  \/ v = "ok" /\ verdict' = "ok" /\ upd
  \/ v # "ok" /\ verdict' = v /\ UNCHANGED obsvars

Consume ==
  /\ ~done /\ verdict = "ok" /\ l <= Len(Evs)
  /\ l' = l + 1 /\ UNCHANGED <<tid, done>>
  /\ LET ev == Evs[l] IN
     CASE ev.k = "create" -> Accept("ok", DoCreate(ev.c, ev.e, ev.ordered, ev.rel, ev.negotiated, ev.first))
       [] ev.k = "send"   -> Accept("ok", DoSend(ev.c, ev.e, ev.m, ev.probe))
       [] ev.k = "msg"    -> Accept(MsgVerdict(ev.c, ev.e, ev.m, ev.known, ev.onchan, ev.intact, Pr),
                                    DoMsg(ev.c, ev.e, ev.m))
       [] ev.k = "state"  -> Accept(StateVerdict(ev.c, ev.e, ev.s), DoState(ev.c, ev.e, ev.s))
       [] ev.k = "openev" -> Accept(OpenEvVerdict(ev.c, ev.e), DoOpenEv(ev.c, ev.e))
       [] ev.k = "closeev" -> Accept(CloseEvVerdict(ev.c, ev.e), DoCloseEv(ev.c, ev.e))
       [] ev.k = "dcevent" -> Accept(DcEventVerdict(ev.c, ev.e, ev.same, ev.sid), DoDcEvent(ev.c))
       [] ev.k = "id"     -> Accept(IdVerdict(ev.c, ev.e, ev.sid, ev.auto), DoId(ev.c, ev.e, ev.sid))
       [] ev.k = "buf"    -> Accept(BufVerdict(ev.c, ev.e, ev.b0, ev.b1, ev.sent, ev.lows, ev.thr, ev.q),
                                    UNCHANGED obsvars)
       [] ev.k = "lowev"  -> Accept(LowEvVerdict(ev.ok), UNCHANGED obsvars)
       [] ev.k = "close"  -> Accept("ok", DoCloseReq(ev.c))
       [] ev.k = "heal"   -> Accept("ok", DoHeal)
       [] ev.k = "send_failed" -> Accept(SendFailedVerdict(ev.st), UNCHANGED obsvars)
       [] ev.k = "create_failed" -> Accept(CreateFailedVerdict(ev.e, ev.sid), UNCHANGED obsvars)
       [] ev.k = "exc"    -> Accept("EXC." \o ev.where \o "." \o ev.name, UNCHANGED obsvars)
       [] ev.k = "quiesce" -> Accept(QuiesceVerdict(ev.A, ev.B, ToSet(ev.chans), Pr), UNCHANGED obsvars)
       [] OTHER -> Accept("ok", UNCHANGED obsvars)

Finish ==
  /\ ~done /\ (verdict # "ok" \/ l > Len(Evs))
  /\ done' = TRUE
  /\ PrintT(<<"RESULT", Traces[tid].id, verdict, l - 1>>)
  /\ UNCHANGED <<obsvars, tid, l, verdict>>

TraceNext == Consume \/ Finish
TraceSpec == TraceInit /\ [][TraceNext]_tvars
=============================================================================
