---------------------------- MODULE TracePcLife ----------------------------
(* Code -> spec direction for C19: judges NDJSON traces recorded from REAL  *)
(* pairs of RTCPeerConnections (harness/c19_pclife.py) with the layer-A     *)
(* clauses of PcLife.tla.  Total verdict function: every trace is consumed  *)
(* to its end; every clause a side violates is printed once as              *)
(* <<"FAIL", id, clause, position, side>> (so that a recorded known finding *)
(* does not hide the other clauses) and one                                 *)
(* <<"RESULT", id, verdict, position>> line carries the first failure or    *)
(* "ok".                                                                    *)
(*                                                                          *)
(* Steps (per side "A"/"B"):                                                *)
(*   close_call n        close() number n is invoked on the side            *)
(*   close_ret n res     it returned: "ok" | "timeout" | "raised"           *)
(*   event src name      the pc / a channel / a received track emitted      *)
(*   label name phase    the side passed a harness label (not judged)       *)
(*   app what res        the application created a channel / transceiver    *)
(*                       (not judged; a created channel is observed later)  *)
(*   observe final ...   signalingState, iceConnectionState,                *)
(*                       connectionState, channel readyStates; final = 1:   *)
(*                       + received tracks, task census, thread census      *)
(* Clauses:                                                                 *)
(*   C19.close_hangs / C19.close_raised   first close() call                *)
(*   C19.second_close_not_noop   a later call hangs / raises, or the        *)
(*                               observation taken right after it differs   *)
(*                               from the one taken right before it         *)
(*   C19.event_after_close       any event once a close() has returned      *)
(*                               (the 'ended' event of a received track is  *)
(*                               the consumer seeing the end: not counted)  *)
(*   C19.state_not_closed, C19.channel_not_closed   every observation of a  *)
(*                               side whose close() has returned            *)
(*   C19.track_not_ended, C19.task_left_running, C19.thread_left_running    *)
(*                               final observation                          *)
EXTENDS PcLife, Json, IOUtils, TLCExt, SequencesExt

VARIABLES tid, l, closed, chk, snap, fails, done

Traces == ndJsonDeserialize(IOEnv.TRACE_FILE)

tvars == <<vars, tid, l, closed, chk, snap, fails, done>>

SidesT == {"A", "B"}

TraceInit ==
  /\ st = 0 /\ act = 0
  /\ tid \in 1..Len(Traces)
  /\ l = 1 /\ closed = {} /\ chk = {} /\ snap = [s \in SidesT |-> <<>>]
  /\ fails = <<>> /\ done = FALSE

Steps == Traces[tid].steps

Has(f, c, side) == \E i \in DOMAIN f : f[i][1] = c /\ f[i][3] = side
AddFail(f, c, side) == IF Has(f, c, side) THEN f ELSE Append(f, <<c, l, side>>)

RECURSIVE AddFails(_, _, _)
AddFails(f, cs, side) == IF cs = <<>> THEN f ELSE AddFails(AddFail(f, Head(cs), side), Tail(cs), side)

ObsOf(ev) ==
  [sig |-> ev.sig, ice |-> ev.ice, conn |-> ev.conn, channels |-> ev.channels,
   tracks |-> IF ev.final = 1 THEN ev.tracks ELSE <<>>,
   tasks |-> IF ev.final = 1 THEN ev.tasks ELSE <<>>,
   threads |-> IF ev.final = 1 THEN ev.threads ELSE <<>>]

Core(ev) == <<ev.sig, ev.ice, ev.conn, ev.channels>>

TConsume ==
  /\ ~done /\ l <= Len(Steps)
  /\ l' = l + 1 /\ UNCHANGED <<vars, tid, done>>
  /\ LET ev == Steps[l] IN
     IF ~("op" \in DOMAIN ev /\ "side" \in DOMAIN ev /\ ev.side \in SidesT)
       THEN fails' = Append(fails, <<"machinery.malformed_step", l, "?">>) /\ UNCHANGED <<closed, chk, snap>>
     ELSE LET side == ev.side IN
     CASE ev.op = "close_call" -> UNCHANGED <<closed, chk, snap, fails>>
       [] ev.op = "label" -> UNCHANGED <<closed, chk, snap, fails>>      \* informational: a harness label was passed
       [] ev.op = "app" -> UNCHANGED <<closed, chk, snap, fails>>        \* informational: createDataChannel / addTransceiver by the application
       [] ev.op = "close_ret" ->
            IF ev.res = "ok"
              THEN /\ closed' = closed \cup {side}
                   /\ chk' = IF ev.n >= 2 THEN chk \cup {side} ELSE chk
                   /\ UNCHANGED <<snap, fails>>
              ELSE /\ UNCHANGED <<closed, chk, snap>>
                   /\ fails' =
                        IF ev.n >= 2
                          THEN IF Has(fails, "C19.close_hangs", side) \/ Has(fails, "C19.close_raised", side)
                                 THEN fails     \* consequence of the first call's failure
                                 ELSE AddFail(fails, "C19.second_close_not_noop", side)
                          ELSE AddFail(fails, IF ev.res = "timeout" THEN "C19.close_hangs" ELSE "C19.close_raised", side)
       [] ev.op = "event" ->
            \* a change that comes with an event is judged as that event, not as a silent change
            /\ UNCHANGED <<closed, chk>> /\ snap' = [snap EXCEPT ![side] = <<>>]
            /\ fails' = IF side \in closed /\ ~(ev.src = "track" /\ ev.name = "ended")
                          THEN AddFail(fails, "C19.event_after_close", side) ELSE fails
       [] ev.op = "observe" ->
            IF side \notin closed THEN UNCHANGED <<closed, chk, snap, fails>>
            ELSE LET f1 == AddFails(fails, FailingClauses(ObsOf(ev), ev.final = 1), side)
                     changed == side \in chk /\ snap[side] # <<>> /\ snap[side] # Core(ev)
                 IN /\ fails' = IF changed THEN AddFail(f1, "C19.second_close_not_noop", side) ELSE f1
                    /\ snap' = [snap EXCEPT ![side] = Core(ev)]
                    /\ chk' = chk \ {side}
                    /\ UNCHANGED closed
       [] OTHER -> fails' = Append(fails, <<"machinery.unknown_op", l, side>>) /\ UNCHANGED <<closed, chk, snap>>

RECURSIVE PrintFails(_, _)
PrintFails(f, i) ==
  IF i > Len(f) THEN TRUE
  ELSE PrintT(<<"FAIL", Traces[tid].id, f[i][1], f[i][2], f[i][3]>>) /\ PrintFails(f, i + 1)

Finish ==
  /\ ~done /\ l > Len(Steps)
  /\ done' = TRUE
  /\ PrintFails(fails, 1)
  /\ PrintT(<<"RESULT", Traces[tid].id, IF fails = <<>> THEN "ok" ELSE fails[1][1],
              IF fails = <<>> THEN l - 1 ELSE fails[1][2]>>)
  /\ UNCHANGED <<vars, tid, l, closed, chk, snap, fails>>

TraceNext == TConsume \/ Finish

TraceSpec == TraceInit /\ [][TraceNext]_tvars
=============================================================================
