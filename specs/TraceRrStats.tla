---------------------------- MODULE TraceRrStats ----------------------------
(* Code -> spec direction for C18.  Judges NDJSON traces recorded from the   *)
(* real RTCRtpReceiver (packets fed to _handle_rtp_packet, receiver reports  *)
(* produced by the real _run_rtcp and parsed back from the bytes it sent)    *)
(* with the folded reference R of RrStats.tla at the REAL sequence modulus.  *)
(*                                                                           *)
(* Total verdict function: every trace runs to its end; one line              *)
(* <<"RESULT", id, verdict, position>> per trace names the first failing     *)
(* clause.  A clause that failed is not judged again in that trace and the   *)
(* run goes on; one line <<"FAIL", id, clause, position>> is printed for the *)
(* first failure of every clause.                                            *)
(*                                                                           *)
(* Trace object: [id, k, skip, steps].  k = number of SSRCs (streams 1..k),  *)
(* skip = clauses not to judge (used to look past a recorded known finding). *)
(* Steps:                                                                    *)
(*  [op |-> "add", s, seq, t, a, big, recv]                                  *)
(*     seq  real 16-bit sequence number                                      *)
(*     t    ideal (unwrapped) RTP timestamp minus the origin chosen by the   *)
(*          driver, plus 2^29; the code was given (origin + offset) mod 2^32 *)
(*     a    arrival in clock ticks relative to the first arrival plus 2^29,  *)
(*          with clock jumps >= 2^25 ticks folded out; such a jump sets      *)
(*          big = 1 and makes the jitter of all streams unspecified from     *)
(*          there on (the text fixes only timestamp differences mod 2^32)    *)
(*     recv packets_received of the stream after the call                    *)
(*  [op |-> "report", sent, failed, reps]  one firing of the RTCP timer      *)
(*     failed = 1: building/sending the report raised                        *)
(*     reps  = report blocks parsed from the bytes sent:                     *)
(*             [s, fl, pl, hh, hl, jh, jl]  (highest / jitter as 16-bit limbs)*)
(*  [op |-> "sr"]  a sender report was delivered (not judged)                *)
EXTENDS RrStats, Json, IOUtils, TLCExt   \* (SequencesExt also defines SeqMod)

VARIABLES tid, l, verdict, vpos, done,
          fails,  \* sequence of <<clause, position>>: first failure of every clause
          refs    \* stream -> [r: folded reference, big, okA, okB]

c_LostMin == -8388608

Traces == ndJsonDeserialize(IOEnv.TRACE_FILE)
tvars == <<vars, tid, l, verdict, vpos, done, fails, refs>>

JitterTol == 1   \* A.8 gives a floating-point and an integer form; they differ by < 1 (+ truncation)

Steps == Traces[tid].steps
Skip == {Traces[tid].skip[i] : i \in 1..Len(Traces[tid].skip)}
\* a clause is judged until it has failed once (the trace then runs on, so that one
\* recorded finding does not hide the other clauses)
Judge(c) == c \notin Skip /\ \A i \in 1..Len(fails) : fails[i][1] # c

ClauseOrder == <<"C18.received", "C18.fits/serialise_failed", "C18.ext_highest", "C18.lost",
                 "C18.fraction", "C18.jitter">>

Running == verdict = "ok" \/ \E i \in 1..Len(ClauseOrder) : verdict = ClauseOrder[i]   \* not machinery.*

TraceInit ==
  /\ Init
  /\ tid \in 1..Len(Traces)
  /\ l = 1 /\ verdict = "ok" /\ vpos = 0 /\ done = FALSE /\ fails = <<>>
  /\ refs = [s \in 1..Traces[tid].k |-> [r |-> RefInit, big |-> FALSE, okA |-> TRUE, okB |-> TRUE]]

Limbs(hi, lo) == IF hi < 32768 THEN hi * 65536 + lo ELSE 2147483647
Near(v, w) == Abs(v - w) <= JitterTol

\* clauses one report block fails against the reference state of its stream
BlockFails(b) ==
  LET st == refs[b.s]
      r == st.r
      jit == Limbs(b.jh, b.jl)
      mA == st.okA /\ Near(jit, RJitter(r, "A"))
      mB == st.okB /\ Near(jit, RJitter(r, "B"))
  IN {c \in {"C18.ext_highest", "C18.lost", "C18.fraction", "C18.jitter"} :
        /\ Judge(c)
        /\ CASE c = "C18.ext_highest" -> b.hh # RHighest(r) \div 65536 \/ b.hl # RHighest(r) % 65536
             [] c = "C18.lost"        -> b.pl # RLost(r)
             [] c = "C18.fraction"    -> b.fl # RFraction(r)
             [] c = "C18.jitter"      -> ~st.big /\ ~mA /\ ~mB}

AfterBlock(b) ==
  LET st == refs[b.s]
      jit == Limbs(b.jh, b.jl)
      mA == st.okA /\ Near(jit, RJitter(st.r, "A"))
      mB == st.okB /\ Near(jit, RJitter(st.r, "B"))
  IN [st EXCEPT !.r = RefReported(st.r),
                \* a reading stays viable while it explains every report (not narrowed once
                \* the jitter is unspecified or after the clause has failed)
                !.okA = IF st.big \/ (~mA /\ ~mB) THEN st.okA ELSE mA,
                !.okB = IF st.big \/ (~mA /\ ~mB) THEN st.okB ELSE mB]

\* record the clauses that failed at this step, in the fixed clause order
Record(F) ==
  LET newf == SelectSeq(ClauseOrder, LAMBDA c : c \in F)
  IN /\ fails' = fails \o [i \in 1..Len(newf) |-> <<newf[i], l>>]
     /\ verdict' = IF verdict = "ok" /\ newf # <<>> THEN newf[1] ELSE verdict
     /\ vpos' = IF verdict = "ok" /\ newf # <<>> THEN l ELSE vpos

Machinery(msg) == /\ verdict' = msg /\ vpos' = l /\ UNCHANGED <<fails, refs>>

Consume ==
  /\ ~done /\ l <= Len(Steps) /\ Running
  /\ l' = l + 1 /\ UNCHANGED <<vars, tid, done>>
  /\ LET ev == Steps[l] IN
     CASE ev.op = "add" ->
            LET st == refs[ev.s]
                r2 == RefStep(st.r, [seq |-> ev.seq, ts |-> ev.t, a |-> ev.a])
            IN /\ refs' = [s \in DOMAIN refs |->
                             IF s = ev.s THEN [refs[s] EXCEPT !.r = r2, !.big = refs[s].big \/ ev.big = 1]
                             ELSE [refs[s] EXCEPT !.big = refs[s].big \/ ev.big = 1]]
               /\ Record(IF Judge("C18.received") /\ ev.recv # r2.n THEN {"C18.received"} ELSE {})
       [] ev.op = "report" ->
            IF ev.failed = 1
              THEN /\ Record(IF Judge("C18.fits/serialise_failed") THEN {"C18.fits/serialise_failed"} ELSE {})
                   /\ UNCHANGED refs
            ELSE IF \E i, j \in 1..Len(ev.reps) : i # j /\ ev.reps[i].s = ev.reps[j].s
              THEN Machinery("machinery.duplicate_block")
            ELSE IF \E i \in 1..Len(ev.reps) : refs[ev.reps[i].s].r.n = 0
              THEN Machinery("machinery.report_for_unseen_stream")
            ELSE /\ Record(UNION {BlockFails(ev.reps[i]) : i \in 1..Len(ev.reps)})
                 /\ refs' = [s \in DOMAIN refs |->
                               IF \E i \in 1..Len(ev.reps) : ev.reps[i].s = s
                                 THEN AfterBlock(ev.reps[CHOOSE i \in 1..Len(ev.reps) : ev.reps[i].s = s])
                                 ELSE refs[s]]
       [] ev.op = "sr" -> Record({}) /\ UNCHANGED refs
       [] OTHER -> Machinery("machinery.unknown_op")

Finish ==
  /\ ~done /\ (l > Len(Steps) \/ ~Running)
  /\ done' = TRUE
  /\ PrintT(<<"RESULT", Traces[tid].id, verdict, vpos>>)
  /\ \A i \in 1..Len(fails) : PrintT(<<"FAIL", Traces[tid].id, fails[i][1], fails[i][2]>>)
  /\ UNCHANGED <<vars, tid, l, verdict, vpos, fails, refs>>

TraceNext == Consume \/ Finish
TraceSpec == TraceInit /\ [][TraceNext]_tvars
=============================================================================
