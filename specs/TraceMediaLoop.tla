---------------------------- MODULE TraceMediaLoop ----------------------------
(* Code -> spec direction for C11 (and the RTP part of C17): judges NDJSON   *)
(* traces recorded from a real RTCRtpSender / RTCRtpReceiver pair with the   *)
(* clause operators of MediaLoopObs.tla (unit = byte).  Total verdict        *)
(* function: every trace runs to its end or to its first failing clause and  *)
(* one <<"RESULT", id, verdict, position>> line is printed per trace.        *)
(*                                                                           *)
(* Trace kinds:                                                              *)
(*  "run"      one execution: rtx (negotiated), lossfree (every feedback     *)
(*             packet and every retransmission was delivered, at once),      *)
(*             trail (frames at the end that only kept the traffic going),   *)
(*             events = send / arr / nack / pli / rtx / dec / exc            *)
(*  "origins"  the observable results (decoder inputs, NACK lists,           *)
(*             retransmitted numbers, all origin-relative) of ONE schedule   *)
(*             executed under several sequence-number / timestamp origins:   *)
(*             they must all be equal (C17.media_origin).                    *)
EXTENDS MediaLoopObs, Json, IOUtils, TLCExt, SequencesExt, TLC

VARIABLES tid, l, verdict, done

Traces == ndJsonDeserialize(IOEnv.TRACE_FILE)

tvars == <<obs, tid, l, verdict, done>>

TraceInit ==
  /\ obs = ObsInit
  /\ tid \in 1..Len(Traces)
  /\ l = 1 /\ verdict = "ok" /\ done = FALSE

Tr == Traces[tid]
IsRun == Tr.kind = "run"
Steps == IF IsRun THEN Tr.events ELSE Tr.obs

\* one event of a run -> next observer record (clauses latch in .verdict)
Apply(o, ev) ==
  CASE ev.k = "send" ->
         IF ev.f # Len(o.frames) + 1 \/ ev.n < 1 \/ ev.len < 1
           THEN Fail(o, "machinery.bad_send")
           ELSE ObsSend(o, ev.len, ev.s0, ev.n)
    [] ev.k = "arr"  -> ObsArrive(o, ev.s, ev.hi)
    [] ev.k = "nack" -> IF "lost" \in DOMAIN ev THEN ObsNackList(o, ev.n, ToSet(ev.lost)) ELSE ObsNack(o, ev.n)
    [] ev.k = "pli"  -> ObsDiscard(o)
    [] ev.k = "rtx"  ->
         \* "resent (as RTX when negotiated, otherwise verbatim)": the form must match
         \* the negotiation and the resent packet must carry the original's content
         IF ev.form # (IF Tr.rtx THEN "rtx" ELSE "plain") \/ ~ev.same \/ ev.s < 0
           THEN Fail(o, "C11.retransmit_form") ELSE o
    [] ev.k = "dec"  -> ObsDecode(o, ev.segs)
    [] ev.k = "exc"  -> o
    [] OTHER -> Fail(o, "machinery.unknown_event")

ConsumeRun ==
  /\ IsRun /\ l <= Len(Steps)
  /\ obs' = Apply(obs, Steps[l])
  /\ verdict' = obs'.verdict
  /\ l' = l + 1

\* end of a run: the recovery clause
EndRun ==
  /\ IsRun /\ l = Len(Steps) + 1
  /\ verdict' = RecoveryVerdict(obs, Tr.lossfree, Tr.trail)
  /\ l' = l + 1 /\ UNCHANGED obs

\* an "origins" record: variant l must equal variant 1
ConsumeOrigins ==
  /\ ~IsRun /\ l <= Len(Steps)
  /\ verdict' = IF Steps[l] = Steps[1] THEN "ok" ELSE "C17.media_origin"
  /\ l' = l + 1 /\ UNCHANGED obs

AtEnd == IF IsRun THEN l > Len(Steps) + 1 ELSE l > Len(Steps)

Consume ==
  /\ ~done /\ verdict = "ok" /\ ~AtEnd
  /\ (ConsumeRun \/ EndRun \/ ConsumeOrigins)
  /\ UNCHANGED <<tid, done>>

Finish ==
  /\ ~done /\ (verdict # "ok" \/ AtEnd)
  /\ done' = TRUE
  /\ PrintT(<<"RESULT", Tr.id, verdict, l - 1>>)
  /\ UNCHANGED <<obs, tid, l, verdict>>

TraceNext == Consume \/ Finish

TraceSpec == TraceInit /\ [][TraceNext]_tvars
=============================================================================
