------------------------------ MODULE RtpWire ------------------------------
(* C07 - RTP / RTCP wire formats as operators over sequences of bytes.      *)
(*                                                                          *)
(* Independent transcription of RFC 3550 (RTP header, SR/RR/SDES/BYE),      *)
(* RFC 4585 (RTPFB generic NACK, PSFB), RFC 5285/8285 (one- and two-byte    *)
(* header extensions), draft-alvestrand-rmcat-remb-03 (REMB) and RFC 4588   *)
(* (RTX).  TLC is the evaluator.  32-bit fields are 4-byte lists, 64-bit    *)
(* fields 8-byte lists, unbounded naturals little-endian lists of 16-bit    *)
(* limbs (TLC integers are 32-bit signed).                                  *)
(*                                                                          *)
(* Part 1: layout operators (Encode / Decode).                              *)
(* Part 2: a "builder" state machine that enumerates values of bounded      *)
(*         domains field by field; the lemmas are invariants of its final   *)
(*         ("done") states.  `act` is the value under construction and, in  *)
(*         done states, the complete value with the model's encoding.       *)
(* TraceRtpWire.tla reuses part 1 to judge recorded executions of the code. *)
EXTENDS Integers, Sequences, FiniteSets, TLC

CONSTANTS Classes,   \* which value classes the builder enumerates
          Scale      \* 1 = quick exhaustive, 2 = thorough exhaustive, 3 = simulation

VARIABLES stage, act
vars == <<stage, act>>

--------------------------------------------------------------------------
(* Bytes and integers *)

U16(n) == <<n \div 256, n % 256>>
U24(n) == <<n \div 65536, (n \div 256) % 256, n % 256>>
N16(b) == b[1] * 256 + b[2]
N24(b) == b[1] * 65536 + b[2] * 256 + b[3]
S24(n) == IF n < 0 THEN n + 16777216 ELSE n          \* two's complement, 24 bit
US24(u) == IF u >= 8388608 THEN u - 16777216 ELSE u
Sub(s, a, len) == SubSeq(s, a, a + len - 1)
Zeros(n) == [i \in 1..n |-> 0] \o <<>>
Pad4(n) == (4 - (n % 4)) % 4
SeqSet(s) == {s[i] : i \in 1..Len(s)}
MaxOf(S) == CHOOSE x \in S : \A y \in S : y <= x
IsBytes(s) == \A i \in 1..Len(s) : s[i] \in 0..255
Bit(n, i) == (n \div 2^i) % 2

\* TLC evaluates [i \in S |-> e] lazily and without caching; Tup forces a function with
\* domain 1..n into a tuple of values (nested lazy functions cost exponential time).
Tup(f) == f \o <<>>
RECURSIVE CatR(_, _, _)      \* balanced, so that the recursion depth stays logarithmic
CatR(ss, lo, hi) ==
  IF lo > hi THEN <<>>
  ELSE IF lo = hi THEN ss[lo]
  ELSE LET mid == (lo + hi) \div 2 IN CatR(ss, lo, mid) \o CatR(ss, mid + 1, hi)
Cat(ss) == LET t == Tup(ss) IN CatR(t, 1, Len(t))

Bad == [bad |-> TRUE]
Z4 == <<0, 0, 0, 0>>

--------------------------------------------------------------------------
(* RFC 5285 header extensions.  A packet's extension values are a record   *)
(* of options (<<>> = absent, <<x>> = present); an id map gives every      *)
(* extension an id 1..255 or 0 (= not configured).                         *)

ExtNames == <<"mid", "rrid", "rid", "ast", "toff", "al", "tcc">>
NoExt == [mid |-> <<>>, rrid |-> <<>>, rid |-> <<>>, ast |-> <<>>, toff |-> <<>>, al |-> <<>>, tcc |-> <<>>]
NoMap == [mid |-> 0, rrid |-> 0, rid |-> 0, ast |-> 0, toff |-> 0, al |-> 0, tcc |-> 0]

\* value codecs
ExtBytes(nm, val) ==
  CASE nm \in {"mid", "rrid", "rid"} -> val             \* SDES items: the text's bytes
    [] nm = "ast"  -> U24(val)                          \* abs-send-time, 24 bit unsigned
    [] nm = "toff" -> U24(S24(val))                     \* RFC 5450 transmission offset, 24 bit signed
    [] nm = "al"   -> << val[1] * 128 + val[2] >>       \* RFC 6464: V bit, 7 bit level
    [] nm = "tcc"  -> U16(val)                          \* transport-wide sequence number

ExtValue(nm, bs) ==
  CASE nm \in {"mid", "rrid", "rid"} -> <<bs>>
    [] nm = "ast"  -> IF Len(bs) = 3 THEN <<N24(bs)>> ELSE <<>>
    [] nm = "toff" -> IF Len(bs) = 3 THEN <<US24(N24(bs))>> ELSE <<>>
    [] nm = "al"   -> IF Len(bs) = 1 THEN << <<bs[1] \div 128, bs[1] % 128>> >> ELSE <<>>
    [] nm = "tcc"  -> IF Len(bs) = 2 THEN <<N16(bs)>> ELSE <<>>

\* the elements <<id, bytes>> of a packet, in the order of ExtNames
Entries(map, x) ==
  LET F[i \in 0..7] ==
        IF i = 0 THEN <<>>
        ELSE LET nm == ExtNames[i] IN
             IF map[nm] # 0 /\ x[nm] # <<>>
               THEN Append(F[i - 1], <<map[nm], ExtBytes(nm, x[nm][1])>>)
               ELSE F[i - 1]
  IN F[7]

\* form selection: one-byte form needs ids 1..14 and lengths 1..16
OneByteOK(es) == \A i \in 1..Len(es) : es[i][1] \in 1..14 /\ Len(es[i][2]) \in 1..16

ExtBody(es) ==
  IF OneByteOK(es)
    THEN Cat([i \in 1..Len(es) |-> << es[i][1] * 16 + Len(es[i][2]) - 1 >> \o es[i][2]])
    ELSE Cat([i \in 1..Len(es) |-> << es[i][1], Len(es[i][2]) >> \o es[i][2]])

ExtBlock(es) ==
  IF Len(es) = 0 THEN <<>>
  ELSE LET body == ExtBody(es)
           padded == body \o Zeros(Pad4(Len(body)))
           prof == IF OneByteOK(es) THEN <<190, 222>> ELSE <<16, 0>>    \* 0xBEDE / 0x1000
       IN prof \o U16(Len(padded) \div 4) \o padded

RECURSIVE OneByteEls(_, _)
OneByteEls(b, pos) ==
  IF pos > Len(b) THEN <<>>
  ELSE IF b[pos] = 0 THEN OneByteEls(b, pos + 1)
  ELSE LET id == b[pos] \div 16
           len == (b[pos] % 16) + 1
       IN IF id = 15 \/ pos + len > Len(b) THEN <<>>
          ELSE << <<id, Sub(b, pos + 1, len)>> >> \o OneByteEls(b, pos + 1 + len)

RECURSIVE TwoByteEls(_, _)
TwoByteEls(b, pos) ==
  IF pos > Len(b) THEN <<>>
  ELSE IF b[pos] = 0 THEN TwoByteEls(b, pos + 1)
  ELSE IF pos + 1 > Len(b) THEN <<>>
  ELSE IF pos + 1 + b[pos + 1] > Len(b) THEN <<>>
  ELSE << <<b[pos], Sub(b, pos + 2, b[pos + 1])>> >> \o TwoByteEls(b, pos + 2 + b[pos + 1])

ExtDecode(map, prof, body) ==
  LET els == IF prof = <<190, 222>> THEN OneByteEls(body, 1)
             ELSE IF prof[1] = 16 /\ prof[2] < 16 THEN TwoByteEls(body, 1)
             ELSE <<>>
      Find(id) == LET S == {i \in 1..Len(els) : els[i][1] = id} IN IF S = {} THEN 0 ELSE MaxOf(S)
      Val(nm) == IF map[nm] = 0 THEN <<>>
                 ELSE LET i == Find(map[nm]) IN IF i = 0 THEN <<>> ELSE ExtValue(nm, els[i][2])
  IN [mid |-> Val("mid"), rrid |-> Val("rrid"), rid |-> Val("rid"), ast |-> Val("ast"),
      toff |-> Val("toff"), al |-> Val("al"), tcc |-> Val("tcc")]

--------------------------------------------------------------------------
(* RFC 3550 section 5.1: RTP.  value = [m, pt, seq, ts, ssrc, csrc, x,     *)
(* payload, pad] (pad = number of padding octets incl. the count octet).   *)

RtpEncode(map, v) ==
  LET es == Entries(map, v.x)
      X == IF Len(es) = 0 THEN 0 ELSE 1
      P == IF v.pad > 0 THEN 1 ELSE 0
  IN << 128 + P * 32 + X * 16 + Len(v.csrc), v.m * 128 + v.pt >> \o U16(v.seq) \o v.ts \o v.ssrc
     \o Cat(v.csrc) \o ExtBlock(es) \o v.payload
     \o (IF v.pad > 0 THEN Zeros(v.pad - 1) \o <<v.pad>> ELSE <<>>)

RtpDecode(map, b) ==
  IF Len(b) < 12 THEN Bad
  ELSE IF b[1] \div 64 # 2 THEN Bad
  ELSE
  LET P == (b[1] \div 32) % 2
      X == (b[1] \div 16) % 2
      cc == b[1] % 16
      pos1 == 13 + 4 * cc             \* index of the first octet after the CSRC list
  IN IF Len(b) < 12 + 4 * cc THEN Bad
     ELSE IF X = 1 /\ Len(b) < pos1 + 3 THEN Bad
     ELSE
     LET xlen == IF X = 1 THEN 4 + 4 * N16(Sub(b, pos1 + 2, 2)) ELSE 0
         pos2 == pos1 + xlen          \* index of the first payload octet
         pad == IF P = 1 THEN b[Len(b)] ELSE 0
     IN IF Len(b) < pos2 - 1 THEN Bad
        ELSE IF P = 1 /\ (pad = 0 \/ pad > Len(b) - (pos2 - 1)) THEN Bad
        ELSE [m |-> b[2] \div 128, pt |-> b[2] % 128, seq |-> N16(Sub(b, 3, 2)),
              ts |-> Sub(b, 5, 4), ssrc |-> Sub(b, 9, 4),
              csrc |-> [i \in 1..cc |-> Sub(b, 13 + 4 * (i - 1), 4)],
              x |-> IF X = 1 THEN ExtDecode(map, Sub(b, pos1, 2), Sub(b, pos1 + 4, xlen - 4)) ELSE NoExt,
              payload |-> SubSeq(b, pos2, Len(b) - pad), pad |-> pad]

\* equality of two serialisations up to the content of the padding octets
EqModPad(a, b, pad) ==
  /\ Len(a) = Len(b)
  /\ IF pad = 0 \/ pad > Len(a) THEN a = b
     ELSE SubSeq(a, 1, Len(a) - pad) = SubSeq(b, 1, Len(b) - pad) /\ a[Len(a)] = b[Len(b)]

--------------------------------------------------------------------------
(* RFC 4588: RTX *)

RtxWrap(v, rpt, rseq, rssrc) ==
  [v EXCEPT !.pt = rpt, !.seq = rseq, !.ssrc = rssrc, !.payload = U16(v.seq) \o v.payload, !.pad = 0]

RtxUnwrap(w, pt, ssrc) ==
  [w EXCEPT !.pt = pt, !.ssrc = ssrc, !.seq = N16(SubSeq(w.payload, 1, 2)),
            !.payload = SubSeq(w.payload, 3, Len(w.payload)), !.pad = 0]

\* RFC 4588 section 4: padding of the original packet is removed
NoPad(v) == [v EXCEPT !.pad = 0]

--------------------------------------------------------------------------
(* RFC 4585 section 6.2.1: generic NACK.  `lost` is a list of 16-bit       *)
(* sequence numbers in ascending serial order; on the wire PID/BLP pairs.  *)

SetBit(blp, d) == IF Bit(blp, d) = 1 THEN blp ELSE blp + 2^d

RECURSIVE NackGo(_, _, _)
NackGo(rest, pid, blp) ==
  IF Len(rest) = 0 THEN << <<pid, blp>> >>
  ELSE LET d == (Head(rest) - pid - 1) % 65536 IN
       IF d < 16 THEN NackGo(Tail(rest), pid, SetBit(blp, d))
       ELSE << <<pid, blp>> >> \o NackGo(Tail(rest), Head(rest), 0)

NackPairs(lost) == IF Len(lost) = 0 THEN <<>> ELSE NackGo(Tail(lost), Head(lost), 0)

PairSet(pr) == {pr[1]} \cup {(pr[1] + i) % 65536 : i \in {j \in 1..16 : Bit(pr[2], j - 1) = 1}}
PairLost(pr) ==
  <<pr[1]>> \o SelectSeq([i \in 1..16 |-> IF Bit(pr[2], i - 1) = 1 THEN (pr[1] + i) % 65536 ELSE -1],
                         LAMBDA y : y >= 0)
NackSet(pairs) == UNION {PairSet(pairs[i]) : i \in 1..Len(pairs)}
NackLost(pairs) == Cat([i \in 1..Len(pairs) |-> PairLost(pairs[i])])

--------------------------------------------------------------------------
(* Naturals of any size: little-endian sequences of 16-bit limbs           *)

BLimb(a, i) == IF i <= Len(a) THEN a[i] ELSE 0
BMaxLen(a, b) == IF Len(a) >= Len(b) THEN Len(a) ELSE Len(b)
BEq(a, b) == \A i \in 1..BMaxLen(a, b) : BLimb(a, i) = BLimb(b, i)
BLt(a, b) == LET n == BMaxLen(a, b) IN
  \E i \in 1..n : BLimb(a, i) < BLimb(b, i) /\ \A j \in (i + 1)..n : BLimb(a, j) = BLimb(b, j)
BHalve(a) == Tup([i \in 1..Len(a) |-> a[i] \div 2 + (BLimb(a, i + 1) % 2) * 32768])
BDbl(a) == LET n == Len(a) IN
  Tup([i \in 1..(n + 1) |-> ((BLimb(a, i) * 2) % 65536) + (IF i > 1 THEN a[i - 1] \div 32768 ELSE 0)])
BSub(a, b) ==            \* a - b for a >= b
  LET n == BMaxLen(a, b)
      Bo[i \in 0..n] == IF i = 0 THEN 0
                        ELSE IF BLimb(a, i) - BLimb(b, i) - Bo[i - 1] < 0 THEN 1 ELSE 0
  IN Tup([i \in 1..n |-> (BLimb(a, i) - BLimb(b, i) - Bo[i - 1]) % 65536])
BAddSmall(a, k) ==       \* a + k, 0 <= k < 65536
  LET n == Len(a) + 1
      Ca[i \in 0..n] == IF i = 0 THEN k ELSE (BLimb(a, i) + Ca[i - 1]) \div 65536
  IN Tup([i \in 1..n |-> (BLimb(a, i) + Ca[i - 1]) % 65536])
BShl17(a) == BDbl(<<0>> \o a)
RECURSIVE BShl(_, _)
BShl(a, e) == IF e = 0 THEN a ELSE IF e >= 16 THEN BShl(<<0>> \o a, e - 16) ELSE BShl(BDbl(a), e - 1)
BFits18(a) == BLimb(a, 2) < 4 /\ \A i \in 3..Len(a) : a[i] = 0
BFromInt(n) == <<n % 65536, n \div 65536>>       \* 0 <= n < 2^31

--------------------------------------------------------------------------
(* REMB: 6 bit exponent, 18 bit mantissa                                   *)

RECURSIVE RembME(_, _)
RembME(a, e) == IF BFits18(a) THEN <<BLimb(a, 2) * 65536 + BLimb(a, 1), e>> ELSE RembME(BHalve(a), e + 1)

RembValue(m, e) == BShl(BFromInt(m), e)

RembFci(rate, ssrcs) ==
  LET me == RembME(rate, 0) IN
  <<82, 69, 77, 66, Len(ssrcs), me[2] * 4 + me[1] \div 65536>> \o U16(me[1] % 65536) \o Cat(ssrcs)

RembParse(fci) ==
  IF Len(fci) < 8 THEN Bad
  ELSE IF SubSeq(fci, 1, 4) # <<82, 69, 77, 66>> THEN Bad
  ELSE IF Len(fci) < 8 + 4 * fci[5] THEN Bad
  ELSE [m |-> (fci[6] % 4) * 65536 + fci[7] * 256 + fci[8], e |-> fci[6] \div 4,
        ssrcs |-> [i \in 1..fci[5] |-> Sub(fci, 9 + 4 * (i - 1), 4)]]

\* never rounds up, relative error < 2^-17
RembBoundOK(V, D) == BEq(V, D) \/ (BLt(D, V) /\ BLt(BShl17(BSub(V, D)), V))

--------------------------------------------------------------------------
(* Cumulative loss: 24 bit signed, saturating                              *)

Sat24(n) == IF n > 8388607 THEN 8388607 ELSE IF n < -8388608 THEN -8388608 ELSE n

\* s = [neg |-> 0/1, mag |-> limbs]
Sat24Big(s) ==
  LET big == BLimb(s.mag, 2) >= 128 \/ \E i \in 3..Len(s.mag) : s.mag[i] # 0
      small == BLimb(s.mag, 1) + 65536 * BLimb(s.mag, 2)
  IN IF s.neg = 1 THEN (IF big THEN -8388608 ELSE 0 - small)
     ELSE (IF big THEN 8388607 ELSE small)

--------------------------------------------------------------------------
(* RFC 3550 section 6 / RFC 4585 section 6: RTCP                           *)
(* packets: [t |-> "sr", ssrc, ntp, rts, pc, oc, reports]                  *)
(*          [t |-> "rr", ssrc, reports]    report = [ssrc, fl, lost, hs,   *)
(*                                                   jit, lsr, dlsr]       *)
(*          [t |-> "sdes", chunks]   chunk = [ssrc, items], item = <<type, *)
(*                                                                bytes>>  *)
(*          [t |-> "bye", sources]                                         *)
(*          [t |-> "rtpfb", fmt, ssrc, mssrc, lost]                        *)
(*          [t |-> "psfb", fmt, ssrc, mssrc, fci]                          *)

RtcpHdr(count, pt, payload) == << 128 + count, pt >> \o U16(Len(payload) \div 4) \o payload

ReportBytes(r) == r.ssrc \o <<r.fl>> \o U24(S24(r.lost)) \o r.hs \o r.jit \o r.lsr \o r.dlsr
ReportParse(b) ==
  [ssrc |-> Sub(b, 1, 4), fl |-> b[5], lost |-> US24(N24(Sub(b, 6, 3))), hs |-> Sub(b, 9, 4),
   jit |-> Sub(b, 13, 4), lsr |-> Sub(b, 17, 4), dlsr |-> Sub(b, 21, 4)]
ReportsBytes(rs) == Cat([i \in 1..Len(rs) |-> ReportBytes(rs[i])])
ReportsParse(b, pos, count) == [i \in 1..count |-> ReportParse(Sub(b, pos + 24 * (i - 1), 24))]

ItemsBytes(items) == Cat([i \in 1..Len(items) |-> <<items[i][1], Len(items[i][2])>> \o items[i][2]])
\* items, then one or more null octets up to the next 32-bit boundary
ChunkBytes(c) == LET body == c.ssrc \o ItemsBytes(c.items) IN body \o Zeros(4 - (Len(body) % 4))

RtcpEncode1(p) ==
  CASE p.t = "sr" -> RtcpHdr(Len(p.reports), 200, p.ssrc \o p.ntp \o p.rts \o p.pc \o p.oc \o ReportsBytes(p.reports))
    [] p.t = "rr" -> RtcpHdr(Len(p.reports), 201, p.ssrc \o ReportsBytes(p.reports))
    [] p.t = "sdes" -> RtcpHdr(Len(p.chunks), 202, Cat([i \in 1..Len(p.chunks) |-> ChunkBytes(p.chunks[i])]))
    [] p.t = "bye" -> RtcpHdr(Len(p.sources), 203, Cat(p.sources))
    [] p.t = "rtpfb" -> LET prs == NackPairs(p.lost) IN
         RtcpHdr(p.fmt, 205, p.ssrc \o p.mssrc \o Cat([i \in 1..Len(prs) |-> U16(prs[i][1]) \o U16(prs[i][2])]))
    [] p.t = "psfb" -> RtcpHdr(p.fmt, 206, p.ssrc \o p.mssrc \o p.fci)

RtcpEncode(ps) == Cat([i \in 1..Len(ps) |-> RtcpEncode1(ps[i])])

\* <<items, index of the terminating null octet (or Len + 1)>>
RECURSIVE SdesItems(_, _)
SdesItems(b, pos) ==
  IF pos > Len(b) THEN <<<<>>, pos>>
  ELSE IF b[pos] = 0 THEN <<<<>>, pos>>
  ELSE IF pos + 1 > Len(b) THEN <<<<>>, Len(b) + 1>>
  ELSE IF pos + 1 + b[pos + 1] > Len(b) THEN <<<<>>, Len(b) + 1>>
  ELSE LET r == SdesItems(b, pos + 2 + b[pos + 1])
       IN << << <<b[pos], Sub(b, pos + 2, b[pos + 1])>> >> \o r[1], r[2] >>

RECURSIVE SdesChunks(_, _, _)
SdesChunks(b, pos, k) ==
  IF k = 0 THEN <<>>
  ELSE IF pos + 3 > Len(b) THEN <<>>
  ELSE LET r == SdesItems(b, pos + 4)
       IN << [ssrc |-> Sub(b, pos, 4), items |-> r[1]] >>
          \o SdesChunks(b, 4 * ((r[2] - 1) \div 4 + 1) + 1, k - 1)

Rtcp1Decode(pt, count, b) ==
  CASE pt = 200 -> IF Len(b) # 24 + 24 * count THEN Bad
                   ELSE [t |-> "sr", ssrc |-> Sub(b, 1, 4), ntp |-> Sub(b, 5, 8), rts |-> Sub(b, 13, 4),
                         pc |-> Sub(b, 17, 4), oc |-> Sub(b, 21, 4), reports |-> ReportsParse(b, 25, count)]
    [] pt = 201 -> IF Len(b) # 4 + 24 * count THEN Bad
                   ELSE [t |-> "rr", ssrc |-> Sub(b, 1, 4), reports |-> ReportsParse(b, 5, count)]
    [] pt = 202 -> [t |-> "sdes", chunks |-> SdesChunks(b, 1, count)]
    [] pt = 203 -> IF Len(b) < 4 * count THEN Bad
                   ELSE [t |-> "bye", sources |-> [i \in 1..count |-> Sub(b, 1 + 4 * (i - 1), 4)]]
    [] pt = 205 -> IF Len(b) < 8 \/ (Len(b) % 4) # 0 THEN Bad
                   ELSE [t |-> "rtpfb", fmt |-> count, ssrc |-> Sub(b, 1, 4), mssrc |-> Sub(b, 5, 4),
                         lost |-> NackLost([i \in 1..((Len(b) - 8) \div 4) |->
                                     <<N16(Sub(b, 9 + 4 * (i - 1), 2)), N16(Sub(b, 11 + 4 * (i - 1), 2))>>])]
    [] pt = 206 -> IF Len(b) < 8 THEN Bad
                   ELSE [t |-> "psfb", fmt |-> count, ssrc |-> Sub(b, 1, 4), mssrc |-> Sub(b, 5, 4),
                         fci |-> SubSeq(b, 9, Len(b))]
    [] OTHER -> Bad

RECURSIVE RtcpDecode(_)
RtcpDecode(b) ==
  IF Len(b) = 0 THEN <<>>
  ELSE IF Len(b) < 4 THEN <<Bad>>
  ELSE IF b[1] \div 64 # 2 THEN <<Bad>>
  ELSE LET P == (b[1] \div 32) % 2
           count == b[1] % 32
           n == 4 * N16(Sub(b, 3, 2))
       IN IF Len(b) < 4 + n THEN <<Bad>>
          ELSE LET raw == Sub(b, 5, n)
                   padOK == n > 0 /\ raw[n] > 0 /\ raw[n] <= n
               IN IF P = 1 /\ ~padOK THEN <<Bad>>
                  ELSE LET body == IF P = 1 THEN SubSeq(raw, 1, n - raw[n]) ELSE raw
                       IN <<Rtcp1Decode(b[2], count, body)>> \o RtcpDecode(SubSeq(b, 5 + n, Len(b)))

--------------------------------------------------------------------------
(* Part 2 - bounded domains and the builder.                               *)

Sc(a, b, c) == IF Scale = 1 THEN a ELSE IF Scale = 2 THEN b ELSE c

W32 == Sc({Z4, <<255, 255, 255, 255>>, <<128, 0, 0, 1>>},
          {Z4, <<255, 255, 255, 255>>, <<128, 0, 0, 1>>, <<127, 255, 255, 255>>},
          {Z4, <<255, 255, 255, 255>>, <<128, 0, 0, 1>>, <<127, 255, 255, 255>>, <<1, 2, 3, 4>>,
           <<0, 0, 1, 0>>, <<0, 255, 0, 255>>, <<222, 173, 190, 239>>})
W64 == {Z4 \o Z4, <<255, 255, 255, 255, 255, 255, 255, 255>>, <<128, 0, 0, 0, 0, 0, 0, 1>>, <<1, 2, 3, 4, 5, 6, 7, 8>>}
PtSet == Sc({0, 96, 127}, {0, 1, 72, 96, 126, 127}, 0..127)
SeqNums == Sc({0, 255, 256, 65535}, {0, 1, 255, 256, 32768, 65534, 65535},
              {0, 1, 255, 256, 257, 4660, 32767, 32768, 65534, 65535})
CcSet == Sc({0, 1, 15}, {0, 1, 2, 14, 15}, 0..15)
PlSet == Sc({0, 3}, {0, 1, 3, 4}, 0..12)
PadSet == Sc({0, 1, 4, 255}, {0, 1, 2, 3, 4, 255}, 0..255)
Bytes(n) == Tup([i \in 1..n |-> (i * 37 + 11) % 256])
Text(n) == Tup([i \in 1..n |-> 97 + (i % 26)])
Csrcs(cc) == Tup([i \in 1..cc |-> <<i, 255, 0, 255 - i>>])
Word(k) == <<(k * 67) % 256, 255 - k, k, (k * 129) % 256>>

\* id maps: ids 1..14, 15..255, mixed, sparse
Maps ==
  Sc({ [mid |-> 1, rrid |-> 2, rid |-> 3, ast |-> 4, toff |-> 5, al |-> 6, tcc |-> 7],
       [mid |-> 15, rrid |-> 16, rid |-> 100, ast |-> 200, toff |-> 254, al |-> 255, tcc |-> 20],
       [mid |-> 14, rrid |-> 0, rid |-> 15, ast |-> 1, toff |-> 0, al |-> 2, tcc |-> 255],
       [mid |-> 3, rrid |-> 0, rid |-> 0, ast |-> 0, toff |-> 4, al |-> 0, tcc |-> 0] },
     { [mid |-> 1, rrid |-> 2, rid |-> 3, ast |-> 4, toff |-> 5, al |-> 6, tcc |-> 7],
       [mid |-> 14, rrid |-> 13, rid |-> 12, ast |-> 11, toff |-> 10, al |-> 9, tcc |-> 8],
       [mid |-> 15, rrid |-> 16, rid |-> 100, ast |-> 200, toff |-> 254, al |-> 255, tcc |-> 20],
       [mid |-> 14, rrid |-> 0, rid |-> 15, ast |-> 1, toff |-> 0, al |-> 2, tcc |-> 255],
       [mid |-> 3, rrid |-> 0, rid |-> 0, ast |-> 0, toff |-> 4, al |-> 0, tcc |-> 0],
       [mid |-> 0, rrid |-> 0, rid |-> 14, ast |-> 0, toff |-> 0, al |-> 0, tcc |-> 1] },
     { [mid |-> 1, rrid |-> 2, rid |-> 3, ast |-> 4, toff |-> 5, al |-> 6, tcc |-> 7],
       [mid |-> 14, rrid |-> 13, rid |-> 12, ast |-> 11, toff |-> 10, al |-> 9, tcc |-> 8],
       [mid |-> 15, rrid |-> 16, rid |-> 100, ast |-> 200, toff |-> 254, al |-> 255, tcc |-> 20],
       [mid |-> 14, rrid |-> 0, rid |-> 15, ast |-> 1, toff |-> 0, al |-> 2, tcc |-> 255],
       [mid |-> 3, rrid |-> 0, rid |-> 0, ast |-> 0, toff |-> 4, al |-> 0, tcc |-> 0],
       [mid |-> 0, rrid |-> 0, rid |-> 14, ast |-> 0, toff |-> 0, al |-> 0, tcc |-> 1],
       [mid |-> 255, rrid |-> 1, rid |-> 128, ast |-> 14, toff |-> 15, al |-> 16, tcc |-> 2],
       [mid |-> 7, rrid |-> 6, rid |-> 5, ast |-> 0, toff |-> 0, al |-> 0, tcc |-> 0] })

\* present values per extension (lengths around the one-/two-byte form limits)
Opts(nm) ==
  CASE nm = "mid"  -> {Text(n) : n \in Sc({0, 1, 16, 17}, {0, 1, 2, 16, 17, 255}, {0, 1, 2, 3, 15, 16, 17, 18, 254, 255})}
    [] nm = "rrid" -> {Text(n) : n \in Sc({1}, {1}, {1, 16, 17})}
    [] nm = "rid"  -> {Text(n) : n \in Sc({16, 17}, {1, 16, 17}, {1, 2, 16, 17, 255})}
    [] nm = "ast"  -> Sc({0, 16777215}, {0, 65536, 16777215}, {0, 1, 255, 256, 65536, 8388608, 16777215})
    [] nm = "toff" -> Sc({-8388608, 8388607}, {-8388608, -65536, -1, 0, 8388607},
                         {-8388608, -8388607, -65536, -256, -1, 0, 1, 255, 256, 65536, 8388607})
    [] nm = "al"   -> Sc({<<0, 0>>, <<1, 127>>}, {<<0, 0>>, <<1, 127>>}, {<<0, 0>>, <<1, 0>>, <<0, 127>>, <<1, 127>>, <<1, 64>>})
    [] nm = "tcc"  -> Sc({0, 65535}, {0, 256, 65535}, {0, 1, 255, 256, 32768, 65535})

\* NACK: windows next to 0, next to 65535 and in the middle
NackOrigins == Sc({0, 65520, 65535, 30000}, {0, 1, 65519, 65520, 65534, 65535, 30000}, {0, 1, 65500, 65519, 65520, 65534, 65535, 30000})
NackOffsets == Sc({0, 1, 2, 15, 16, 17, 18, 33, 34}, {0, 1, 2, 15, 16, 17, 18, 33, 34, 35, 51}, {0, 1, 2, 15, 16, 17, 18, 33, 34, 35, 51})
SortedSeq(S) ==          \* the elements of a finite set of integers in ascending order
  LET n == Cardinality(S)
  IN Tup([i \in 1..n |-> CHOOSE x \in S : Cardinality({y \in S : y < x}) = i - 1])

LossNs == {-2147483647, -16777216, -8388610, -8388609, -8388608, -8388607, -65536, -1, 0, 1, 65535, 8388606,
           8388607, 8388608, 8388609, 16777215, 16777216, 2147483647}

RembMs == Sc({0, 1, 131072, 262143}, {0, 1, 3, 131072, 131073, 174762, 262143}, {0, 1, 3, 131072, 131073, 174762, 262142, 262143})
RembEs == Sc({0, 1, 14, 15, 31, 46}, {0, 1, 2, 13, 14, 15, 16, 17, 30, 31, 32, 45, 46}, 0..46)
RembRs == {"zero", "one", "max"}

--------------------------------------------------------------------------
(* The builder: Init -> Start (class) -> picks ... -> stage "done".        *)

AllClasses == {"rtp_hdr", "rtp_ext", "rtx", "rtcp_rep", "rtcp_sdes", "rtcp_bye", "rtcp_psfb",
               "nack", "loss", "remb", "compound"}

First(c) ==
  CASE c = "rtp_hdr" -> [cls |-> c, m |-> 0, pt |-> 0, seq |-> 0, ts |-> Z4, ssrc |-> Z4, cc |-> 0]
    [] c = "rtp_ext" -> [cls |-> c, map |-> NoMap, cc |-> 0, pad |-> 0, x |-> NoExt, i |-> 0]
    [] c = "rtx" -> [cls |-> c, map |-> NoMap, v |-> 0]
    [] c = "rtcp_rep" -> [cls |-> c, t |-> "rr", n |-> 0, w |-> Z4, ntp |-> Z4 \o Z4]
    [] c = "rtcp_sdes" -> [cls |-> c, n |-> 0, ty |-> 1]
    [] c = "nack" -> [cls |-> c, o |-> 0]
    [] c = "remb" -> [cls |-> c, m |-> 0, e |-> 0]
    [] c = "compound" -> [cls |-> c, v |-> <<>>]
    [] OTHER -> [cls |-> c]

Init == stage = "start" /\ act = [cls |-> "none"]

Start == /\ stage = "start"
         /\ \E c \in Classes : stage' = c /\ act' = First(c)

RtpVal(a, x, pl, pad) ==
  [m |-> a.m, pt |-> a.pt, seq |-> a.seq, ts |-> a.ts, ssrc |-> a.ssrc, csrc |-> Csrcs(a.cc),
   x |-> x, payload |-> Bytes(pl), pad |-> pad]
\* the last pick of a class leaves the complete value in stage "built"; Seal adds the encoding
DoneRtp(cls, map, v) == [cls |-> cls, map |-> map, v |-> v, enc |-> <<>>]
DoneRtcp(cls, v) == [cls |-> cls, v |-> v, enc |-> <<>>]

(* class rtp_hdr: fixed header, CSRC list, payload, padding; no extensions *)
HdrFixed == /\ stage = "rtp_hdr" /\ stage' = "rtp_hdr.w"
            /\ \E m \in {0, 1}, pt \in PtSet, sq \in SeqNums : act' = [act EXCEPT !.m = m, !.pt = pt, !.seq = sq]
HdrWords == /\ stage = "rtp_hdr.w" /\ stage' = "rtp_hdr.c"
            /\ \E ts \in W32, ss \in W32 : act' = [act EXCEPT !.ts = ts, !.ssrc = ss]
HdrCsrc ==  /\ stage = "rtp_hdr.c" /\ stage' = "rtp_hdr.t"
            /\ \E cc \in CcSet : act' = [act EXCEPT !.cc = cc]
HdrTail ==  /\ stage = "rtp_hdr.t" /\ stage' = "built"
            /\ \E pl \in PlSet, pad \in PadSet : act' = DoneRtp("rtp_hdr", NoMap, RtpVal(act, NoExt, pl, pad))

(* class rtp_ext: id map x every combination of configured extensions x value lengths *)
ExtMap == /\ stage = "rtp_ext" /\ stage' = "rtp_ext.x"
          /\ \E mp \in Maps, cc \in Sc({1}, {0, 1}, {0, 1, 2}), pad \in Sc({0, 6}, {0, 6, 255}, {0, 1, 2, 3, 6, 255}) :
               act' = [act EXCEPT !.map = mp, !.cc = cc, !.pad = pad, !.i = 1]
ExtPick == /\ stage = "rtp_ext.x" /\ act.i <= 7 /\ stage' = stage
           /\ LET nm == ExtNames[act.i] IN
              \E o \in (IF act.map[nm] = 0 THEN {<<>>} ELSE {<<>>} \cup {<<z>> : z \in Opts(nm)}) :
                 act' = [act EXCEPT !.x = [act.x EXCEPT ![nm] = o], !.i = act.i + 1]
ExtDone == /\ stage = "rtp_ext.x" /\ act.i = 8 /\ stage' = "built"
           /\ act' = DoneRtp("rtp_ext", act.map,
                       [m |-> 1, pt |-> 111, seq |-> 4660, ts |-> <<1, 2, 3, 4>>, ssrc |-> <<222, 173, 190, 239>>,
                        csrc |-> Csrcs(act.cc), x |-> act.x, payload |-> Bytes(3), pad |-> act.pad])

(* class rtx *)
RtxOrig == /\ stage = "rtx" /\ stage' = "rtx.p"
           /\ \E m \in {0, 1}, pt \in {96, 127}, sq \in SeqNums, cc \in {0, 2}, pl \in {0, 1, 5}, pad \in {0, 3}, xm \in {0, 1} :
                LET mp == IF xm = 0 THEN NoMap ELSE [NoMap EXCEPT !.mid = 1, !.tcc = 15]
                    x == IF xm = 0 THEN NoExt ELSE [NoExt EXCEPT !.mid = <<Text(2)>>, !.tcc = <<65535>>]
                IN act' = [act EXCEPT !.map = mp,
                             !.v = [m |-> m, pt |-> pt, seq |-> sq, ts |-> <<255, 0, 255, 0>>, ssrc |-> <<1, 2, 3, 4>>,
                                    csrc |-> Csrcs(cc), x |-> x, payload |-> Bytes(pl), pad |-> pad]]
RtxParams == /\ stage = "rtx.p" /\ stage' = "built"
             /\ \E rpt \in Sc({97}, {97, 0}, {97, 0, 127}), rseq \in Sc({0, 65535}, {0, 4660, 65535}, SeqNums), rssrc \in Sc({Z4, <<255, 255, 255, 255>>}, W32, W32) :
                  LET w == RtxWrap(act.v, rpt, rseq, rssrc)
                  IN act' = [cls |-> "rtx", map |-> act.map, v |-> act.v, rpt |-> rpt, rseq |-> rseq, rssrc |-> rssrc,
                             w |-> w, enc |-> <<>>]

(* class rtcp_rep: SR / RR with 0..31 report blocks *)
RepShape == /\ stage = "rtcp_rep" /\ stage' = "rtcp_rep.r"
            /\ \E t \in {"sr", "rr"}, n \in Sc({0, 1, 2, 31}, {0, 1, 2, 3, 30, 31}, 0..31), w \in W32, ntp \in W64 :
                 act' = [act EXCEPT !.t = t, !.n = n, !.w = w, !.ntp = ntp]
RepFill == /\ stage = "rtcp_rep.r" /\ stage' = "built"
           /\ \E fl \in {0, 1, 255}, lost \in {-8388608, -8388607, -1, 0, 1, 8388607}, hs \in W32 :
                LET reps == Tup([i \in 1..act.n |->
                              [ssrc |-> Word(i), fl |-> IF i % 2 = 1 THEN fl ELSE 255 - fl,
                               lost |-> IF i % 2 = 1 THEN lost ELSE Sat24(0 - lost),
                               hs |-> hs, jit |-> Word(i + 1), lsr |-> act.w, dlsr |-> Word(255 - i)]])
                IN act' = DoneRtcp("rtcp_rep",
                     << IF act.t = "sr"
                          THEN [t |-> "sr", ssrc |-> act.w, ntp |-> act.ntp, rts |-> hs, pc |-> Word(3), oc |-> act.w, reports |-> reps]
                          ELSE [t |-> "rr", ssrc |-> act.w, reports |-> reps] >>)

(* class rtcp_sdes *)
SdesShapes == Sc({<<>>, <<0>>, <<1>>, <<2>>, <<3>>, <<4>>, <<255>>, <<1, 2>>, <<3, 0>>},
                 {<<>>, <<0>>, <<1>>, <<2>>, <<3>>, <<4>>, <<5>>, <<254>>, <<255>>, <<1, 2>>, <<3, 0>>, <<1, 1, 1>>, <<255, 255>>},
                 {<<>>, <<0>>, <<1>>, <<2>>, <<3>>, <<4>>, <<5>>, <<6>>, <<254>>, <<255>>, <<1, 2>>, <<3, 0>>, <<0, 0>>,
                  <<1, 1, 1>>, <<255, 255>>, <<2, 3, 4, 5>>})
SdesShape == /\ stage = "rtcp_sdes" /\ stage' = "rtcp_sdes.i"
             /\ \E n \in Sc({0, 1, 2, 3}, {0, 1, 2, 3, 31}, {0, 1, 2, 3, 4, 5, 31}), ty \in {1, 8, 255} :
                  act' = [act EXCEPT !.n = n, !.ty = ty]
SdesFill == /\ stage = "rtcp_sdes.i" /\ stage' = "built"
            /\ \E sa \in SdesShapes, sb \in SdesShapes :
                 LET items(sh) == Tup([j \in 1..Len(sh) |-> <<IF j = 1 THEN act.ty ELSE j, Text(sh[j])>>])
                 IN act' = DoneRtcp("rtcp_sdes",
                      << [t |-> "sdes", chunks |-> Tup([i \in 1..act.n |->
                            [ssrc |-> Word(i), items |-> IF i % 2 = 1 THEN items(sa) ELSE items(sb)]])] >>)

(* class rtcp_bye, rtcp_psfb *)
ByePick == /\ stage = "rtcp_bye" /\ stage' = "built"
           /\ \E n \in {0, 1, 2, 30, 31}, k \in 0..3 :
                act' = DoneRtcp("rtcp_bye", << [t |-> "bye", sources |-> Tup([i \in 1..n |-> Word(i + 50 * k)])] >>)
PsfbPick == /\ stage = "rtcp_psfb" /\ stage' = "built"
            /\ \E fmt \in {1, 2, 4, 15, 31}, w \in W32, ms \in W32, fl \in {0, 4, 8, 12} :
                 act' = DoneRtcp("rtcp_psfb", << [t |-> "psfb", fmt |-> fmt, ssrc |-> w, mssrc |-> ms, fci |-> Bytes(fl)] >>)

(* class nack: a SET of sequence numbers in a window starting at an origin *)
NackOrigin == /\ stage = "nack" /\ stage' = "nack.s"
              /\ \E o \in NackOrigins : act' = [act EXCEPT !.o = o]
NackPick == /\ stage = "nack.s" /\ stage' = "nack.k"
            /\ \E K \in SUBSET NackOffsets : act' = [cls |-> "nack", o |-> act.o, K |-> K]
NackBuild == /\ stage = "nack.k" /\ stage' = "built"
             /\ LET K == act.K
                     ks == SortedSeq(K)
                     lost == Tup([i \in 1..Len(ks) |-> (act.o + ks[i]) % 65536])
                     v == << [t |-> "rtpfb", fmt |-> 1, ssrc |-> <<0, 0, 0, 1>>, mssrc |-> <<255, 255, 255, 254>>, lost |-> lost] >>
                 IN act' = [cls |-> "nack", S |-> {(act.o + k) % 65536 : k \in K}, v |-> v, enc |-> <<>>]

(* class loss *)
LossPick == /\ stage = "loss" /\ stage' = "built"
            /\ \E n \in LossNs :
                 LET v == << [t |-> "rr", ssrc |-> Z4, reports |->
                               << [ssrc |-> Word(1), fl |-> 7, lost |-> Sat24(n), hs |-> Z4, jit |-> Z4, lsr |-> Z4, dlsr |-> Z4] >>] >>
                 IN act' = [cls |-> "loss", n |-> n, v |-> v, enc |-> <<>>]

(* class remb: rate = m * 2^e + r with r < 2^e *)
RembPickME == /\ stage = "remb" /\ stage' = "remb.r"
              /\ \E m \in RembMs, e \in RembEs : act' = [act EXCEPT !.m = m, !.e = e]
RembPickR == /\ stage = "remb.r" /\ stage' = "built"
             /\ \E r \in RembRs, ns \in Sc({0, 1, 2}, {0, 1, 2, 3}, {0, 1, 2, 3, 255}) :
                  LET base == BShl(BFromInt(act.m), act.e)
                      low == IF r = "zero" \/ act.e = 0 THEN <<0>>
                             ELSE IF r = "one" THEN <<1>>
                             ELSE BSub(BShl(<<1>>, act.e), <<1>>)
                      rate == Tup([i \in 1..Len(base) |-> base[i] + BLimb(low, i)])     \* disjoint bits: no carry
                      ssrcs == Tup([i \in 1..ns |-> Word(i)])
                      v == << [t |-> "psfb", fmt |-> 15, ssrc |-> <<0, 0, 0, 7>>, mssrc |-> Z4, fci |-> RembFci(rate, ssrcs)] >>
                  IN act' = [cls |-> "remb", rate |-> rate, ssrcs |-> ssrcs, v |-> v, enc |-> <<>>]

(* class compound: 1..3 packets from a catalogue with one packet of every kind *)
Rep1 == [ssrc |-> Word(9), fl |-> 255, lost |-> -8388608, hs |-> Word(1), jit |-> Word(2), lsr |-> Word(3), dlsr |-> Word(4)]
Catalogue ==
  << [t |-> "sr", ssrc |-> Word(1), ntp |-> <<1, 2, 3, 4, 5, 6, 7, 8>>, rts |-> Word(2), pc |-> Word(3), oc |-> Word(4), reports |-> <<Rep1>>],
     [t |-> "rr", ssrc |-> Word(5), reports |-> <<Rep1, [Rep1 EXCEPT !.lost = 8388607]>>],
     [t |-> "sdes", chunks |-> << [ssrc |-> Word(6), items |-> << <<1, Text(5)>> >>], [ssrc |-> Word(7), items |-> <<>>] >>],
     [t |-> "bye", sources |-> <<Word(8)>>],
     [t |-> "rtpfb", fmt |-> 1, ssrc |-> Word(9), mssrc |-> Word(10), lost |-> <<65534, 65535, 0, 20>>],
     [t |-> "psfb", fmt |-> 1, ssrc |-> Word(11), mssrc |-> Word(12), fci |-> <<>>],
     [t |-> "psfb", fmt |-> 15, ssrc |-> Word(13), mssrc |-> Z4, fci |-> RembFci(<<65535, 65535>>, <<Word(14)>>)] >>
CompAdd == /\ stage = "compound" /\ Len(act.v) < 3 /\ stage' = stage
           /\ \E i \in 1..Len(Catalogue) : act' = [act EXCEPT !.v = Append(@, Catalogue[i])]
CompDone == /\ stage = "compound" /\ Len(act.v) >= 1 /\ stage' = "built"
            /\ act' = DoneRtcp("compound", act.v)

EncOf(a) == IF a.cls \in {"rtp_hdr", "rtp_ext"} THEN RtpEncode(a.map, a.v)
            ELSE IF a.cls = "rtx" THEN RtpEncode(a.map, a.w)
            ELSE RtcpEncode(a.v)
Seal == stage = "built" /\ stage' = "done" /\ act' = [act EXCEPT !.enc = EncOf(act)]

(* Witness actions: taken from a done state that shows the named feature;   *)
(* `-coverage` must report every one of them as taken (non-vacuity).       *)
Wit(w) == stage' = "witness" /\ act' = [cls |-> "witness", w |-> w]
InDone(c) == stage = "done" /\ act.cls = c
EntriesOf(a) == Entries(a.map, a.v.x)
WitTwoByteForm == InDone("rtp_ext") /\ Len(EntriesOf(act)) > 0 /\ ~OneByteOK(EntriesOf(act)) /\ act.v.pad > 0 /\ Wit("two_byte_form_with_padding")
WitOneByteForm == InDone("rtp_ext") /\ Len(EntriesOf(act)) = 7 /\ OneByteOK(EntriesOf(act)) /\ Wit("one_byte_form_all_extensions")
WitNackWraps == InDone("nack") /\ 65535 \in act.S /\ 0 \in act.S /\ Len(NackPairs(act.v[1].lost)) >= 2 /\ Wit("nack_across_wrap")
WitLossSaturates == InDone("loss") /\ Sat24(act.n) # act.n /\ Wit("loss_saturates")
WitRembInexact == InDone("remb") /\ (LET r == RembParse(act.v[1].fci) IN ~BEq(act.rate, RembValue(r.m, r.e)) /\ r.e > 30)
                  /\ Wit("remb_inexact_large_exponent")
WitCompound3 == InDone("compound") /\ Len(act.v) = 3 /\ Wit("compound_of_three")
WitRtxPadExt == InDone("rtx") /\ act.v.pad > 0 /\ act.v.x.mid # <<>> /\ Wit("rtx_of_padded_packet_with_extensions")

Next == \/ Start \/ HdrFixed \/ HdrWords \/ HdrCsrc \/ HdrTail \/ ExtMap \/ ExtPick \/ ExtDone
        \/ RtxOrig \/ RtxParams \/ RepShape \/ RepFill \/ SdesShape \/ SdesFill \/ ByePick \/ PsfbPick
        \/ NackOrigin \/ NackPick \/ NackBuild \/ Seal \/ LossPick \/ RembPickME \/ RembPickR \/ CompAdd \/ CompDone
        \/ WitTwoByteForm \/ WitOneByteForm \/ WitNackWraps \/ WitLossSaturates \/ WitRembInexact
        \/ WitCompound3 \/ WitRtxPadExt

Spec == Init /\ [][Next]_vars

--------------------------------------------------------------------------
(* Lemmas (invariants; they speak about done states)                       *)

Done == stage = "done"
RtcpClasses == {"rtcp_rep", "rtcp_sdes", "rtcp_bye", "rtcp_psfb", "nack", "loss", "remb", "compound"}

\* Decode(Encode(v)) = v
RtpRoundTrip == Done /\ act.cls \in {"rtp_hdr", "rtp_ext"} => RtpDecode(act.map, act.enc) = act.v
RtcpRoundTrip == Done /\ act.cls \in RtcpClasses => RtcpDecode(act.enc) = act.v

\* encodings are byte strings of the right size
WellFormed ==
  Done => /\ IsBytes(act.enc)
          /\ act.cls \in RtcpClasses => Len(act.enc) % 4 = 0
          /\ act.cls \in {"rtp_hdr", "rtp_ext"} =>
               LET es == Entries(act.map, act.v.x) IN
               Len(act.enc) = 12 + 4 * Len(act.v.csrc) + Len(ExtBlock(es)) + Len(act.v.payload) + act.v.pad
                  /\ Len(ExtBlock(es)) % 4 = 0

\* the one-byte form is used exactly when every element fits it, and both forms decode
FormSelection ==
  Done /\ act.cls = "rtp_ext" =>
    LET es == Entries(act.map, act.v.x)
        blk == ExtBlock(es)
    IN Len(es) > 0 =>
         /\ (SubSeq(blk, 1, 2) = <<190, 222>>) <=> OneByteOK(es)
         /\ IF OneByteOK(es) THEN OneByteEls(SubSeq(blk, 5, Len(blk)), 1) = es
                             ELSE TwoByteEls(SubSeq(blk, 5, Len(blk)), 1) = es

\* NackSet(Encode(S)) = S, also across 65535 -> 0
NackSetLemma ==
  Done /\ act.cls = "nack" =>
    LET prs == NackPairs(act.v[1].lost) IN
    /\ NackSet(prs) = act.S
    /\ SeqSet(RtcpDecode(act.enc)[1].lost) = act.S
    /\ \A i \in 1..Len(prs) : prs[i][1] \in 0..65535 /\ prs[i][2] \in 0..65535

\* cumulative loss saturates at the 24-bit signed range and survives the wire
LossSaturation ==
  Done /\ act.cls = "loss" =>
    LET got == RtcpDecode(act.enc)[1].reports[1].lost
        big == [neg |-> IF act.n < 0 THEN 1 ELSE 0, mag |-> BFromInt(IF act.n < 0 THEN 0 - act.n ELSE act.n)]
    IN /\ got = Sat24(act.n) /\ got \in -8388608..8388607
       /\ Sat24Big(big) = Sat24(act.n)
       /\ (act.n \in -8388608..8388607 => got = act.n)

\* REMB: never rounds up, relative error < 2^-17, SSRC list intact
RembBound ==
  Done /\ act.cls = "remb" =>
    LET r == RembParse(RtcpDecode(act.enc)[1].fci) IN
    /\ r.ssrcs = act.ssrcs /\ r.e \in 0..63 /\ r.m \in 0..262143
    /\ RembBoundOK(act.rate, RembValue(r.m, r.e))

\* RTX: unwrap(wrap(v)) = v (minus padding), also through the wire
RtxInverse ==
  Done /\ act.cls = "rtx" =>
    /\ RtxUnwrap(act.w, act.v.pt, act.v.ssrc) = NoPad(act.v)
    /\ RtpDecode(act.map, act.enc) = act.w
    /\ RtxUnwrap(RtpDecode(act.map, act.enc), act.v.pt, act.v.ssrc) = NoPad(act.v)

--------------------------------------------------------------------------
(* Witness invariant: must be VIOLATED (checked in a separate small run)   *)
WitnessNackNeverWraps ==
  ~(Done /\ act.cls = "nack" /\ 65535 \in act.S /\ 0 \in act.S /\ Len(NackPairs(act.v[1].lost)) >= 2)

==========================================================================
