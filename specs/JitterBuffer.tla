---------------------------- MODULE JitterBuffer ----------------------------
(* C10 / C17 - layer M: implementation-shaped model of                      *)
(* aiortc.jitterbuffer.JitterBuffer (ring buffer with origin).              *)
(*                                                                          *)
(* One TLA+ action per add() call.  The operators below follow the methods  *)
(* of the class one to one:                                                 *)
(*    AddCall      - JitterBuffer.add()                                     *)
(*    RemoveN      - JitterBuffer.remove(count)                             *)
(*    SmartRm      - JitterBuffer.smart_remove(count)                       *)
(*    Scan         - the loop of JitterBuffer._remove_frame()               *)
(* A slot holds the id of a packet (0 = empty); the packet's sequence       *)
(* number / timestamp come from the stream description, see                 *)
(* JitterBufferObs.tla.  The environment picks which packet arrives next    *)
(* (any order: loss, duplication, reordering; jumps and wraparound come from *)
(* the stream descriptions in `Streams`).                                   *)
(*                                                                          *)
(* M carries A's history variable h and the verdict v of A's clauses on the *)
(* last call; TLC checks  v = "ok"  and A's end-of-history clauses as       *)
(* invariants.                                                              *)
EXTENDS JitterBufferObs

CONSTANTS Streams,    \* sequence of stream descriptions (see MkStream)
          Offsets,    \* next arrival = highest id so far + d, d \in Offsets
          FirstIds,   \* ids the first arrival may have
          MaxArr      \* number of add() calls per behaviour

VARIABLES si,         \* which stream this behaviour uses
          origin,     \* JitterBuffer._origin (None = -1)
          slots,      \* JitterBuffer._packets: [0..Capacity-1 -> id or 0]
          v,          \* verdict of A's clauses on the last call
          act         \* last call: arguments and results (for lock-step replay)

mvars == <<h, si, origin, slots, v, act>>

------------------------------------------------------------------------------
(* Stream descriptions.                                                     *)
(* start: sequence number of packet 1; jumps: sequence of <<id, by>> - from  *)
(* packet `id` on all sequence numbers are shifted by `by`; pat: frame sizes, *)
(* repeated cyclically; K: number of packets; frame k has timestamp          *)
(* (k * tsStep) (origin-relative).                                           *)

RECURSIVE SumSeq(_)
SumSeq(s) == IF s = <<>> THEN 0 ELSE Head(s) + SumSeq(Tail(s))

RECURSIVE JumpSum(_, _)
JumpSum(js, i) == IF js = <<>> THEN 0
                  ELSE (IF Head(js)[1] <= i THEN Head(js)[2] ELSE 0) + JumpSum(Tail(js), i)

\* frame index (0-based) of position x (0-based) inside one period of pat
RECURSIVE InPat(_, _, _)
InPat(pat, x, k) == IF x < pat[k] THEN k - 1 ELSE InPat(pat, x - pat[k], k + 1)

FrameOf(pat, i) ==   \* 0-based frame index of packet id i
  LET S == SumSeq(pat) IN ((i - 1) \div S) * Len(pat) + InPat(pat, (i - 1) % S, 1)

MkStream(start, jumps, pat, K, tsStep, mod) ==
  LET fi(i) == FrameOf(pat, i)
      pk == [i \in 1..K |-> [seq |-> (start + (i - 1) + JumpSum(jumps, i)) % mod,
                              ts  |-> fi(i) * tsStep,
                              fi  |-> fi(i)]]
      nf == fi(K) + 1
      starts == {i \in 1..K : i = 1 \/ fi(i) # fi(i - 1)}
      fs == [k \in 1..(nf + 1) |-> IF k = nf + 1 THEN K + 1
                                    ELSE CHOOSE i \in starts : fi(i) = k - 1]
  IN [pk |-> pk, fs |-> fs]

\* TLC evaluates a constant-level definition once; a CONSTANT that the configuration
\* overrides with a definition (Streams <- ...) would be re-evaluated at every use.
StreamsC == Streams
OffsetsC == Offsets
FirstIdsC == FirstIds
St == StreamsC[si]
Pk == StreamsC[si].pk

------------------------------------------------------------------------------
(* The algorithm.                                                           *)

Empty == [i \in 0..(Capacity - 1) |-> 0]
Held(sl) == {sl[i] : i \in 0..(Capacity - 1)} \ {0}

\* remove(count): clear `count` slots starting at the origin
RECURSIVE RemoveN(_, _, _)
RemoveN(sl, org, count) ==
  IF count = 0 THEN [slots |-> sl, origin |-> org]
  ELSE RemoveN([sl EXCEPT ![org % Capacity] = 0], (org + 1) % Modulus, count - 1)

\* smart_remove(count): remove at least `count` slots, then on to the next
\* timestamp change; all = TRUE if the whole ring was cleared
RECURSIVE SmartRm(_, _, _, _, _, _)
SmartRm(pk, sl, org, i, tsv, count) ==
  IF i = Capacity THEN [slots |-> sl, origin |-> org, all |-> TRUE]
  ELSE LET pos == org % Capacity
           q == sl[pos] IN
       IF q # 0 /\ i >= count /\ tsv # pk[q].ts
         THEN [slots |-> sl, origin |-> org, all |-> FALSE]
         ELSE SmartRm(pk, [sl EXCEPT ![pos] = 0], (org + 1) % Modulus, i + 1,
                      IF q # 0 THEN pk[q].ts ELSE tsv, count)

\* _remove_frame(): number of packets of the first complete frame if at least
\* max(Prefetch, 1) timestamp changes follow the origin without a hole, else 0
RECURSIVE Scan(_, _, _, _, _, _, _)
Scan(pk, sl, org, count, tsv, frames, remove) ==
  IF count = Capacity THEN 0
  ELSE LET q == sl[(org + count) % Capacity] IN
       IF q = 0 THEN 0
       ELSE IF tsv = None THEN Scan(pk, sl, org, count + 1, pk[q].ts, frames, remove)
       ELSE IF pk[q].ts # tsv THEN
              LET rm == IF remove = 0 THEN count ELSE remove
                  fr == frames + 1 IN
              IF fr >= Prefetch THEN rm
              ELSE Scan(pk, sl, org, count + 1, pk[q].ts, fr, rm)
       ELSE Scan(pk, sl, org, count + 1, tsv, frames, remove)

\* add(packet): result record [slots, origin, pli, rel, ids, fts]
AddCall(pk, sl, org, id) ==
  LET seq   == pk[id].seq
      delta0 == IF org = None THEN 0 ELSE Dist(org, seq, Modulus)
      mis0  == IF org = None THEN 0 ELSE Dist(seq, org, Modulus)
      org0  == IF org = None THEN seq ELSE org
      behind == mis0 < delta0
  IN
  IF behind /\ mis0 < MaxMisorder
    THEN [slots |-> sl, origin |-> org0, pli |-> FALSE, rel |-> FALSE, ids |-> <<>>, fts |-> None]
  ELSE
  LET \* misorder reset: remove(capacity), origin = packet
      sl1   == IF behind THEN Empty ELSE sl
      org1  == IF behind THEN seq ELSE org0
      delta == IF behind THEN 0 ELSE delta0
      pli1  == behind /\ IsVideo
      \* overflow
      over  == delta >= Capacity
      sr    == IF over THEN SmartRm(pk, sl1, org1, 0, None, delta - Capacity + 1)
                       ELSE [slots |-> sl1, origin |-> org1, all |-> FALSE]
      org2  == IF sr.all THEN seq ELSE sr.origin
      pli2  == pli1 \/ (over /\ IsVideo)
      sl3   == [sr.slots EXCEPT ![seq % Capacity] = id]
      rm    == Scan(pk, sl3, org2, 0, None, 0, 0)
      ids   == [k \in 1..rm |-> sl3[(org2 + k - 1) % Capacity]]
      after == RemoveN(sl3, org2, rm)
  IN [slots |-> after.slots, origin |-> after.origin, pli |-> pli2, rel |-> rm > 0,
      ids |-> ids, fts |-> IF rm > 0 THEN pk[ids[1]].ts ELSE None]

------------------------------------------------------------------------------
MInit ==
  /\ h = EmptyH
  /\ si \in 1..Len(StreamsC)
  /\ origin = None /\ slots = Empty
  /\ v = "ok"
  /\ act = [op |-> "init"]

Arrive(id) ==
  LET res == AddCall(Pk, slots, origin, id)
      ev  == [id |-> id, exc |-> FALSE, pli |-> res.pli, rel |-> res.rel, ids |-> res.ids,
              fts |-> res.fts, proj |-> TRUE,
              gone |-> Held(slots) \ Held(res.slots),
              occ |-> Cardinality(Held(res.slots))]
  IN /\ slots' = res.slots
     /\ origin' = res.origin
     /\ \E j \in {Judge(C0, St, h, ev)} : v' = j.v /\ h' = j.h
     /\ act' = [op |-> "add", id |-> id, seq |-> Pk[id].seq, ts |-> Pk[id].ts,
                pli |-> res.pli, rel |-> res.rel, ids |-> res.ids, fts |-> res.fts,
                held |-> Held(res.slots), origin |-> res.origin,
                disc |-> (Held(slots) \ Held(res.slots)) \ SeqToSet(res.ids),
                reuse |-> SeqToSet(res.ids) \cap h.used # {}]
     /\ UNCHANGED si

\* which branch of add() the arrival of packet id takes in the current state
Branch(id) ==
  LET seq == Pk[id].seq
      delta == IF origin = None THEN 0 ELSE Dist(origin, seq, Modulus)
      mis == IF origin = None THEN 0 ELSE Dist(seq, origin, Modulus)
  IN IF mis < delta THEN (IF mis >= MaxMisorder THEN "reset" ELSE "drop")
     ELSE IF delta >= Capacity THEN "overflow" ELSE "plain"

\* the packets that may arrive next: anyone of FirstIds at the start, later the ids at
\* the distances Offsets from the highest id that has arrived
Candidates ==
  IF h.n >= MaxArr \/ v # "ok" THEN {}
  ELSE IF h.n = 0 THEN FirstIdsC \cap (1..Len(Pk))
  ELSE {h.hi + d : d \in OffsetsC} \cap (1..Len(Pk))

\* one action per branch of add(), so that -coverage shows every branch is exercised
AddPlain    == \E id \in Candidates : Branch(id) = "plain" /\ Arrive(id)
AddDropLate == \E id \in Candidates : Branch(id) = "drop" /\ Arrive(id)
AddReset    == \E id \in Candidates : Branch(id) = "reset" /\ Arrive(id)
AddOverflow == \E id \in Candidates : Branch(id) = "overflow" /\ Arrive(id)

MNext == AddPlain \/ AddDropLate \/ AddReset \/ AddOverflow

MSpec == MInit /\ [][MNext]_mvars

View == <<h, si, origin, slots, v>>

------------------------------------------------------------------------------
(* Design-level theorems: A's clauses hold on every behaviour of M.         *)

\* every clause judged per call (integrity, reuse, order, occupancy, PLI, raise)
StepClauses == v = "ok"
\* completeness, strict part
CompleteStrict == EndVerdict(C0, St, h) # "C10.complete_lost"

\* Structural sanity of the model itself: a slot holds only a packet whose
\* sequence number lies in [origin, origin + Capacity) at its own position.
RingSane ==
  \A i \in 0..(Capacity - 1) :
     slots[i] # 0 => /\ Pk[slots[i]].seq % Capacity = i
                     /\ origin # None /\ Dist(origin, Pk[slots[i]].seq, Modulus) < Capacity

------------------------------------------------------------------------------
(* Witnesses: each of these must be VIOLATED (non-vacuity).                 *)

WitnessNoFrame     == ~ (act.op = "add" /\ act.rel)
WitnessNoMultiPkt  == ~ (act.op = "add" /\ act.rel /\ Len(act.ids) >= 2)
WitnessNoLate      == ~ h.late
WitnessNoReuse     == ~ (act.op = "add" /\ act.reuse)
WitnessNoPli       == ~ (act.op = "add" /\ act.pli)
WitnessNoDiscard   == ~ (act.op = "add" /\ act.disc # {})
WitnessNoPremise   == ~ (CompletePremise(C0, St, h) /\ h.R >= 2 /\ h.dup)
WitnessNoReorderPremise == ~ (CompletePremise(C0, St, h) /\ h.R >= 2 /\ h.reord)
\* the known finding (one frame per call) is visible at the model level
WitnessNoBacklog   == EndVerdict(C0, St, h) # "C10.complete_backlog"
WitnessNoBacklogLoss == ~ (EndVerdict(C0, St, h) = "C10.complete_backlog" /\ h.blog /\ h.broken)
WitnessNoWrap      == ~ (act.op = "add" /\ act.rel /\ Len(act.ids) >= 2
                          /\ Pk[act.ids[Len(act.ids)]].seq < Pk[act.ids[1]].seq)
=============================================================================
