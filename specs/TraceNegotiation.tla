------------------------- MODULE TraceNegotiation -------------------------
(* Code -> spec direction for C03.  Judges NDJSON traces recorded from REAL *)
(* RTCPeerConnection pairs: one trace = one configuration = a sequence of   *)
(* offer/answer round records (descriptions projected from SDP text,        *)
(* signalling states, current directions, connection states, data channel   *)
(* observations).  Total verdict function: every trace runs to its end or   *)
(* to its first failing round and prints <<"RESULT", id, verdict, round>>;  *)
(* the verdict is "ok" or the first failing clause of RoundVerdict          *)
(* (Negotiation.tla, Part A):                                               *)
(*   C03.exchange_failed  C03.sections_mismatch  C03.bundle_mismatch        *)
(*   C03.codec_not_offered  C03.payload_type  C03.rtx_without_base          *)
(*   C03.feedback_not_offered  C03.extension_not_offered  C03.extension_id  *)
(*   C03.setup_indefinite  C03.setup_role_changed  C03.not_stable            *)
(*   C03.directions_not_complementary                                        *)
(*   C03.not_connected  C03.channel_not_open  C03.message_not_carried       *)
EXTENDS Negotiation, Json, IOUtils, TLCExt, SequencesExt

VARIABLES tid, l, verdict, done

Traces == ndJsonDeserialize(IOEnv.TRACE_FILE)

tvars == <<vars, tid, l, verdict, done>>

TraceInit ==
  /\ cfg = <<>> /\ pcs = <<>> /\ phase = "trace" /\ wire = <<>> /\ res = <<>> /\ act = <<>>
  /\ tid \in 1..Len(Traces)
  /\ l = 1 /\ verdict = "ok" /\ done = FALSE

Rounds == Traces[tid].rounds

\* a well-formed record (anything else is a harness problem, not a verdict on the code)
WellFormed(r) ==
  /\ {"offerer", "exc", "offer", "answer", "sigOff", "sigAns", "dirs", "connOff", "connAns", "chans"} \subseteq DOMAIN r
  /\ {"media", "bundle"} \subseteq DOMAIN r.offer /\ {"media", "bundle"} \subseteq DOMAIN r.answer

\* "A definite DTLS role" over follow-up negotiations (also with the offering side swapped):
\* what a peer declares for a section when it answers must not contradict the role it took
\* for the same section (mid) in an earlier successful round - active = client, passive =
\* server; the other peer then has the opposite role.
RoleOf(setup) == IF setup = "active" THEN "client" ELSE "server"
Flip(x) == IF x = "client" THEN "server" ELSE "client"
Answerer(r) == IF r.offerer = "A" THEN "B" ELSE "A"
RoleConsistent(n) ==
  LET r == Rounds[n] IN
  \A k \in 1..(n - 1) :
    LET q == Rounds[k] IN
    (q.exc = "" /\ WellFormed(q)) =>
      \A i \in DOMAIN r.answer.media : \A j \in DOMAIN q.answer.media :
         LET a == r.answer.media[i]
             b == q.answer.media[j] IN
         (a.mid = b.mid /\ a.setup \in {"active", "passive"} /\ b.setup \in {"active", "passive"}) =>
            RoleOf(a.setup) = (IF Answerer(r) = Answerer(q) THEN RoleOf(b.setup) ELSE Flip(RoleOf(b.setup)))

Consume ==
  /\ ~done /\ verdict = "ok" /\ l <= Len(Rounds)
  /\ l' = l + 1
  /\ verdict' = IF ~WellFormed(Rounds[l]) THEN "machinery.malformed_record"
                ELSE IF Rounds[l].exc = "" /\ Len(Rounds[l].offer.media) = 0 THEN "machinery.empty_offer"
                ELSE IF RoundVerdict(Rounds[l]) # "ok" THEN RoundVerdict(Rounds[l])
                ELSE IF Rounds[l].exc = "" /\ ~RoleConsistent(l) THEN "C03.setup_role_changed"
                ELSE "ok"
  /\ UNCHANGED <<vars, tid, done>>

Finish ==
  /\ ~done /\ (verdict # "ok" \/ l > Len(Rounds))
  /\ done' = TRUE
  /\ PrintT(<<"RESULT", Traces[tid].id,
              IF Len(Rounds) = 0 THEN "machinery.no_rounds" ELSE verdict, l - 1>>)
  /\ UNCHANGED <<vars, tid, l, verdict>>

TraceNext == Consume \/ Finish

TraceSpec == TraceInit /\ [][TraceNext]_tvars
=============================================================================
