---------------------------- MODULE RtpSenderObs ----------------------------
(* Growth beyond the listed properties: what an RTCRtpSender puts on the wire *)
(* (rtcrtpsender.py: _run_rtp, _run_rtcp, stop).  Observable specification    *)
(* of the sender side of an RTP stream, the counterpart of RrStats.tla (C18): *)
(*   S1  original RTP packets carry consecutive sequence numbers (mod 2^16),  *)
(*       one SSRC and one payload type;                                       *)
(*   S2  the packets of one frame share one timestamp = origin + frame time   *)
(*       (mod 2^32) and exactly the last one carries the marker bit;          *)
(*   S3  every sender report carries packet and octet counts equal to the     *)
(*       original packets / payload bytes sent so far (mod 2^32) and the RTP  *)
(*       timestamp of the last packet sent; reports are 0.5 .. 1.5 s apart;   *)
(*   S4  after stop(): exactly one BYE, and nothing afterwards.               *)
(* Numbers are origin-relative (the harness chooses the origins, next to the  *)
(* wrap points too); octet counts stay far below 2^31 in the runs.            *)
(* TraceRtpSender.tla judges recorded executions of the real sender with      *)
(* these operators; the small state machine below lets TLC check that the     *)
(* clauses are satisfiable and not vacuous.                                   *)
EXTENDS Naturals, Integers, Sequences, TLC

VARIABLES nextSeq,   \* relative sequence number expected next
          pkts,      \* original packets sent so far
          octets,    \* payload bytes sent so far
          lastTs,    \* relative timestamp of the last packet (-1: none)
          frameOpen, \* a frame has started and its last packet (marker) has not been sent
          lastSr,    \* virtual time (ms) of the last sender report (-1: none)
          stopped,   \* stop() has been called
          byes       \* BYE packets seen

svars == <<nextSeq, pkts, octets, lastTs, frameOpen, lastSr, stopped, byes>>

SenderInit ==
  /\ nextSeq = 0 /\ pkts = 0 /\ octets = 0 /\ lastTs = 0 - 1 /\ frameOpen = FALSE
  /\ lastSr = 0 - 1 /\ stopped = FALSE /\ byes = 0

-----------------------------------------------------------------------------
(* Clause evaluation: "ok" or the first failing clause.                      *)

\* an original RTP packet: relative sequence number, relative timestamp, marker bit,
\* payload size, ssrcok / ptok = it carries the configured SSRC / payload type
RtpVerdict(seq, ts, marker, size, ssrcok, ptok) ==
  IF byes > 0 THEN "S4.rtp_after_bye"
  ELSE IF ~ssrcok \/ ~ptok THEN "S1.ssrc_or_payload_type"
  ELSE IF seq # nextSeq THEN "S1.sequence_not_consecutive"
  ELSE IF frameOpen /\ ts # lastTs THEN "S2.marker_missing_on_last_packet"     \* new timestamp, previous frame not closed
  ELSE IF ~frameOpen /\ lastTs >= 0 /\ ts = lastTs THEN "S2.marker_inside_frame"    \* same timestamp after a marker
  ELSE "ok"

DoRtp(seq, ts, marker, size) ==
  /\ nextSeq' = (nextSeq + 1) % 65536
  /\ pkts' = pkts + 1 /\ octets' = octets + size /\ lastTs' = ts
  /\ frameOpen' = ~marker
  /\ UNCHANGED <<lastSr, stopped, byes>>

\* a sender report observed at virtual time now (ms)
SrVerdict(pc, oc, rtpts, now) ==
  IF byes > 0 THEN "S4.rtcp_after_bye"
  ELSE IF pc # pkts THEN "S3.packet_count"
  ELSE IF oc # octets THEN "S3.octet_count"
  ELSE IF pkts > 0 /\ rtpts # lastTs THEN "S3.rtp_timestamp"
  ELSE IF lastSr >= 0 /\ (now - lastSr < 500 \/ now - lastSr > 1500) THEN "S3.interval"
  ELSE "ok"

DoSr(now) == lastSr' = now /\ UNCHANGED <<nextSeq, pkts, octets, lastTs, frameOpen, stopped, byes>>

StopVerdict == "ok"
DoStop == stopped' = TRUE /\ UNCHANGED <<nextSeq, pkts, octets, lastTs, frameOpen, lastSr, byes>>

ByeVerdict(ssrcok) ==
  IF ~stopped THEN "S4.bye_before_stop"
  ELSE IF byes >= 1 THEN "S4.bye_twice"
  ELSE IF ~ssrcok THEN "S1.ssrc_or_payload_type"
  ELSE "ok"
DoBye == byes' = byes + 1 /\ UNCHANGED <<nextSeq, pkts, octets, lastTs, frameOpen, lastSr, stopped>>

\* end of the observation
EndVerdict == IF stopped /\ byes # 1 THEN "S4.bye_missing" ELSE "ok"

-----------------------------------------------------------------------------
(* A reference sender (what the clauses describe), for non-vacuity.          *)
CONSTANTS MaxPkts, FrameSizes

Send(marker, size, newFrame) ==
  /\ ~stopped /\ pkts < MaxPkts /\ (newFrame <=> ~frameOpen)
  /\ LET ts == IF newFrame THEN lastTs + 3000 ELSE lastTs IN
       /\ RtpVerdict(nextSeq, ts, marker, size, TRUE, TRUE) = "ok"
       /\ DoRtp(nextSeq, ts, marker, size)

Report == ~stopped /\ lastSr < 3000 /\ SrVerdict(pkts, octets, lastTs, lastSr + 1000) = "ok" /\ DoSr(IF lastSr < 0 THEN 1000 ELSE lastSr + 1000)
Stop == ~stopped /\ DoStop
Bye == ByeVerdict(TRUE) = "ok" /\ DoBye

Next == \/ \E m \in BOOLEAN, s \in FrameSizes, nf \in BOOLEAN : Send(m, s, nf)
        \/ Report \/ Stop \/ Bye
Spec == SenderInit /\ [][Next]_svars

\* witnesses (must be violated)
W_NoMultiPacketFrame == ~(frameOpen /\ pkts >= 2)
W_NoReportAfterTraffic == ~(lastSr > 0 /\ pkts > 0)
W_NeverBye == byes = 0
\* sanity of the reference: at most one BYE, counters consistent
RefOk == byes <= 1 /\ (byes = 1 => stopped)
=============================================================================
