---------------------------- MODULE TraceSerial ----------------------------
(* Code -> spec for C17 part 1: call traces of the real serial-number        *)
(* helpers.  Operands of the 32-bit functions are 16-bit limb pairs          *)
(* <<hi, lo>> because TLC integers are 32-bit signed.                        *)
EXTENDS Naturals, Integers, Sequences, Json, IOUtils, TLCExt, TLC

VARIABLES tid, done
Traces == ndJsonDeserialize(IOEnv.TRACE_FILE)

B16 == 65536
\* 16-bit reference
Dist16(x, y) == (x - y + B16) % B16
Gt16(x, y) == x # y /\ Dist16(x, y) < 32768
\* 32-bit reference on limbs: diff = (x - y) mod 2^32 as <<hi, lo>>
Diff32(x, y) ==
  LET lo == x[2] - y[2]
      borrow == IF lo < 0 THEN 1 ELSE 0
      hi == x[1] - y[1] - borrow
  IN << (hi + 2 * B16) % B16, (lo + B16) % B16 >>
Gt32(x, y) == x # y /\ Diff32(x, y)[1] < 32768
Add32(x, d) ==     \* d: small natural
  LET lo == x[2] + d IN << (x[1] + lo \div B16) % B16, lo % B16 >>
Sub32(x, d) ==
  LET lo == x[2] - d IN << (x[1] + (IF lo < 0 THEN B16 - 1 ELSE 0)) % B16, (lo + B16) % B16 >>

Expected(c) ==
  CASE c.fn = "uint16_gt"  -> [b |-> Gt16(c.a, c.b)]
    [] c.fn = "uint16_gte" -> [b |-> (c.a = c.b \/ Gt16(c.a, c.b))]
    [] c.fn = "uint16_add" -> [n |-> (c.a + c.b) % B16]
    [] c.fn = "uint32_gt"  -> [b |-> Gt32(c.a, c.b)]
    [] c.fn = "uint32_gte" -> [b |-> (c.a = c.b \/ Gt32(c.a, c.b))]
    [] c.fn = "uint32_add" -> [n |-> Add32(c.a, c.b)]
    [] c.fn = "tsn_plus_one" -> [n |-> Add32(c.a, 1)]
    [] c.fn = "tsn_minus_one" -> [n |-> Sub32(c.a, 1)]
    [] OTHER -> [bad |-> TRUE]

Verdict(c) ==
  LET e == Expected(c) IN
  IF "bad" \in DOMAIN e THEN "machinery.unknown_fn"
  ELSE IF "b" \in DOMAIN e THEN (IF c.res = e.b THEN "ok" ELSE "C17.serial_compare")
  ELSE (IF c.res = e.n THEN "ok" ELSE "C17.serial_add")

\* first failing call of a batch
FirstBad(cs) ==
  LET bad == {i \in 1..Len(cs) : Verdict(cs[i]) # "ok"} IN
  IF bad = {} THEN <<"ok", Len(cs)>>
  ELSE LET k == CHOOSE i \in bad : \A j \in bad : i <= j IN <<Verdict(cs[k]), k>>

TraceInit == tid \in 1..Len(Traces) /\ done = FALSE
TraceNext ==
  /\ ~done /\ done' = TRUE /\ UNCHANGED tid
  /\ LET r == FirstBad(Traces[tid].calls) IN PrintT(<<"RESULT", Traces[tid].id, r[1], r[2]>>)
TraceSpec == TraceInit /\ [][TraceNext]_<<tid, done>>
=============================================================================
