---------------------------- MODULE SctpTeardown ----------------------------
(* Association teardown as aiortc.rtcsctptransport implements it (the passive *)
(* side only: aiortc never sends SHUTDOWN itself, its own stop() aborts):     *)
(*   _receive_chunk(SHUTDOWN)          -> RecvShutdown  (in every state)      *)
(*   _receive_chunk(SHUTDOWN-COMPLETE) -> RecvComplete  (SHUTDOWN-ACK-SENT)   *)
(*   _receive_chunk(ABORT)             -> RecvAbort                           *)
(*   _t2_expired                       -> T2Fire (resend SHUTDOWN-ACK, give   *)
(*                                        up after SCTP_MAX_ASSOCIATION_RETRANS) *)
(*   stop()                            -> Stop                                *)
(* The environment plays the remote stack (a browser): it may send SHUTDOWN,   *)
(* SHUTDOWN-COMPLETE and ABORT at any time, in any order, any number of times  *)
(* up to MaxInject; SHUTDOWN-ACKs it receives are counted, nothing else.       *)
(* It grows SctpHandshake.tla / DcLifecycle.tla forwards: C13 says that the    *)
(* end of the association closes every channel, C02 that an association that   *)
(* reports itself connected is never permanently unable to make progress - a   *)
(* SHUTDOWN-ACK-SENT association sends no user data, so it must end.           *)
EXTENDS Naturals, TLC

CONSTANTS MaxRetrans,   \* SCTP_MAX_ASSOCIATION_RETRANS (10 in the code; small in the model)
          MaxInject,    \* chunks the remote stack may send
          Dev           \* subset of {"CompleteAnyState", "NoT2Restart", "NoGiveUp", "ChannelsSurviveEnd"}

VARIABLES
  st,      \* "established" | "ackSent" | "closed"
  t2,      \* the T2-shutdown timer is armed
  fails,   \* _t2_failures
  acks,    \* SHUTDOWN-ACK chunks put on the wire so far
  chan,    \* readyState of the (one) data channel: "open" | "closed"
  why,     \* history: how the association ended: "" | "complete" | "abort" | "gaveup" | "stop"
  shut,    \* history: a SHUTDOWN has been received
  ninj, act

vars == <<st, t2, fails, acks, chan, why, shut, ninj, act>>
View == <<st, t2, fails, acks, chan, why, shut, ninj>>

Init ==
  /\ st = "established" /\ t2 = FALSE /\ fails = 0 /\ acks = 0 /\ chan = "open"
  /\ why = "" /\ shut = FALSE /\ ninj = 0 /\ act = [op |-> "init"]

\* _set_state(CLOSED): timers cancelled, every channel closed
Closed(reason) ==
  /\ st' = "closed" /\ t2' = FALSE
  /\ chan' = IF "ChannelsSurviveEnd" \in Dev THEN chan ELSE "closed"
  /\ why' = IF why = "" THEN reason ELSE why

RecvShutdown ==
  /\ ninj < MaxInject /\ ninj' = ninj + 1
  /\ why # "stop"                      \* stop() unregisters the receiver: nothing arrives any more
  /\ st' = "ackSent" /\ t2' = TRUE /\ fails' = 0 /\ acks' = acks + 1 /\ shut' = TRUE
  /\ act' = [op |-> "shutdown"]
  /\ UNCHANGED <<chan, why>>

RecvComplete ==
  /\ ninj < MaxInject /\ ninj' = ninj + 1
  /\ why # "stop"
  /\ IF st = "ackSent" \/ "CompleteAnyState" \in Dev
       THEN Closed("complete") /\ UNCHANGED <<fails, acks, shut>>
       ELSE UNCHANGED <<st, t2, fails, acks, chan, why, shut>>
  /\ act' = [op |-> "complete"]

RecvAbort ==
  /\ ninj < MaxInject /\ ninj' = ninj + 1
  /\ why # "stop"
  /\ Closed("abort") /\ UNCHANGED <<fails, acks, shut>>
  /\ act' = [op |-> "abort"]

T2Fire ==
  /\ t2
  /\ fails' = fails + 1
  /\ IF fails + 1 > MaxRetrans /\ "NoGiveUp" \notin Dev
       THEN Closed("gaveup") /\ UNCHANGED acks
       ELSE /\ acks' = acks + 1
            /\ t2' = ("NoT2Restart" \notin Dev)
            /\ UNCHANGED <<st, chan, why>>
  /\ act' = [op |-> "t2"]
  /\ UNCHANGED <<shut, ninj>>

Stop ==
  /\ why # "stop"
  /\ st' = "closed" /\ t2' = FALSE /\ chan' = "closed" /\ why' = "stop"
  /\ act' = [op |-> "stop"]
  /\ UNCHANGED <<fails, acks, shut, ninj>>

Next == RecvShutdown \/ RecvComplete \/ RecvAbort \/ T2Fire \/ Stop
Spec == Init /\ [][Next]_vars
FairSpec == Spec /\ WF_vars(T2Fire)
\* for tlc -simulate (lock-step replay): ends by stop / abort / complete are made rare, so that
\* random behaviours reach the retransmission limit
SimNext == Next /\ (act'.op \in {"stop", "abort", "complete"} => RandomElement(1..12) = 1)
SimSpec == Init /\ [][SimNext]_vars

-----------------------------------------------------------------------------
\* the timer runs exactly while a SHUTDOWN-ACK is outstanding (no dead state, no stray timer)
TimerIffAckSent == t2 <=> st = "ackSent"
\* the end of the association closes the channel (C13)
EndClosesChannel == st = "closed" => chan = "closed"
\* an association only ends for a reason: handshake completed, abort, retransmissions exhausted, stop()
\* - and "complete" only after a SHUTDOWN had been received
EndsForAReason == (st = "closed" => why # "") /\ (why = "complete" => shut)
\* retransmissions are bounded
Bounded == fails <= MaxRetrans + 1 /\ acks <= (MaxRetrans + 1) * MaxInject + 1
\* a channel is closed only by the end of the association (nothing else closes it here)
ChannelOpenWhileUp == st # "closed" /\ why = "" => chan = "open"
\* once a SHUTDOWN has been acknowledged the association ends (T2 fair; the remote may stay silent)
Ends == (st = "ackSent") ~> (st = "closed")

W_NeverGaveUp == why # "gaveup"
W_NeverCompleted == why # "complete"
\* (a SHUTDOWN received after the association ended by abort / give-up starts the exchange again:
\*  the code does that too - the transport is still registered with DTLS)
W_NoRevival == ~(why # "" /\ st = "ackSent")
=============================================================================
