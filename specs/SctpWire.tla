------------------------------ MODULE SctpWire ------------------------------
(* C08 - SCTP wire format (RFC 4960 common header / chunks / parameters,   *)
(* RFC 3758 FORWARD-TSN, RFC 6525 RE-CONFIG) as operators over sequences   *)
(* of bytes (0..255).  This is an *independent* transcription of the RFC    *)
(* layouts; TLC is its evaluator.  It serves three purposes:                *)
(*   1. TLC checks the model's own lemmas (Decode(Encode(v)) = v, 4-byte    *)
(*      alignment, length fields, padding rules, burst rejection on tiny    *)
(*      packets) over a bounded value domain.                               *)
(*   2. The bounded domain is enumerated through the Pick* actions (history *)
(*      variable act) and every value is replayed into the real aiortc      *)
(*      chunk classes by harness/c08_sctpwire.py.                           *)
(*   3. TraceSctpWire.tla reuses Encode / Expand to judge recorded calls.   *)
(*                                                                          *)
(* TLC integers are 32-bit signed: every 32-bit wire field is a sequence of *)
(* four bytes (big-endian, as on the wire) and the CRC register is a pair   *)
(* of 16-bit limbs <<hi, lo>>.                                              *)
(*                                                                          *)
(* Value format (identical to the JSON of the traces):                      *)
(*  packet  [sport, dport : 0..65535, vtag : 4 bytes, chunks : Seq(chunk)]  *)
(*  blob    [n, pat, b] - pat = 0: explicit bytes b (n = Len(b));           *)
(*                        pat > 0: n bytes of fill pattern pat (b = <<>>)   *)
(*  chunk   [t, flags, ...] with, by chunk type t:                          *)
(*    0 DATA          tsn(4B) sid sseq ppid(4B) data(blob)                  *)
(*    1/2 INIT(-ACK)  tag(4B) rwnd(4B) nos nis tsn(4B) params               *)
(*    3 SACK          tsn(4B) rwnd(4B) gaps(Seq <<start,end>>) dups(Seq 4B) *)
(*    4,5,6,9 HEARTBEAT(-ACK) / ABORT / ERROR       params                  *)
(*    7 SHUTDOWN      tsn(4B)                                               *)
(*    8,10,11,14 SHUTDOWN-ACK / COOKIE-ECHO / COOKIE-ACK / SHUTDOWN-COMPL.  *)
(*                    body(blob)                                            *)
(*    130 RE-CONFIG   rparams (typed, see RcBody)                           *)
(*    192 FORWARD-TSN tsn(4B) streams(Seq <<sid, sseq>>)                    *)
(*  param   [pt : 0..65535, pv : blob]                                      *)
EXTENDS Naturals, Sequences, FiniteSets, TLC, Bitwise, SequencesExt

CONSTANTS MaxParams,   \* parameter lists of 0..MaxParams parameters
          MaxVLen,     \* parameter values / chunk bodies of 0..MaxVLen bytes
          MaxList,     \* gap / duplicate / stream lists of 0..MaxList entries
          MaxData,     \* user data of 1..MaxData bytes
          Flags,       \* set of chunk flag values
          NProf,       \* number of boundary-value profiles (0..NProf-1)
          BurstLens    \* burst lengths (subset of 1..32) of the model-level burst lemma

VARIABLE act           \* history variable: the picked value and its encoding

-----------------------------------------------------------------------------
(* Bytes                                                                    *)

Zeros(n) == [i \in 1..n |-> 0]
PadLen(n) == (4 - (n % 4)) % 4
U16(x) == <<x \div 256, x % 256>>
GetU16(s, i) == s[i] * 256 + s[i + 1]
IsBytes(s) == \A i \in 1..Len(s) : s[i] \in 0..255

FillByte(pat, i) ==
  CASE pat = 1 -> 0
    [] pat = 2 -> 255
    [] pat = 3 -> (i * 7 + 3) % 256
    [] pat = 4 -> 255 - (i % 251)
    [] OTHER   -> (i * i + pat) % 256

Bytes(bl) == IF bl.pat = 0 THEN bl.b ELSE [i \in 1..bl.n |-> FillByte(bl.pat, i)]
Explicit(s) == [n |-> Len(s), pat |-> 0, b |-> s]
ExpandBlob(bl) == Explicit(Bytes(bl))
BlobOK(bl) == bl.n >= 0 /\ (bl.pat = 0 => (Len(bl.b) = bl.n /\ IsBytes(bl.b)))

-----------------------------------------------------------------------------
(* CRC32c (Castagnoli, reflected, polynomial 0x82F63B78), RFC 4960 App. B.  *)
(* Register = <<hi16, lo16>>.  The checksum is stored least significant     *)
(* byte first, so that in transmission order (least significant bit of each *)
(* byte first) the field carries the remainder x^31 .. x^0.                 *)

Poly == <<33526, 15224>>   \* 0x82F6, 0x3B78

CrcShift(c) ==
  LET sh == << c[1] \div 2, (c[2] \div 2) + (c[1] % 2) * 32768 >>
  IN IF c[2] % 2 = 1 THEN << sh[1] ^^ Poly[1], sh[2] ^^ Poly[2] >> ELSE sh

CrcTab == [i \in 0..255 |->
  CrcShift(CrcShift(CrcShift(CrcShift(CrcShift(CrcShift(CrcShift(CrcShift(<<0, i>>))))))))]

CrcUpd(c, byte) ==
  LET t == CrcTab[(c[2] % 256) ^^ byte]
  IN << (c[1] \div 256) ^^ t[1], ((c[2] \div 256) + (c[1] % 256) * 256) ^^ t[2] >>

Crc32c(s) ==
  LET r == FoldLeft(CrcUpd, <<65535, 65535>>, s) IN << r[1] ^^ 65535, r[2] ^^ 65535 >>

CrcLE(s) ==
  LET c == Crc32c(s) IN << c[2] % 256, c[2] \div 256, c[1] % 256, c[1] \div 256 >>

-----------------------------------------------------------------------------
(* Encoding                                                                 *)

FlatU16(xs) ==
  [i \in 1..(2 * Len(xs)) |-> IF i % 2 = 1 THEN xs[(i + 1) \div 2] \div 256
                                             ELSE xs[i \div 2] % 256]

FlatPairs(ps) ==   \* Seq(<<a, b>>) with 16-bit a, b -> 4 bytes each
  [i \in 1..(4 * Len(ps)) |->
     LET p == ps[(i + 3) \div 4]
         k == (i - 1) % 4
     IN CASE k = 0 -> p[1] \div 256 [] k = 1 -> p[1] % 256
          [] k = 2 -> p[2] \div 256 [] OTHER -> p[2] % 256]

FlatQuads(qs) ==   \* Seq(4 bytes) -> bytes
  [i \in 1..(4 * Len(qs)) |-> qs[(i + 3) \div 4][((i - 1) % 4) + 1]]

\* RFC 4960 3.2.1: Type, Length (= 4 + value, padding NOT included), Value.
EncParam(p) == LET v == Bytes(p.pv) IN U16(p.pt) \o U16(Len(v) + 4) \o v

\* Both padding rules: every parameter is padded to a multiple of 4 bytes; the
\* padding of all but the last parameter is part of the chunk (and counted in
\* the chunk length), the padding of the last one is the chunk's own padding
\* (added by EncChunk, not counted in the chunk length).
RECURSIVE EncParams(_)
EncParams(ps) ==
  IF Len(ps) = 0 THEN <<>>
  ELSE LET e == EncParam(Head(ps))
       IN IF Len(ps) = 1 THEN e ELSE e \o Zeros(PadLen(Len(e))) \o EncParams(Tail(ps))

\* RFC 6525 parameters (typed)
RcBody(p) ==
  CASE p.pt = 13 -> p.rq \o p.rs \o p.last \o FlatU16(p.streams)   \* 4.1 outgoing SSN reset request
    [] p.pt = 16 -> p.rs \o p.result                                  \* 4.4 re-configuration response
    [] p.pt = 17 -> p.rq \o U16(p.n) \o <<0, 0>>                       \* 4.5 add outgoing streams
    [] OTHER     -> <<>>
RcGeneric(rps) == [i \in 1..Len(rps) |-> [pt |-> rps[i].pt, pv |-> Explicit(RcBody(rps[i]))]]

Body(c) ==
  CASE c.t = 0          -> c.tsn \o U16(c.sid) \o U16(c.sseq) \o c.ppid \o Bytes(c.data)
    [] c.t \in {1, 2}   -> c.tag \o c.rwnd \o U16(c.nos) \o U16(c.nis) \o c.tsn \o EncParams(c.params)
    [] c.t = 3          -> c.tsn \o c.rwnd \o U16(Len(c.gaps)) \o U16(Len(c.dups))
                             \o FlatPairs(c.gaps) \o FlatQuads(c.dups)
    [] c.t \in {4, 5, 6, 9} -> EncParams(c.params)
    [] c.t = 7          -> c.tsn
    [] c.t \in {8, 10, 11, 14} -> Bytes(c.body)
    [] c.t = 130        -> EncParams(RcGeneric(c.rparams))
    [] c.t = 192        -> c.tsn \o FlatPairs(c.streams)
    [] OTHER            -> <<>>

\* RFC 4960 3.2: Type, Flags, Length (= 4 + body, chunk padding NOT included), body, 0-3 zero bytes.
EncChunk(c) ==
  LET b == Body(c) IN <<c.t, c.flags>> \o U16(Len(b) + 4) \o b \o Zeros(PadLen(Len(b)))

RECURSIVE EncChunks(_)
EncChunks(cs) == IF Len(cs) = 0 THEN <<>> ELSE EncChunk(Head(cs)) \o EncChunks(Tail(cs))

\* RFC 4960 3.1: source port, destination port, verification tag, checksum.
EncodeCk(v, ck) == U16(v.sport) \o U16(v.dport) \o v.vtag \o ck \o EncChunks(v.chunks)
Encode(v) == EncodeCk(v, CrcLE(EncodeCk(v, <<0, 0, 0, 0>>)))

-----------------------------------------------------------------------------
(* Canonical ("parsed") form of a value: every blob explicit.               *)

ExpandParams(ps) == [i \in 1..Len(ps) |-> [pt |-> ps[i].pt, pv |-> ExpandBlob(ps[i].pv)]]
ExpandChunk(c) ==
  CASE c.t = 0 -> [c EXCEPT !.data = ExpandBlob(c.data)]
    [] c.t \in {1, 2, 4, 5, 6, 9} -> [c EXCEPT !.params = ExpandParams(c.params)]
    [] c.t \in {8, 10, 11, 14} -> [c EXCEPT !.body = ExpandBlob(c.body)]
    [] OTHER -> c
Expand(v) == [v EXCEPT !.chunks = [i \in 1..Len(v.chunks) |-> ExpandChunk(v.chunks[i])]]

-----------------------------------------------------------------------------
(* Decoding (of well-formed packets; everything else is [ok |-> FALSE])     *)

Bad == [ok |-> FALSE, v |-> <<>>]
Good(x) == [ok |-> TRUE, v |-> x]
Cut(s, from, to) == SubSeq(s, from, to)

RECURSIVE DecParams(_, _)
DecParams(b, pos) ==
  IF pos > Len(b) THEN Good(<<>>)
  ELSE IF pos + 3 > Len(b) THEN Bad
  ELSE LET pl == GetU16(b, pos + 2) IN
       IF pl < 4 \/ pos + pl - 1 > Len(b) THEN Bad
       ELSE LET p == [pt |-> GetU16(b, pos), pv |-> Explicit(Cut(b, pos + 4, pos + pl - 1))]
                rest == DecParams(b, pos + pl + PadLen(pl))
            IN IF rest.ok THEN Good(<<p>> \o rest.v) ELSE Bad

DecRc(p) ==
  LET v == p.pv.b IN
  CASE p.pt = 13 /\ Len(v) >= 12 /\ Len(v) % 2 = 0 ->
         Good([pt |-> 13, rq |-> Cut(v, 1, 4), rs |-> Cut(v, 5, 8), last |-> Cut(v, 9, 12),
               streams |-> [i \in 1..((Len(v) - 12) \div 2) |-> GetU16(v, 11 + 2 * i)]])
    [] p.pt = 16 /\ Len(v) = 8 -> Good([pt |-> 16, rs |-> Cut(v, 1, 4), result |-> Cut(v, 5, 8)])
    [] p.pt = 17 /\ Len(v) = 8 -> Good([pt |-> 17, rq |-> Cut(v, 1, 4), n |-> GetU16(v, 5)])
    [] OTHER -> Bad

DecChunk(t, fl, b) ==
  LET n == Len(b) IN
  CASE t = 0 ->
         IF n < 12 THEN Bad
         ELSE Good([t |-> t, flags |-> fl, tsn |-> Cut(b, 1, 4), sid |-> GetU16(b, 5), sseq |-> GetU16(b, 7),
                    ppid |-> Cut(b, 9, 12), data |-> Explicit(Cut(b, 13, n))])
    [] t \in {1, 2} ->
         IF n < 16 THEN Bad
         ELSE LET ps == DecParams(Cut(b, 17, n), 1) IN
              IF ~ps.ok THEN Bad
              ELSE Good([t |-> t, flags |-> fl, tag |-> Cut(b, 1, 4), rwnd |-> Cut(b, 5, 8), nos |-> GetU16(b, 9),
                         nis |-> GetU16(b, 11), tsn |-> Cut(b, 13, 16), params |-> ps.v])
    [] t = 3 ->
         IF n < 12 THEN Bad
         ELSE LET g == GetU16(b, 9)
                  d == GetU16(b, 11)
              IN IF n # 12 + 4 * (g + d) THEN Bad
                 ELSE Good([t |-> t, flags |-> fl, tsn |-> Cut(b, 1, 4), rwnd |-> Cut(b, 5, 8),
                            gaps |-> [i \in 1..g |-> <<GetU16(b, 9 + 4 * i), GetU16(b, 11 + 4 * i)>>],
                            dups |-> [i \in 1..d |-> Cut(b, 9 + 4 * g + 4 * i, 12 + 4 * g + 4 * i)]])
    [] t \in {4, 5, 6, 9} ->
         LET ps == DecParams(b, 1) IN
         IF ps.ok THEN Good([t |-> t, flags |-> fl, params |-> ps.v]) ELSE Bad
    [] t = 7 -> IF n # 4 THEN Bad ELSE Good([t |-> t, flags |-> fl, tsn |-> b])
    [] t \in {8, 10, 11, 14} -> Good([t |-> t, flags |-> fl, body |-> Explicit(b)])
    [] t = 130 ->
         LET ps == DecParams(b, 1) IN
         IF ~ps.ok \/ \E i \in 1..Len(ps.v) : ~DecRc(ps.v[i]).ok THEN Bad
         ELSE Good([t |-> t, flags |-> fl, rparams |-> [i \in 1..Len(ps.v) |-> DecRc(ps.v[i]).v]])
    [] t = 192 ->
         IF n < 4 \/ n % 4 # 0 THEN Bad
         ELSE Good([t |-> t, flags |-> fl, tsn |-> Cut(b, 1, 4),
                    streams |-> [i \in 1..((n - 4) \div 4) |-> <<GetU16(b, 1 + 4 * i), GetU16(b, 3 + 4 * i)>>]])
    [] OTHER -> Bad

RECURSIVE DecChunks(_, _)
DecChunks(s, pos) ==
  IF pos > Len(s) THEN Good(<<>>)
  ELSE IF pos + 3 > Len(s) THEN Bad
  ELSE LET cl == GetU16(s, pos + 2)
           nxt == pos + cl + PadLen(cl)
       IN IF cl < 4 \/ nxt - 1 > Len(s) THEN Bad
          ELSE LET c == DecChunk(s[pos], s[pos + 1], Cut(s, pos + 4, pos + cl - 1))
                   rest == DecChunks(s, nxt)
               IN IF c.ok /\ rest.ok THEN Good(<<c.v>> \o rest.v) ELSE Bad

ChecksumOK(s) ==
  Len(s) >= 12 /\ Cut(s, 9, 12) = CrcLE(Cut(s, 1, 8) \o <<0, 0, 0, 0>> \o Cut(s, 13, Len(s)))

Decode(s) ==
  IF Len(s) < 16 \/ ~ChecksumOK(s) THEN Bad
  ELSE LET cs == DecChunks(s, 13) IN
       IF ~cs.ok \/ Len(cs.v) = 0 THEN Bad
       ELSE Good([sport |-> GetU16(s, 1), dport |-> GetU16(s, 3), vtag |-> Cut(s, 5, 8), chunks |-> cs.v])

-----------------------------------------------------------------------------
(* Bursts.  Bit k of a packet is bit (k % 8), counted from the least        *)
(* significant bit, of byte (k \div 8): the transmission order for which    *)
(* CRC32c is defined (RFC 4960 App. B).  A burst of length L at position p  *)
(* alters bits p and p+L-1 and any subset of the bits between them.         *)
(* offs = set of offsets (0..L-1) that are altered.                         *)

ByteMask(p, offs, j) ==   \* xor mask for byte j (1-based)
  FoldLeft(LAMBDA acc, o : IF (p + o) \div 8 = j - 1 THEN acc + 2 ^ ((p + o) % 8) ELSE acc, 0, SetToSeq(offs))

FlipBits(s, p, L, offs) ==
  [j \in 1..Len(s) |->
     IF j - 1 < p \div 8 \/ j - 1 > (p + L - 1) \div 8 THEN s[j] ELSE s[j] ^^ ByteMask(p, offs, j)]

BurstShapes(L) == {0..(L - 1), {0, L - 1}}   \* all bits / only the two ends

\* Position of a burst relative to the checksum field (bits 64..95)
BurstClass(p, L) ==
  LET last == p + L - 1 IN
  IF p >= 64 /\ last <= 95 THEN "inside_checksum"
  ELSE IF (p < 64 /\ last >= 64) \/ (p <= 95 /\ last > 95) THEN "straddles_checksum"
  ELSE "outside_checksum"

-----------------------------------------------------------------------------
(* The bounded value domain.                                                *)

U32s == << <<0, 0, 0, 0>>, <<0, 0, 0, 1>>, <<127, 255, 255, 255>>, <<128, 0, 0, 0>>,
           <<255, 255, 255, 255>>, <<1, 2, 3, 4>>, <<0, 0, 255, 255>>, <<0, 1, 0, 0>> >>
U16s == << 0, 1, 255, 256, 32767, 32768, 65535, 4660 >>
PTypes == << 7, 32776, 49152, 1, 65535, 13 >>
W32(k) == U32s[(k % Len(U32s)) + 1]
W16(k) == U16s[(k % Len(U16s)) + 1]
PT(k) == PTypes[(k % Len(PTypes)) + 1]
Prof == 0..(NProf - 1)
Pat(n) == [n |-> n, pat |-> 3, b |-> <<>>]

SeqsUpTo(n, S) == UNION {[1..c -> S] : c \in 0..n}

ParamLists(k) ==
  { [j \in 1..Len(ls) |-> [pt |-> PT(k + j), pv |-> Pat(ls[j])]] : ls \in SeqsUpTo(MaxParams, 0..MaxVLen) }

\* kinds of RE-CONFIG parameter: 100 = response, 101 = add streams, n < 100 = reset request with n streams
RcParam(k, j, kind) ==
  CASE kind = 100 -> [pt |-> 16, rs |-> W32(k + j), result |-> W32(k + j + 1)]
    [] kind = 101 -> [pt |-> 17, rq |-> W32(k + j), n |-> W16(k + j)]
    [] OTHER      -> [pt |-> 13, rq |-> W32(k + j), rs |-> W32(k + j + 1), last |-> W32(k + j + 2),
                      streams |-> [i \in 1..kind |-> W16(k + j + i)]]
RcKinds == {100, 101} \cup (0..MaxList)
RcLists(k) ==
  { [j \in 1..Len(ks) |-> RcParam(k, j, ks[j])] : ks \in SeqsUpTo(MaxParams, RcKinds) }

Packet(k, cs) == [sport |-> W16(k + 5), dport |-> W16(k + 6), vtag |-> W32(k + 7), chunks |-> cs]

DataChunkOf(f, k, n) ==
  [t |-> 0, flags |-> f, tsn |-> W32(k), sid |-> W16(k + 1), sseq |-> W16(k + 2), ppid |-> W32(k + 3), data |-> Pat(n)]
InitChunkOf(t, f, k, ps) ==
  [t |-> t, flags |-> f, tag |-> W32(k), rwnd |-> W32(k + 1), nos |-> W16(k + 2), nis |-> W16(k + 3),
   tsn |-> W32(k + 4), params |-> ps]
SackChunkOf(f, k, g, d) ==
  [t |-> 3, flags |-> f, tsn |-> W32(k), rwnd |-> W32(k + 1),
   gaps |-> [i \in 1..g |-> <<W16(k + i), W16(k + i + 1)>>], dups |-> [i \in 1..d |-> W32(k + i + 2)]]
FwdChunkOf(f, k, n) ==
  [t |-> 192, flags |-> f, tsn |-> W32(k), streams |-> [i \in 1..n |-> <<W16(k + i), W16(k + i + 3)>>]]

-----------------------------------------------------------------------------
(* Actions.  An initial state selects (kind, flags, profile) - this only    *)
(* spreads the work over TLC's workers - and one Pick action chooses the    *)
(* rest of the value from the domain.                                       *)

Kinds == {"data", "init", "sack", "params", "shutdown", "body", "reconfig", "fwd", "bundle", "tiny"}

Init == act \in [op : {"sel"}, kind : Kinds, f : Flags, k : Prof]

Sel(kind) == act.op = "sel" /\ act.kind = kind
\* the full set of lists with the first two profiles, lists of at most one element with the others
\* (field boundary values and list shapes are independent; this avoids their full product)
Few(k, lists) == IF k < 2 THEN lists ELSE {x \in lists : Len(x) <= 1}
Picked(v) == act' = [op |-> "pick", kind |-> act.kind, v |-> v, wire |-> Encode(v)]

PickData == Sel("data") /\ \E n \in 1..MaxData :
              Picked(Packet(act.k, <<DataChunkOf(act.f, act.k, n)>>))
PickInit == Sel("init") /\ \E t \in {1, 2} : \E ps \in Few(act.k, ParamLists(act.k)) :
              Picked(Packet(act.k, <<InitChunkOf(t, act.f, act.k, ps)>>))
PickSack == Sel("sack") /\ \E g \in 0..MaxList, d \in 0..MaxList :
              Picked(Packet(act.k, <<SackChunkOf(act.f, act.k, g, d)>>))
PickParams == Sel("params") /\ act.k < 2 /\ \E t \in {4, 5, 6, 9} : \E ps \in ParamLists(act.k) :
              Picked(Packet(act.k + t, <<[t |-> t, flags |-> act.f, params |-> ps]>>))
PickShutdown == Sel("shutdown") /\
              Picked(Packet(act.k, <<[t |-> 7, flags |-> act.f, tsn |-> W32(act.k)]>>))
PickBody == Sel("body") /\ act.k < 2 /\ \E t \in {8, 10, 11, 14}, n \in 0..(MaxVLen + 4) :
              Picked(Packet(act.k + t, <<[t |-> t, flags |-> act.f, body |-> Pat(n)]>>))
PickReconfig == Sel("reconfig") /\ \E rps \in Few(act.k, RcLists(act.k)) :
              Picked(Packet(act.k, <<[t |-> 130, flags |-> act.f, rparams |-> rps]>>))
PickFwd == Sel("fwd") /\ \E n \in 0..MaxList :
              Picked(Packet(act.k, <<FwdChunkOf(act.f, act.k, n)>>))
\* bundles: not buildable through serialize_packet; used for the model's own
\* inter-chunk padding lemma and as a non-fatal agreement probe of parse_packet
PickBundle == Sel("bundle") /\ act.k < 2 /\ \E n \in 1..4, m \in 0..3 :
              Picked(Packet(act.k, << DataChunkOf(act.f, act.k, n),
                                      [t |-> 10, flags |-> act.f, body |-> Pat(m)],
                                      SackChunkOf(act.f, act.k + 1, 1, 1),
                                      [t |-> 4, flags |-> act.f, params |-> <<[pt |-> 1, pv |-> Pat(n)]>>] >>))
\* the smallest packets (16 and 20 bytes), subject to the burst lemma
PickTiny == Sel("tiny") /\ act.k < 2 /\ act.f = (CHOOSE f \in Flags : TRUE) /\
              \/ Picked(Packet(act.k, <<[t |-> 11, flags |-> act.f, body |-> Pat(0)]>>))
              \/ Picked(Packet(act.k, <<[t |-> 7, flags |-> act.f, tsn |-> W32(act.k + 5)]>>))

Next == PickData \/ PickInit \/ PickSack \/ PickParams \/ PickShutdown
          \/ PickBody \/ PickReconfig \/ PickFwd \/ PickBundle \/ PickTiny
Spec == Init /\ [][Next]_act

-----------------------------------------------------------------------------
(* Lemmas of the wire model (checked by TLC in every state).                *)

IsPick == act.op = "pick"

\* Decode is a left inverse of Encode (every blob comes back explicit).
RoundTrip == IsPick => LET d == Decode(act.wire) IN d.ok /\ d.v = Expand(act.v)

\* The parsed form encodes to the same bytes (with RoundTrip: re-serialisation
\* of the decoded packet is the identity on bytes; the checksum is a function
\* of the other bytes, so it is left out here).
ReEncode == IsPick => EncodeCk(Expand(act.v), <<0, 0, 0, 0>>) = EncodeCk(act.v, <<0, 0, 0, 0>>)

\* Packets are sequences of bytes and a multiple of four bytes long.
Aligned == IsPick => (IsBytes(act.wire) /\ Len(act.wire) % 4 = 0)

\* Length fields: chunk length = 4 + body without the chunk's padding; the
\* padding is 0..3 zero bytes; nothing follows the last chunk.
RECURSIVE ChunkSpans(_, _)
ChunkSpans(cs, pos) ==
  IF Len(cs) = 0 THEN <<>>
  ELSE LET n == Len(Body(Head(cs))) IN
       << <<pos, n>> >> \o ChunkSpans(Tail(cs), pos + 4 + n + PadLen(n))
LengthFields ==
  IsPick =>
    LET sp == ChunkSpans(act.v.chunks, 13)
        last == sp[Len(sp)]
    IN /\ \A i \in 1..Len(sp) :
            /\ GetU16(act.wire, sp[i][1] + 2) = 4 + sp[i][2]
            /\ \A j \in 1..PadLen(sp[i][2]) : act.wire[sp[i][1] + 3 + sp[i][2] + j] = 0
       /\ Len(act.wire) = last[1] + 3 + last[2] + PadLen(last[2])

\* Parameter padding: inside a parameter list every parameter starts on a
\* multiple of four and the list ends with the last value byte (no trailing pad).
ParamPadding ==
  (IsPick /\ act.kind = "params") =>
    LET ps == act.v.chunks[1].params
        b == EncParams(ps)
    IN Len(ps) > 0 =>
         /\ Len(b) % 4 = (ps[Len(ps)].pv.n) % 4
         /\ DecParams(b, 1) = Good(ExpandParams(ps))

\* Burst rejection on the smallest packets (the burst guarantee of CRC32c is
\* otherwise an assumption): every all-ones and two-ends burst of the given
\* lengths at every position is rejected by the checksum.
BurstRejected ==
  (IsPick /\ act.kind = "tiny") =>
    \A L \in BurstLens : \A p \in 0..(8 * Len(act.wire) - L) : \A offs \in BurstShapes(L) :
       ~ChecksumOK(FlipBits(act.wire, p, L, offs))

\* Limit of that assumption, as a theorem of the model: the SCTP checksum sits
\* in the middle of the packet (bits 64..95), and for a burst that straddles a
\* boundary of the field the cyclic-code argument does not apply.  Whether a
\* pattern is accepted depends only on the positions of its bits and the
\* packet length: in every 16-byte packet the 32-bit burst with mask
\* 0xD7B4922F at bits 34..65 (30 bits of the verification tag, 2 bits of the
\* checksum) goes undetected.
StraddleMask == {0, 1, 2, 3, 5, 9, 12, 15, 18, 20, 21, 23, 24, 25, 26, 28, 30, 31}
StraddleUndetected ==
  (IsPick /\ act.kind = "tiny" /\ Len(act.wire) = 16) =>
     ChecksumOK(FlipBits(act.wire, 34, 32, StraddleMask))

\* Witnesses: each must be VIOLATED (non-vacuity of the lemmas above).
WitnessNoChunkPadding == IsPick => \A i \in 1..Len(act.v.chunks) : PadLen(Len(Body(act.v.chunks[i]))) = 0
WitnessNoInnerPadding ==
  (IsPick /\ act.kind = "params") =>
    \A i \in 1..(Len(act.v.chunks[1].params) - 1) : act.v.chunks[1].params[i].pv.n % 4 = 0
WitnessNoTiny == ~(IsPick /\ act.kind = "tiny")
WitnessNoBundle == ~(IsPick /\ Len(act.v.chunks) > 1)

\* Known answer: CRC32c("123456789") = 0xE3069283
CrcKnownAnswer == Crc32c(<<49, 50, 51, 52, 53, 54, 55, 56, 57>>) = <<58118, 37507>>
=============================================================================
