--------------------------- MODULE TraceSctpWire ---------------------------
(* Code -> spec direction for C08: judges NDJSON call traces recorded from  *)
(* the real serialize_packet / parse_packet of aiortc.                      *)
(*                                                                          *)
(* One trace = one packet value:                                            *)
(*   rt     [kind, v, bytes, pok, p, rok, reser]                            *)
(*            v     the value that was built with the real chunk classes    *)
(*                  (format of SctpWire.tla; blobs may be fill patterns)    *)
(*            bytes serialize_packet(v)                                     *)
(*            pok/p parse_packet(bytes) returned / its fields (explicit)    *)
(*            rok/reser  serialize_packet(parsed) returned / its bytes      *)
(*            kind  "packet": built by the library (fatal clauses apply)    *)
(*                  "bundle": several chunks concatenated by the harness;   *)
(*                            only agreement is measured                    *)
(*   bursts Seq(<<pos, len, maskhi, masklo, res>>): parse_packet was called *)
(*            on bytes with the burst applied (bit numbering of SctpWire);  *)
(*            mask bit i = bit pos+i altered; res 0 = rejected (ValueError),*)
(*            1 = returned normally, 2 = other exception                    *)
(*                                                                          *)
(* Total verdict function: step 1 is the round trip, step 1+i is burst i;   *)
(* the trace runs to its end or to the first failing clause and prints      *)
(* <<"RESULT", id, verdict, position, agree, info>> (info = position of a   *)
(* not-rejected burst relative to the checksum field, for the signature).   *)
(* Fatal clauses are exactly the statements of property C08:                *)
(*   C08.parse_roundtrip   the packet does not parse back to equal fields   *)
(*   C08.reserialise       the parsed packet does not serialise to the same *)
(*                         bytes                                            *)
(*   C08.corrupt_accepted  a packet with one altered burst of 1..32 bits    *)
(*                         was not rejected                                 *)
(* agree is the (non-fatal) AGREEMENT measure "layout": 0 if bytes =        *)
(* SctpWire!Encode(v), otherwise the index of the first differing byte;     *)
(* -1 if a bundle did not parse back to its chunks.                         *)
EXTENDS SctpWire, Json, IOUtils, TLCExt

CONSTANT CrcMaxLen   \* packets up to this length get the model's own CRC32c in the layout
                     \* comparison; longer ones are compared with the checksum bytes taken as given

VARIABLES tid, l, verdict, done, agree

Traces == ndJsonDeserialize(IOEnv.TRACE_FILE)

tvars == <<act, tid, l, verdict, done, agree>>

Tr == Traces[tid]
NSteps == 1 + Len(Tr.bursts)

---------------------------------------------------------------------------
(* Well-formedness of the recorded value (machinery, not property).        *)

KnownTypes == {0, 1, 2, 3, 4, 5, 6, 7, 8, 9, 10, 11, 14, 130, 192}

ChunkOK(c) ==
  /\ c.t \in KnownTypes /\ c.flags \in 0..255
  /\ CASE c.t = 0 -> BlobOK(c.data) /\ c.data.n >= 1
       [] c.t \in {1, 2, 4, 5, 6, 9} -> \A i \in 1..Len(c.params) : BlobOK(c.params[i].pv)
       [] c.t \in {8, 10, 11, 14} -> BlobOK(c.body)
       [] OTHER -> TRUE

ValueOK(rt) ==
  /\ Len(rt.v.chunks) >= 1
  /\ \A i \in 1..Len(rt.v.chunks) : ChunkOK(rt.v.chunks[i])
  /\ (rt.kind = "packet" => Len(rt.v.chunks) = 1)   \* serialize_packet takes one chunk

---------------------------------------------------------------------------
(* The clauses of the property.                                             *)

RtVerdict(rt) ==
  IF ~ValueOK(rt) THEN "machinery.bad_value"
  ELSE IF rt.kind # "packet" THEN "ok"
  ELSE IF ~rt.pok THEN "C08.parse_roundtrip"
  ELSE IF rt.p # Expand(rt.v) THEN "C08.parse_roundtrip"
  ELSE IF ~rt.rok THEN "C08.reserialise"
  ELSE IF rt.reser # rt.bytes THEN "C08.reserialise"
  ELSE "ok"

Bit(x, k) == (x \div (2 ^ k)) % 2

MaskOK(L, hi, lo) ==
  /\ L \in 1..32 /\ hi \in 0..65535 /\ lo \in 0..65535
  /\ lo % 2 = 1
  /\ IF L <= 16 THEN hi = 0 /\ lo < 2 ^ L /\ Bit(lo, L - 1) = 1
                ELSE hi < 2 ^ (L - 16) /\ Bit(hi, L - 17) = 1

BurstVerdict(b, nbits) ==
  IF ~(Len(b) = 5 /\ b[1] >= 0 /\ MaskOK(b[2], b[3], b[4]) /\ b[1] + b[2] <= nbits)
    THEN "machinery.bad_burst"
  ELSE IF b[5] # 0 THEN "C08.corrupt_accepted"
  ELSE "ok"

---------------------------------------------------------------------------
(* Agreement with the RFC layout (not fatal).                               *)

FirstDiff(a, b) ==
  IF a = b THEN 0
  ELSE LET n == IF Len(a) < Len(b) THEN Len(a) ELSE Len(b) IN
       IF \E i \in 1..n : a[i] # b[i]
         THEN CHOOSE i \in 1..n : a[i] # b[i] /\ \A j \in 1..(i - 1) : a[j] = b[j]
         ELSE n + 1

\* first the layout of everything but the checksum (so that the index points at
\* the field that differs), then the checksum itself (index 9)
Layout(rt) ==
  IF Len(rt.bytes) < 12 THEN 1
  ELSE LET ck == SubSeq(rt.bytes, 9, 12)
           d == FirstDiff(EncodeCk(rt.v, ck), rt.bytes)
       IN IF d # 0 THEN d
          ELSE IF Len(rt.bytes) <= CrcMaxLen /\ CrcLE(EncodeCk(rt.v, <<0, 0, 0, 0>>)) # ck THEN 9
          ELSE 0

Agreement(rt) ==
  IF ~ValueOK(rt) THEN 1
  ELSE IF rt.kind = "bundle" /\ (~rt.pok \/ rt.p # Expand(rt.v)) THEN 0 - 1
  ELSE Layout(rt)

---------------------------------------------------------------------------
TraceInit ==
  /\ act = [op |-> "trace"]
  /\ tid \in 1..Len(Traces)
  /\ l = 1 /\ verdict = "ok" /\ done = FALSE /\ agree = 0

Consume ==
  /\ ~done /\ verdict = "ok" /\ l <= NSteps
  /\ l' = l + 1
  /\ IF l = 1
       THEN verdict' = RtVerdict(Tr.rt) /\ agree' = Agreement(Tr.rt)
       ELSE verdict' = BurstVerdict(Tr.bursts[l - 1], 8 * Len(Tr.rt.bytes)) /\ agree' = agree
  /\ UNCHANGED <<act, tid, done>>

Finish ==
  /\ ~done /\ (verdict # "ok" \/ l > NSteps)
  /\ done' = TRUE
  /\ PrintT(<<"RESULT", Tr.id, verdict, l - 1, agree,
               IF verdict = "C08.corrupt_accepted"
                 THEN BurstClass(Tr.bursts[l - 2][1], Tr.bursts[l - 2][2]) ELSE "">>)
  /\ UNCHANGED <<act, tid, l, verdict, agree>>

TraceNext == Consume \/ Finish

TraceSpec == TraceInit /\ [][TraceNext]_tvars
=============================================================================
