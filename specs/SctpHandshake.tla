--------------------------- MODULE SctpHandshake ---------------------------
(* Association set-up of aiortc.rtcsctptransport (client A, server B) under *)
(* loss, duplication, reordering and T1 time-outs, written after the code:   *)
(*   start()/_init            -> Start                                       *)
(*   _receive_chunk(INIT)     -> RecvInit      (server, only when CLOSED)    *)
(*   _receive_chunk(INIT-ACK) -> RecvInitAck   (client, only in COOKIE-WAIT) *)
(*   _receive_chunk(COOKIE-ECHO) -> RecvCookieEcho (server, any state)       *)
(*   _receive_chunk(COOKIE-ACK)  -> RecvCookieAck  (client, COOKIE-ECHOED)   *)
(*   _t1_expired              -> T1Fire (retransmit, give up after Max)      *)
(*   ABORT / stop()           -> Abort                                       *)
(* It grows the data-path model (SctpAssoc.tla) backwards: C02 / C13 / C05   *)
(* quantify over faults "before, during and after association set-up".       *)
(* The server's receive state (`rtsn`: cumulative TSN derived from the       *)
(* INIT) is part of the state because a late INIT used to overwrite it       *)
(* (deviation "LateInitResets", repaired by 3c0bf86).                        *)
EXTENDS Naturals, FiniteSets, TLC

CONSTANTS MaxInitRetrans,   \* SCTP_MAX_INIT_RETRANS (8 in the code; small in the model)
          MaxDrop, MaxDup,  \* fault budgets before Heal
          MaxData,          \* DATA chunks the server may send once it is established
          Dev               \* subset of {"LateInitResets", "EchoAnyStateReInit", "NoGiveUp"}

VARIABLES
  a,       \* client: [st, t1, fails, chunk]   st: "closed0" (not started) | "cookieWait" | "cookieEchoed" | "established" | "closed"
  b,       \* server: [st, rtsn, mis]          st: "closed" | "established"; rtsn: cumulative TSN; mis: out-of-order TSNs
  net,     \* set of datagrams [k, to, n]      k: INIT | INITACK | ECHO | ACK | DATA | ABORT
  adata,   \* DATA chunks A has sent (it sends one per established step, up to MaxData)
  nDrop, nDup, healed, act

vars == <<a, b, net, adata, nDrop, nDup, healed, act>>
View == <<a, b, net, adata, nDrop, nDup, healed>>

Pkt(k, to, n) == [k |-> k, to |-> to, n |-> n]

Init ==
  /\ a = [st |-> "closed0", t1 |-> FALSE, fails |-> 0, chunk |-> "none"]
  /\ b = [st |-> "closed", rtsn |-> 0, mis |-> {}]
  /\ net = {} /\ adata = 0
  /\ nDrop = 0 /\ nDup = 0 /\ healed = FALSE
  /\ act = [op |-> "init"]

Start ==
  /\ a.st = "closed0"
  /\ a' = [st |-> "cookieWait", t1 |-> TRUE, fails |-> 0, chunk |-> "INIT"]
  /\ net' = net \cup {Pkt("INIT", "B", 0)}
  /\ act' = [op |-> "start"]
  /\ UNCHANGED <<b, adata, nDrop, nDup, healed>>

\* the client sends user data once established (TSN n = 1, 2, ...)
SendData ==
  /\ a.st = "established" /\ adata < MaxData
  /\ adata' = adata + 1
  /\ net' = net \cup {Pkt("DATA", "B", adata + 1)}
  /\ act' = [op |-> "data"]
  /\ UNCHANGED <<a, b, nDrop, nDup, healed>>

\* effect of handing datagram p to _handle_data: [a, b, out]
Absorb(bb) ==
  LET RECURSIVE Up(_)
      Up(x) == IF (x + 1) \in bb.mis THEN Up(x + 1) ELSE x
      lr == Up(bb.rtsn)
  IN [bb EXCEPT !.rtsn = lr, !.mis = {x \in @ : x > lr}]

Recv(p) ==
  CASE p.k = "INIT" ->
         IF b.st = "closed" \/ "LateInitResets" \in Dev
           THEN [a |-> a, b |-> [b EXCEPT !.rtsn = 0], out |-> {Pkt("INITACK", "A", 0)}]   \* tsn_minus_one(initial_tsn), relative
           ELSE [a |-> a, b |-> b, out |-> {}]            \* delayed / duplicated INIT: ignored
    [] p.k = "INITACK" ->
         IF a.st = "cookieWait"
           THEN [a |-> [a EXCEPT !.st = "cookieEchoed", !.t1 = TRUE, !.fails = 0, !.chunk = "ECHO"],
                 b |-> b, out |-> {Pkt("ECHO", "B", 0)}]
           ELSE [a |-> a, b |-> b, out |-> {}]
    [] p.k = "ECHO" ->
         [a |-> a, b |-> [b EXCEPT !.st = "established"], out |-> {Pkt("ACK", "A", 0)}]
    [] p.k = "ACK" ->
         IF a.st = "cookieEchoed"
           THEN [a |-> [a EXCEPT !.st = "established", !.t1 = FALSE, !.chunk = "none"], b |-> b, out |-> {}]
           ELSE [a |-> a, b |-> b, out |-> {}]
    [] p.k = "DATA" ->
         \* _receive_data_chunk runs in every state (the SACK it triggers is not modelled)
         IF p.n <= b.rtsn \/ p.n \in b.mis THEN [a |-> a, b |-> b, out |-> {}]
         ELSE [a |-> a, b |-> Absorb([b EXCEPT !.mis = @ \cup {p.n}]), out |-> {}]
    [] OTHER -> [a |-> a, b |-> b, out |-> {}]

Deliver(p) ==
  /\ p \in net
  /\ LET r == Recv(p) IN a' = r.a /\ b' = r.b /\ net' = (net \ {p}) \cup r.out
  /\ act' = [op |-> "deliver", k |-> p.k, n |-> p.n]
  /\ UNCHANGED <<adata, nDrop, nDup, healed>>

Duplicate(p) ==      \* a copy is delivered, the original stays in flight
  /\ p \in net /\ ~healed /\ nDup < MaxDup
  /\ LET r == Recv(p) IN a' = r.a /\ b' = r.b /\ net' = net \cup r.out
  /\ nDup' = nDup + 1
  /\ act' = [op |-> "dup", k |-> p.k, n |-> p.n]
  /\ UNCHANGED <<adata, nDrop, healed>>

Drop(p) ==
  /\ p \in net /\ ~healed /\ nDrop < MaxDrop
  /\ net' = net \ {p} /\ nDrop' = nDrop + 1
  /\ act' = [op |-> "drop", k |-> p.k, n |-> p.n]
  /\ UNCHANGED <<a, b, adata, nDup, healed>>

T1Fire ==
  /\ a.t1
  /\ IF a.fails + 1 > MaxInitRetrans /\ "NoGiveUp" \notin Dev
       THEN /\ a' = [a EXCEPT !.st = "closed", !.t1 = FALSE, !.fails = @ + 1, !.chunk = "none"]
            /\ UNCHANGED net
       ELSE /\ a' = [a EXCEPT !.fails = IF @ < MaxInitRetrans + 1 THEN @ + 1 ELSE @]
            /\ net' = net \cup {Pkt(a.chunk, "B", 0)}
  /\ act' = [op |-> "t1"]
  /\ UNCHANGED <<b, adata, nDrop, nDup, healed>>

Heal ==
  /\ ~healed /\ healed' = TRUE
  /\ act' = [op |-> "heal"]
  /\ UNCHANGED <<a, b, net, adata, nDrop, nDup>>

\* after Heal the timer only fires when the network is empty (nothing is lost any more)
Next ==
  \/ Start \/ SendData \/ Heal
  \/ \E p \in net : Deliver(p) \/ Duplicate(p) \/ Drop(p)
  \/ ((~healed \/ net = {}) /\ T1Fire)

Spec == Init /\ [][Next]_vars
FairSpec == Spec /\ WF_vars(Start) /\ WF_vars(\E p \in net : Deliver(p)) /\ WF_vars((~healed \/ net = {}) /\ T1Fire)
                 /\ WF_vars(SendData)

-----------------------------------------------------------------------------
\* the client never reports `connected` before the server does
Agreement == a.st = "established" => b.st = "established"
\* a client that is still setting up has its T1 timer armed (no dead state)
NoDeadSetup == a.st \in {"cookieWait", "cookieEchoed"} => a.t1
\* a timer is only armed while setting up
TimerOnlyInSetup == a.t1 => a.st \in {"cookieWait", "cookieEchoed"}
\* the server's receive state never moves backwards (late INIT must not reset it)
ReceiveStateMonotone == [][b'.rtsn >= b.rtsn]_vars
\* after the network heals the set-up terminates: established at both ends, or given up
Terminates == healed ~> (a.st = "established" \/ a.st = "closed")
\* ... and once everything sent has arrived the server has received all of it
DataArrives == (a.st = "established" /\ adata = MaxData /\ net = {} /\ nDrop = 0) => (b.rtsn = MaxData /\ b.mis = {})

W_NeverEstablished == a.st # "established"
W_NeverGaveUp == a.st # "closed"
W_NoRetransmission == a.fails = 0
=============================================================================
