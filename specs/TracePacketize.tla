---------------------------- MODULE TracePacketize ----------------------------
(* Code -> spec direction for C16.  Each NDJSON line is one call of the real   *)
(* packetiser (H264Encoder._split_bitstream + _packetize or pack();            *)
(* Vp8Encoder._packetize or pack()) followed by the real depayloaders, logged   *)
(* by harness/c16_packetize.py:                                                 *)
(*                                                                              *)
(*  codec "h264": nals = [hdr, len, eq] per input NAL unit (eq: the i-th NAL    *)
(*     unit of the depacketised stream is byte-identical to it), nout, garbage, *)
(*     pl = payload descriptors [len, b0, b1, units, uh, walk]                  *)
(*  codec "vp8":  n, pid (the frame's picture id), eq, olen,                    *)
(*     pl = [len, d (first <= 4 bytes), ppid (picture id from the real parser)] *)
(*  codec "vp8desc": rows = [pid, s, d (descriptor bytes), ppid, rawlen, plen,  *)
(*     dplen, feq]: the real VpxPayloadDescriptor serialised and parsed back    *)
(*     (picture id sweep x optional fields); plen / dplen = bytes consumed by    *)
(*     the parser / removed by vp8_depayload, feq = all fields came back equal   *)
(*  exc: "" or the exception the real code raised.                              *)
(*                                                                              *)
(* The verdict is total: ValidPacketization's verdict functions of             *)
(* Packetize.tla are evaluated with the limit of the property text (1300) and   *)
(* one <<"RESULT", id, verdict, position>> line is printed per trace; verdict   *)
(* is "ok" or the first failing clause, position the payload index (0: whole).  *)
EXTENDS Packetize, Json, IOUtils, TLCExt

CONSTANT Limit    \* 1300: the payload size limit named by the property

VARIABLES tid, done

Traces == ndJsonDeserialize(IOEnv.TRACE_FILE)

tvars == <<vars, tid, done>>

First(S) == CHOOSE i \in S : \A j \in S : i <= j

\* Picture id / partition start round trip of single descriptors.
DescVerdict(rows) ==
  LET N == Len(rows)
      dec == [i \in 1..N |-> Vp8Decode(rows[i].d, Len(rows[i].d))]
      badS == {i \in 1..N : dec[i].s # rows[i].s}
      badP == {i \in 1..N : ~dec[i].has \/ dec[i].pid # rows[i].pid \/ rows[i].ppid # rows[i].pid}
      \* the descriptor is exactly as long as RFC 7741 says for its flag bits (T and K share
      \* one octet), the parser and the depayloader consume exactly that many bytes, and every
      \* optional field comes back as it went in
      badL == {i \in 1..N : dec[i].dlen # rows[i].rawlen \/ rows[i].plen # dec[i].dlen \/ rows[i].dplen # dec[i].dlen}
      badF == {i \in 1..N : ~rows[i].feq}
  IN IF badS # {} THEN <<"C16.vp8_start_bit", First(badS)>>
     ELSE IF badP # {} THEN <<"C16.vp8_picture_id", First(badP)>>
     ELSE IF badL # {} THEN <<"C16.vp8_descriptor_length", First(badL)>>
     ELSE IF badF # {} THEN <<"C16.vp8_descriptor_fields", First(badF)>>
     ELSE <<"ok", 0>>

Verdict(t) ==
  IF t.exc # "" THEN <<"C16.raises", 0>>
  ELSE IF t.codec = "h264" THEN
    H264Verdict(t.nals, t.pl, [nout |-> t.nout, garbage |-> t.garbage], Limit)
  ELSE IF t.codec = "vp8" THEN
    Vp8Verdict([n |-> t.n, pid |-> t.pid, eq |-> t.eq, olen |-> t.olen], t.pl, Limit)
  ELSE IF t.codec = "vp8desc" THEN DescVerdict(t.rows)
  ELSE <<"machinery.unknown_codec", 0>>

TraceInit ==
  /\ Init
  /\ tid \in 1..Len(Traces)
  /\ done = FALSE

Finish ==
  /\ ~done
  /\ done' = TRUE
  /\ LET v == Verdict(Traces[tid]) IN PrintT(<<"RESULT", Traces[tid].id, v[1], v[2]>>)
  /\ UNCHANGED <<vars, tid>>

TraceNext == Finish

TraceSpec == TraceInit /\ [][TraceNext]_tvars
=============================================================================
