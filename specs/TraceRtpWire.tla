---------------------------- MODULE TraceRtpWire ----------------------------
(* Code -> spec direction for C07: judges NDJSON call traces recorded from   *)
(* the real aiortc.rtp code.  A trace is the sequence of calls made for one  *)
(* value (serialise, parse, wrap, unwrap, ...).  Total verdict function:     *)
(* every trace runs to its end or to its first failing clause and prints     *)
(*   <<"RESULT", id, verdict, position>>                                     *)
(*   <<"AGREE", id, layout_ok, layout_total, decode_ok, decode_total>>       *)
(* Fatal clauses are the sentences of the property:                          *)
(*   C07.raises           a value within wire range could not be built,      *)
(*                        serialised or parsed                               *)
(*   C07.rtp_roundtrip    parsed RTP packet # value                          *)
(*   C07.rtcp_roundtrip   parsed RTCP compound # value                       *)
(*   C07.nack_set         NACK denotes a different set of 16-bit numbers     *)
(*   C07.loss_saturation  cumulative loss does not saturate at 24 bit signed *)
(*   C07.remb_bound       REMB bitrate rounds up or error >= 2^-17           *)
(*   C07.rtx_inverse      unwrap_rtx(wrap_rtx(p)) # p                        *)
(* Agreement with the RFC layout (bytes = RtpWire!Encode(value), parsed =    *)
(* RtpWire!Decode(bytes)) is counted, never fatal.                           *)
EXTENDS RtpWire, Json, IOUtils, TLCExt

VARIABLES tid, l, verdict, done, ctx, agree

Traces == ndJsonDeserialize(IOEnv.TRACE_FILE)

tvars == <<vars, tid, l, verdict, done, ctx, agree>>

Ctx0 == [map |-> NoMap, v |-> <<>>, bytes |-> <<>>, p |-> <<>>, orig |-> <<>>, w |-> <<>>]
Agree0 == [lay |-> 0, layn |-> 0, dec |-> 0, decn |-> 0]

TraceInit ==
  /\ stage = "trace" /\ act = [cls |-> "none"]
  /\ tid \in 1..Len(Traces)
  /\ l = 1 /\ verdict = "ok" /\ done = FALSE
  /\ ctx = Ctx0 /\ agree = Agree0

Steps == Traces[tid].steps

B2N(b) == IF b THEN 1 ELSE 0
Lay(ok) == [agree EXCEPT !.lay = @ + B2N(ok), !.layn = @ + 1]
Dec(ok) == [agree EXCEPT !.dec = @ + B2N(ok), !.decn = @ + 1]

--------------------------------------------------------------------------
(* Clauses *)

\* first failing clause of a parsed compound against its value
RECURSIVE RtcpCompare(_, _, _)
RtcpCompare(v, p, i) ==
  IF i > Len(v) THEN "ok"
  ELSE IF v[i].t = "rtpfb" THEN
         (IF p[i].t # "rtpfb" THEN "C07.rtcp_roundtrip"
          ELSE IF p[i].fmt # v[i].fmt \/ p[i].ssrc # v[i].ssrc \/ p[i].mssrc # v[i].mssrc THEN "C07.rtcp_roundtrip"
          ELSE IF SeqSet(p[i].lost) # SeqSet(v[i].lost) THEN "C07.nack_set"
          ELSE RtcpCompare(v, p, i + 1))
  ELSE IF p[i] # v[i] THEN "C07.rtcp_roundtrip"
  ELSE RtcpCompare(v, p, i + 1)

RtcpVerdict(v, p) == IF Len(p) # Len(v) THEN "C07.rtcp_roundtrip" ELSE RtcpCompare(v, p, 1)

\* the RFC 4585 denotation of the serialised NACKs equals the sender's set
WireNackOK(v, bytes) ==
  LET d == RtcpDecode(bytes) IN
  Len(d) = Len(v) =>
    \A i \in 1..Len(v) :
       (v[i].t = "rtpfb" /\ d[i] # Bad /\ d[i].t = "rtpfb") => SeqSet(d[i].lost) = SeqSet(v[i].lost)

\* the ordered list is an agreement measure only
Same(v, p) == Len(p) = Len(v) /\ \A i \in 1..Len(v) : p[i] = v[i]

--------------------------------------------------------------------------
Judge(ev) ==
  \* returns <<verdict, ctx', agree'>>
  CASE ev.op = "rtp_ser" ->
         IF ev.st # "ok" THEN <<"C07.raises", ctx, agree>>
         ELSE <<"ok", [ctx EXCEPT !.map = ev.map, !.v = ev.v, !.bytes = ev.bytes],
                Lay(EqModPad(ev.bytes, RtpEncode(ev.map, ev.v), ev.v.pad))>>
    [] ev.op = "rtp_parse" ->
         IF ev.st # "ok" THEN <<"C07.raises", ctx, agree>>
         ELSE IF ev.p # ctx.v THEN <<"C07.rtp_roundtrip", ctx, agree>>
         ELSE <<"ok", [ctx EXCEPT !.p = ev.p], Dec(RtpDecode(ctx.map, ctx.bytes) = ev.p)>>
    [] ev.op = "rtcp_ser" ->
         IF ev.st # "ok" THEN <<"C07.raises", ctx, agree>>
         ELSE IF ~WireNackOK(ev.v, ev.bytes) THEN <<"C07.nack_set", ctx, agree>>
         ELSE <<"ok", [ctx EXCEPT !.v = ev.v, !.bytes = ev.bytes], Lay(ev.bytes = RtcpEncode(ev.v))>>
    [] ev.op = "rtcp_parse" ->
         IF ev.st # "ok" THEN <<"C07.raises", ctx, agree>>
         ELSE LET r == RtcpVerdict(ctx.v, ev.p) IN
              IF r # "ok" THEN <<r, ctx, agree>>
              ELSE <<"ok", [ctx EXCEPT !.p = ev.p], Dec(RtcpDecode(ctx.bytes) = ev.p /\ Same(ctx.v, ev.p))>>
    [] ev.op = "nack_parse" ->
         \* bytes of one RTPFB packet as a peer would send them
         LET d == RtcpDecode(ev.bytes) IN
         IF Len(d) # 1 THEN <<"machinery.bad_nack_input", ctx, agree>>
         ELSE IF d[1] = Bad THEN <<"machinery.bad_nack_input", ctx, agree>>
         ELSE IF d[1].t # "rtpfb" THEN <<"machinery.bad_nack_input", ctx, agree>>
         ELSE IF ev.st # "ok" THEN <<"C07.raises", ctx, agree>>
         ELSE IF Len(ev.p) # 1 THEN <<"C07.rtcp_roundtrip", ctx, agree>>
         ELSE IF ev.p[1].t # "rtpfb" THEN <<"C07.rtcp_roundtrip", ctx, agree>>
         ELSE IF SeqSet(ev.p[1].lost) # SeqSet(d[1].lost) THEN <<"C07.nack_set", ctx, agree>>
         ELSE <<"ok", ctx, Dec(ev.p[1] = d[1])>>
    [] ev.op = "loss" ->
         IF ev.st # "ok" THEN <<"C07.raises", ctx, agree>>
         ELSE IF ev.got # Sat24Big(ev.n) THEN <<"C07.loss_saturation", ctx, agree>>
         ELSE <<"ok", ctx, agree>>
    [] ev.op = "remb" ->
         IF ev.st # "ok" THEN <<"C07.raises", ctx, agree>>
         ELSE IF ~RembBoundOK(ev.rate, ev.got) THEN <<"C07.remb_bound", ctx, agree>>
         ELSE IF ev.gssrcs # ev.ssrcs THEN <<"C07.rtcp_roundtrip", ctx, agree>>
         ELSE <<"ok", ctx,
                Lay(ev.bytes = RtcpEncode1([t |-> "psfb", fmt |-> 15, ssrc |-> ev.ssrc, mssrc |-> ev.mssrc,
                                            fci |-> RembFci(ev.rate, ev.ssrcs)]))>>
    [] ev.op = "rtx_wrap" ->
         IF ev.st # "ok" THEN <<"C07.raises", ctx, agree>>
         ELSE <<"ok", [ctx EXCEPT !.orig = ev.v, !.w = ev.w, !.p = ev.w],
                Lay(ev.w = RtxWrap(ev.v, ev.rpt, ev.rseq, ev.rssrc))>>
    [] ev.op = "rtx_unwrap" ->
         \* input of the call: the wrapped packet itself or its parse from the wire (ctx.p)
         IF ev.st # "ok" THEN <<"C07.raises", ctx, agree>>
         ELSE IF NoPad(ev.u) # NoPad(ctx.orig) THEN <<"C07.rtx_inverse", ctx, agree>>
         ELSE <<"ok", ctx, Dec(ev.u = RtxUnwrap(ctx.p, ctx.orig.pt, ctx.orig.ssrc))>>
    [] OTHER -> <<"machinery.unknown_op", ctx, agree>>

Consume ==
  /\ ~done /\ verdict = "ok" /\ l <= Len(Steps)
  /\ LET r == Judge(Steps[l]) IN verdict' = r[1] /\ ctx' = r[2] /\ agree' = r[3]
  /\ l' = l + 1 /\ UNCHANGED <<vars, tid, done>>

Finish ==
  /\ ~done /\ (verdict # "ok" \/ l > Len(Steps))
  /\ done' = TRUE
  /\ PrintT(<<"RESULT", Traces[tid].id, verdict, l - 1>>)
  /\ PrintT(<<"AGREE", Traces[tid].id, agree.lay, agree.layn, agree.dec, agree.decn>>)
  /\ UNCHANGED <<vars, tid, l, verdict, ctx, agree>>

TraceNext == Consume \/ Finish

TraceSpec == TraceInit /\ [][TraceNext]_tvars
=============================================================================
