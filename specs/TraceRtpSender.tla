--------------------------- MODULE TraceRtpSender ---------------------------
(* Code -> spec for RtpSenderObs.tla: judges event lists recorded from a     *)
(* real RTCRtpSender (harness/x_rtpsender.py).  One RESULT line per trace.   *)
EXTENDS RtpSenderObs, Json, IOUtils, TLCExt

VARIABLES tid, l, verdict, done
Traces == ndJsonDeserialize(IOEnv.TRACE_FILE)
tvars == <<svars, tid, l, verdict, done>>
Evs == Traces[tid].events

TraceInit == SenderInit /\ tid \in 1..Len(Traces) /\ l = 1 /\ verdict = "ok" /\ done = FALSE

Accept(v, upd) ==
  \/ v = "ok" /\ verdict' = "ok" /\ upd
  \/ v # "ok" /\ verdict' = v /\ UNCHANGED svars

Consume ==
  /\ ~done /\ verdict = "ok" /\ l <= Len(Evs)
  /\ l' = l + 1 /\ UNCHANGED <<tid, done>>
  /\ LET ev == Evs[l] IN
     CASE ev.k = "rtp"  -> Accept(RtpVerdict(ev.seq, ev.ts, ev.m, ev.n, ev.ssrcok, ev.ptok), DoRtp(ev.seq, ev.ts, ev.m, ev.n))
       [] ev.k = "sr"   -> Accept(SrVerdict(ev.pc, ev.oc, ev.ts, ev.t), DoSr(ev.t))
       [] ev.k = "stop" -> Accept(StopVerdict, DoStop)
       [] ev.k = "bye"  -> Accept(ByeVerdict(ev.ssrcok), DoBye)
       [] ev.k = "exc"  -> Accept("S0.raised", UNCHANGED svars)
       [] OTHER -> Accept("ok", UNCHANGED svars)

Finish ==
  /\ ~done /\ (verdict # "ok" \/ l > Len(Evs))
  /\ done' = TRUE
  /\ LET v == IF verdict = "ok" THEN EndVerdict ELSE verdict IN
       /\ verdict' = v /\ PrintT(<<"RESULT", Traces[tid].id, v, l - 1>>)
  /\ UNCHANGED <<svars, tid, l>>

TraceNext == Consume \/ Finish
TraceSpec == TraceInit /\ [][TraceNext]_tvars
=============================================================================
