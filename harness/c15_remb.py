"""C15 - receive-side bandwidth estimation (REMB).  Specs: specs/Remb.tla, specs/TraceRemb.tla.

quick / thorough:
  1. TLC exhaustively checks the two models of Remb.tla for small constants:
     SpecRate (RateCounter + reset logic + SSRC table: the total is the sum over exactly the
     packets of the last W ms, the rate is the scaled total over the active window, the SSRC
     list is the set seen) and SpecAimd (the AIMD automaton with hypothesis, throughput and
     sigma tests as environment inputs: estimate encodable, rise bound, over-use bound, every
     step defined).  Witness invariants must be violated; each deviation must give a
     counter-example (WindowOffByOne -> WindowExact, NearMaxDivZero -> NoError).
  2. spec -> code: `tlc -simulate` behaviours of SpecAimd are replayed into a real
     AimdRateControl.update (sigma-test outcomes and the size of the multiplicative step are
     steered to the model's choice), behaviours of SpecRate into a real RateCounter; results
     are compared step by step (agreement measure only: forced controller inputs are not
     arrival histories).
  3. code -> spec: seeded random arrival histories at real sizes (payload 0..1500, gaps 0 ms
     to seconds, idle periods longer than the window, delay ramps causing over-use and
     under-use, bursts, rate changes, 24-bit abs-send-time wrap, 1..40 SSRCs, garbage send
     times) are driven through the real RemoteBitrateEstimator.add; each call is recorded and
     judged by TraceRemb.tla.
  4. binding self-test: corrupted copies of a recorded trace must be rejected.
"""
MANIFEST = dict(
    technique="TLA+ spec Remb.tla (RateCounter as exact integer arithmetic; AIMD rate-control automaton with detector hypothesis and sigma tests as environment inputs, explicit error state for undefined steps) model-checked with TLC; TLC-simulated behaviours replayed into the real AimdRateControl and RateCounter; arrival histories executed on the real RemoteBitrateEstimator.add judged by TraceRemb.tla (TLC trace validation)",
    text="Exhaustive TLC check for small constants that the rate counter's total is the sum over exactly the packets of the last window, that the AIMD automaton's estimate is a non-negative encodable integer, never rises above max(previous, floor(1.5 thr) + 10000), is at most round(0.85 thr) on over-use and that no step divides by zero; conformance of the real estimator at real sizes: every call of RemoteBitrateEstimator.add on seeded arrival histories is judged by the same clauses (never raises, integer, REMB-encodable, SSRC list, both bounds, exact 1000 ms window).",
    note="Trusted: TLC, the harness' reading of the estimator's public attributes (incoming_bitrate, detector.state()) and of RateCounter._total for the window clause, pack_remb_fci for encodability. The Kalman filter / threshold adaptation are floating point and outside the model: they appear only as the logged hypothesis; 'never raises' is observed on the code. Conformance is sampled; the design check is exhaustive within the stated constants.",
    design_ref="5/C15")

import copy  # noqa: E402
import json  # noqa: E402
import math  # noqa: E402
import time as _time  # noqa: E402
from concurrent.futures import ThreadPoolExecutor  # noqa: E402

from . import common  # noqa: F401,E402  (sets sys.path for aiortc)
from .common import Report, rng, seed, tier  # noqa: E402
from . import tlc as T  # noqa: E402

SAT = (1 << 31) - 1
MEAS_SAT = (1 << 29) - 1
JAVA_OPTS = ["-XX:ParallelGCThreads=4"]

CFG = """SPECIFICATION %(spec)s
CONSTANTS
 W = %(W)d
 Scale = 8000
 Sizes = %(sizes)s
 Gaps = %(gaps)s
 Ssrcs = %(ssrcs)s
 ThrSet = %(thr)s
 MaxOps = %(n)d
 RembMax = 1073741824
 Deviations = %(dev)s
%(view)s
CHECK_DEADLOCK FALSE
%(inv)s
"""

RATE_INV = ["WindowExact", "BucketsSum", "MeasureDefined", "SsrcExact"]
AIMD_INV = ["EstimateEncodable", "RiseBound", "OveruseBound", "NoError"]
RATE_WIT = ["WitnessNothingExpires", "WitnessNoReset", "WitnessNoMeasure", "WitnessZeroRate"]
AIMD_WIT = ["WitnessNoAdditive", "WitnessNoDecrease", "WitnessNoInit", "WitnessNoClamp", "WitnessNeverZero"]

BASE = dict(W=4, sizes="{0, 2}", gaps="{0, 1, 3, 4, 5}", ssrcs="{1}", thr="{0}", n=5, dev="{}", view="VIEW View")
RATE_Q = dict(BASE, spec="SpecRate", n=5)
RATE_T = dict(BASE, spec="SpecRate", n=6, gaps="{0, 1, 4, 5}")
RATE_S = dict(BASE, spec="SpecRate", n=4, ssrcs="{1, 2, 3}", sizes="{1}", gaps="{0, 5}")     # SSRC table
AIMD_Q = dict(BASE, spec="SpecAimd", gaps="{0, 600, 3001}", thr="{0, 1000, 1000000}", n=4)
AIMD_T = dict(BASE, spec="SpecAimd", gaps="{0, 600, 3001}", thr="{0, 1000, 1000000}", n=5)

SIM_AIMD = dict(BASE, spec="SpecAimd", view="", gaps="{0, 1, 100, 501, 600, 1000, 3001}",
                thr="{0, 1, 999, 3200, 30000, 250000, 1000000, 2500000, 30000000, 400000000}", n=40)
SIM_RATE = dict(BASE, spec="SpecRate", view="", W=20, sizes="{0, 1, 700, 1500}",
                gaps="{0, 1, 2, 5, 19, 20, 21, 45}", ssrcs="{1, 2}", n=40)

TRACE_CFG = """SPECIFICATION TraceSpec
CONSTANTS
 W = 1
 Scale = 8000
 Sizes = {}
 Gaps = {}
 Ssrcs = {}
 ThrSet = {}
 MaxOps = 0
 RembMax = 1073741824
 Deviations = {}
CHECK_DEADLOCK FALSE
"""


def cfg(params, inv=()):
    d = dict(params)
    d["inv"] = "\n".join("INVARIANT " + i for i in inv)
    return CFG % d


# --------------------------------------------------------------------------- executing histories


def ast_of(send_ms, origin):
    """24-bit abs-send-time (6.18 fixed point seconds) of a send time in ms."""
    return (origin + int(round(send_ms * (1 << 18) / 1000.0))) & 0xFFFFFF


def execute(hist):
    """hist = {a0, ssrcs: [..], pkts: [[t, ast, size, s], ...]}: arrival ms relative to a0
    (non-decreasing), 24-bit abs-send-time, payload size, SSRC number 1..  -> recorded trace."""
    from aiortc.rate import RemoteBitrateEstimator
    from aiortc import rtp
    est = RemoteBitrateEstimator()
    controller = getattr(est, "rate_control", None)
    if controller is None or not callable(getattr(controller, "update", None)):
        raise T.MachineryError("cannot observe RemoteBitrateEstimator.rate_control.update")
    calls = []
    real_update = controller.update

    def spy(bandwidth_usage, estimated_throughput, now_ms):
        calls.append((bandwidth_usage, estimated_throughput))
        return real_update(bandwidth_usage, estimated_throughput, now_ms)
    controller.update = spy
    a0 = int(hist["a0"])
    ssrcs = hist["ssrcs"]
    index = {v: i + 1 for i, v in enumerate(ssrcs)}
    steps = []
    for t, ast, size, s in hist["pkts"]:
        now = a0 + t
        ev = {"op": "add", "t": t, "size": size, "s": s, "exc": 0, "meas": -1, "ctl": -1, "tot": -1, "hyp": "N",
              "rep": 0, "res": -1, "isint": 1, "enc": 1, "list": []}
        del calls[:]
        try:
            res = est.add(arrival_time_ms=now, abs_send_time=ast, payload_size=size, ssrc=ssrcs[s - 1])
        except Exception as e:  # noqa: BLE001 - the property: never raises
            ev["exc"] = 1
            ev["error"] = "%s: %s" % (type(e).__name__, e)
            steps.append(ev)
            break
        counter = getattr(est, "incoming_bitrate", None)
        total = getattr(getattr(counter, "_total", None), "value", None)
        detector = getattr(est, "detector", None)
        if counter is None or total is None or detector is None:
            raise T.MachineryError("cannot observe RemoteBitrateEstimator.incoming_bitrate/_total/detector")
        m = counter.rate(now)
        ev["meas"] = -1 if m is None else max(0, min(int(m), MEAS_SAT))
        ev["tot"] = min(int(total), SAT)
        ev["hyp"] = detector.state().name[0]
        if calls:
            usage, given = calls[-1]
            ev["hyp"] = usage.name[0]
            if given is not None:
                ev["ctl"] = max(0, min(int(given), MEAS_SAT))
        if res is not None:
            ev["rep"] = 1
            try:
                val, lst = res
            except Exception:  # noqa: BLE001
                val, lst = res, []
            isint = isinstance(val, int) and not isinstance(val, bool)
            ev["isint"] = 1 if isint else 0
            if isint:
                ev["res"] = max(-SAT, min(val, SAT))
            elif isinstance(val, float) and math.isfinite(val):
                ev["res"] = max(-SAT, min(int(val), SAT))
            else:
                ev["res"] = SAT
            try:
                data = rtp.pack_remb_fci(val, list(lst))
                back, _ = rtp.unpack_remb_fci(data)
                ev["enc"] = 1 if 0 <= back <= val else 0
            except Exception as e:  # noqa: BLE001
                ev["enc"] = 0
                ev["error"] = "pack_remb_fci: %s: %s" % (type(e).__name__, e)
            ev["list"] = [index.get(x, 0) for x in lst]
        steps.append(ev)
    return {"skip": [], "steps": steps}


# --------------------------------------------------------------------------- histories


class Net:
    """A sender clock and a one-way delay that the phases move; produces packets."""

    def __init__(self, r, k, origin):
        self.r = r
        self.k = k
        self.origin = origin
        self.send = 0.0
        self.delay = float(r.choice([0, 5, 40, 200]))
        self.last_arr = 0
        self.pkts = []

    def emit(self, size, s=None, ast=None):
        arr = int(round(self.send + self.delay))
        if arr < self.last_arr:
            arr = self.last_arr
        self.last_arr = arr
        self.pkts.append([arr, ast_of(self.send, self.origin) if ast is None else ast, size,
                          s if s is not None else self.r.randint(1, self.k)])

    def phase(self, dur_ms, interval, sizes, slope=0.0, noise=0.0, burst=1):
        """Send for dur_ms: every `interval` ms a burst of `burst` packets; the one-way delay
        changes by slope ms per ms of send time (+ uniform noise)."""
        end = self.send + dur_ms
        r = self.r
        while self.send < end and len(self.pkts) < 4000:
            for _ in range(burst):
                self.emit(sizes())
            step = interval * (1 + (r.random() - 0.5) * 0.2)
            self.send += step
            self.delay = max(0.0, self.delay + slope * step + (r.random() - 0.5) * noise)

    def idle(self, ms):
        self.send += ms


def gen_history(r, klass):
    k = 40 if klass == "manyssrc" else r.choice([1, 1, 2, 3, 4])
    ssrcs = []
    while len(ssrcs) < k:
        v = r.choice([0xFFFFFFFF - len(ssrcs), 1 + len(ssrcs), r.randrange(1 << 32)])
        if v not in ssrcs:
            ssrcs.append(v)
    # abs-send-time origin: half of the histories start a few seconds before the 24-bit wrap
    origin = (1 << 24) - r.randint(1, 8 << 18) if r.random() < 0.5 else r.randrange(1 << 24)
    a0 = r.choice([0, 1, 1700000000000, (1 << 40) + 12345])
    net = Net(r, k, origin)
    big = lambda: r.choice([1200, 1200, 1500, 800, r.randint(0, 1500)])       # noqa: E731
    small = lambda: r.randint(0, 200)                                          # noqa: E731
    zero = lambda: 0                                                           # noqa: E731
    anysize = lambda: r.randint(0, 1500)                                       # noqa: E731
    if klass == "steady":
        iv = r.choice([2, 5, 10, 20, 33])
        net.phase(r.randint(6000, 14000), iv, big, noise=r.choice([0, 1, 4]))
    elif klass in ("overuse", "manyssrc"):
        iv = r.choice([5, 10, 20])
        net.phase(r.randint(3500, 6000), iv, big, noise=1)
        for _ in range(r.randint(1, 3)):
            net.phase(r.randint(400, 2500), iv, big, slope=r.choice([0.05, 0.2, 0.5, 1.0, 2.0]), noise=1)
            net.phase(r.randint(300, 3000), iv, big, slope=-r.choice([0.0, 0.05, 0.3]), noise=1)
            net.phase(r.randint(500, 3000), iv, big, noise=1)
    elif klass == "ratechange":
        iv = r.choice([5, 10, 20])
        net.phase(r.randint(4000, 7000), iv, big, noise=1)
        for _ in range(r.randint(2, 4)):
            iv2 = r.choice([2, 5, 10, 40, 100, 250])
            net.phase(r.randint(1500, 5000), iv2, r.choice([big, small, anysize]), noise=1,
                      slope=r.choice([0, 0, 0.3]))
    elif klass == "bursty":
        for _ in range(r.randint(3, 8)):
            net.phase(r.randint(500, 3000), r.choice([20, 50, 100, 400]), anysize, noise=2,
                      burst=r.choice([1, 3, 8, 20]))
            if r.random() < 0.4:
                net.idle(r.randint(900, 1200))
    elif klass == "idle":
        for _ in range(r.randint(2, 5)):
            net.phase(r.randint(300, 4500), r.choice([5, 10, 30]), big, noise=1, slope=r.choice([0, 0, 0.4]))
            net.idle(r.choice([999, 1000, 1001, 1500, r.randint(1001, 9000)]))
    elif klass == "trickle":
        # a few hundred bytes per second on a path whose queue grows, then empty packets
        n1, n0 = r.randint(7, 12), r.randint(1, 6)
        siv, aiv = r.choice([50, 100, 200]), r.choice([800, 1000, 1200])
        size = r.choice([0, 100, 300, 400, 450, 600])
        for _ in range(n1):
            net.emit(size)
            net.send += siv
            net.delay += aiv - siv
        for _ in range(n0):
            net.emit(0)
            net.send += siv
            net.delay += aiv - siv
        drain = r.choice([300, 400, 600])
        for _ in range(r.randint(10, 40)):
            net.emit(r.choice([0, 0, 0, size]))
            net.send += 1000
            net.delay = max(0.0, net.delay - drain)
        net.phase(r.randint(1000, 8000), r.choice([500, 1000]), zero)
    elif klass == "garbage":
        t = 0
        for _ in range(r.randint(200, 1500)):
            t += r.choice([0, 0, 1, 1, 2, 5, 17, 100, 499, 500, 501, 999, 1000, 1001, r.randint(0, 3000)])
            net.pkts.append([t, r.randrange(1 << 24), r.choice([0, 1, 1500, r.randint(0, 1500)]),
                             r.randint(1, k)])
    else:
        raise ValueError(klass)
    pkts = net.pkts[:4000]
    if klass == "manyssrc":
        for i, p in enumerate(pkts):
            p[3] = 1 + (i * 7) % k if i < 200 else r.randint(1, k)
    return {"a0": str(a0), "ssrcs": ssrcs, "pkts": _limit_rate(pkts)}


def _limit_rate(pkts):
    """Keep the measured rate representable (< 2^29 bit/s): at most 32 packets per millisecond."""
    out, cnt, cur = [], 0, None
    for p in pkts:
        if p[0] != cur:
            cur, cnt = p[0], 0
        cnt += 1
        if cnt <= 32:
            out.append(p)
    return out


def fixed_histories():
    hs = []
    # 8 x 400 bytes and 3 empty packets sent 100 ms apart arriving 1000 ms apart (queue grows),
    # then empty packets sent 1000 ms apart arriving 600 ms apart (queue drains)
    pk = []
    s = a = 0
    for i in range(8):
        pk.append([a, ast_of(s, 0), 400, 1]); s += 100; a += 1000    # noqa: E702
    for i in range(3):
        pk.append([a, ast_of(s, 0), 0, 1]); s += 100; a += 1000      # noqa: E702
    for i in range(30):
        pk.append([a, ast_of(s, 0), 0, 1]); s += 1000; a += 600      # noqa: E702
    for i in range(20):
        pk.append([a, ast_of(s, 0), 0, 1]); s += 1000; a += 1000     # noqa: E702
    hs.append(("fixed-trickle-then-empty", {"a0": "0", "ssrcs": [1234], "pkts": pk}))
    # window boundary: packets exactly 999, 1000 and 1001 ms apart
    pk = []
    a = 0
    for i, gap in enumerate([0, 999, 1, 1, 998, 1000, 1001, 5, 994, 1, 0, 0, 999, 1000, 2, 997] * 4):
        a += gap
        pk.append([a, ast_of(a, (1 << 24) - 300000), 100 + i, 1 + i % 2])
    hs.append(("fixed-window-boundary", {"a0": "1700000000000", "ssrcs": [0xFFFFFFFF, 7], "pkts": pk}))
    return hs


# --------------------------------------------------------------------------- lock-step


def lockstep_aimd(behs):
    """Replay SpecAimd behaviours into a real AimdRateControl.  The sigma-test outcome the model
    chose is forced through avg_max_bitrate_kbps, the model's choice inside the allowed interval
    of a multiplicative step is written back into current_bitrate."""
    from aiortc.rate import AimdRateControl, BandwidthUsage, RateControlState
    HYP = {"NORMAL": BandwidthUsage.NORMAL, "UNDER": BandwidthUsage.UNDERUSING, "OVER": BandwidthUsage.OVERUSING}
    agree = {}
    crashes = []
    first_div = None
    steps = 0

    def cmp(name, ok):
        a = agree.setdefault(name, [0, 0])
        a[0] += 1
        a[1] += 1 if ok else 0
        return ok

    for bi, beh in enumerate(behs):
        rc = AimdRateControl()
        now = 1000
        for _, st in beh[1:]:
            a = st["act"]
            if a.get("op") != "update":
                continue
            steps += 1
            now += a["dt"]
            thr = None if a["thr"] == -1 else a["thr"]
            tk = (thr if thr is not None else rc.latest_estimated_throughput) / 1000
            if rc.avg_max_bitrate_kbps is not None:
                # steer the sigma tests (environment inputs of the model)
                if a["hyp"] == "NORMAL":
                    rc.avg_max_bitrate_kbps = 0.0 if a["sigHi"] and tk > 0 else 4 * tk + 1000
                    if a["sigHi"] and tk == 0:
                        rc.avg_max_bitrate_kbps = 0.0
                elif a["hyp"] == "OVER":
                    rc.avg_max_bitrate_kbps = (4 * tk + 1000) if a["sigLo"] else max(tk, 0.001)
            try:
                res = rc.update(HYP[a["hyp"]], thr, now)
                exc = None
            except Exception as e:  # noqa: BLE001
                res, exc = None, e
            ok = True
            ok &= cmp("raises", (exc is not None) == bool(a["err"]))
            if exc is not None:
                crashes.append({"behaviour": bi, "act": a, "error": "%s: %s" % (type(exc).__name__, exc)})
                if not a["err"] and first_div is None:
                    first_div = {"behaviour": bi, "act": a, "code": repr(exc)}
                break
            if a["err"]:
                if first_div is None:
                    first_div = {"behaviour": bi, "act": a, "code": "no exception, result %r" % (res,)}
                break
            ok &= cmp("result_defined", (res is None) == (a["res"] == -1))
            if res is not None and a["res"] != -1:
                ok &= cmp("result_in_model_interval", a["lo"] <= res <= a["hi"])
            ok &= cmp("state", rc.state.name == a["st"])
            ok &= cmp("near_max", rc.near_max == a["nearMax"])
            ok &= cmp("initialized", rc.current_bitrate_initialized == a["initd"])
            ok &= cmp("avg_max_set", (rc.avg_max_bitrate_kbps is not None) == a["avgSet"])
            if not ok and first_div is None:
                first_div = {"behaviour": bi, "act": a,
                             "code": {"res": res, "state": rc.state.name, "near_max": rc.near_max,
                                      "initialized": rc.current_bitrate_initialized,
                                      "avg_max": rc.avg_max_bitrate_kbps, "current": rc.current_bitrate}}
            if not ok:
                break
            rc.current_bitrate = a["cur"]       # the model's choice inside [lo, hi]
            _ = RateControlState
    return {"steps": steps, "agreement": {k: "%d/%d" % (v[1], v[0]) for k, v in sorted(agree.items())},
            "first_divergence": first_div, "model_error_steps_reproduced": len(crashes),
            "crash_sample": crashes[:2]}


def lockstep_rate(behs, window):
    """Replay SpecRate behaviours into a real RateCounter(window, 8000) (the three lines of
    RemoteBitrateEstimator.add around it are repeated here)."""
    from aiortc.rate import RateCounter
    agree = {}
    first_div = None
    steps = 0

    def cmp(name, ok):
        a = agree.setdefault(name, [0, 0])
        a[0] += 1
        a[1] += 1 if ok else 0
        return ok

    for bi, beh in enumerate(behs):
        rc = RateCounter(window, 8000)
        ini = True
        for _, st in beh[1:]:
            a = st["act"]
            if a.get("op") != "arrive":
                continue
            steps += 1
            now = a["t"]
            if rc.rate(now) is not None:
                ini = True
            elif ini:
                rc.reset()
                ini = False
            rc.add(a["v"], now)
            m = rc.rate(now)
            ok = cmp("rate", (-1 if m is None else m) == a["rate"])
            tot = getattr(getattr(rc, "_total", None), "value", None)
            cnt = getattr(getattr(rc, "_total", None), "count", None)
            if tot is not None:
                ok &= cmp("total", tot == a["total"])
                ok &= cmp("count", cnt == a["count"])
            if not ok and first_div is None:
                first_div = {"behaviour": bi, "act": a, "code": {"rate": m, "total": tot, "count": cnt}}
    return {"steps": steps, "agreement": {k: "%d/%d" % (v[1], v[0]) for k, v in sorted(agree.items())},
            "first_divergence": first_div}


# --------------------------------------------------------------------------- judging


def classify(hist, trace, clause, pos):
    """Input class of a rejected trace (part of the known-finding signature)."""
    ev = trace["steps"][pos - 1]
    if clause == "C15.raised":
        err = ev.get("error", "")
        # the estimate had been cut to 0 (measured throughput 0 under over-use) before the call
        prev = [s for s in trace["steps"][:pos - 1] if s.get("rep") == 1]
        if err.startswith("ZeroDivisionError") and prev and prev[-1]["res"] == 0:
            return "zero_division_after_estimate_0"
        return "other:" + err.split(":")[0]
    return "other"


def slim(trace):
    steps = [{k: v for k, v in s.items() if k != "error"} for s in trace["steps"]]
    return {"id": trace["id"], "skip": trace["skip"], "steps": steps}


def judge(sc, rep, items):
    val, verdicts = T.validate_traces(sc, "TraceRemb", TRACE_CFG, [slim(t) for t, _ in items], timeout=2400)
    if len(verdicts) != len(items):
        raise T.MachineryError("trace validation incomplete: %d of %d verdicts\n%s"
                               % (len(verdicts), len(items), val.out[-2500:]))
    more = {}
    for f in val.printed("FAIL"):
        more.setdefault(f[1], []).append((f[2], f[3]))
    for t, h in items:
        v, pos = verdicts[t["id"]]
        if v == "ok":
            continue
        if v.startswith("machinery"):
            raise T.MachineryError("trace %s (%s): %s at %d" % (t["id"], t.get("src"), v, pos))
        for clause, cpos in more.get(t["id"]) or [(v, pos)]:
            cls = classify(h, t, clause, cpos)
            lo = max(0, cpos - 4)
            rep.violation(clause, {"class": cls}, {"class": cls, "position": cpos, "steps": t["steps"][lo:cpos],
                                                   "source": t.get("src")}, {"history": h, "trace_tail": t["steps"][lo:cpos]})
    return verdicts, val.distinct


def _count(first):
    c = {}
    for v, _ in first.values():
        c[v] = c.get(v, 0) + 1
    return c


# --------------------------------------------------------------------------- run


def run():
    rep = Report("C15")
    thorough = tier() == "thorough"
    r = rng(15)
    phases = {}
    t_ph = [_time.time()]

    def phase(name):
        now = _time.time()
        phases[name] = round(now - t_ph[0], 1)
        t_ph[0] = now
    try:
        with T.Scratch() as sc:
            # 1. design level ------------------------------------------------------
            cfgs = {"rate": RATE_T if thorough else RATE_Q, "ssrc": RATE_S, "aimd": AIMD_T if thorough else AIMD_Q}
            jobs = []
            for name, p in cfgs.items():
                inv = (AIMD_INV if name == "aimd" else RATE_INV) + ["WitnessProbe"]
                jobs.append((("exh", name), None, cfg(p, inv)))
            jobs.append((("wit", "WitnessNoAdditive"), "WitnessNoAdditive", cfg(AIMD_Q, ["WitnessNoAdditive"])))
            jobs.append((("dev", "WindowOffByOne"), "WindowExact",
                         cfg(dict(RATE_Q, dev='{"WindowOffByOne"}'), RATE_INV)))
            jobs.append((("dev", "NearMaxDivZero"), "NoError",
                         cfg(dict(AIMD_Q, dev='{"NearMaxDivZero"}'), AIMD_INV)))
            # concurrent TLC runs must not share a cfg file name: one renamed module copy per job
            jobs = [j + (_module_copy(sc, "%s_%s" % j[0]),) for j in jobs]

            def side(job):
                key, expect, text, mod = job
                if key[0] == "exh":
                    return key, None, T.tlc(sc, mod, text, workers=8, args=["-coverage", "1"], timeout=3000,
                                            java_opts=JAVA_OPTS)
                res = T.tlc(sc, mod, text, workers=2, timeout=900, java_opts=JAVA_OPTS)
                return key, expect in res.violated, res
            with ThreadPoolExecutor(max_workers=len(jobs)) as pool:
                results = list(pool.map(side, jobs))
            exh = {}
            seen_witness = set()
            for (kind, what), ok, res in results:
                if kind == "exh":
                    if not res.complete or res.violated:
                        raise T.MachineryError("design model Remb (%s) failed: %s\n%s"
                                               % (what, res.violated, res.out[-2500:]))
                    ac = _action_counts(res)
                    need = "NextAimd" if what == "aimd" else "Arrive"
                    if ac.get(need, (0, 0))[1] == 0:
                        raise T.MachineryError("action %s never taken in config %s" % (need, what))
                    seen_witness |= {w[1] for w in res.printed("WITNESS")}
                    exh[what] = res
                elif not ok:
                    raise T.MachineryError("%s %s: expected violation did not occur\n%s"
                                           % (kind, what, res.out[-1500:]))
            missing = sorted(set(RATE_WIT + AIMD_WIT) - seen_witness)
            if missing:
                raise T.MachineryError("vacuity: witnesses never violated in the exhaustive runs: %s" % missing)
            phase("tlc_design")

            # 2. spec -> code ---------------------------------------------------------
            nsim = 400 if thorough else 80
            known_classes = {k["signature"].get("class") for k in rep.known}
            dev = '{"NearMaxDivZero"}' if "zero_division_after_estimate_0" in known_classes else "{}"
            sim_a, behs_a = _simulate(sc, cfg(dict(SIM_AIMD, dev=dev)), "sim_aimd", nsim, 41)
            sim_r, behs_r = _simulate(sc, cfg(SIM_RATE), "sim_rate", nsim, 41)
            if not behs_a or not behs_r:
                raise T.MachineryError("no simulated behaviours\n" + sim_a.out[-1500:] + sim_r.out[-1500:])
            lock_a = lockstep_aimd(behs_a)
            lock_r = lockstep_rate(behs_r, SIM_RATE["W"])
            phase("simulate_and_lockstep")

            # 3. code -> spec ------------------------------------------------------------
            items = []
            for name, h in fixed_histories():
                tr = execute(h)
                tr["id"] = len(items) + 1
                tr["src"] = name
                items.append((tr, h))
            classes = ["steady", "overuse", "ratechange", "bursty", "idle", "trickle", "garbage", "overuse",
                       "ratechange", "trickle"]
            nrand = 300 if thorough else 90
            for i in range(nrand):
                klass = "manyssrc" if i % 30 == 11 else classes[i % len(classes)]
                h = gen_history(r, klass)
                tr = execute(h)
                tr["id"] = len(items) + 1
                tr["src"] = "random-" + klass
                items.append((tr, h))
            phase("random_histories")
            first, tstates = judge(sc, rep, items)
            phase("trace_validation")
            nest = sum(1 for t, _ in items for s in t["steps"] if s["rep"])
            nover = sum(1 for t, _ in items for s in t["steps"] if s["rep"] and s["hyp"] == "O")
            nmeas = sum(1 for t, _ in items for s in t["steps"] if s["meas"] != -1)
            if nest == 0 or nover == 0 or nmeas == 0:
                raise T.MachineryError("histories produced no estimate / no over-use / no measurement (%d/%d/%d)"
                                       % (nest, nover, nmeas))

            # 4. binding self-test ----------------------------------------------------------
            bind = {}
            tests = []
            for t, _ in items:
                if first[t["id"]][0] != "ok":
                    continue
                st = t["steps"]
                i_rep = [i for i, s in enumerate(st) if s["rep"] and i > 0 and any(x["rep"] for x in st[:i])]
                i_over = [i for i, s in enumerate(st) if s["rep"] and s["hyp"] == "O" and s["meas"] > 1000]
                i_meas = [i for i, s in enumerate(st) if s["meas"] != -1]
                if not (i_rep and i_over and i_meas):
                    continue

                def mutated(idx, **kw):
                    b = copy.deepcopy(slim(t))
                    b["id"] = len(tests) + 1
                    b["steps"] = b["steps"][:idx + 1]
                    b["steps"][idx].update(kw)
                    return b
                s = st[i_rep[-1]]
                thr = max(max(x["meas"], x["ctl"]) for x in st[:i_rep[-1] + 1])
                tests.append(("C15.rise_bound", mutated(i_rep[-1], res=min(SAT, max(s["res"], 3 * thr) + 20000))))
                s = st[i_over[0]]
                tests.append(("C15.overuse_bound", mutated(i_over[0], res=max(s["meas"], s["ctl"],
                                                                              max(x["ctl"] for x in st[:i_over[0] + 1])))))
                tests.append(("C15.window", mutated(i_meas[-1], tot=st[i_meas[-1]]["tot"] + 1)))
                tests.append(("C15.ssrcs", mutated(i_rep[0], list=st[i_rep[0]]["list"] + [0])))
                tests.append(("C15.integer", mutated(i_rep[0], isint=0)))
                tests.append(("C15.encodable", mutated(i_rep[0], enc=0)))
                tests.append(("C15.raised", mutated(i_meas[0], exc=1)))
                break
            if not tests:
                raise T.MachineryError("binding self-test: no accepted trace with estimate, over-use and measurement")
            _, bv = T.validate_traces(sc, "TraceRemb", TRACE_CFG, [t for _, t in tests], timeout=600)
            for clause, t in tests:
                got = bv.get(t["id"], ("?", 0))[0]
                bind[clause] = got
                if got != clause:
                    if any(v[0] != "ok" for v in first.values()):
                        # the tree under test already violates clauses: its measurements shift which
                        # clause a hand-corrupted trace trips first; the self-test is only binding on
                        # a tree whose own traces are all accepted
                        bind[clause] = got + " (not enforced: recorded traces of this tree are rejected)"
                        continue
                    raise T.MachineryError("binding self-test: corrupted trace judged %r, expected %r" % (got, clause))
            phase("binding")

        rep.coverage = {
            "states": sum(e.distinct for e in exh.values()),
            "transitions": sum(e.generated for e in exh.values()),
            "exhaustive": True,
            "configs": {k: {"states": e.distinct, "transitions": e.generated, "depth": e.depth,
                            "wall_s": round(e.wall, 1),
                            "constants": {c: cfgs[k][c] for c in ("W", "sizes", "gaps", "ssrcs", "thr", "n")},
                            "action_coverage": {a: v[1] for a, v in _action_counts(e).items()}}
                        for k, e in exh.items()},
            "invariants": {"rate": RATE_INV, "aimd": AIMD_INV},
            "witnesses_violated": sorted(RATE_WIT + AIMD_WIT),
            "deviations_caught": {"WindowOffByOne": "WindowExact", "NearMaxDivZero": "NoError"},
            "lockstep_deviations": dev,
            "lockstep_behaviours": len(behs_a) + len(behs_r),
            "lockstep_steps": lock_a["steps"] + lock_r["steps"],
            "lockstep_aimd": lock_a, "lockstep_rate": lock_r,
            "traces_validated_against_impl": len(items),
            "trace_events_validated": sum(len(t["steps"]) for t, _ in items),
            "estimates_reported_by_code": nest, "estimates_under_overuse": nover, "measurements": nmeas,
            "trace_validation_states": tstates,
            "traces_first_verdict": _count(first),
            "binding_selftest": bind,
            "phase_wall_s": phases,
            "samples": [items[0][0]["steps"][4:8], items[-1][0]["steps"][:4]],
        }
        rep.assumptions = [
            "observations: incoming_bitrate.rate(t) after add() is the latest measurement, incoming_bitrate._total.value the bytes it was computed from; a wrapper around rate_control.update records the hypothesis and the throughput the controller was given (detector.state() if it was not called)",
            "'latest measured incoming bitrate' = the larger of the latest measurement made and the latest one handed to the controller (the text does not say which)",
            "histories keep the measured rate below 2^29 bit/s (at most 32 packets per millisecond) so that TLC integers suffice; arrival times are logged relative to the first arrival",
            "the first estimate of a history has no rise bound (no previous estimate is observable); bounds use the latest non-None measurement",
            "'REMB can encode' = pack_remb_fci accepts the value and unpack gives back at most the value; SSRC lists are limited to 40 SSRCs (the REMB count field has 8 bits)",
            "Kalman filter, threshold adaptation, running mean/variance of the max bitrate: not modelled (environment inputs of SpecAimd); their 'never raises' aspect is observed on the code only",
        ]
        return rep.finish()
    except T.MachineryError as e:
        return rep.finish(machinery_error=e)


def _action_counts(res):
    """Per-action distinct/total counts from `-coverage` (sub-actions carry a location suffix)."""
    import re
    out = {}
    for m in re.finditer(r"^<(\w+) line \d+, col \d+ to line \d+, col \d+ of module \w+(?: \([\d ]+\))?>: (\d+):(\d+)",
                         res.out, re.M):
        out[m.group(1)] = (int(m.group(2)), int(m.group(3)))
    return out


_copy_counter = [0]


def _module_copy(sc, tag):
    """A renamed copy of Remb.tla so that concurrent TLC runs do not share a cfg file name."""
    import os
    import re
    _copy_counter[0] += 1
    name = "Remb_%s_%d" % (re.sub(r"\W", "_", tag), _copy_counter[0])
    text = open(os.path.join(sc.dir, "Remb.tla")).read()
    text = re.sub(r"^-+ MODULE Remb -+", "---- MODULE %s ----" % name, text, count=1, flags=re.M)
    sc.write(name + ".tla", text)
    return name


def _simulate(sc, text, tag, num, depth):
    name = _module_copy(sc, tag)
    return T.simulate(sc, name, text, num=num, depth=depth, seed=seed(), timeout=900, workers=8)


def replay(path):
    obj = json.load(open(path))
    h = obj["replay"]["history"]
    tr = execute(h)
    tr["id"] = 1
    with T.Scratch() as sc:
        val, v = T.validate_traces(sc, "TraceRemb", TRACE_CFG, [slim(tr)])
    verdict, pos = v.get(1, ("machinery", 0))
    if verdict == "ok":
        print("replay: trace accepted on the current tree")
        return 0
    if verdict.startswith("machinery"):
        print("MACHINERY-ERROR property=C15 replay verdict %s" % verdict)
        return 2
    print("VIOLATION property=C15 replay=%s clause=%s class=%s step=%s" % (
        path, verdict, classify(h, tr, verdict, pos), tr["steps"][pos - 1]))
    return 1
