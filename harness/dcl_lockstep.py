"""spec -> code for the channel lifecycle model: behaviours of DcLifecycle.tla (tlc -simulate)
are replayed action by action into a real pair of RTCSctpTransport objects (harness/sctp_env.py)
and the model's variables are compared with their projection from the code after every step.

Mapping of the model's actions (the `act` history variable carries the parameters):
  establish B   deliver INIT, INIT-ACK, COOKIE-ECHO        establish A   deliver COOKIE-ACK
  create e      RTCDataChannel(transport_e, label "o<n>")   send e o      channel.send()
  flush e       the _data_channel_flush task scheduled by _data_channel_open/_send/_set_state runs
  close e o     channel.close()
  data e        the oldest DATA datagram of the peer is delivered to e, the SACK goes straight back
  reconfig m    the RE-CONFIG datagram carrying request / response m is delivered
  lose m        ... is dropped                      retx e   the requester's RE-CONFIG timer fires
  end e         transport_e.stop(); its ABORT is lost (the peer ends by its own `end`)
The flush tasks are the only scheduling freedom the model has inside one endpoint: the harness
wraps the INSTANCE attribute `_data_channel_flush` so that calls made on behalf of
asyncio.ensure_future (from _data_channel_open, _data_channel_send, _set_state) wait for a gate
the replay opens at the model's `flush` / `establish` step; awaited (inline) calls pass.
Nothing in /repo is touched.
"""
import asyncio
import sys

from . import common  # noqa: F401
from .sctp_env import STATES, Env

NOID = -1
SCHEDULED_FROM = ("_set_state", "_data_channel_open", "_data_channel_send")


def _fn(v):
    """TLC prints a function with domain 1..n as a tuple and others as (k :> v @@ ...)."""
    if isinstance(v, dict):
        return {int(k) if not isinstance(k, int) and str(k).lstrip("-").isdigit() else k: x for k, x in v.items()}
    if isinstance(v, (list, tuple)):
        return {i + 1: x for i, x in enumerate(v)}
    return v


class DclLockStep:
    def __init__(self):
        self.env = Env(origin_a=1000, origin_b=2000)
        env = self.env
        self.real = {}        # model object number -> channel object
        self.info = {}        # number -> dict(owner, remote, pair, nopen, nclose, tok)
        self.by_obj = {}      # id(channel) -> number
        self.down = set()
        self.gate = {}
        self.nreq0 = {e: env.ep[e]._reconfig_request_seq for e in "AB"}
        self.steps = 0
        self.matched = 0
        self.mismatch = None
        self.acts = []
        self.unjudged = False
        for e in "AB":
            self._install_gate(e)
            env.ep[e].on("datachannel", self._mk_on_dc(e))
        env.start("AB")

    # ------------------------------------------------------------------ scheduling gate
    def _install_gate(self, e):
        ep = self.env.ep[e]
        orig = ep._data_channel_flush          # bound method of the real class
        ev = asyncio.Event()
        self.gate[e] = ev

        def flush():
            caller = sys._getframe(1).f_code.co_name
            if caller in SCHEDULED_FROM:
                async def gated():
                    await ev.wait()
                    await orig()
                return gated()
            return orig()
        ep._data_channel_flush = flush

    def _with_gate(self, e, fn):
        ev = self.gate[e]
        ev.set()
        try:
            return fn()
        finally:
            self.env.loop.drain()
            ev.clear()

    # ------------------------------------------------------------------ bookkeeping
    def _track(self, ch, owner, remote, pair, tok):
        n = len(self.real) + 1
        self.real[n] = ch
        self.by_obj[id(ch)] = n
        inf = {"owner": owner, "remote": remote, "pair": pair, "nopen": 1 if remote else 0, "nclose": 0, "tok": tok}
        self.info[n] = inf
        ch.on("open", lambda: inf.__setitem__("nopen", inf["nopen"] + 1))
        ch.on("close", lambda: inf.__setitem__("nclose", inf["nclose"] + 1))
        return n

    def _mk_on_dc(self, e):
        def on_dc(ch):
            try:
                src = int(ch.label[1:])
            except ValueError:
                src = 0
            n = self._track(ch, e, True, src, None)
            if src in self.info and self.info[src]["pair"] == 0:
                self.info[src]["pair"] = n
        return on_dc

    # ------------------------------------------------------------------ network helpers
    def _pkts(self, src, pred):
        S = self.env.S
        res = []
        for pkt in list(self.env.net):
            if pkt["src"] != src:
                continue
            try:
                chunks = S.parse_packet(pkt["data"])[3]
            except Exception:
                continue
            if chunks and pred(chunks):
                res.append(pkt)
        return res

    def _deliver_first(self, src, cls):
        p = self._pkts(src, lambda cs: isinstance(cs[0], cls))
        if not p:
            return False
        self.env.deliver(p[0])
        return True

    def _kind(self, protocol, data):
        S = self.env.S
        if protocol == S.WEBRTC_DCEP and data[:1] == b"\x03":
            return "OPEN"
        if protocol == S.WEBRTC_DCEP and data[:1] == b"\x02":
            return "ACK"
        return "MSG"

    def _find_reconfig(self, to, kind, ids, n):
        S = self.env.S
        src = Env.peer(to)
        for pkt in self._pkts(src, lambda cs: isinstance(cs[0], S.ReconfigChunk)):
            for ch in S.parse_packet(pkt["data"])[3]:
                for pid, pdata in ch.params:
                    cls = S.RECONFIG_PARAM_TYPES.get(pid) if hasattr(S, "RECONFIG_PARAM_TYPES") else None
                    if cls is None:
                        cls = {13: S.StreamResetOutgoingParam, 16: S.StreamResetResponseParam}.get(pid)
                    if cls is None:
                        continue
                    par = cls.parse(pdata)
                    if kind == "REQ" and isinstance(par, S.StreamResetOutgoingParam):
                        if sorted(par.streams) == sorted(ids) and (par.request_sequence - self.nreq0[src]) % 2 ** 32 + 1 == n:
                            return pkt
                    if kind == "RESP" and isinstance(par, S.StreamResetResponseParam):
                        if (par.response_sequence - self.nreq0[to]) % 2 ** 32 + 1 == n:
                            return pkt
        return None

    def _tok(self, n):
        """Env's token of model object n (Env pairs announced channels with their creator itself)."""
        tok = self.info[n]["tok"]
        if tok is None:
            tok = self.env.obj_token.get(id(self.real[n]), (None, None))[0]
        if tok is None:
            self.unjudged = True      # raw call below: the event recorder does not see it
        return tok

    # ------------------------------------------------------------------ actions
    def apply(self, act):
        env = self.env
        S = env.S
        op = act["op"]
        e = act.get("e")
        if op == "establish":
            if e == "B":
                ok = self._deliver_first("A", S.InitChunk) and self._deliver_first("B", S.InitAckChunk)
                return ok and self._with_gate("B", lambda: self._deliver_first("A", S.CookieEchoChunk))
            return self._with_gate("A", lambda: self._deliver_first("B", S.CookieAckChunk))
        if op == "create":
            n = len(self.real) + 1
            if n != act["o"]:
                return False
            tok = env.create(e, label="o%d" % n)
            if tok is None:
                return False
            self._track(env.chan[tok][e], e, False, 0, tok)
            return True
        if op == "send":
            ch = self.real.get(act["o"])
            if ch is None:
                return False
            tok = self._tok(act["o"])
            if tok is not None:
                return env.send(e, tok, 10, "bytes") is not None
            env.begin_step()             # a channel announced by the peer (not used by the model so far)
            ch.send(b"x" * 10)
            env.end_step()
            return True
        if op == "flush":
            def run():
                env.begin_step()
                env.end_step()
                return True
            return self._with_gate(e, run)
        if op == "close":
            ch = self.real.get(act["o"])
            if ch is None:
                return False
            tok = self._tok(act["o"])
            if tok is not None:
                env.close_channel(e, tok)
            else:
                env.begin_step()
                ch.close()
                env.end_step()
            return True
        if op == "data":
            p = Env.peer(e)
            pk = self._pkts(p, lambda cs: isinstance(cs[0], S.DataChunk))
            if not pk:
                return False
            env.deliver(pk[0])
            for s in self._pkts(e, lambda cs: isinstance(cs[0], S.SackChunk)):
                if p in self.down:
                    env.drop(s)
                else:
                    env.deliver(s)
            return True
        if op in ("reconfig", "lose"):
            pkt = self._find_reconfig(e, act["kind"], sorted(act["ids"]), act["n"])
            if pkt is None:
                return False
            if op == "lose":
                env.drop(pkt)
            else:
                env.deliver(pkt)
            return True
        if op == "retx":
            ts = [h for side, name, h in env.timers(e) if name == "_reconfig_timer_expired"]
            if not ts:
                return False
            env.fire(ts[0])
            return True
        if op == "end":
            env.stop(e)
            self.down.add(e)
            for a in self._pkts(e, lambda cs: isinstance(cs[0], S.AbortChunk)):
                env.drop(a)
            return True
        return False

    # ------------------------------------------------------------------ projection of the code's state
    def project(self):
        env = self.env
        P = {"obj": {}, "est": {}, "reg": {}, "dcq": {}, "fifo": {}, "rq": {}, "req": {}, "nreq": {}, "rdone": {}, "bag": set()}
        for n, ch in self.real.items():
            inf = self.info[n]
            P["obj"][n] = {"used": True, "owner": inf["owner"], "id": NOID if ch.id is None else ch.id,
                           "rs": STATES[ch.readyState], "remote": inf["remote"], "pair": inf["pair"],
                           "nopen": inf["nopen"], "nclose": inf["nclose"]}
        S = env.S
        for e in "AB":
            ep = env.ep[e]
            P["est"][e] = "down" if e in self.down else ("up" if ep._association_state == ep.State.ESTABLISHED else "new")
            P["reg"][e] = {sid: self.by_obj.get(id(ch), 0) for sid, ch in ep._data_channels.items()}
            P["dcq"][e] = [(self.by_obj.get(id(ch), 0), self._kind(pr, data)) for ch, pr, data in ep._data_channel_queue]
            P["fifo"][e] = [(c.stream_id, self._kind(c.protocol, c.user_data))
                            for c in list(ep._sent_queue) + list(ep._outbound_queue)]
            P["rq"][e] = list(ep._reconfig_queue)
            P["req"][e] = sorted(ep._reconfig_request.streams) if ep._reconfig_request is not None else []
            P["nreq"][e] = (ep._reconfig_request_seq - self.nreq0[e]) % 2 ** 32
            P["rdone"][e] = (ep._reconfig_response_seq - self.nreq0[Env.peer(e)] + 1) % 2 ** 32
        for pkt in env.net:
            try:
                chunks = S.parse_packet(pkt["data"])[3]
            except Exception:
                continue
            for ch in chunks:
                if not isinstance(ch, S.ReconfigChunk):
                    continue
                for pid, pdata in ch.params:
                    cls = {13: S.StreamResetOutgoingParam, 16: S.StreamResetResponseParam}.get(pid)
                    if cls is None:
                        continue
                    par = cls.parse(pdata)
                    to = Env.peer(pkt["src"])
                    if isinstance(par, S.StreamResetOutgoingParam):
                        P["bag"].add((to, "REQ", tuple(sorted(par.streams)), (par.request_sequence - self.nreq0[pkt["src"]]) % 2 ** 32 + 1))
                    else:
                        P["bag"].add((to, "RESP", None, (par.response_sequence - self.nreq0[to]) % 2 ** 32 + 1))
        return P

    def compare(self, state):
        """First difference between the model state and the code's projection (None: agreement)."""
        P = self.project()
        mobj = _fn(state["obj"])
        for n, mo in sorted(mobj.items()):
            if not mo["used"]:
                if n in P["obj"]:
                    return "obj[%d] unused in the model, exists in the code" % n
                continue
            co = P["obj"].get(n)
            if co is None:
                return "obj[%d] missing in the code (model %s)" % (n, mo)
            for k in ("owner", "id", "rs", "remote", "pair", "nopen", "nclose"):
                if mo[k] != co[k]:
                    return "obj[%d].%s model=%s code=%s" % (n, k, mo[k], co[k])
        for e in "AB":
            if state["est"][e] != P["est"][e]:
                return "est[%s] model=%s code=%s" % (e, state["est"][e], P["est"][e])
            mreg = _fn(state["reg"][e])
            if dict(mreg) != P["reg"][e]:
                return "reg[%s] model=%s code=%s" % (e, dict(mreg), P["reg"][e])
            mdcq = [(x["o"], x["kind"]) for x in state["dcq"][e]]
            if mdcq != P["dcq"][e]:
                return "dcq[%s] model=%s code=%s" % (e, mdcq, P["dcq"][e])
            if e not in self.down:
                mfifo = [(x["sid"], x["kind"]) for x in state["fifo"][e]]
                if mfifo != P["fifo"][e]:
                    return "fifo[%s] model=%s code=%s" % (e, mfifo, P["fifo"][e])
            if list(state["rq"][e]) != P["rq"][e]:
                return "rq[%s] model=%s code=%s" % (e, list(state["rq"][e]), P["rq"][e])
            if sorted(state["req"][e]) != P["req"][e]:
                return "req[%s] model=%s code=%s" % (e, sorted(state["req"][e]), P["req"][e])
            if state["nreq"][e] != P["nreq"][e]:
                return "nreq[%s] model=%s code=%s" % (e, state["nreq"][e], P["nreq"][e])
            if P["est"][e] == "up" and state["rdone"][e] != P["rdone"][e]:
                return "rdone[%s] model=%s code=%s" % (e, state["rdone"][e], P["rdone"][e])
        mbag = {(m["to"], m["kind"], tuple(sorted(m["ids"])) if m["kind"] == "REQ" else None, m["n"]) for m in state["bag"]}
        # a datagram addressed to an endpoint that has ended stays in the model's bag and in the net
        if mbag != P["bag"]:
            return "bag model=%s code=%s" % (sorted(mbag, key=str), sorted(P["bag"], key=str))
        return None

    def run(self, behaviour):
        for action, state in behaviour[1:]:
            act = state["act"]
            self.acts.append(act)
            try:
                ok = self.apply(act)
            except Exception as exc:  # noqa
                ok = False
                self.mismatch = self.mismatch or "step %d (%s): harness exception %r" % (self.steps + 1, act, exc)
            if not ok:
                self.mismatch = self.mismatch or ("step %d: model action %s not applicable to the code" % (self.steps + 1, act))
                break
            self.steps += 1
            if self.mismatch is None:
                d = self.compare(state)
                if d is None:
                    self.matched += 1
                else:
                    self.mismatch = "step %d (%s): %s" % (self.steps, {k: (sorted(v) if hasattr(v, "__iter__") and not isinstance(v, str) else v)
                                                                        for k, v in act.items()}, d)
        return {"events": self.env.events, "pr": False, "matched": self.matched, "steps": self.steps,
                "mismatch": self.mismatch, "ops": [], "origin": [None, None], "unjudged": self.unjudged}

    def close(self):
        for e in "AB":
            self.gate[e].set()
        try:
            self.env.loop.drain()
        except Exception:  # noqa
            pass
        self.env.close()
