"""Shared plumbing: repo import path, evidence files, known findings, reporting."""
import json
import os
import random
import sys
import time

VERIF = os.path.dirname(os.path.dirname(os.path.abspath(__file__)))
REPO = os.environ.get("VERIF_REPO", "/repo")
EVIDENCE = os.environ.get("VERIF_EVIDENCE_DIR") or os.path.join(VERIF, "evidence")
REPLAYS = os.environ.get("VERIF_REPLAYS_DIR") or os.path.join(VERIF, "replays")
KNOWN = os.path.join(VERIF, "known_findings.json")

# the checks always run the current working tree of /repo
_src = os.path.join(REPO, "src")
if _src not in sys.path:
    sys.path.insert(0, _src)
os.environ.setdefault("AIORTC_VERIF", "1")


def seed():
    try:
        return int(os.environ.get("VERIF_SEED", "1"))
    except ValueError:
        return 1


def tier(default="quick"):
    t = os.environ.get("VERIF_TIER", default)
    return t if t in ("quick", "thorough") else default


def rng(salt=0):
    return random.Random(seed() * 1000003 + salt)


def load_known():
    try:
        with open(KNOWN) as f:
            return json.load(f)["findings"]
    except FileNotFoundError:
        return []


class Report:
    """Collects violations / known findings of one check run and writes evidence.

    A violation is a dict {clause, signature, detail, replay}.  `signature` is matched
    against known_findings.json entries (status == "finding") of the same property: an
    entry matches if every key of its "signature" object equals the violation's.
    """

    def __init__(self, prop, level="model_checking"):
        self.prop = prop
        self.level = level
        self.t0 = time.time()
        self.violations = []
        self.known_hits = {}
        self.coverage = {}
        self.assumptions = []
        self.known = [k for k in load_known() if k["property"] == prop and k["status"] == "finding"]

    def _match(self, sig):
        for k in self.known:
            if all(sig.get(a) == b for a, b in k["signature"].items()):
                return k
        return None

    def violation(self, clause, signature, detail, replay_obj=None):
        sig = dict(signature)
        sig.setdefault("clause", clause)
        k = self._match(sig)
        if k is not None:
            self.known_hits.setdefault(k["id"], [k, 0])[1] += 1
            return False
        nsame = sum(1 for v in self.violations if v["clause"] == clause)
        if nsame >= 5:
            # keep counting, but do not write more than 5 replay files per clause
            self.violations.append({"clause": clause, "signature": sig, "detail": detail, "replay": None})
            return True
        os.makedirs(REPLAYS, exist_ok=True)
        path = os.path.join(REPLAYS, "%s_%s_%d.json" % (self.prop, clause.replace(".", "_").replace("/", "_"), nsame))
        with open(path, "w") as f:
            json.dump({"property": self.prop, "clause": clause, "signature": sig, "detail": detail,
                       "replay": replay_obj}, f, indent=1, default=str)
        self.violations.append({"clause": clause, "signature": sig, "detail": detail, "replay": path})
        return True

    def finish(self, machinery_error=None):
        """Write evidence, print verdict lines, return the exit code."""
        wall = time.time() - self.t0
        ev = {
            "property_id": self.prop,
            "tier": tier(),
            "seed": seed(),
            "level": self.level,
            "coverage": self.coverage,
            "assumptions": self.assumptions,
            "wall_s": round(wall, 2),
            "violations": len(self.violations),
            "known_findings_hit": {k: v[1] for k, v in self.known_hits.items()},
        }
        if machinery_error:
            ev["machinery_error"] = str(machinery_error)[:2000]
        os.makedirs(EVIDENCE, exist_ok=True)
        with open(os.path.join(EVIDENCE, self.prop + ".json"), "w") as f:
            json.dump(ev, f, indent=1, default=str)
        for kid, (k, cnt) in sorted(self.known_hits.items()):
            print("KNOWN-FINDING: property=%s %s [%s, %d occurrence(s) this run]" % (self.prop, k["what"], kid, cnt))
        if machinery_error and not self.violations:
            print("MACHINERY-ERROR property=%s %s" % (self.prop, str(machinery_error)[:3000]))
            return 2
        if machinery_error:
            # clause violations judged on real executions were recorded before a later stage of the
            # machinery failed (typically a self-test that needs accepted traces): they stand
            print("NOTE property=%s a later stage of the check failed: %s" % (self.prop, str(machinery_error)[:500]))
        if self.violations:
            seen = {}
            for v in self.violations:
                seen.setdefault(v["clause"], []).append(v)
            for clause, vs in seen.items():
                v = vs[0]
                print("VIOLATION property=%s replay=%s clause=%s occurrences=%d %s" % (
                    self.prop, v["replay"], clause, len(vs), str(v["detail"])[:300]))
            return 1
        print("OK property=%s tier=%s wall=%.1fs %s" % (self.prop, tier(), wall,
              " ".join("%s=%s" % (k, v) for k, v in self.coverage.items() if isinstance(v, (int, float, bool)))))
        return 0
