"""Entry point: ./check <property> [--tier quick|thorough] [--replay path]."""
import importlib
import os
import sys
import traceback

MODULES = {
    "C12": "harness.c12_router",
}


def main(argv):
    if not argv:
        print("usage: check <property id> [--tier quick|thorough] [--replay path]")
        return 2
    prop = argv[0]
    args = argv[1:]
    replay = None
    while args:
        a = args.pop(0)
        if a == "--tier":
            os.environ["VERIF_TIER"] = args.pop(0)
        elif a == "--replay":
            replay = args.pop(0)
        else:
            print("unknown argument", a)
            return 2
    if prop not in MODULES:
        print("no check for", prop)
        return 2
    mod = importlib.import_module(MODULES[prop])
    try:
        if replay:
            return mod.replay(replay)
        return mod.run()
    except Exception:
        traceback.print_exc()
        print("MACHINERY-ERROR property=%s unexpected exception in harness" % prop)
        return 2


if __name__ == "__main__":
    sys.exit(main(sys.argv[1:]))
