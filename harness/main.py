"""Entry point: ./check <property> [--tier quick|thorough] [--replay path].

Check modules are discovered by file name: harness/cNN_<name>.py serves property CNN.
"""
import glob
import importlib
import os
import sys
import traceback

HERE = os.path.dirname(os.path.abspath(__file__))


def modules():
    res = {}
    for p in sorted(glob.glob(os.path.join(HERE, "c[0-9][0-9]_*.py"))):
        name = os.path.basename(p)[:-3]
        res["C" + name[1:3]] = "harness." + name
    return res


def main(argv):
    if not argv:
        print("usage: check <property id> [--tier quick|thorough] [--replay path]")
        return 2
    prop = argv[0]
    args = argv[1:]
    replay = None
    while args:
        a = args.pop(0)
        if a == "--tier":
            os.environ["VERIF_TIER"] = args.pop(0)
        elif a == "--replay":
            replay = args.pop(0)
        else:
            print("unknown argument", a)
            return 2
    mods = modules()
    if prop not in mods:
        print("no check for", prop)
        return 2
    try:
        mod = importlib.import_module(mods[prop])
        if replay:
            return mod.replay(replay)
        return mod.run()
    except Exception:
        traceback.print_exc()
        print("MACHINERY-ERROR property=%s unexpected exception in harness" % prop)
        return 2


if __name__ == "__main__":
    sys.exit(main(sys.argv[1:]))
