"""pytest plugin (lives in /verif, loaded with `-p verif_trace`; nothing in /repo changes):
records what the repository's OWN tests make data channels do, in the event format of
specs/TraceDataChannel.tla, one trace per test.  The recorder wraps, at class level and only
inside the pytest process, RTCSctpTransport.__init__ / emit and RTCDataChannel.__init__ / send /
close / emit / _setReadyState / _setId.  Only event-driven clauses can be judged on these traces
(no step boundaries, no final quiescence): message identity / order / duplication, forward-only
readyState, open / close at most once, datachannel event once and faithful, id parity /
collision.  A test is recorded when it creates exactly two SCTP transports (a pair)."""
import json
import os

OUT = os.environ.get("VERIF_TRACE_OUT")
STATES = {"connecting": 0, "open": 1, "closing": 2, "closed": 3}
REC = None


class Rec:
    def __init__(self, nodeid):
        self.nodeid = nodeid
        self.events = []
        self.transports = []      # RTCSctpTransport objects in creation order
        self.chan = {}            # token -> {0: obj|None, 1: obj|None, params, creator, dc_seen}
        self.tok_of = {}          # id(channel) -> (token, transport index)
        self.keep = []            # keeps channel objects alive (id() must stay unique)
        self.sent = {}            # (token, index) -> [[mid, payload, delivered]]
        self.last_dlv = {}
        self.ntok = 0
        self.nmsg = 0
        self.pr = False
        self.auto_ids = False
        self.problems = []

    def ev(self, **kw):
        self.events.append(kw)

    def tindex(self, transport):
        for i, t in enumerate(self.transports):
            if t is transport:
                return i
        return None


def _params(ch):
    return dict(label=ch.label, protocol=ch.protocol, ordered=bool(ch.ordered), maxRetransmits=ch.maxRetransmits,
                maxPacketLifeTime=ch.maxPacketLifeTime, negotiated=bool(ch.negotiated))


def _on_create(rec, ch, ti):
    p = _params(ch)
    rel = "rtx" if p["maxRetransmits"] is not None else ("life" if p["maxPacketLifeTime"] is not None else "rel")
    if rel != "rel":
        rec.pr = True
    tok = None
    first = True
    if p["negotiated"]:
        for t, c in rec.chan.items():
            if c["params"]["negotiated"] and c[1 - ti] is not None and c[ti] is None and c[1 - ti].id == ch.id:
                tok, first = t, False
                break
    if tok is None:
        rec.ntok += 1
        tok = rec.ntok
        rec.chan[tok] = {0: None, 1: None, "params": p, "creator": ti, "dc_seen": False}
    rec.chan[tok][ti] = ch
    rec.tok_of[id(ch)] = (tok, ti)
    rec.keep.append(ch)
    rec.sent.setdefault((tok, ti), [])
    rec.ev(k="create", e=ti, c=tok, ordered=p["ordered"], rel=rel, negotiated=p["negotiated"],
           sid=ch.id if ch.id is not None else -1, first=first)
    if ch.id is not None:
        rec.ev(k="id", e=ti, c=tok, sid=ch.id, auto=False)
    rec.ev(k="state", e=ti, c=tok, s=STATES[ch.readyState])


def _on_datachannel(rec, ch, ti):
    creator = None
    for tok, c in rec.chan.items():
        o = c[1 - ti]
        if o is not None and c[ti] is None and o.id == ch.id and not c["params"]["negotiated"] \
                and c["creator"] == 1 - ti and not c["dc_seen"]:
            creator = tok
            break
    if creator is None:
        rec.ev(k="dcevent", e=ti, c=-1, same=False, sid=ch.id if ch.id is not None else -1)
        return
    c = rec.chan[creator]
    c["dc_seen"] = True
    p = c["params"]
    q = _params(ch)
    same = all(p[k] == q[k] for k in ("label", "protocol", "ordered", "maxRetransmits", "maxPacketLifeTime"))
    c[ti] = ch
    rec.tok_of[id(ch)] = (creator, ti)
    rec.keep.append(ch)
    rec.sent.setdefault((creator, ti), [])
    rec.ev(k="dcevent", e=ti, c=creator, same=bool(same), sid=ch.id)
    rec.ev(k="state", e=ti, c=creator, s=STATES[ch.readyState])


def _on_message(rec, tok, ti, data):
    """Identify the received value among the messages sent by the peer on this channel: an
    undelivered equal value, on ordered channels preferably one sent after the last delivered
    message (so that an in-order delivery is never mistaken for a reordering)."""
    peer_sent = rec.sent.get((tok, 1 - ti), [])
    last = rec.last_dlv.get((tok, ti), -1) if rec.chan[tok]["params"]["ordered"] else -1
    cands = [i for i, m in enumerate(peer_sent) if not m[2] and m[1] == data and type(m[1]) is type(data)]
    pick = [i for i in cands if i > last] or cands
    if pick:
        m = peer_sent[pick[0]]
        m[2] = True
        rec.last_dlv[(tok, ti)] = max(last, pick[0])
        rec.ev(k="msg", e=ti, c=tok, m=m[0], intact=True, known=True, onchan=True)
        return
    dup = [m for m in peer_sent if m[1] == data and type(m[1]) is type(data)]
    if dup:     # every equal value sent here has been delivered already: a duplicate
        rec.ev(k="msg", e=ti, c=tok, m=dup[-1][0], intact=True, known=True, onchan=True)
        return
    found = any(m[1] == data and type(m[1]) is type(data) for lst in rec.sent.values() for m in lst)
    rec.ev(k="msg", e=ti, c=tok, m=-1, intact=False, known=bool(found), onchan=False)


def _install():
    import aiortc.rtcdatachannel as DC
    import aiortc.rtcsctptransport as S
    T = S.RTCSctpTransport
    C = DC.RTCDataChannel
    if getattr(T, "_verif_trace", False):
        return
    T._verif_trace = True
    t_init, t_emit = T.__init__, T.emit
    c_init, c_send, c_close, c_emit, c_state, c_setid = C.__init__, C.send, C.close, C.emit, C._setReadyState, C._setId

    def T_init(self, *a, **k):
        t_init(self, *a, **k)
        if REC is not None:
            REC.transports.append(self)

    def T_emit(self, event, *a, **k):
        rec = REC
        if rec is not None and event == "datachannel" and a:
            ti = rec.tindex(self)
            if ti is not None and ti < 2:
                try:
                    _on_datachannel(rec, a[0], ti)
                except Exception as exc:  # noqa
                    rec.problems.append("datachannel: %r" % (exc,))
        return t_emit(self, event, *a, **k)

    def C_init(self, transport, parameters, send_open=True):
        rec = REC
        ti = rec.tindex(transport) if rec is not None else None
        announced = not send_open and not parameters.negotiated
        c_init(self, transport, parameters, send_open)
        if rec is not None and ti is not None and ti < 2 and not announced:
            try:
                _on_create(rec, self, ti)
            except Exception as exc:  # noqa
                rec.problems.append("create: %r" % (exc,))

    def C_send(self, data):
        rec = REC
        key = rec.tok_of.get(id(self)) if rec is not None else None
        c_send(self, data)
        if key is not None:
            rec.nmsg += 1
            rec.sent[key].append([rec.nmsg, data, False])
            n = len(data.encode("utf8")) if isinstance(data, str) else len(data)
            rec.ev(k="send", e=key[1], c=key[0], m=rec.nmsg, n=n, probe=False)

    def C_close(self):
        rec = REC
        key = rec.tok_of.get(id(self)) if rec is not None else None
        if key is not None:
            tr = rec.transports[key[1]]
            rec.ev(k="close", e=key[1], c=key[0], est=bool(tr.state == "connected"), hasid=bool(self.id is not None))
        return c_close(self)

    def C_emit(self, event, *a, **k):
        rec = REC
        key = rec.tok_of.get(id(self)) if rec is not None else None
        if key is not None:
            try:
                if event == "open":
                    rec.ev(k="openev", e=key[1], c=key[0])
                elif event == "close":
                    rec.ev(k="closeev", e=key[1], c=key[0])
                elif event == "message" and a:
                    _on_message(rec, key[0], key[1], a[0])
            except Exception as exc:  # noqa
                rec.problems.append("emit: %r" % (exc,))
        return c_emit(self, event, *a, **k)

    def C_state(self, state):
        rec = REC
        key = rec.tok_of.get(id(self)) if rec is not None else None
        before = self.readyState
        c_state(self, state)
        if key is not None and self.readyState != before:
            rec.ev(k="state", e=key[1], c=key[0], s=STATES[self.readyState])

    def C_setid(self, id_):
        rec = REC
        key = rec.tok_of.get(id(self)) if rec is not None else None
        c_setid(self, id_)
        if key is not None:
            rec.auto_ids = True
            rec.ev(k="id", e=key[1], c=key[0], sid=id_, auto=True)

    T.__init__, T.emit = T_init, T_emit
    C.__init__, C.send, C.close, C.emit, C._setReadyState, C._setId = C_init, C_send, C_close, C_emit, C_state, C_setid


def pytest_configure(config):
    _install()


def pytest_runtest_setup(item):
    global REC
    REC = Rec(item.nodeid)


def pytest_runtest_teardown(item, nextitem):
    global REC
    rec, REC = REC, None
    if rec is None or not OUT:
        return
    line = {"test": rec.nodeid, "transports": len(rec.transports), "problems": rec.problems[:3], "events": None}
    if len(rec.transports) == 2 and rec.chan and not rec.problems:
        try:
            srv = [bool(t.is_server) for t in rec.transports]
        except Exception:  # noqa
            srv = [False, False]
        if srv[0] != srv[1]:
            name = {0: "B" if srv[0] else "A", 1: "B" if srv[1] else "A"}
        elif not rec.auto_ids:
            name = {0: "A", 1: "B"}
        else:
            name = None
        if name is not None:
            evs = []
            for e in rec.events:
                e = dict(e)
                e["e"] = name[e["e"]]
                evs.append(e)
            line["events"] = evs
            line["pr"] = rec.pr
    with open(OUT, "a") as f:
        f.write(json.dumps(line) + "\n")
