"""C10 - jitter buffer (and the jitter-buffer part of C17).

Specs: specs/JitterBufferObs.tla (A), specs/JitterBuffer.tla (M), specs/TraceJitterBuffer.tla.

quick / thorough:
  1. TLC checks exhaustively that the ring-buffer model M satisfies the clauses of A
     (small capacity / modulus / misorder limit), + witnesses + action coverage.
  2. spec -> code: `tlc -simulate` behaviours of M at the REAL constants (modulus 2^16,
     misorder limit 100, capacities 4..128) are replayed call by call into the real
     aiortc.jitterbuffer.JitterBuffer; outputs / held set / origin are compared
     (agreement measure) and the executions are recorded.
  3. code -> spec: seeded random arrival schedules at real sizes are executed under
     several sequence-number / timestamp origins and recorded.
  4. All recorded traces are judged by TraceJitterBuffer.tla (TLC); binding self-tests.
"""
MANIFEST = dict(
    technique="TLA+ observable spec JitterBufferObs.tla and ring-buffer model JitterBuffer.tla model-checked with TLC (model satisfies every clause of the observable spec for small capacity/modulus); TLC-simulated behaviours at the real constants replayed into the real JitterBuffer; seeded random arrival schedules at real sizes under several origins recorded and judged by TraceJitterBuffer.tla (TLC trace validation)",
    text="Exhaustive TLC check that the jitter-buffer design (add / remove / smart_remove / _remove_frame with origin, misorder reset, overflow, prefetch) releases only runs of consecutive same-timestamp packets, never reuses or reorders while no packet is 100+ late, signals PLI on discard, and is complete under the premise; plus conformance of the real JitterBuffer in both directions at 16-bit sizes, capacities 4..128, prefetch 0..4, audio/video, with origins next to the 16/32-bit wrap (C17: outputs must be equal for all origins).",
    note="Trusted: TLC, the recorder (packet construction, 4-byte id payloads, projection of _packets for the PLI/occupancy clauses). Distinct packets of one history have distinct sequence numbers. Completeness is judged for histories that start with the stream's first packet; the shortfall caused by releasing at most one frame per add() call is reported as clause C10.complete_backlog (known finding). Conformance is sampled, the design check is exhaustive within the stated constants.",
    design_ref="5/C10")

import copy  # noqa: E402
import glob  # noqa: E402
import json  # noqa: E402
import os  # noqa: E402

from . import common  # noqa: F401,E402  (sets sys.path for aiortc)
from .common import Report, rng, seed, tier  # noqa: E402
from . import tlc as T  # noqa: E402

# The model's recursive operators (Scan, SmartRm, RemoveN: one level per slot, 128 slots) and the
# trace spec's Advance overflow the default 1 MB stack of TLC's worker threads (TLC's simulator then
# hangs with a dead worker): every JVM started by this check gets a larger thread stack.
os.environ.setdefault("JAVA_TOOL_OPTIONS", "-Xss64m")

MOD = 1 << 16
TSMOD = 1 << 32
MAX_MISORDER = 100
REGRESS = os.path.join(T.VERIF, "regress", "jitter")

# --------------------------------------------------------------------------- streams


def mkstream(start, jumps, pat, K, ts_step, mod):
    """Mirror of JitterBuffer.tla!MkStream: (pk, fs); pk[i-1] = (seq, ts, fi) of packet id i."""
    S = sum(pat)

    def fi(i):
        x = (i - 1) % S
        k = 0
        while x >= pat[k]:
            x -= pat[k]
            k += 1
        return ((i - 1) // S) * len(pat) + k
    pk, fs = [], []
    for i in range(1, K + 1):
        seq = (start + (i - 1) + sum(b for a, b in jumps if a <= i)) % mod
        f = fi(i)
        pk.append((seq, f * ts_step, f))
        if i == 1 or f != fi(i - 1):
            fs.append(i)
    fs.append(K + 1)
    return pk, fs


def unique_prefix(pk):
    """Longest prefix of pk whose sequence numbers are pairwise distinct."""
    seen = set()
    for n, p in enumerate(pk):
        if p[0] in seen:
            return n
        seen.add(p[0])
    return len(pk)


def stream_tla(st):
    pk, fs = st
    return "[pk |-> <<%s>>, fs |-> <<%s>>]" % (
        ", ".join("[seq |-> %d, ts |-> %d, fi |-> %d]" % p for p in pk), ", ".join(map(str, fs)))


def random_stream(r, cap, video):
    """Frames of random sizes, random timestamp steps, optional sequence jumps."""
    n = r.choice([r.randint(8, 40), r.randint(20, 3 * cap + 40), r.randint(2 * cap, 3 * cap + 120)])
    n = min(n, 420)
    dist = "audio" if not video and r.random() < 0.7 else r.choice(["small", "small", "mixed", "big", "audio"])
    step = r.choice([1, 960, 3000, 90000, r.randint(1, 10000)])
    sizes = []
    while sum(sizes) < n:
        if dist == "audio":
            sizes.append(1)
        elif dist == "small":
            sizes.append(r.randint(1, 3))
        elif dist == "mixed":
            sizes.append(r.choice([1, 1, 2, 3, 4, 6, 9]))
        else:
            sizes.append(r.choice([1, 2, cap // 2, cap - 1, cap, cap + 1]))
    jumps = []
    if r.random() < 0.3:
        for _ in range(r.choice([1, 1, 2])):
            by = r.choice([cap - 1, cap, cap + 1, 99, 100, 101, 2, 3, 32767, 32768, 32769, 20000,
                           MOD - 1, MOD - 2, MOD - cap, MOD - 99, MOD - 100, MOD - 101, MOD - 300])
            jumps.append((r.randint(2, max(2, n - 1)), by))
    pk, fs, seq, ts, i = [], [], 0, 0, 0
    for f, sz in enumerate(sizes):
        fs.append(i + 1)
        for _ in range(sz):
            i += 1
            seq = (seq + 1) % MOD if i > 1 else 0
            for a, b in jumps:
                if a == i:
                    seq = (seq + b) % MOD
            pk.append((seq, ts, f))
        ts += step * r.choice([1, 1, 1, 2, 5]) if step > 1 else 1
    n = unique_prefix(pk)
    pk = pk[:n]
    fs = [s for s in fs if s <= n] + [n + 1]
    return pk, fs


def random_schedule(r, n, cap):
    """Arrival order over packet ids 1..n: bounded displacement + loss + duplication + late packets."""
    w = r.choice([1, 1, 2, 3, max(1, cap // 2), cap - 1, cap, cap, cap + 1, 2 * cap])
    keyed = sorted(range(1, n + 1), key=lambda i: i + r.random() * w if w > 1 else i)
    arr = list(keyed)
    classes = [1, 2, 3, cap - 1, cap, cap + 1, 99, 100, 101, 130, 260]
    kind = r.random()
    if kind < 0.45:
        pass                                            # pure (displaced) permutation
    else:
        if r.random() < 0.5:                            # loss
            p = r.choice([0.02, 0.1, 0.3])
            arr = [x for x in arr if r.random() >= p] or arr[:1]
        if r.random() < 0.5:                            # duplication
            for _ in range(r.randint(1, max(1, len(arr) // 8))):
                k = r.randrange(len(arr))
                d = r.choice([0, 0] + classes)
                arr.insert(min(len(arr), k + 1 + d), arr[k])
        if r.random() < 0.4:                            # a few packets very late
            for _ in range(r.randint(1, 3)):
                k = r.randrange(len(arr))
                x = arr.pop(k)
                arr.insert(min(len(arr), k + r.choice(classes)), x)
        if r.random() < 0.15:                           # wild: shuffle a window
            a = r.randrange(len(arr))
            b = min(len(arr), a + r.randint(2, 3 * cap))
            seg = arr[a:b]
            r.shuffle(seg)
            arr[a:b] = seg
    if r.random() < 0.1 and len(arr) > 3:               # displaced start
        k = r.randint(1, min(len(arr) - 1, cap))
        arr[0], arr[k] = arr[k], arr[0]
    return arr


SEQ_ORIGINS = [MOD - 1, MOD - 2, MOD - 3, MOD - 5, MOD - 17, MOD - 99, MOD - 100, MOD - 101, MOD - 130,
               (MOD >> 1) - 2, (MOD >> 1) - 1, MOD >> 1, (MOD >> 1) + 1, 1, 2, 5, 100]
TS_ORIGINS = [TSMOD - 1, TSMOD - 2, TSMOD - 960, TSMOD - 3000 * 3, TSMOD - 90000 * 2 - 1,
              (TSMOD >> 1) - 1, TSMOD >> 1, (TSMOD >> 1) - 3000, 1, 12345]


def pick_origins(r, n, cap, count):
    """First: near a wrap point (the one judged clause by clause); then (0, 0); then others."""
    res = [(r.choice(SEQ_ORIGINS + [MOD - cap, MOD - cap - 1, MOD - cap + 1, (MOD - n // 2) % MOD]),
            r.choice(TS_ORIGINS))]
    res.append((0, 0))
    while len(res) < count:
        res.append(r.choice([(r.choice(SEQ_ORIGINS), r.choice(TS_ORIGINS)),
                             (r.randrange(MOD), r.randrange(TSMOD)),
                             ((MOD - r.randint(1, n + 1)) % MOD, (TSMOD - r.randint(1, 1 << 20)))]))
    return res[:count]


# --------------------------------------------------------------------------- executor


def _projection(jb):
    """(ids held, occupied slots) from JitterBuffer._packets, or None if there is no such list."""
    slots = getattr(jb, "_packets", None)
    if not isinstance(slots, (list, tuple)):
        return None
    ids, occ = set(), 0
    for p in slots:
        if p is not None:
            occ += 1
            d = getattr(p, "_data", None)
            if isinstance(d, (bytes, bytearray)) and len(d) == 4:
                ids.add(int.from_bytes(d, "big"))
    return ids, occ


def execute(cap, pf, video, pk, arr, seq_origin, ts_origin, want_state=False):
    """Feed the schedule into a real JitterBuffer; returns the list of output records
    (and, for lock-step, the projected state after every call)."""
    from aiortc.jitterbuffer import JitterBuffer
    from aiortc.rtp import RtpPacket
    jb = JitterBuffer(capacity=cap, prefetch=pf, is_video=video)
    n = len(pk)
    out, states = [], []
    for pid in arr:
        seq, ts, _ = pk[pid - 1]
        p = RtpPacket(payload_type=96, sequence_number=(seq + seq_origin) % MOD,
                      timestamp=(ts + ts_origin) % TSMOD, ssrc=1234)
        p._data = pid.to_bytes(4, "big")
        before = _projection(jb)
        rec = {"exc": False, "pli": False, "rel": False, "ids": [], "fts": -1,
               "proj": False, "gone": [], "occ": 0}
        try:
            pli, frame = jb.add(p)
            rec["pli"] = bool(pli)
            if frame is not None:
                rec["rel"] = True
                data = bytes(frame.data)
                ids = [int.from_bytes(data[i:i + 4], "big") for i in range(0, len(data), 4)]
                if len(data) % 4:
                    ids[-1] = 0
                rec["ids"] = [x if 1 <= x <= n else 0 for x in ids]
                fts = (int(frame.timestamp) - ts_origin) % TSMOD
                rec["fts"] = fts if fts < (1 << 30) else -2
        except Exception as e:  # the property: add() never raises
            rec["exc"] = True
            rec["exc_type"] = type(e).__name__
        after = _projection(jb)
        if before is not None and after is not None:
            rec["proj"] = True
            rec["gone"] = sorted(x for x in before[0] - after[0] if 1 <= x <= n)
            rec["occ"] = after[1]
        out.append(rec)
        if want_state:
            org = getattr(jb, "_origin", None)
            states.append({"held": sorted(after[0]) if after else None,
                           "origin": None if org is None else (org - seq_origin) % MOD})
    return (out, states) if want_state else out


def make_trace(tid, src, cap, pf, video, st, arr, origins):
    pk, fs = st
    runs = [{"origin": [so, str(to)], "out": execute(cap, pf, video, pk, arr, so, to)} for so, to in origins]
    return {"id": tid, "src": src, "cap": cap, "pf": pf, "video": bool(video), "mm": MAX_MISORDER, "mod": MOD,
            "pk": [{"seq": a, "ts": b, "fi": c} for a, b, c in pk], "fs": list(fs),
            "arr": list(arr), "runs": runs}


def rerun(tr):
    """Re-execute the schedule of a recorded trace on the current tree (same origins)."""
    pk = [(p["seq"], p["ts"], p["fi"]) for p in tr["pk"]]
    origins = [(r_["origin"][0], int(r_["origin"][1])) for r_ in tr["runs"]]
    return make_trace(tr["id"], tr.get("src", "replay"), tr["cap"], tr["pf"], tr["video"], (pk, tr["fs"]),
                      tr["arr"], origins)


# --------------------------------------------------------------------------- TLC configurations

MC_MODULE = """---- MODULE %s ----
EXTENDS JitterBuffer
MCStreams == << %s >>
MCOffsets == %s
MCFirst == %s
====
"""

M_CFG = """SPECIFICATION MSpec
CONSTANTS
 Capacity = %(cap)d
 Prefetch = %(pf)d
 MaxMisorder = %(mm)d
 Modulus = %(mod)d
 IsVideo = %(video)s
 Streams <- MCStreams
 Offsets <- MCOffsets
 FirstIds <- MCFirst
 MaxArr = %(maxarr)d
VIEW View
CHECK_DEADLOCK FALSE
%(invs)s
"""

TRACE_CFG = """SPECIFICATION TraceSpec
CONSTANTS
 Capacity = 4
 Prefetch = 0
 MaxMisorder = 100
 Modulus = 65536
 IsVideo = FALSE
CHECK_DEADLOCK FALSE
"""

DESIGN_INVS = ["StepClauses", "CompleteStrict", "RingSane"]


def _set(xs):
    return "{" + ", ".join(str(x) for x in xs) + "}"


def small(start, jumps, pat, K=20):
    return mkstream(start, jumps, pat, K, 1, 32)


# exhaustive configurations (modulus 32, MaxMisorder 6); capacity 4 < MaxMisorder as
# for the real 16-slot audio buffer, capacity 8 > MaxMisorder as for the 128-slot video one
# -coverage 1 costs a factor of three, so action coverage is measured on a small configuration
COVERAGE_CFG = dict(name="cap4-pf1-video-coverage", cap=4, pf=1, video=True, offs=range(-7, 7), first=[1, 2],
                    maxarr=4, streams=[small(28, [], [1, 2, 3])], coverage=True)

EXH = {
    "quick": [
        dict(name="cap4-pf0-video", cap=4, pf=0, video=True, offs=range(-7, 7), first=[1, 2, 3], maxarr=6,
             streams=[small(28, [], [1, 2, 3])]),
        dict(name="cap4-pf2-audio", cap=4, pf=2, video=False, offs=range(-7, 7), first=[1, 2], maxarr=5,
             streams=[small(29, [], [1])]),
        dict(name="cap8-pf1-video", cap=8, pf=1, video=True, offs=range(-9, 11), first=[1, 2], maxarr=5,
             streams=[small(27, [], [2, 1], 24), small(2, [(7, 16)], [2, 1], 14)]),
        COVERAGE_CFG,
    ],
    "thorough": [
        dict(name="cap4-pf0-video-deep", cap=4, pf=0, video=True, offs=range(-7, 8), first=[1, 2, 3], maxarr=7,
             streams=[small(28, [], [1, 2, 3])]),
        dict(name="cap4-pf0-video-wide", cap=4, pf=0, video=True, offs=range(-7, 10), first=[1, 2, 3], maxarr=6,
             streams=[small(0, [], [1, 2, 3]), small(28, [], [1, 2, 3]), small(0, [(4, 5)], [2, 1, 3]),
                      small(3, [(6, 16)], [1, 2], 12), small(3, [(5, 17)], [2, 1], 12)]),
        dict(name="cap4-pf2-video", cap=4, pf=2, video=True, offs=range(-7, 7), first=[1, 2, 3], maxarr=6,
             streams=[small(0, [], [1, 2, 3]), small(28, [], [1, 2])]),
        dict(name="cap4-pf1-audio", cap=4, pf=1, video=False, offs=range(-7, 10), first=[1, 2], maxarr=6,
             streams=[small(0, [], [1]), small(29, [], [1])]),
        dict(name="cap8-pf0-video", cap=8, pf=0, video=True, offs=range(-9, 11), first=[1, 2, 3], maxarr=6,
             streams=[small(27, [], [1, 2], 24), small(2, [(7, 16)], [2, 1], 14)]),
        dict(name="cap8-pf1-video", cap=8, pf=1, video=True, offs=range(-9, 11), first=[1, 2], maxarr=5,
             streams=[small(27, [], [2, 1], 24), small(2, [(7, 16)], [2, 1], 14)]),
        COVERAGE_CFG,
    ],
}

# witnesses: (invariant that must be violated, cap, pf, video, offsets, first ids, depth, streams)
WITNESSES = [
    ("WitnessNoFrame", 4, 0, True, [1], [1], 4, [small(0, [], [1, 2, 3])]),
    ("WitnessNoMultiPkt", 4, 0, True, [1], [1], 5, [small(0, [], [1, 2, 3])]),
    ("WitnessNoWrap", 4, 0, True, [1], [1], 5, [small(30, [], [3])]),
    ("WitnessNoLate", 4, 0, True, [-7, 1, 9], [1], 4, [small(0, [], [1, 2, 3])]),
    ("WitnessNoPli", 4, 0, True, [1, 5], [1], 4, [small(0, [], [1, 2, 3])]),
    ("WitnessNoDiscard", 4, 0, True, [1, 5], [1], 4, [small(0, [], [1, 2, 3])]),
    ("WitnessNoReuse", 4, 0, True, [-8, -7, 1, 7], [1], 7, [small(0, [], [1])]),
    ("WitnessNoPremise", 4, 0, True, [0, 1], [1], 5, [small(0, [], [1])]),
    ("WitnessNoReorderPremise", 4, 0, True, [-2, -1, 1, 2], [1], 7, [small(0, [], [1, 2])]),
    ("WitnessNoBacklog", 4, 0, False, [-2, 1, 2], [1], 5, [small(0, [], [1])]),
    ("WitnessNoBacklogLoss", 4, 0, False, [-2, -1, 1, 2], [1], 8, [small(0, [], [1])]),
]


def m_cfg(cap, pf, video, maxarr, invs, mm=6, mod=32):
    return M_CFG % dict(cap=cap, pf=pf, mm=mm, mod=mod, video="TRUE" if video else "FALSE", maxarr=maxarr,
                        invs="\n".join("INVARIANT " + i for i in invs))


def write_mc(sc, streams, offs, first, module="MCJB"):
    sc.write(module + ".tla", MC_MODULE % (module, ", ".join(stream_tla(s) for s in streams), _set(offs), _set(first)))
    return module


def design_check(sc, thorough, cov):
    """Part 1: M satisfies A's clauses (exhaustive, small constants) + witnesses + coverage."""
    tot_d = tot_g = 0
    cov["exhaustive_configs"] = []
    actions = {}
    for c in EXH["thorough" if thorough else "quick"]:
        write_mc(sc, c["streams"], c["offs"], c["first"])
        res = T.tlc(sc, "MCJB", m_cfg(c["cap"], c["pf"], c["video"], c["maxarr"], DESIGN_INVS),
                    args=["-coverage", "1"] if c.get("coverage") else [], timeout=5400)
        if not res.complete or res.violated:
            raise T.MachineryError("design model JitterBuffer (%s) failed its own clauses: %s\n%s"
                                   % (c["name"], res.violated, res.out[-2500:]))
        if c.get("coverage"):     # -coverage costs a factor of two: only on the smallest configuration
            ac = res.action_counts()
            for a in ("AddPlain", "AddDropLate", "AddReset", "AddOverflow"):
                if ac.get(a, (0, 0))[1] == 0:
                    raise T.MachineryError("coverage: action %s never taken in config %s" % (a, c["name"]))
                actions[a] = ac[a][1]
        tot_d += res.distinct
        tot_g += res.generated
        cov["exhaustive_configs"].append(dict(
            name=c["name"], capacity=c["cap"], prefetch=c["pf"], video=c["video"], modulus=32, max_misorder=6,
            offsets=[min(c["offs"]), max(c["offs"])], arrivals=c["maxarr"], streams=len(c["streams"]),
            states=res.distinct, transitions=res.generated, depth=res.depth, wall_s=round(res.wall, 1)))
    cov["states"] = tot_d
    cov["transitions"] = tot_g
    cov["exhaustive"] = True
    cov["action_coverage"] = actions
    cov["witnesses"] = witness_check(sc)


def witness_check(sc):
    """Every witness invariant must be violated (one small TLC run each, run concurrently)."""
    from concurrent.futures import ThreadPoolExecutor

    def one(w):
        name, cap, pf, video, offs, first, depth, streams = w
        mod = write_mc(sc, streams, offs, first, module="MCJB_" + name)
        return name, T.tlc(sc, mod, m_cfg(cap, pf, video, depth, [name]), workers=1, timeout=900,
                           java_opts=["-XX:ParallelGCThreads=2"])
    wit = {}
    with ThreadPoolExecutor(max_workers=6) as ex:
        for name, res in ex.map(one, WITNESSES):
            if name not in res.violated:
                raise T.MachineryError("vacuity: witness %s not reachable in the model\n%s" % (name, res.out[-1500:]))
            wit[name] = "violated as required (behaviour of %d states)" % len(set(__import__("re").findall(r"^State (\d+):", res.out, __import__("re").M)))
    return wit


# simulation at the real constants: (capacity, prefetch, video)
SIM_BUFFERS = [(16, 4, False), (128, 0, True), (4, 1, True), (8, 2, True), (32, 3, False), (64, 0, True)]


def sim_setup(r, cap):
    K = 700
    pats = [[1], [1, 2, 3], [2, 5, 1, 3], [cap // 2, 1, cap + 1, 2]]
    streams = [
        mkstream(0, [], r.choice(pats), K, 960, MOD),
        mkstream(0, [(r.randint(5, 40), cap + 1), (r.randint(60, 120), 101)], r.choice(pats), K, 3000, MOD),
        mkstream(0, [(r.randint(5, 40), 32769), (r.randint(60, 120), cap)], r.choice(pats), K, 3000, MOD),
        mkstream(0, [(r.randint(5, 60), 100), (r.randint(61, 120), 32767)], r.choice(pats), K, 1, MOD),
    ]
    tight = [-3, -2, -1, 0, 1, 2, 3]
    wide = sorted(set(tight + [-101, -100, -99, -cap - 1, -cap, -cap + 1, cap - 1, cap, cap + 1, 99, 100, 101]))
    return streams, tight, wide


def lockstep(sc, thorough, r, cov, traces):
    """Part 2: behaviours of M at the real constants, replayed into the real JitterBuffer."""
    per = 40 if thorough else 16
    depth = 90
    bufs = SIM_BUFFERS if thorough else SIM_BUFFERS[:2]
    n_beh = steps = 0
    mism = {"output": 0, "held": 0, "origin": 0}
    first_div = None
    for cap, pf, video in bufs:
        streams, tight, wide = sim_setup(r, cap)
        for offs in (tight, wide):
            write_mc(sc, streams, offs, [1, 2, 3])
            cfg = m_cfg(cap, pf, video, depth, DESIGN_INVS, mm=MAX_MISORDER, mod=MOD).replace("VIEW View\n", "")
            sim, behs = T.simulate(sc, "MCJB", cfg, num=per, depth=depth + 1, seed=seed() + cap + len(offs),
                                   timeout=1200, workers=8)
            if sim.timed_out or "Exception in thread" in sim.out or "StackOverflowError" in sim.out:
                raise T.MachineryError("tlc -simulate did not finish (cap %d pf %d)\n%s" % (cap, pf, sim.out[-1500:]))
            if sim.violated:
                raise T.MachineryError("model JitterBuffer violates A's clauses at the real constants "
                                       "(cap %d pf %d): %s\n%s" % (cap, pf, sim.violated, sim.out[-2500:]))
            if not behs:
                raise T.MachineryError("no simulated behaviours\n" + sim.out[-1500:])
            for beh in behs:
                si = beh[0][1]["si"]
                st = streams[si - 1]
                acts = [s["act"] for _, s in beh[1:]]
                arr = [a["id"] for a in acts]
                if not arr:
                    continue
                for a in acts:
                    if (a["seq"], a["ts"]) != st[0][a["id"] - 1][:2]:
                        raise T.MachineryError("stream mirror differs from the model: %r" % (a,))
                so, to = pick_origins(r, len(arr), cap, 1)[0]
                out, states = execute(cap, pf, video, st[0], arr, so, to, want_state=True)
                n_beh += 1
                for k, (a, o, s) in enumerate(zip(acts, out, states)):
                    steps += 1
                    bad = None
                    if (a["pli"], a["rel"], list(a["ids"]), a["fts"]) != (o["pli"], o["rel"], o["ids"], o["fts"]) \
                            or o["exc"]:
                        bad = "output"
                    elif s["held"] is not None and sorted(a["held"]) != s["held"]:
                        bad = "held"
                    elif s["origin"] is not None and a["origin"] != s["origin"]:
                        bad = "origin"
                    if bad:
                        mism[bad] += 1
                        if first_div is None:
                            first_div = {"capacity": cap, "prefetch": pf, "video": video, "step": k + 1,
                                         "variable": bad, "model": {x: a[x] for x in ("id", "pli", "rel", "ids")},
                                         "code": {x: o[x] for x in ("pli", "rel", "ids", "exc")}}
                        break   # after the first divergence the model state is no reference any more
                # the executed behaviour is also a recorded trace (cut: only packets that matter)
                top = max(arr)
                pk = st[0][:top]
                fs = [f for f in st[1] if f <= top] + [top + 1]
                tr = make_trace(len(traces) + 1, "tlc-simulate", cap, pf, video, (pk, fs), arr,
                                [(so, to), (0, 0)])
                traces.append(tr)
    cov["lockstep_behaviours"] = n_beh
    cov["lockstep_steps"] = steps
    cov["lockstep_mismatches"] = mism
    cov["lockstep_agreement"] = "%d/%d behaviours agree on every step" % (n_beh - sum(mism.values()), n_beh)
    if first_div:
        cov["lockstep_first_divergence"] = first_div


def random_traces(thorough, r, traces):
    """Part 3: seeded random schedules at real sizes, each under several origins."""
    n = 2400 if thorough else 420
    for _ in range(n):
        cap = r.choice([4, 8, 16, 16, 32, 64, 128, 128])
        pf = r.randint(0, 4)
        video = r.random() < 0.5
        if r.random() < 0.25:           # the two configurations RTCRtpReceiver uses
            cap, pf, video = r.choice([(16, 4, False), (128, 0, True)])
        st = random_stream(r, cap, video)
        arr = random_schedule(r, len(st[0]), cap)
        traces.append(make_trace(len(traces) + 1, "random", cap, pf, video, st, arr,
                                 pick_origins(r, len(st[0]), cap, 4 if thorough else 3)))


def execute_via_receiver(pk, arr, seq_origin, ts_origin, empty):
    """Feed the schedule through a real audio RTCRtpReceiver (_handle_rtp_packet: codec lookup,
    depayload, jitter buffer with capacity 16 / prefetch 4).  The jitter buffer's add() is wrapped
    so that every arrival yields the same output record as execute(); an arrival that the receiver
    never hands to the buffer yields an empty record.  Packets in `empty` carry an empty RTP
    payload (padding-only / probing packets, which still occupy a sequence number)."""
    import asyncio
    from aiortc import RTCRtpReceiver
    from aiortc.rtcrtpparameters import RTCRtpCodecParameters, RTCRtpReceiveParameters
    from aiortc.rtp import RtpPacket
    n = len(pk)

    class FakeTransport:
        def __init__(self):
            self.state = "connected"
            self._rtp_router = None

        def _register_rtp_receiver(self, receiver, parameters):
            pass

        def _unregister_rtp_receiver(self, receiver):
            pass

        async def _send_rtp(self, data):
            pass

    async def main():
        receiver = RTCRtpReceiver("audio", FakeTransport())
        jb = receiver._RTCRtpReceiver__jitter_buffer
        real_add = jb.add
        cur = {}
        by_seq = {(seq + seq_origin) % MOD: i + 1 for i, (seq, ts, _) in enumerate(pk)}

        def add(packet):
            pid = by_seq.get(packet.sequence_number, 0)
            packet._data = pid.to_bytes(4, "big")
            before = _projection(jb)
            rec = cur["rec"]
            pli, frame = real_add(packet)
            rec["pli"] = bool(pli)
            if frame is not None:
                rec["rel"] = True
                data = bytes(frame.data)
                ids = [int.from_bytes(data[i:i + 4], "big") for i in range(0, len(data), 4)]
                rec["ids"] = [x if 1 <= x <= n else 0 for x in ids]
                fts = (int(frame.timestamp) - ts_origin) % TSMOD
                rec["fts"] = fts if fts < (1 << 30) else -2
            after = _projection(jb)
            if before is not None and after is not None:
                rec["proj"] = True
                rec["gone"] = sorted(x for x in before[0] - after[0] if 1 <= x <= n)
                rec["occ"] = after[1]
            return pli, None      # nothing goes on to the decoder thread
        jb.add = add
        from aiortc.rtcrtpreceiver import RemoteStreamTrack
        receiver._track = RemoteStreamTrack(kind="audio")
        codec = RTCRtpCodecParameters(mimeType="audio/PCMU", clockRate=8000, channels=1, payloadType=0)
        await receiver.receive(RTCRtpReceiveParameters(codecs=[codec]))
        out = []
        for k, pid in enumerate(arr):
            seq, ts, _ = pk[pid - 1]
            p = RtpPacket(payload_type=0, sequence_number=(seq + seq_origin) % MOD,
                          timestamp=(ts + ts_origin) % TSMOD, ssrc=4321,
                          payload=b"" if pid in empty else pid.to_bytes(4, "big"))
            rec = {"exc": False, "pli": False, "rel": False, "ids": [], "fts": -1, "proj": False, "gone": [], "occ": 0}
            cur["rec"] = rec
            try:
                await receiver._handle_rtp_packet(RtpPacket.parse(p.serialize()), arrival_time_ms=k * 20)
            except Exception as e:
                rec["exc"] = True
                rec["exc_type"] = type(e).__name__
            if not rec["proj"]:
                proj = _projection(jb)
                if proj is not None:
                    rec["proj"] = True
                    rec["occ"] = proj[1]
            out.append(rec)
        await receiver.stop()
        return out
    return asyncio.run(main())


def receiver_feed_traces(thorough, r, traces):
    """Part 3b: the jitter buffer as the receiver feeds it (the property is anchored in
    RTCRtpReceiver._handle_rtp_packet too): complete audio streams, in order or mildly displaced,
    some packets padding-only; capacity 16 / prefetch 4 as configured by the receiver."""
    n = 160 if thorough else 24
    for _ in range(n):
        K = r.randint(30, 90)
        start = r.choice([0, 100, 5000])
        st = mkstream(start, [], [1], K, 160, MOD)
        arr = list(range(1, K + 1))
        if r.random() < 0.5:               # mild reordering, displacement well below the capacity
            for _k in range(r.randint(1, 4)):
                i = r.randint(1, K - 3)
                arr[i], arr[i + 1] = arr[i + 1], arr[i]
        empty = set(r.sample(range(5, K - 5), r.choice([0, 1, 1, 2])))
        origins = [(0, 0), (MOD - r.randint(2, K - 2), TSMOD - 160 * r.randint(2, K - 2))]
        pk, fs = st
        runs = [{"origin": [so, str(to)], "out": execute_via_receiver(pk, arr, so, to, empty)} for so, to in origins]
        traces.append({"id": len(traces) + 1, "src": "receiver-feed", "cap": 16, "pf": 4, "video": False, "mm": MAX_MISORDER,
                       "mod": MOD, "pk": [{"seq": a, "ts": b, "fi": c} for a, b, c in pk], "fs": list(fs), "arr": list(arr),
                       "runs": runs, "empty": sorted(empty)})


def regression_traces(traces):
    for path in sorted(glob.glob(os.path.join(REGRESS, "*.json"))):
        with open(path) as f:
            obj = json.load(f)
        tr = rerun(obj["trace"])
        tr["id"] = len(traces) + 1
        tr["src"] = "regress/jitter/" + os.path.basename(path)
        traces.append(tr)


# --------------------------------------------------------------------------- binding self-test


def binding_traces():
    """Hand-made executions and single-field corruptions of them: (trace, expected verdict)."""
    # B1: video, capacity 16, frames of 2 packets, in order, complete
    st1 = mkstream(0, [], [2], 24, 3000, MOD)
    b1 = make_trace(1, "binding", 16, 0, True, st1, list(range(1, 25)), [(MOD - 7, TSMOD - 9000), (0, 0)])
    # B2: video, capacity 8, a jump forward while packets are held -> discard + PLI
    st2 = mkstream(0, [(6, 11)], [3], 12, 3000, MOD)
    b2 = make_trace(2, "binding", 8, 0, True, st2, list(range(1, 13)), [(5, 5)])
    res = [(b1, "ok"), (b2, "ok")]

    def variant(base, tid, fn):
        t = copy.deepcopy(base)
        t["id"] = tid
        fn(t)
        return t
    out1 = b1["runs"][0]["out"]
    k1 = next((i for i, o in enumerate(out1) if o["rel"] and len(o["ids"]) == 2
               and any(x["rel"] for x in out1[i + 1:])), None)
    if k1 is None or len(b1["runs"]) < 2 or any(o["exc"] for o in b2["runs"][0]["out"]):
        return res      # the code under test does not even release a frame here: nothing to corrupt

    def swap(t):
        t["runs"][0]["out"][k1]["ids"].reverse()

    def badts(t):
        t["runs"][0]["out"][k1]["fts"] += 3000

    def origin_diff(t):
        t["runs"][1]["out"][k1]["pli"] = True

    def lost(t):
        o = t["runs"][0]["out"][k1]
        o["rel"], o["ids"], o["fts"], o["gone"] = False, [], -1, []
        for run in t["runs"][1:]:
            run["out"][k1] = dict(o)

    def twice(t):
        o = t["runs"][0]["out"]
        nxt = next(i for i in range(k1 + 1, len(o)) if o[i]["rel"])
        o[nxt]["ids"], o[nxt]["fts"] = list(o[k1]["ids"]), o[k1]["fts"]
    res += [(variant(b1, 3, swap), "C10.frame_not_consecutive"), (variant(b1, 4, badts), "C10.frame_timestamp"),
            (variant(b1, 5, origin_diff), "C17.jitter_origin"), (variant(b1, 6, lost), "C10.complete_lost"),
            (variant(b1, 7, twice), "C10.packet_reused")]
    out2 = b2["runs"][0]["out"]
    kd = next((i for i, o in enumerate(out2) if set(o["gone"]) - set(o["ids"])), None)
    if kd is not None:
        def nopli(t):
            t["runs"][0]["out"][kd]["pli"] = False
        res.append((variant(b2, 8, nopli), "C10.pli_missing"))

    def raised(t):
        t["runs"][0]["out"][3]["exc"] = True
    res.append((variant(b2, 9, raised), "C10.raised"))
    return res


# --------------------------------------------------------------------------- the check


def judge(sc, traces, timeout=3000):
    """Part 4: TLC decides every trace.  Returns {tid: (verdict, pos, run, flags)}."""
    val, _ = T.validate_traces(sc, "TraceJitterBuffer", TRACE_CFG, traces, timeout=timeout)
    verdicts = {}
    for v in val.printed("RESULT"):
        verdicts[v[1]] = (v[2], v[3], v[4], v[5])
    if len(verdicts) != len(traces):
        raise T.MachineryError("trace validation incomplete: %d of %d verdicts\n%s"
                               % (len(verdicts), len(traces), val.out[-2500:]))
    return val, verdicts


def signature(tr, verdict):
    return {"clause": verdict, "mode": "video" if tr["video"] else "audio"}


def run():
    rep = Report("C10")
    thorough = tier() == "thorough"
    r = rng(10)
    cov = rep.coverage
    try:
        with T.Scratch(prefix="verif_c10_") as sc:
            import time
            tm = cov["timings_s"] = {}
            t0 = time.time()
            design_check(sc, thorough, cov)
            tm["tlc_exhaustive_and_witnesses"] = round(time.time() - t0, 1)
            traces = []
            regression_traces(traces)
            t0 = time.time()
            lockstep(sc, thorough, r, cov, traces)
            tm["tlc_simulate_and_lockstep_replay"] = round(time.time() - t0, 1)
            t0 = time.time()
            random_traces(thorough, r, traces)
            receiver_feed_traces(thorough, r, traces)
            tm["random_schedules_executed"] = round(time.time() - t0, 1)
            t0 = time.time()
            val, verdicts = judge(sc, traces)
            tm["tlc_trace_validation"] = round(time.time() - t0, 1)

            bind = binding_traces()
            _, bv = judge(sc, [t for t, _ in bind], timeout=600)
            base_ok = all(bv[t["id"]][0] == exp for t, exp in bind if exp == "ok")
            bres = {}
            for t, exp in bind:
                got = bv[t["id"]][0]
                if exp == "ok":
                    if got != "ok":   # the hand-made execution itself violates the property: report it
                        rep.violation(got, signature(t, got), {"source": "binding base trace", "position": bv[t["id"]][1]}, t)
                    continue
                bres[exp] = got
                if base_ok and got != exp:
                    raise T.MachineryError("binding self-test: corrupted trace expected %s, got %s" % (exp, got))
            cov["binding_selftest"] = ("corrupted traces rejected with " + ", ".join(sorted(bres))) if base_ok \
                else "skipped: the uncorrupted hand-made execution was itself rejected"

        counts, flags = {}, {"late": 0, "premise": 0, "reordered": 0, "premise_and_reordered": 0}
        for t in traces:
            v, pos, run_no, fl = verdicts[t["id"]]
            counts[v] = counts.get(v, 0) + 1
            flags["late"] += fl & 1
            flags["premise"] += (fl >> 1) & 1
            flags["reordered"] += (fl >> 2) & 1
            flags["premise_and_reordered"] += 1 if fl & 6 == 6 else 0
            if v.startswith("machinery"):
                raise T.MachineryError("trace %d (%s): %s" % (t["id"], t["src"], v))
            if v != "ok":
                k = min(max(pos, 1), len(t["arr"])) - 1
                detail = {"position": pos, "run": run_no, "source": t["src"], "capacity": t["cap"],
                          "prefetch": t["pf"], "video": t["video"],
                          "origin": t["runs"][min(run_no, len(t["runs"])) - 1]["origin"],
                          "packet": t["arr"][k] if t["arr"] else None,
                          "output": t["runs"][min(run_no, len(t["runs"])) - 1]["out"][k] if t["arr"] else None}
                rep.violation(v, signature(t, v), detail, t)
        nframes = sum(1 for t in traces for o in t["runs"][0]["out"] if o["rel"])
        cov.update({
            "traces_validated_against_impl": len(traces),
            "trace_events_validated": sum(len(t["arr"]) * len(t["runs"]) for t in traces),
            "trace_validation_states": val.distinct,
            "frames_released_in_traces": nframes,
            "verdict_counts": counts,
            "traces_with_100_late_packet": flags["late"],
            "traces_with_completeness_premise": flags["premise"],
            "traces_with_premise_and_reordering": flags["premise_and_reordered"],
            "origins_per_schedule": 4 if thorough else 3,
            "samples": [{k: (v if k != "runs" else [{"origin": x["origin"], "out": x["out"][:6]} for x in v[:1]])
                         for k, v in t.items() if k not in ("pk", "fs")} | {"arr": t["arr"][:12]}
                        for t in (traces[0], traces[-1])],
        })
        rep.assumptions = [
            "TLC and the recorder are trusted; each packet's payload (_data) is its 4-byte id, so a frame decomposes uniquely",
            "distinct packets of one history have distinct sequence numbers (histories are shorter than the number space)",
            "'thrown away' and occupancy are observed through a projection of JitterBuffer._packets (named by the property's anchors); if that attribute disappears these two clauses are skipped",
            "'k positions late' = an earlier arrival has a sequence number k ahead (k < 2^15)",
            "completeness is judged for histories that start with the stream's first packet, contain no jump, and whose prefetch window fits into the capacity; the shortfall caused by releasing at most one frame per add() is classified C10.complete_backlog",
            "origins are sampled (near 2^16 / 2^32 / 2^15 / 2^31 and small), not enumerated",
        ]
        return rep.finish()
    except T.MachineryError as e:
        return rep.finish(machinery_error=e)


def replay(path):
    """Re-execute the schedule of a saved failing trace on the current tree and re-judge it."""
    with open(path) as f:
        obj = json.load(f)
    tr = rerun(obj.get("replay") or obj["trace"])
    tr["id"] = 1
    with T.Scratch(prefix="verif_c10_") as sc:
        _, v = judge(sc, [tr], timeout=600)
    verdict, pos, run_no, _ = v[1]
    if verdict == "ok":
        print("replay: trace accepted on the current tree")
        return 0
    k = min(max(pos, 1), len(tr["arr"])) - 1
    known = Report("C10")._match(signature(tr, verdict))
    if known is not None:
        print("KNOWN-FINDING: property=C10 replay=%s clause=%s [%s]" % (path, verdict, known["id"]))
        return 0
    print("VIOLATION property=C10 replay=%s clause=%s position=%d run=%d packet=%s output=%s" % (
        path, verdict, pos, run_no, tr["arr"][k], tr["runs"][min(run_no, len(tr["runs"])) - 1]["out"][k]))
    return 1
