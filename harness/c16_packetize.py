"""C16 - H.264 / VP8 packetisation is lossless and respects the 1300-byte payload limit.

Specs: specs/Packetize.tla (property ValidPacketization + a packetiser shaped like the
code + input enumeration), specs/TracePacketize.tla (verdict over recorded calls).

quick / thorough:
  1. TLC checks exhaustively, for small constants (limits 8..12, NAL sizes 2..30, byte
     level with distinct byte tokens), that the spec's own packetiser satisfies
     ValidPacketization, that damaging its output is rejected with the right clause,
     the picture id lemma for all 15-bit values, plus witnesses and action coverage.
  2. spec -> code: `tlc -simulate` with the REAL limit 1300 produces NAL size sequences /
     VP8 frame sequences around the real boundaries together with the model's plan
     (kinds and payload lengths); the real packetiser is run on inputs of those sizes
     and the fragmentation is compared (agreement measure, never fatal).
  3. code -> spec: those executions plus seeded random inputs at real sizes go through
     the real _split_bitstream/_packetize/pack and the real depayloaders; per payload
     the length and descriptor fields are logged, byte equality of the reassembled
     stream is computed here on the real bytes and logged as booleans; TLC judges every
     trace with the verdict functions of Packetize.tla at limit 1300.
  4. binding self-test: recorded traces corrupted in one field each must be rejected
     with the expected clause.
"""
MANIFEST = dict(
    technique="TLA+ spec Packetize.tla (RFC 6184 FU-A/STAP-A/single dispatch and RFC 7741 VP8 descriptor+chunking with the predicate ValidPacketization) model-checked exhaustively with TLC on small constants; TLC-simulated inputs at the real limit replayed into the real packetisers; every recorded packetise+depayload call judged by TracePacketize.tla (TLC trace validation)",
    text="TLC proves for all NAL sequences / VP8 buffers of a small universe (byte level) that the modelled packetiser is lossless, size-bounded, marks fragments and aggregates correctly and round-trips every 15-bit picture id; the real H264Encoder/Vp8Encoder packetisers and depayloaders are then run on TLC-generated and seeded random inputs at real sizes (2..60000 bytes, boundaries of 1300 and of the fragment size, 3/4-byte start codes, all picture ids) and each call is judged by the same TLA+ verdict functions with limit 1300.",
    note="Trusted: TLC; the harness' byte extraction (first bytes, STAP-A length prefixes) and its byte comparison of the reassembled stream with the input (60 kB byte lists are not shipped through TLC); NAL units are generated without start-code emulation and without trailing zero bytes (Annex B). Conformance is sampled, the design check is exhaustive within the stated constants. Agreement with the model's fragmentation is reported, not required.",
    design_ref="5/C16")

import copy  # noqa: E402
import fractions  # noqa: E402
import random  # noqa: E402
from concurrent.futures import ThreadPoolExecutor  # noqa: E402

from . import common  # noqa: F401,E402  (sets sys.path for aiortc)
from .common import Report, rng, seed, tier  # noqa: E402
from . import tlc as T  # noqa: E402

LIMIT = 1300          # from the property text
FRAG = LIMIT - 2      # FU-A fragment payload


def _set(xs):
    return "{" + ",".join(str(x) for x in sorted(set(xs))) + "}"


BASE_CFG = """SPECIFICATION Spec
CONSTANTS
 Limits = %(limits)s
 NalSizes = %(nalsizes)s
 SmallSizes = %(smallsizes)s
 Hdrs = %(hdrs)s
 SmallHdrs = %(smallhdrs)s
 MaxNals = %(maxnals)d
 MaxWide = %(maxwide)d
 MaxAgg = %(maxagg)d
 VpSizes = %(vpsizes)s
 VpPids = %(vppids)s
 MaxFrames = %(maxframes)d
 ByteLevel = %(bytelevel)s
 TwoPhase = %(twophase)s
%(tail)s
CHECK_DEADLOCK FALSE
"""


def cfg(**kw):
    d = dict(limits="{10}", nalsizes="{2}", smallsizes="{2}", hdrs="{65}", smallhdrs="{65}", maxnals=0, maxwide=0,
             maxagg=9, vpsizes="{0}", vppids="{0}", maxframes=0, bytelevel="TRUE", twophase="FALSE", tail="")
    d.update(kw)
    return BASE_CFG % d


def exh_a_cfg(thorough):
    """Byte-level exhaustive model: all sizes 2..30 twice, then small units."""
    inv = "VIEW View\nINVARIANT PacketizerValid\nINVARIANT PlanIsValid\nINVARIANT PicIdLemma\n"
    if thorough:
        return cfg(limits=_set(range(8, 13)), nalsizes=_set(range(2, 31)), smallsizes="{2,4}", hdrs="{1,101,215}",
                   smallhdrs="{65}", maxnals=4, maxwide=2, vpsizes=_set(range(0, 27)),
                   vppids="{0,1,126,127,128,255,16383,32766,32767}", maxframes=2, tail=inv + "INVARIANT Damaged")
    return cfg(limits="{8,11}", nalsizes=_set(range(2, 31)), smallsizes="{2,4}", hdrs="{1,215}", smallhdrs="{65}",
               maxnals=3, maxwide=2, vpsizes=_set(range(0, 21)), vppids="{0,1,126,127,128,255,16383,32766,32767}",
               maxframes=2, tail=inv)


def exh_b_cfg(thorough, tail=None, sizes="{2,5,6,20,29}"):
    """Longer sequences of few sizes, aggregation cap 2, limit 16; verdict non-vacuity (Damaged)."""
    if tail is None:
        tail = "VIEW View\nINVARIANT PacketizerValid\nINVARIANT PlanIsValid\nINVARIANT Damaged"
    return cfg(limits="{16}", nalsizes="{2,5,6,15,20,29}" if thorough else sizes, hdrs="{65}", maxnals=6 if thorough else 5,
               maxwide=6, maxagg=2, vpsizes="{0,1,12,13,24,26,27}", vppids="{127,32767}", maxframes=2, tail=tail)


def witness_cfgs(thorough):
    def w(name):
        return exh_b_cfg(False, "INVARIANT " + name, sizes="{2,5,6,15,20,29}")
    res = {"WitnessNoRichH264": w("WitnessNoRichH264"), "WitnessNoRichVp8": w("WitnessNoRichVp8")}
    if thorough:
        for name in ("WitnessNoExactFua", "WitnessNoUnevenFua", "WitnessNoFullStap", "WitnessNoAggCap",
                     "WitnessNoMixture", "WitnessNoVp8Full", "WitnessNoPidWrap"):
            res[name] = w(name)
    return res


# sizes around the real boundaries: 1300 (dispatch), 1297 (STAP-A budget), multiples of 1298
def emphasis_nal_sizes():
    s = [2, 3, 4, 5, 100, 640, 645, 646, 647, 648, 649, 650, 651]
    s += list(range(1290, 1306))
    for k in list(range(1, 8)) + [10, 23, 45, 46]:
        s += [k * FRAG + 1 + d for d in (-2, -1, 0, 1, 2)]
        s += [k * LIMIT + d for d in (-1, 0, 1)]
    s += [59999, 60000]
    return sorted(x for x in set(s) if 2 <= x <= 60000)


def emphasis_vp8_sizes():
    s = [0, 1, 2, 3, 1290] + list(range(1294, 1303))
    for k in list(range(1, 8)) + [10, 23, 45, 46]:
        for c in (LIMIT - 3, LIMIT - 4, LIMIT):
            s += [k * c + d for d in (-1, 0, 1)]
    s += [59999, 60000]
    return sorted(x for x in set(s) if 0 <= x <= 60000)


PIDS = [0, 1, 2, 63, 64, 126, 127, 128, 129, 254, 255, 256, 257, 4095, 4096, 8191, 8192, 16383, 16384, 16385,
        32764, 32765, 32766, 32767]
HDRS = [(f << 7) | (nri << 5) | t for f in (0, 1) for nri in range(4) for t in range(1, 24)]


def sim_cfg():
    sizes = [x for x in emphasis_nal_sizes() if x <= 9100 or x >= 59000]
    vs = [x for x in emphasis_vp8_sizes() if x <= 9100 or x >= 59000]
    return cfg(limits="{%d}" % LIMIT, nalsizes=_set(sizes[::2] + [1297, 1298, 1299, 1300, 1301]),
               smallsizes=_set([2, 3, 5, 100, 640, 645, 646, 647, 648, 649, 650, 1290, 1294, 1295, 1296, 1297, 1298,
                                1299, 1300, 1301, 2596, 2597, 2598]),
               hdrs="{1,101,215}", smallhdrs="{65,232}", maxnals=14, maxwide=3, maxagg=9,
               vpsizes=_set(vs[::2] + [1296, 1297, 1298, 2592, 2594]), vppids="{0,126,127,128,16383,32765,32766,32767}",
               maxframes=5, bytelevel="FALSE", twophase="TRUE", tail="INVARIANT PlanIsValid")


TRACE_CFG = cfg(limits="{%d}" % LIMIT, bytelevel="FALSE").replace("SPECIFICATION Spec", "SPECIFICATION TraceSpec") \
    .replace("CONSTANTS\n", "CONSTANTS\n Limit = %d\n" % LIMIT)


# ------------------------------------------------------------------ execution on the real code

def nal_bytes(rb, hdr, n):
    """A NAL unit of n bytes: header + random body without start-code emulation
    (no two consecutive zero bytes, except an occasional 00 00 03 escape) and without
    trailing zero (Annex B)."""
    m = n - 1
    b = bytearray(rb.randbytes(m).replace(b"\x00\x00", b"\x00\x5a"))
    if m >= 8 and rb.random() < 0.3:
        i = rb.randrange(1, m - 5)
        b[i - 1] = b[i - 1] or 0x11
        b[i:i + 4] = b"\x00\x00\x03" + bytes([rb.choice([1, 2, 3, 0x7F])])
        if b[i + 4] == 0 and b[i + 3] == 0:
            b[i + 4] = 0x22
    if m and b[-1] == 0:
        b[-1] = 0x80
    return bytes([hdr]) + bytes(b)


def annexb_split(buf):
    """Independent Annex B reading of the depacketised stream: NAL units are what stands
    between start codes (00 00 01, any number of zero bytes before it)."""
    parts = buf.split(b"\x00\x00\x01")
    garbage = any(parts[0])
    return [p.rstrip(b"\x00") for p in parts[1:]], garbage


def describe_h264(p):
    d = {"len": len(p), "b0": p[0] if len(p) >= 1 else 0, "b1": p[1] if len(p) >= 2 else 0,
         "units": [], "uh": [], "walk": True}
    if len(p) >= 1 and (p[0] & 0x1F) == 24:
        pos = 1
        ok = True
        while pos < len(p):
            if pos + 2 > len(p):
                ok = False
                break
            ln = (p[pos] << 8) | p[pos + 1]
            if ln == 0 or pos + 2 + ln > len(p):
                d["units"].append(ln)
                d["uh"].append(0)
                ok = False
                break
            d["units"].append(ln)
            d["uh"].append(p[pos + 2])
            pos += 2 + ln
        d["walk"] = ok
    return d


def kind_of(d):
    t = d["b0"] & 0x1F
    return "single" if 1 <= t <= 23 else "stap" if t == 24 else "fua" if t == 28 else "other%d" % t


def _packet(buf):
    import av
    p = av.Packet(len(buf))
    if buf:
        p.update(buf)
    p.pts = 0
    p.time_base = fractions.Fraction(1, 90000)
    return p


def exec_h264(gen):
    """gen = {kind:'h264', via, nals:[[hdr,len,startcode_len],...], bseed}.  Returns the trace."""
    from aiortc.codecs import h264
    rb = random.Random(gen["bseed"])
    units = [nal_bytes(rb, h, n) for h, n, _ in gen["nals"]]
    stream = b"".join((b"\x00\x00\x00\x01" if sc == 4 else b"\x00\x00\x01") + u for u, (_, _, sc) in zip(units, gen["nals"]))
    tr = {"codec": "h264", "exc": "", "nals": [], "nout": 0, "garbage": False, "pl": []}
    payloads = []
    try:
        stage = "packetize"
        if gen["via"] == "pack":
            payloads, _ = h264.H264Encoder().pack(_packet(stream))
        else:
            payloads = h264.H264Encoder._packetize(h264.H264Encoder._split_bitstream(stream))
        payloads = [bytes(p) for p in payloads]
        stage = "depayload"
        out = b"".join(h264.h264_depayload(p) for p in payloads)
    except Exception as e:  # the property: valid input never raises
        tr["exc"] = "%s in %s: %s" % (type(e).__name__, stage, str(e)[:80])
        out = b""
    got, garbage = annexb_split(out)
    tr["nout"] = len(got)
    tr["garbage"] = bool(garbage)
    tr["nals"] = [{"hdr": u[0], "len": len(u), "eq": bool(i < len(got) and got[i] == u)} for i, u in enumerate(units)]
    tr["pl"] = [describe_h264(p) for p in payloads]
    return tr


def exec_vp8(gen, enc=None):
    """gen = {kind:'vp8', via, n, pid, bseed}; with via == 'pack' the encoder object's
    picture id counter is used (enc carries it from frame to frame)."""
    from aiortc.codecs import vpx
    rb = random.Random(gen["bseed"])
    buf = rb.randbytes(gen["n"])
    tr = {"codec": "vp8", "exc": "", "n": len(buf), "pid": gen["pid"], "eq": False, "olen": 0, "pl": []}
    payloads = []
    try:
        stage = "packetize"
        if gen["via"] == "pack":
            if enc is None:
                enc = vpx.Vp8Encoder()
                enc.picture_id = gen["pid"]
            tr["pid"] = enc.picture_id        # the frame's picture id according to the encoder
            payloads, _ = enc.pack(_packet(buf))
        else:
            payloads = vpx.Vp8Encoder._packetize(buf, gen["pid"])
        payloads = [bytes(p) for p in payloads]
        stage = "depayload"
        out = b"".join(vpx.vp8_depayload(p) for p in payloads)
        tr["eq"] = out == buf
        tr["olen"] = len(out)
        stage = "descriptor parse"
        for p in payloads:
            descr, _rest = vpx.VpxPayloadDescriptor.parse(p)
            tr["pl"].append({"len": len(p), "d": list(p[:4]),
                             "ppid": descr.picture_id if descr.picture_id is not None else -1})
    except Exception as e:
        tr["exc"] = "%s in %s: %s" % (type(e).__name__, stage, str(e)[:80])
    if not isinstance(tr["pid"], int) or not 0 <= tr["pid"] < 2 ** 31:
        tr["pid"] = -2
    return tr


def exec_vp8desc(gen):
    """Picture id sweep lo..hi-1 through the real VpxPayloadDescriptor (serialise, parse),
    in combination with the other optional descriptor fields."""
    from aiortc.codecs import vpx
    tr = {"codec": "vp8desc", "exc": "", "rows": []}
    try:
        for pid in range(gen["lo"], gen["hi"]):
            c = (pid * 7 + pid // 128) % 16
            s = c & 1
            d = vpx.VpxPayloadDescriptor(
                partition_start=s, partition_id=(pid // 3) % 8, picture_id=pid,
                tl0picidx=(pid % 256) if c & 2 else None, tid=((pid % 4), (pid // 4) % 2) if c & 4 else None,
                keyidx=(pid % 32) if c & 8 else None)
            raw = bytes(d)
            tail = bytes([0xAA, pid % 256, 0xBB])
            back, rest = vpx.VpxPayloadDescriptor.parse(raw + tail)
            dep = vpx.vp8_depayload(raw + tail)
            feq = all(getattr(back, f) == getattr(d, f) for f in
                      ("partition_start", "partition_id", "picture_id", "tl0picidx", "tid", "keyidx"))
            tr["rows"].append({"pid": pid, "s": s, "d": list(raw[:4]), "rawlen": len(raw),
                               "plen": len(raw) + len(tail) - len(rest) if rest == (raw + tail)[len(raw) + len(tail) - len(rest):] else -1,
                               "dplen": len(raw) + len(tail) - len(dep) if dep == (raw + tail)[len(raw) + len(tail) - len(dep):] else -1,
                               "feq": bool(feq),
                               "ppid": back.picture_id if back.picture_id is not None else -1})
    except Exception as e:
        tr["exc"] = "%s in descriptor sweep: %s" % (type(e).__name__, str(e)[:80])
    return tr


def execute(gen, enc=None):
    if gen["kind"] == "h264":
        return exec_h264(gen)
    if gen["kind"] == "vp8":
        return exec_vp8(gen, enc)
    return exec_vp8desc(gen)


# ------------------------------------------------------------------ input generators (real sizes)

def rand_hdr(r):
    f = 1 if r.random() < 0.04 else 0
    return (f << 7) | (r.randrange(4) << 5) | r.randint(1, 23)


def rand_size(r, emph):
    x = r.random()
    if x < 0.45:
        return r.choice(emph)
    if x < 0.60:
        return r.randint(1290, 1310)
    if x < 0.70:
        k = r.randint(1, 46)
        return min(60000, max(2, k * FRAG + 1 + r.randint(-2, 2)))
    if x < 0.85:
        return r.randint(2, 3000)
    return r.randint(2, 60000)


def random_h264(r, emph):
    """One random NAL sequence; returns (class tag, [[hdr, len, sc]])."""
    x = r.random()
    if x < 0.25:
        cls = "one_nal"
        sizes = [rand_size(r, emph)]
    elif x < 0.45:
        cls = "many_small"
        hi = r.choice([4, 40, 200, 700])
        sizes = [r.randint(2, hi) for _ in range(r.randint(2, 45))]
    elif x < 0.65:
        # sums next to the STAP-A budget: 1 + sum(2 + len) around 1300
        cls = "stap_budget"
        k = r.randint(2, 9)
        total = LIMIT + r.randint(-3, 3)           # wanted 1 + sum(2 + len)
        sizes = [r.randint(2, max(2, (LIMIT - 40) // k)) for _ in range(k - 1)]
        last = total - 1 - 2 * k - sum(sizes)
        sizes.append(max(2, last))
        sizes.append(r.choice([2, 3, 700, 1300, 1301, 2597]))
        if r.random() < 0.5:
            sizes = [r.choice([2, 1299, 1300, 1301, 3000])] + sizes
    elif x < 0.80:
        cls = "boundary_mix"
        sizes = [r.choice([2, 3, 645, 646, 647, 648, 649, 650, 1294, 1295, 1296, 1297, 1298, 1299, 1300, 1301, 1302,
                           2596, 2597, 2598, 3894, 3895, 3896]) for _ in range(r.randint(2, 12))]
    else:
        cls = "mixture"
        sizes = [rand_size(r, emph) if r.random() < 0.4 else r.randint(2, 400) for _ in range(r.randint(2, 16))]
    p4 = r.choice([0.0, 0.5, 1.0])
    return cls, [[rand_hdr(r), s, 4 if r.random() < p4 else 3] for s in sizes]


def random_vp8(r, emph):
    x = r.random()
    n = r.choice(emph) if x < 0.5 else r.randint(0, 4000) if x < 0.75 else r.randint(0, 60000)
    pid = r.choice(PIDS) if r.random() < 0.5 else r.randrange(32768)
    return n, pid


# ------------------------------------------------------------------ the check

def _design_job(name, module, cfg_text, workers, args, timeout):
    with T.Scratch(prefix="verif_c16_") as sc:
        return name, T.tlc(sc, module, cfg_text, workers=workers, args=args, timeout=timeout)


def _validate(traces, timeout):
    """Batched TLC trace validation, in parallel chunks (each in its own scratch dir)."""
    chunks = [traces[i:i + 4000] for i in range(0, len(traces), 4000)] or [[]]

    def one(chunk):
        with T.Scratch(prefix="verif_c16_") as sc:
            slim = [{k: v for k, v in t.items() if k not in ("gen", "src", "cls")} for t in chunk]
            return T.validate_traces(sc, "TracePacketize", TRACE_CFG, slim, timeout=timeout)
    verdicts, states, outs = {}, 0, []
    with ThreadPoolExecutor(max_workers=4) as pool:
        for res, v in pool.map(one, chunks):
            verdicts.update(v)
            states += res.distinct
            outs.append(res.out[-1500:])
    return verdicts, states, outs


def binding_cases(traces):
    """One-field corruptions of recorded traces and the clause each must be rejected with.
    Several base traces per shape are prepared; only corruptions of a base trace that TLC
    itself accepts count (on a broken tree a recorded trace may already be rejected)."""
    cases = []   # (corrupted trace, expected clause, id of the base trace, shape)

    def find(pred, shape, build):
        n = 0
        for t in traces:
            if n < 4 and t["exc"] == "" and pred(t):
                n += 1
                for bad, want in build(t):
                    cases.append((bad, want, t["id"], shape))
        if n == 0:
            raise T.MachineryError("binding self-test: no recorded trace with " + shape)

    def mod(t, fn):
        b = copy.deepcopy(t)
        fn(b)
        return b

    def setf(obj_path, key, fn):
        def apply(b):
            o = b
            for k in obj_path:
                o = o[k]
            o[key] = fn(o[key])
        return apply

    def fu_cases(t):
        fi = [i for i, d in enumerate(t["pl"]) if kind_of(d) == "fua"]
        ends = [i for i in fi if t["pl"][i]["b1"] & 0x40]
        last = max(ends) if ends else fi[-1]
        return [
            (mod(t, setf(["pl", last], "b1", lambda v: v & ~0x40)), "C16.fua_markers"),
            (mod(t, setf(["pl", fi[1]], "b1", lambda v: v | 0x80)), "C16.fua_markers"),
            (mod(t, setf(["pl", fi[1]], "b0", lambda v: v ^ 0x20)), "C16.fua_header"),
            (mod(t, setf(["pl", fi[0]], "len", lambda v: LIMIT + 1)), "C16.size_limit"),
            (mod(t, setf(["nals", -1], "eq", lambda v: False)), "C16.reassembly"),
            (mod(t, setf(["pl", fi[1]], "len", lambda v: v - 1)), "C16.reassembly"),
            (mod(t, setf([], "exc", lambda v: "ValueError in depayload: corrupted")), "C16.raises"),
        ]

    def st_cases(t):
        si = [i for i, d in enumerate(t["pl"]) if kind_of(d) == "stap"][0]
        return [
            (mod(t, setf(["pl", si, "units"], -1, lambda v: v + 1)), "C16.stap_whole"),
            (mod(t, setf(["pl", si], "walk", lambda v: False)), "C16.stap_whole"),
        ]

    def vp_cases(t):
        return [
            (mod(t, setf(["pl", 1, "d"], 0, lambda v: v | 0x10)), "C16.vp8_start_bit"),
            (mod(t, setf(["pl", 0, "d"], 0, lambda v: v & ~0x10)), "C16.vp8_start_bit"),
            (mod(t, setf(["pl", 1, "d"], 2, lambda v: v ^ 0x40)), "C16.vp8_picture_id"),
            (mod(t, setf(["pl", -1], "ppid", lambda v: (t["pid"] + 1) % 32768)), "C16.vp8_picture_id"),
            (mod(t, setf([], "eq", lambda v: False)), "C16.reassembly"),
            (mod(t, setf(["pl", -1], "len", lambda v: LIMIT + 1)), "C16.size_limit"),
        ]
    find(lambda t: t["codec"] == "h264" and sum(1 for d in t["pl"] if kind_of(d) == "fua") >= 3,
         "three FU-A fragments", fu_cases)
    find(lambda t: t["codec"] == "h264" and any(kind_of(d) == "stap" for d in t["pl"]), "a STAP-A packet", st_cases)
    find(lambda t: t["codec"] == "vp8" and len(t["pl"]) >= 2 and all(len(d["d"]) >= 3 for d in t["pl"]),
         "a multi-packet VP8 frame", vp_cases)
    for i, c in enumerate(cases):
        c[0]["id"] = 10_000_000 + i
    return cases


def signature(t, verdict, pos):
    """Specific signature of a rejected trace: clause + codec + entry point + input class."""
    sig = {"codec": t["codec"], "via": t["gen"].get("via", "-")}
    if t["codec"] == "h264" and 1 <= pos <= len(t["pl"]):
        sig["payload_kind"] = kind_of(t["pl"][pos - 1])
    if t["codec"] == "vp8":
        sig["pid_form"] = "15bit" if t["gen"]["pid"] >= 128 else "7bit"
    return sig


def run():
    import time
    rep = Report("C16")
    thorough = tier() == "thorough"
    r = rng(16)
    phase, t_last = {}, [time.time()]

    def lap(name):
        phase[name] = round(time.time() - t_last[0], 1)
        t_last[0] = time.time()
    pool = ThreadPoolExecutor(max_workers=6)
    try:
        tmo = 3000 if thorough else 900
        # 1. design level (TLC runs in the background while the real code is exercised)
        jobs = [pool.submit(_design_job, "A", "Packetize", exh_a_cfg(thorough), 8, [], tmo),
                pool.submit(_design_job, "B", "Packetize", exh_b_cfg(thorough), 4, ["-coverage", "1"], tmo)]
        for w, c in witness_cfgs(thorough).items():
            jobs.append(pool.submit(_design_job, w, "Packetize", c, 2, [], tmo))

        # 2. spec -> code: inputs and expected plans from TLC at the real limit
        nsim = 1200 if thorough else 96

        def sim_job():
            with T.Scratch(prefix="verif_c16_") as sc:
                return T.simulate(sc, "Packetize", sim_cfg(), num=nsim, depth=29, seed=seed(), timeout=tmo, workers=8)
        simf = pool.submit(sim_job)

        traces = []
        stats = {"h264_payloads": 0, "fua_fragments": 0, "stap_packets": 0, "single_packets": 0, "vp8_payloads": 0,
                 "classes": {}}

        def record(gen, src, cls, enc=None):
            t = execute(gen, enc)
            t["id"] = len(traces) + 1
            t["gen"], t["src"], t["cls"] = gen, src, cls
            traces.append(t)
            stats["classes"][cls] = stats["classes"].get(cls, 0) + 1
            if t["codec"] == "h264":
                for d in t["pl"]:
                    k = kind_of(d)
                    stats["h264_payloads"] += 1
                    key = {"fua": "fua_fragments", "stap": "stap_packets", "single": "single_packets"}.get(k)
                    if key:
                        stats[key] += 1
            elif t["codec"] == "vp8":
                stats["vp8_payloads"] += len(t["pl"])
            return t

        # 3a. seeded random inputs at real sizes
        emph_n, emph_v = emphasis_nal_sizes(), emphasis_vp8_sizes()
        for s in emph_n if thorough else emph_n[::2]:       # every emphasised size once on its own
            record({"kind": "h264", "via": "packetize", "nals": [[rand_hdr(r), s, r.choice([3, 4])]],
                    "bseed": r.getrandbits(30)}, "boundary", "one_nal")
        for _ in range(9000 if thorough else 900):
            cls, nals = random_h264(r, emph_n)
            record({"kind": "h264", "via": "pack" if r.random() < 0.25 else "packetize", "nals": nals,
                    "bseed": r.getrandbits(30)}, "random", cls)
        for s in emph_v if thorough else emph_v[::2]:
            record({"kind": "vp8", "via": "packetize", "n": s, "pid": r.choice(PIDS), "bseed": r.getrandbits(30)},
                   "boundary", "vp8_frame")
        for _ in range(4000 if thorough else 500):
            n, pid = random_vp8(r, emph_v)
            record({"kind": "vp8", "via": "packetize", "n": n, "pid": pid, "bseed": r.getrandbits(30)},
                   "random", "vp8_frame")
        from aiortc.codecs import vpx
        for _ in range(600 if thorough else 80):          # encoder object: picture id counter across the wrap
            enc = vpx.Vp8Encoder()
            enc.picture_id = r.choice([125, 126, 127, 16382, 32765, 32766, 32767, r.randrange(32768)])
            for _ in range(r.randint(2, 5)):
                n, _pid = random_vp8(r, emph_v)
                record({"kind": "vp8", "via": "pack", "n": n, "pid": enc.picture_id, "bseed": r.getrandbits(30)},
                       "random", "vp8_pack_sequence", enc)
        for lo in range(0, 32768, 2048):                   # every 15-bit picture id through the real descriptor
            record({"kind": "vp8desc", "lo": lo, "hi": lo + 2048}, "sweep", "vp8_descriptor_sweep")

        lap("random_executions_on_real_code")
        # 2b. replay of the TLC-generated inputs, comparison with the model's plan
        sim, behs = simf.result()
        lap("wait_for_tlc_simulation")
        if not behs or sim.violated:
            raise T.MachineryError("simulation at the real limit failed: %s\n%s" % (sim.violated, sim.out[-1500:]))
        agree = {"inputs": 0, "same_packet_count": 0, "same_kinds": 0, "same_lengths": 0, "first_difference": None}
        seen_inputs = set()
        for beh in behs:
            enc = None
            for action, state in beh[1:]:
                a = state["act"]
                if a["op"] == "h264":
                    key = ("h", tuple((n["hdr"], n["len"]) for n in a["nals"]))
                    if key in seen_inputs:
                        continue
                    seen_inputs.add(key)
                    gen = {"kind": "h264", "via": "packetize", "bseed": r.getrandbits(30),
                           "nals": [[n["hdr"], n["len"], r.choice([3, 4])] for n in a["nals"]]}
                    t = record(gen, "tlc-simulate", "tlc_h264")
                    got_k, got_l = [kind_of(d) for d in t["pl"]], [d["len"] for d in t["pl"]]
                elif a["op"] == "vp8":
                    if enc is None:
                        enc = vpx.Vp8Encoder()
                        enc.picture_id = a["pid"]
                    gen = {"kind": "vp8", "via": "pack", "n": a["n"], "pid": a["pid"], "bseed": r.getrandbits(30)}
                    t = record(gen, "tlc-simulate", "tlc_vp8", enc)
                    got_k, got_l = ["vp8"] * len(t["pl"]), [d["len"] for d in t["pl"]]
                    a = dict(a, kinds=["vp8"] * len(a["lens"]))
                    if t["pid"] != a["pid"]:
                        got_k = ["vp8-picture-id-counter-differs"]
                else:
                    continue
                agree["inputs"] += 1
                agree["same_packet_count"] += len(got_l) == len(a["lens"])
                agree["same_kinds"] += got_k == list(a["kinds"])
                same = got_k == list(a["kinds"]) and got_l == list(a["lens"])
                agree["same_lengths"] += same
                if not same and agree["first_difference"] is None:
                    agree["first_difference"] = {"input": gen, "model": [list(a["kinds"]), list(a["lens"])],
                                                 "code": [got_k, got_l]}

        lap("replay_of_tlc_inputs")
        # 4. binding self-test cases ride in the same TLC batch
        cases = binding_cases(traces)
        verdicts, vstates, vouts = _validate(traces + [c[0] for c in cases], timeout=tmo)
        missing = [t["id"] for t in traces + [c[0] for c in cases] if t["id"] not in verdicts]
        if missing:
            raise T.MachineryError("trace validation incomplete: %d traces without verdict (first id %s)\n%s"
                                   % (len(missing), missing[0], "\n".join(vouts)[-2500:]))
        rejected = sum(1 for t in traces if verdicts[t["id"]][0] != "ok")
        bind, shapes_ok = [], set()
        for bad, want, base, shape in cases:
            if verdicts[base][0] != "ok":
                continue            # the recorded trace itself is rejected: reported below as a violation
            shapes_ok.add(shape)
            got = verdicts[bad["id"]][0]
            bind.append((want, got))
            if got != want:
                raise T.MachineryError("binding self-test: corrupted trace expected %s, judged %s" % (want, got))
        if len(shapes_ok) < 3 and not rejected:
            raise T.MachineryError("binding self-test: shapes covered %s" % sorted(shapes_ok))
        lap("tlc_trace_validation")
        # design-level results
        design = {}
        for f in jobs:
            name, res = f.result()
            design[name] = res
        pool.shutdown()
        lap("wait_for_tlc_design_runs")
        for name in ("A", "B"):
            res = design[name]
            if not res.complete or res.violated:
                raise T.MachineryError("design model Packetize (%s) failed: %s\n%s" % (name, res.violated, res.out[-2500:]))
        cov = design["B"].action_counts()
        for action in ("AddNal", "Vp8Frame"):
            if cov.get(action, (0, 0))[1] == 0:
                raise T.MachineryError("action %s never taken in the model (coverage %r)" % (action, cov))
        for name, res in design.items():
            if name.startswith("Witness") and name not in res.violated:
                raise T.MachineryError("vacuity: witness %s not violated\n%s" % (name, res.out[-1500:]))

        # verdicts of the real executions
        for t in traces:
            v, pos = verdicts[t["id"]]
            if v.startswith("machinery"):
                raise T.MachineryError("trace %d: %s" % (t["id"], v))
            if v != "ok":
                detail = {"position": pos, "source": t["src"], "class": t["cls"], "exc": t["exc"]}
                if t["codec"] == "h264":
                    detail["nal_sizes"] = [n[1] for n in t["gen"]["nals"]][:20]
                    if 1 <= pos <= len(t["pl"]):
                        detail["payload"] = t["pl"][pos - 1]
                elif t["codec"] == "vp8":
                    detail.update(n=t["n"], pid=t["pid"])
                    if 1 <= pos <= len(t["pl"]):
                        detail["payload"] = t["pl"][pos - 1]
                rep.violation(v, signature(t, v, pos), detail, {"gen": t["gen"], "trace": t})

        def sample(t):
            s = {k: v for k, v in t.items() if k not in ("gen", "pl", "nals", "rows")}
            s["payloads"] = t.get("pl", [])[:3]
            s["input"] = t["gen"] if t["codec"] != "h264" else dict(t["gen"], nals=t["gen"]["nals"][:6])
            return s
        by_codec = {}
        for t in traces:
            by_codec[t["codec"]] = by_codec.get(t["codec"], 0) + 1
        A, B = design["A"], design["B"]
        rep.coverage = {
            "states": A.distinct + B.distinct, "transitions": A.generated + B.generated, "exhaustive": True,
            "model_depth": max(A.depth, B.depth),
            "model_configs": {"A": {"states": A.distinct, "wall_s": round(A.wall, 1)},
                              "B": {"states": B.distinct, "wall_s": round(B.wall, 1)}},
            "witnesses_violated": sorted(n for n in design if n.startswith("Witness")),
            "phase_wall_s": phase, "simulation_wall_s": round(sim.wall, 1),
            "action_coverage": {k: v[1] for k, v in cov.items()},
            "picture_id_lemma_values": 32768,
            "traces_validated_against_impl": len(traces),
            "traces_by_codec": by_codec, "traces_by_class": stats["classes"],
            "h264_payloads": stats["h264_payloads"], "fua_fragments": stats["fua_fragments"],
            "stap_packets": stats["stap_packets"], "single_packets": stats["single_packets"],
            "vp8_payloads": stats["vp8_payloads"], "picture_ids_swept": 32768,
            "trace_validation_states": vstates,
            "lockstep_behaviours": len(behs), "lockstep_inputs": agree["inputs"],
            "lockstep_same_packet_count": agree["same_packet_count"], "lockstep_same_kinds": agree["same_kinds"],
            "lockstep_same_lengths": agree["same_lengths"], "lockstep_first_difference": agree["first_difference"],
            "binding_selftest": "%d corrupted traces rejected: %s" % (len(bind), sorted(set(w for w, _ in bind))),
            "samples": [sample(traces[0]), sample(traces[len(traces) // 3]), sample(traces[-20])],
        }
        rep.assumptions = [
            "payload limit 1300 taken from the property text",
            "NAL units are generated Annex-B clean: no 00 00 0x inside (except 00 00 03 escapes), no trailing zero byte",
            "byte equality of the reassembled stream with the input is computed by the harness on the real bytes "
            "(independent Annex B splitter) and enters TLC as booleans",
            "descriptor fields are extracted from the payload bytes by the harness (first bytes, STAP-A length prefixes)",
            "every fragment of a fragmented unit, not only the first, must carry the original F/NRI/type bits; "
            "start marker = first fragment, end marker = last fragment; every VP8 packet of a frame carries the picture id",
        ]
        return rep.finish()
    except T.MachineryError as e:
        pool.shutdown(wait=True, cancel_futures=True)
        return rep.finish(machinery_error=e)


def replay(path):
    """Re-execute the saved input on the current tree and re-judge it."""
    import json
    obj = json.load(open(path))
    gen = obj["replay"]["gen"]
    t = execute(gen)
    t["id"] = 1
    with T.Scratch(prefix="verif_c16_") as sc:
        _, v = T.validate_traces(sc, "TracePacketize", TRACE_CFG, [t], timeout=600)
    verdict, pos = v.get(1, ("machinery", 0))
    if verdict == "ok":
        print("replay: trace accepted on the current tree")
        return 0
    if verdict.startswith("machinery"):
        print("MACHINERY-ERROR property=C16 replay could not be judged")
        return 2
    print("VIOLATION property=C16 replay=%s clause=%s position=%s input=%s" % (path, verdict, pos, str(gen)[:300]))
    return 1
