"""Schedules for the SCTP pair: seeded random programs + fault schedules, and replay of
explicit op lists (from TLC behaviours, saved failing traces, or delta debugging).

An op list is implementation-relative: packets are named (src, k) = the k-th datagram
emitted by endpoint src; timers by (endpoint, callback name).
"""
from .sctp_env import Env

SIZES_SMALL = [0, 1, 5, 10, 11, 12, 13, 100, 1199, 1200]
SIZES_FRAG = [1201, 2400, 2401, 3000, 3600, 5000, 12000]
LABELS = ["", "chat", "héllo", "日本語", "\U0001F600x", "a" * 40, "ßßß"]
ORIGINS = [None, 0, 1, 100, 2**32 - 1, 2**32 - 2, 2**32 - 5, 2**32 - 40, 2**31 - 3, 2**31 + 2]


class Cfg:
    """Knobs of one random run (all derived from the seeded RNG by the caller)."""

    def __init__(self, **kw):
        self.origin_a = None
        self.origin_b = None
        self.n_rel = 1            # reliable channels
        self.n_pr = 0             # partially reliable channels
        self.negotiated = 0       # out-of-band negotiated channels
        self.steps = 60
        self.p_drop = 0.1
        self.p_dup = 0.03
        self.p_fire = 0.05
        self.p_app = 0.3
        self.p_close = 0.0
        self.p_thr = 0.0
        self.handshake_faults = False
        self.early_ops = False     # create/close before the association is up
        self.sizes = SIZES_SMALL + SIZES_FRAG
        self.max_msgs = 12
        self.both_send = True
        self.burst = 0            # send this many MTU-size messages at once
        self.probe = True
        self.unicode_labels = False
        self.protect_reconfig = False  # True: never drop datagrams carrying RE-CONFIG (they are retransmitted since 3df715a)
        self.sseq_ops = False          # insert ("sseq", i, 0) placeholders after channels open (C17)
        self.__dict__.update(kw)


def apply_op(env, op, toks):
    """Execute one explicit op; returns False if it was not applicable."""
    k = op[0]
    if k == "start":
        env.start(op[1] if len(op) > 1 else "AB")
    elif k == "create":
        tok = env.create(op[1], **op[2])
        toks.append(tok)
    elif k == "create_pair":   # negotiated peer object
        if op[2] >= len(toks) or toks[op[2]] is None:
            return False
        env.create(op[1], pair=toks[op[2]], **op[3])
    elif k == "send":
        if op[2] >= len(toks) or toks[op[2]] is None:
            return False
        env.send(op[1], toks[op[2]], op[3], op[4], probe=(len(op) > 5 and op[5]))
    elif k == "send_close":
        if op[2] >= len(toks) or toks[op[2]] is None:
            return False
        env.send(op[1], toks[op[2]], op[3], op[4], then_close=True)
    elif k == "close":
        if op[2] >= len(toks) or toks[op[2]] is None:
            return False
        env.close_channel(op[1], toks[op[2]])
    elif k == "thr":
        if op[2] >= len(toks) or toks[op[2]] is None:
            return False
        env.set_threshold(op[1], toks[op[2]], op[3])
    elif k in ("deliver", "dup", "drop"):
        p = env.find_pkt(op[1], op[2])
        if p is None:
            return False
        if k == "deliver":
            env.deliver(p)
        elif k == "dup":
            env.deliver(p, keep=True)
        else:
            env.drop(p)
    elif k == "fire":
        for side, name, h in env.timers(op[1]):
            if name == op[2]:
                env.fire(h)
                return True
        return False
    elif k == "sseq":
        if op[1] >= len(toks) or toks[op[1]] is None:
            return False
        env.shift_sseq(toks[op[1]], op[2])
    elif k == "advance":
        env.advance(op[1])
    elif k == "stop":
        env.stop(op[1])
    elif k == "heal":
        env.heal_and_drain()
    elif k == "quiesce":
        env.quiesce()
    else:
        raise ValueError(op)
    return True


def run_ops(ops, origin_a=None, origin_b=None, meta=None):
    """Replay an explicit op list on a fresh pair; returns the trace dict."""
    env = Env(origin_a, origin_b)
    toks = []
    applied = 0
    try:
        for op in ops:
            if apply_op(env, op, toks):
                applied += 1
        pr = any(c["params"]["maxRetransmits"] is not None or c["params"]["maxPacketLifeTime"] is not None
                 for c in env.chan.values())
        return {"events": env.events, "pr": bool(pr), "ops": [list(o) for o in ops], "applied": applied,
                "origin": [origin_a, origin_b], "meta": meta or {}}
    finally:
        env.close()


def random_ops(r, cfg):
    """Generate and execute a random run; returns the trace dict (ops recorded for replay)."""
    env = Env(cfg.origin_a, cfg.origin_b)
    ops = []
    toks = []

    def do(op):
        ops.append(op)
        return apply_op(env, op, toks)

    try:
        chan_specs = []
        labels = LABELS if cfg.unicode_labels else ["", "chat", "data"]
        for i in range(cfg.n_rel):
            chan_specs.append(dict(label=r.choice(labels), protocol=r.choice(labels), ordered=r.random() < 0.7))
        for i in range(cfg.n_pr):
            if r.random() < 0.6:
                chan_specs.append(dict(label=r.choice(labels), protocol="", ordered=r.random() < 0.5,
                                       maxRetransmits=r.choice([0, 0, 1, 2])))
            else:
                chan_specs.append(dict(label=r.choice(labels), protocol="", ordered=r.random() < 0.5,
                                       maxPacketLifeTime=r.choice([500, 1500, 4000])))
        r.shuffle(chan_specs)
        creators = [r.choice("AB") for _ in chan_specs]
        pending_create = list(zip(creators, chan_specs))
        neg_ids = [10 + 2 * i + r.randint(0, 1) for i in range(cfg.negotiated)]

        if cfg.early_ops:
            # some channels are created (and perhaps closed) before start()
            n_early = r.randint(0, len(pending_create))
            for _ in range(n_early):
                e, spec = pending_create.pop(0)
                do(("create", e, spec))
                if r.random() < cfg.p_close:
                    do(("close", e, len(toks) - 1))
        do(("start", "AB"))

        def net_action(allow_fault=True):
            if not env.net:
                return False
            p = r.choice(env.net[:6]) if r.random() < 0.8 else r.choice(env.net)
            x = r.random()
            if allow_fault and x < cfg.p_drop and not (cfg.protect_reconfig and env.has_reconfig(p)):
                do(("drop",) + p["id"])
            elif allow_fault and x < cfg.p_drop + cfg.p_dup:
                do(("dup",) + p["id"])
            else:
                do(("deliver",) + p["id"])
            return True

        # handshake
        guard = 0
        while not (env.ep["A"].state == "connected" and env.ep["B"].state == "connected") and guard < 200:
            guard += 1
            if env.ep["A"].state == "closed" or env.ep["B"].state == "closed":
                break
            if cfg.early_ops and pending_create and r.random() < 0.2:
                e, spec = pending_create.pop(0)
                do(("create", e, spec))
                continue
            if env.net and r.random() > 0.1:
                net_action(allow_fault=cfg.handshake_faults)
            else:
                ts = env.timers()
                if ts:
                    side, name, h = r.choice(ts)
                    do(("fire", side, name))
                elif not env.net:
                    break

        for nid in neg_ids:
            spec = dict(label="neg", protocol="", ordered=True, negotiated=True, id=nid)
            do(("create", "A", spec))
            do(("create_pair", "B", len(toks) - 1, spec))

        nmsgs = 0
        shifted = set()
        for step in range(cfg.steps):
            x = r.random()
            live = [i for i, t in enumerate(toks) if t is not None]
            if cfg.sseq_ops:
                for i in live:
                    c = env.chan[toks[i]]
                    if i not in shifted and c["A"] is not None and c["B"] is not None \
                            and c["A"].readyState == "open" and c["B"].readyState == "open" \
                            and not env.sent.get((toks[i], "A")) and not env.sent.get((toks[i], "B")) \
                            and not env.net:
                        shifted.add(i)
                        do(("sseq", i, 0))
            if pending_create and (x < 0.15 or not live):
                e, spec = pending_create[0]
                closing = any(c[sd] is not None and c[sd].readyState == "closing"
                              for c in env.chan.values() for sd in "AB")
                if spec.get("label") == "again" and closing and r.random() < 0.9:
                    # reuse of a freed id: normally only once the closed channel is closed at both ends
                    net_action()
                else:
                    pending_create.pop(0)
                    do(("create", e, spec))
            elif x < cfg.p_app and live and nmsgs < cfg.max_msgs:
                i = r.choice(live)
                c = env.chan[toks[i]]
                sides = [s for s in "AB" if c[s] is not None and c[s].readyState == "open"]
                if not cfg.both_send:
                    sides = [s for s in sides if s == c["creator"]]
                if sides:
                    e = r.choice(sides)
                    if cfg.burst and r.random() < 0.3:
                        for _ in range(cfg.burst):
                            do(("send", e, i, r.choice([1200, 1200, 10, 2400]), "bytes"))
                            nmsgs += 1
                    else:
                        do(("send", e, i, r.choice(cfg.sizes), r.choice(["bytes", "str"])))
                        nmsgs += 1
                else:
                    net_action()
            elif cfg.p_close and cfg.p_app <= x < cfg.p_app + cfg.p_close and live:
                i = r.choice(live)
                c = env.chan[toks[i]]
                sides = [s for s in "AB" if c[s] is not None]
                if sides:
                    e = r.choice(sides)
                    y = r.random()
                    if c[e].readyState == "open" and y < 0.25:
                        # close() with a backlog still waiting behind the congestion window
                        for _ in range(r.randint(3, 7)):
                            do(("send", e, i, 1200, "bytes"))
                        do(("close", e, i))
                    elif c[e].readyState == "open" and y < 0.45:
                        do(("send_close", e, i, r.choice([10, 1200, 3000]), "bytes"))
                    else:
                        do(("close", e, i))
                    if r.random() < 0.6 and len(toks) < 8:
                        # ... and the freed id is used again by a new channel later on
                        pending_create.append((r.choice("AB"), dict(label="again", protocol="", ordered=True)))
            elif cfg.p_thr and cfg.p_app + cfg.p_close <= x < cfg.p_app + cfg.p_close + cfg.p_thr and live:
                i = r.choice(live)
                c = env.chan[toks[i]]
                sides = [s for s in "AB" if c[s] is not None]
                if sides:
                    do(("thr", r.choice(sides), i, r.choice([0, 1, 100, 1200, 5000])))
            elif cfg.p_app + cfg.p_close + cfg.p_thr <= x < cfg.p_app + cfg.p_close + cfg.p_thr + cfg.p_fire:
                ts = env.timers()
                if ts:
                    side, name, h = r.choice(ts)
                    do(("fire", side, name))
                else:
                    net_action()
            else:
                if not net_action():
                    ts = env.timers()
                    if ts and r.random() < 0.5:
                        side, name, h = r.choice(ts)
                        do(("fire", side, name))

        do(("heal",))
        if cfg.probe:
            # first observation BEFORE any new traffic: what was sent must have arrived and the queues
            # must be empty once the healed network has drained (a probe message would wake up
            # whatever got stuck - a message stranded in a reassembly or flush queue)
            do(("quiesce",))
            # after the network healed, traffic must flow again on every open channel
            for i, t in enumerate(toks):
                if t is None:
                    continue
                c = env.chan[t]
                for s in "AB":
                    if c[s] is not None and c[s].readyState == "open" and c[env.peer(s)] is not None \
                            and c[env.peer(s)].readyState == "open":
                        do(("send", s, i, r.choice([10, 1200, 3000]), "bytes", True))
            do(("heal",))
        do(("quiesce",))
        pr = any(c["params"]["maxRetransmits"] is not None or c["params"]["maxPacketLifeTime"] is not None
                 for c in env.chan.values())
        return {"events": env.events, "pr": bool(pr), "ops": [list(o) for o in ops],
                "origin": [cfg.origin_a, cfg.origin_b], "meta": {}}
    finally:
        env.close()
