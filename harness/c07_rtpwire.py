"""C07 - RTP / RTCP wire formats.  Specs: specs/RtpWire.tla, specs/TraceRtpWire.tla.

quick / thorough:
  1. TLC exhaustively checks the lemmas of the wire model RtpWire.tla over bounded
     domains (Decode(Encode(v)) = v for RTP and RTCP, form selection, NackSet(Encode(S)) = S
     next to 0 and 65535, loss saturation, REMB bound, RTX inverse), seven witness
     invariants that must be violated, action coverage.
  2. spec -> code: values enumerated by `tlc -simulate` on the same builder (larger
     domains) are built with the real aiortc classes, serialised, parsed and compared;
     the real bytes are compared with the model's Encode (agreement measure).
  3. code -> spec: seeded random values at real ranges are pushed through the real
     serialise / parse / wrap / unwrap calls; every call is recorded.
  4. All recorded call traces are judged by TraceRtpWire.tla (TLC).  Only a property
     clause evaluated by TLC on an execution of the real code produces VIOLATION.
  5. Binding self-test: corrupted copies of accepted traces must be rejected with the
     expected clause.
"""
MANIFEST = dict(
    technique="TLA+ wire model RtpWire.tla (RFC 3550/4585/5285/4588 layouts, REMB) model-checked with TLC over bounded domains; TLC-enumerated and seeded random values pushed through the real aiortc.rtp serialise/parse calls; recorded call traces judged by TraceRtpWire.tla (TLC trace validation)",
    text="The wire layouts are written independently in TLA+ and TLC proves their round-trip lemmas over bounded domains (every header-extension combination, id maps 1-14 / 15-255, lengths around the one-/two-byte form limit, NACK sets across 65535->0, loss saturation, REMB mantissa/exponent bound, RTX inverse). The real code is bound to it in both directions: TLC-enumerated values are built, serialised and parsed with the real classes, and random values at real ranges are recorded as call traces; TLC judges every trace with the property's clauses (parsed = value, same NACK set, saturation, REMB bound, RTX inverse, no exception) and measures agreement of the real bytes with the RFC layout.",
    note="Bounded and sampled: no claim for all payload bytes. Byte-layout agreement with the RFC operators is an agreement measure, never a violation. Trusted: TLC, the harness' construction of aiortc objects from abstract values and its projection back (byte lists / 16-bit limbs), UTF-8 text compared as bytes. NACK lists are generated in ascending serial order without duplicates; RTX inverse ignores padding (RFC 4588 removes it). Known findings on the pinned tree: transmission-offset extension written with 2 bytes, NACK across the 16-bit wrap.",
    design_ref="5/C07")

import concurrent.futures as cf  # noqa: E402
import copy  # noqa: E402
import json  # noqa: E402
import struct  # noqa: E402

from . import common  # noqa: F401,E402  (sets sys.path for aiortc)
from .common import Report, rng, seed, tier  # noqa: E402
from . import tlc as T  # noqa: E402

ALL_CLASSES = ["rtp_hdr", "rtp_ext", "rtx", "rtcp_rep", "rtcp_sdes", "rtcp_bye", "rtcp_psfb",
               "nack", "loss", "remb", "compound"]
LEMMAS = ["RtpRoundTrip", "RtcpRoundTrip", "WellFormed", "FormSelection", "NackSetLemma",
          "LossSaturation", "RembBound", "RtxInverse"]
WITNESS_ACTIONS = ["WitTwoByteForm", "WitOneByteForm", "WitNackWraps", "WitLossSaturates", "WitRembInexact",
                   "WitCompound3", "WitRtxPadExt"]


def _set(names):
    return "{" + ", ".join('"%s"' % n for n in names) + "}"


def model_cfg(classes, scale, invariants):
    return ("SPECIFICATION Spec\nCONSTANTS\n Classes = %s\n Scale = %d\n%sCHECK_DEADLOCK FALSE\n"
            % (_set(classes), scale, "".join("INVARIANT %s\n" % i for i in invariants)))


TRACE_CFG = "SPECIFICATION TraceSpec\nCONSTANTS\n Classes = {}\n Scale = 1\nCHECK_DEADLOCK FALSE\n"

# ------------------------------------------------------------------ abstract values <-> aiortc objects

EXT = ["mid", "rrid", "rid", "ast", "toff", "al", "tcc"]
URI = {
    "mid": "urn:ietf:params:rtp-hdrext:sdes:mid",
    "rrid": "urn:ietf:params:rtp-hdrext:sdes:repaired-rtp-stream-id",
    "rid": "urn:ietf:params:rtp-hdrext:sdes:rtp-stream-id",
    "ast": "http://www.webrtc.org/experiments/rtp-hdrext/abs-send-time",
    "toff": "urn:ietf:params:rtp-hdrext:toffset",
    "al": "urn:ietf:params:rtp-hdrext:ssrc-audio-level",
    "tcc": "http://www.ietf.org/id/draft-holmer-rmcat-transport-wide-cc-extensions-01",
}
ATTR = {"mid": "mid", "rrid": "repaired_rtp_stream_id", "rid": "rtp_stream_id", "ast": "abs_send_time",
        "toff": "transmission_offset", "al": "audio_level", "tcc": "transport_sequence_number"}
BIG = -2147483647  # stands for any integer TLC cannot hold (never a legal field value)


def I(n):
    n = int(n)
    return n if -2147483647 < n < 2147483647 else BIG


def bl(n, size):
    return list(int(n).to_bytes(size, "big"))


def num(b):
    return int.from_bytes(bytes(b), "big")


def limbs(n):
    out = []
    n = int(n)
    while True:
        out.append(n & 0xFFFF)
        n >>= 16
        if not n:
            return out


def unlimbs(ls):
    return sum(int(x) << (16 * i) for i, x in enumerate(ls))


def mk_map(m):
    from aiortc import rtp
    from aiortc.rtcrtpparameters import RTCRtpHeaderExtensionParameters, RTCRtpParameters
    hm = rtp.HeaderExtensionsMap()
    hm.configure(RTCRtpParameters(headerExtensions=[
        RTCRtpHeaderExtensionParameters(id=m[k], uri=URI[k]) for k in EXT if m[k]]))
    return hm


def mk_rtp(v):
    from aiortc import rtp
    pkt = rtp.RtpPacket(payload_type=v["pt"], marker=v["m"], sequence_number=v["seq"], timestamp=num(v["ts"]),
                        ssrc=num(v["ssrc"]), payload=bytes(v["payload"]))
    pkt.csrc = [num(c) for c in v["csrc"]]
    pkt.padding_size = v["pad"]
    x = v["x"]
    e = pkt.extensions
    if x["mid"]:
        e.mid = bytes(x["mid"][0]).decode("utf8")
    if x["rrid"]:
        e.repaired_rtp_stream_id = bytes(x["rrid"][0]).decode("ascii")
    if x["rid"]:
        e.rtp_stream_id = bytes(x["rid"][0]).decode("ascii")
    if x["ast"]:
        e.abs_send_time = x["ast"][0]
    if x["toff"]:
        e.transmission_offset = x["toff"][0]
    if x["al"]:
        e.audio_level = (bool(x["al"][0][0]), x["al"][0][1])
    if x["tcc"]:
        e.transport_sequence_number = x["tcc"][0]
    return pkt


def proj_rtp(pkt):
    e = pkt.extensions

    def opt(val, f):
        return [] if val is None else [f(val)]
    return {
        "m": I(pkt.marker), "pt": I(pkt.payload_type), "seq": I(pkt.sequence_number),
        "ts": bl(pkt.timestamp & 0xFFFFFFFF, 4) if 0 <= pkt.timestamp < 1 << 32 else [BIG],
        "ssrc": bl(pkt.ssrc, 4) if 0 <= pkt.ssrc < 1 << 32 else [BIG],
        "csrc": [bl(c, 4) for c in pkt.csrc],
        "x": {
            "mid": opt(e.mid, lambda s: list(s.encode("utf8"))),
            "rrid": opt(e.repaired_rtp_stream_id, lambda s: list(s.encode("utf8"))),
            "rid": opt(e.rtp_stream_id, lambda s: list(s.encode("utf8"))),
            "ast": opt(e.abs_send_time, I),
            "toff": opt(e.transmission_offset, I),
            "al": opt(e.audio_level, lambda t: [1 if t[0] else 0, I(t[1])]),
            "tcc": opt(e.transport_sequence_number, I),
        },
        "payload": list(pkt.payload), "pad": I(pkt.padding_size),
    }


def mk_report(r):
    from aiortc import rtp
    return rtp.RtcpReceiverInfo(ssrc=num(r["ssrc"]), fraction_lost=r["fl"], packets_lost=r["lost"],
                                highest_sequence=num(r["hs"]), jitter=num(r["jit"]), lsr=num(r["lsr"]),
                                dlsr=num(r["dlsr"]))


def proj_report(r):
    return {"ssrc": bl(r.ssrc, 4), "fl": I(r.fraction_lost), "lost": I(r.packets_lost), "hs": bl(r.highest_sequence, 4),
            "jit": bl(r.jitter, 4), "lsr": bl(r.lsr, 4), "dlsr": bl(r.dlsr, 4)}


def mk_rtcp(p):
    from aiortc import rtp
    t = p["t"]
    if t == "sr":
        return rtp.RtcpSrPacket(ssrc=num(p["ssrc"]), sender_info=rtp.RtcpSenderInfo(
            ntp_timestamp=num(p["ntp"]), rtp_timestamp=num(p["rts"]), packet_count=num(p["pc"]),
            octet_count=num(p["oc"])), reports=[mk_report(r) for r in p["reports"]])
    if t == "rr":
        return rtp.RtcpRrPacket(ssrc=num(p["ssrc"]), reports=[mk_report(r) for r in p["reports"]])
    if t == "sdes":
        return rtp.RtcpSdesPacket(chunks=[rtp.RtcpSourceInfo(ssrc=num(c["ssrc"]), items=[(it[0], bytes(it[1])) for it in c["items"]])
                                          for c in p["chunks"]])
    if t == "bye":
        return rtp.RtcpByePacket(sources=[num(s) for s in p["sources"]])
    if t == "rtpfb":
        return rtp.RtcpRtpfbPacket(fmt=p["fmt"], ssrc=num(p["ssrc"]), media_ssrc=num(p["mssrc"]), lost=list(p["lost"]))
    if t == "psfb":
        return rtp.RtcpPsfbPacket(fmt=p["fmt"], ssrc=num(p["ssrc"]), media_ssrc=num(p["mssrc"]), fci=bytes(p["fci"]))
    raise ValueError(t)


def proj_rtcp(p):
    from aiortc import rtp
    if isinstance(p, rtp.RtcpSrPacket):
        si = p.sender_info
        return {"t": "sr", "ssrc": bl(p.ssrc, 4), "ntp": bl(si.ntp_timestamp, 8), "rts": bl(si.rtp_timestamp, 4),
                "pc": bl(si.packet_count, 4), "oc": bl(si.octet_count, 4), "reports": [proj_report(r) for r in p.reports]}
    if isinstance(p, rtp.RtcpRrPacket):
        return {"t": "rr", "ssrc": bl(p.ssrc, 4), "reports": [proj_report(r) for r in p.reports]}
    if isinstance(p, rtp.RtcpSdesPacket):
        return {"t": "sdes", "chunks": [{"ssrc": bl(c.ssrc, 4), "items": [[I(t), list(v)] for t, v in c.items]} for c in p.chunks]}
    if isinstance(p, rtp.RtcpByePacket):
        return {"t": "bye", "sources": [bl(s, 4) for s in p.sources]}
    if isinstance(p, rtp.RtcpRtpfbPacket):
        return {"t": "rtpfb", "fmt": I(p.fmt), "ssrc": bl(p.ssrc, 4), "mssrc": bl(p.media_ssrc, 4), "lost": [I(x) for x in p.lost]}
    if isinstance(p, rtp.RtcpPsfbPacket):
        return {"t": "psfb", "fmt": I(p.fmt), "ssrc": bl(p.ssrc, 4), "mssrc": bl(p.media_ssrc, 4), "fci": list(p.fci)}
    return {"t": "unknown:" + type(p).__name__}


# ------------------------------------------------------------------ executing calls on the real code


def _where(e):
    """Innermost function of aiortc/rtp.py on the traceback (call-site part of a signature)."""
    name = "?"
    tb = e.__traceback__
    while tb is not None:
        code = tb.tb_frame.f_code
        if code.co_filename.replace("\\", "/").endswith("aiortc/rtp.py"):
            name = getattr(code, "co_qualname", code.co_name)
        tb = tb.tb_next
    return name


def _raised(e, stage):
    return {"st": "raise", "stage": stage, "exc": type(e).__name__, "where": _where(e), "msg": str(e)[:120]}


def exec_rtp_wire(steps, m, v, hm=None):
    """serialise + parse one RTP value; appends steps; returns the parsed packet or None."""
    from aiortc import rtp
    st = {"op": "rtp_ser", "map": m, "v": v}
    stage = "build"
    try:
        hm = hm or mk_map(m)
        pkt = mk_rtp(v)
        stage = "serialize"
        data = pkt.serialize(hm)
    except Exception as e:  # noqa: BLE001 - any exception is the observation
        st.update(_raised(e, stage))
        steps.append(st)
        return None
    st.update({"st": "ok", "bytes": list(data)})
    steps.append(st)
    st = {"op": "rtp_parse"}
    try:
        parsed = rtp.RtpPacket.parse(data, hm)
    except Exception as e:  # noqa: BLE001
        st.update(_raised(e, "parse"))
        steps.append(st)
        return None
    st.update({"st": "ok", "p": proj_rtp(parsed)})
    steps.append(st)
    return parsed


def execute(kind, inp):
    """Run the calls of one trace on the real code.  Returns the list of recorded steps."""
    from aiortc import rtp
    steps = []
    if kind == "rtp":
        exec_rtp_wire(steps, inp["map"], inp["v"])
    elif kind == "rtcp":
        st = {"op": "rtcp_ser", "v": inp["v"]}
        stage = "build"
        try:
            pkts = [mk_rtcp(p) for p in inp["v"]]
            stage = "serialize"
            data = b"".join(bytes(p) for p in pkts)
        except Exception as e:  # noqa: BLE001
            st.update(_raised(e, stage))
            steps.append(st)
            return steps
        st.update({"st": "ok", "bytes": list(data)})
        steps.append(st)
        st = {"op": "rtcp_parse"}
        try:
            parsed = rtp.RtcpPacket.parse(data)
            st.update({"st": "ok", "p": [proj_rtcp(p) for p in parsed]})
        except Exception as e:  # noqa: BLE001
            st.update(_raised(e, "parse"))
        steps.append(st)
    elif kind == "nack_parse":
        st = {"op": "nack_parse", "bytes": inp["bytes"]}
        try:
            parsed = rtp.RtcpPacket.parse(bytes(inp["bytes"]))
            st.update({"st": "ok", "p": [proj_rtcp(p) for p in parsed]})
        except Exception as e:  # noqa: BLE001
            st.update(_raised(e, "parse"))
        steps.append(st)
    elif kind == "loss":
        n = unlimbs(inp["n"]["mag"]) * (-1 if inp["n"]["neg"] else 1)
        st = {"op": "loss", "n": inp["n"]}
        stage = "build"
        try:
            c = rtp.clamp_packets_lost(n)
            pkt = rtp.RtcpRrPacket(ssrc=1, reports=[rtp.RtcpReceiverInfo(
                ssrc=2, fraction_lost=0, packets_lost=c, highest_sequence=0, jitter=0, lsr=0, dlsr=0)])
            stage = "serialize"
            data = bytes(pkt)
            stage = "parse"
            parsed = rtp.RtcpPacket.parse(data)
            st.update({"st": "ok", "c": I(c), "got": I(parsed[0].reports[0].packets_lost)})
        except Exception as e:  # noqa: BLE001
            st.update(_raised(e, stage))
        steps.append(st)
    elif kind == "remb":
        rate = unlimbs(inp["rate"])
        st = {"op": "remb", "rate": inp["rate"], "ssrcs": inp["ssrcs"], "ssrc": inp["ssrc"], "mssrc": inp["mssrc"]}
        stage = "build"
        try:
            fci = rtp.pack_remb_fci(rate, [num(s) for s in inp["ssrcs"]])
            pkt = rtp.RtcpPsfbPacket(fmt=rtp.RTCP_PSFB_APP, ssrc=num(inp["ssrc"]), media_ssrc=num(inp["mssrc"]), fci=fci)
            stage = "serialize"
            data = bytes(pkt)
            stage = "parse"
            parsed = rtp.RtcpPacket.parse(data)
            got, gss = rtp.unpack_remb_fci(parsed[0].fci)
            st.update({"st": "ok", "bytes": list(data), "got": limbs(got), "gssrcs": [bl(s, 4) for s in gss]})
        except Exception as e:  # noqa: BLE001
            st.update(_raised(e, stage))
        steps.append(st)
    elif kind == "rtx":
        m, v = inp["map"], inp["v"]
        st = {"op": "rtx_wrap", "map": m, "v": v, "rpt": inp["rpt"], "rseq": inp["rseq"], "rssrc": inp["rssrc"]}
        stage = "build"
        try:
            hm = mk_map(m)
            pkt = mk_rtp(v)
            stage = "wrap"
            rtx = rtp.wrap_rtx(pkt, payload_type=inp["rpt"], sequence_number=inp["rseq"], ssrc=num(inp["rssrc"]))
            w = proj_rtp(rtx)
        except Exception as e:  # noqa: BLE001
            st.update(_raised(e, stage))
            steps.append(st)
            return steps
        st.update({"st": "ok", "w": w})
        steps.append(st)
        src = rtx
        if inp["wire"]:
            src = exec_rtp_wire(steps, m, w, hm)
            if src is None:
                return steps
        st = {"op": "rtx_unwrap", "wire": 1 if inp["wire"] else 0}
        try:
            u = rtp.unwrap_rtx(src, payload_type=v["pt"], ssrc=num(v["ssrc"]))
            st.update({"st": "ok", "u": proj_rtp(u)})
        except Exception as e:  # noqa: BLE001
            st.update(_raised(e, "unwrap"))
        steps.append(st)
    else:
        raise ValueError(kind)
    return steps


# ------------------------------------------------------------------ random values at real ranges


def bint(r, bits, signed=False):
    lo, hi = (-(1 << (bits - 1)), (1 << (bits - 1)) - 1) if signed else (0, (1 << bits) - 1)
    x = r.random()
    if x < 0.35:
        return r.choice([lo, lo + 1, hi, hi - 1, 0, 1, -1 if signed else 2])
    if x < 0.55:
        k = r.randint(1, bits - (1 if signed else 0)) if bits > 1 else 1
        c = (1 << k) + r.choice([-1, 0, 1])
        if signed and r.random() < 0.5:
            c = -c
        return max(lo, min(hi, c))
    return r.randint(lo, hi)


def rword(r, size=4):
    return bl(bint(r, 8 * size), size)


def rtext(r, n, ascii_only):
    """n bytes of valid UTF-8 (ASCII when required)."""
    out = b""
    while len(out) < n:
        left = n - len(out)
        if not ascii_only and left >= 3 and r.random() < 0.1:
            out += "€".encode()
        elif not ascii_only and left >= 2 and r.random() < 0.1:
            out += "é".encode()
        else:
            out += bytes([r.choice(b"abcdefghijklmnopqrstuvwxyz0123456789-_")])
    return list(out)


def rlen(r):
    x = r.random()
    if x < 0.6:
        return r.choice([0, 1, 2, 3, 4, 15, 16, 17, 18, 254, 255])
    return r.randint(0, 40)


def gen_map(r):
    q = r.choice([0.3, 0.6, 1.0])
    # the transmission offset is configured less often: while finding F08a is open it masks the rest of the packet
    names = [k for k in EXT if r.random() < (q * 0.3 if k == "toff" else q)]
    mode = r.random()
    if mode < 0.35:
        pool = list(range(1, 15))
    elif mode < 0.6:
        pool = list(range(15, 256))
    elif mode < 0.8:
        pool = list(range(1, 256))
    else:
        pool = [1, 2, 13, 14, 15, 16, 254, 255]
    names = names[:len(pool)]
    ids = r.sample(pool, len(names))
    m = {k: 0 for k in EXT}
    for k, i in zip(names, ids):
        m[k] = i
    return m


def gen_ext(r, m):
    x = {k: [] for k in EXT}
    p = r.choice([0.4, 0.7, 1.0])
    for k in EXT:
        if not m[k] or r.random() > p:
            continue
        if k == "mid":
            x[k] = [rtext(r, rlen(r), False)]
        elif k in ("rrid", "rid"):
            x[k] = [rtext(r, rlen(r), True)]
        elif k == "ast":
            x[k] = [bint(r, 24)]
        elif k == "toff":
            x[k] = [bint(r, 24, signed=True)]
        elif k == "al":
            x[k] = [[r.randint(0, 1), bint(r, 7)]]
        elif k == "tcc":
            x[k] = [bint(r, 16)]
    return x


def gen_rtp(r, m):
    cc = r.choice([0, 0, 0, 1, 2, 14, 15, r.randint(0, 15)])
    x = r.random()
    plen = r.choice([0, 1, 2, 3, 4]) if x < 0.4 else r.randint(0, 80) if x < 0.97 else r.randint(900, 1400)
    return {"m": r.randint(0, 1), "pt": bint(r, 7), "seq": bint(r, 16), "ts": rword(r), "ssrc": rword(r),
            "csrc": [rword(r) for _ in range(cc)], "x": gen_ext(r, m),
            "payload": [r.randrange(256) for _ in range(plen)],
            "pad": r.choice([0, 0, 0, 1, 2, 3, 4, 254, 255, r.randint(0, 255)])}


def gen_report(r):
    return {"ssrc": rword(r), "fl": bint(r, 8), "lost": bint(r, 24, signed=True), "hs": rword(r), "jit": rword(r),
            "lsr": rword(r), "dlsr": rword(r)}


def gen_lost(r):
    """A NACK list: ascending serial order, no duplicates, span < 2^15; often across 65535 -> 0."""
    n = r.choice([0, 1, 1, 2, 3, 5, 17, r.randint(0, 40)])
    origin = r.choice([0, 1, 2, 65535, 65534, 65520, 65519, r.randint(65400, 65535), r.randint(0, 65535), r.randint(0, 65535),
                       r.randint(0, 65000), r.randint(0, 65000)])
    out = []
    cur = origin
    for i in range(n):
        if i:
            cur += r.choice([1, 1, 1, 2, 3, 15, 16, 17, 18, 31, 32, 33, r.randint(1, 300)])
        if cur - origin >= 32768:
            break
        out.append(cur & 0xFFFF)
    return out


def gen_remb_rate(r):
    x = r.random()
    if x < 0.15:
        return r.choice([0, 1, 0x3FFFF, 0x40000, 0x40001, 0x7FFFF, (1 << 63) - 1, 1 << 63, (1 << 64) - 1, 0x3FFFF << 46, (0x3FFFF << 63)])
    bits = r.randint(1, 64) if x < 0.9 else r.randint(65, 81)
    y = r.random()
    if y < 0.3:
        v = (1 << bits) - 1
    elif y < 0.5:
        v = (1 << (bits - 1)) + r.choice([0, 1])
    else:
        v = r.getrandbits(bits) | (1 << (bits - 1))
    return min(v, (0x3FFFF << 63) | ((1 << 63) - 1))


def gen_rtcp_packet(r, t=None):
    t = t or r.choice(["sr", "rr", "sdes", "bye", "rtpfb", "pli", "psfb", "remb"])
    nrep = r.choice([0, 1, 1, 2, 3, 31, r.randint(0, 31)])
    if t == "sr":
        return {"t": "sr", "ssrc": rword(r), "ntp": rword(r, 8), "rts": rword(r), "pc": rword(r), "oc": rword(r),
                "reports": [gen_report(r) for _ in range(nrep)]}
    if t == "rr":
        return {"t": "rr", "ssrc": rword(r), "reports": [gen_report(r) for _ in range(nrep)]}
    if t == "sdes":
        nch = r.choice([0, 1, 1, 2, 3, 31, r.randint(0, 31)])
        return {"t": "sdes", "chunks": [{"ssrc": rword(r), "items": [
            [r.choice([1, 2, 8, 255, r.randint(1, 255)]), [r.randrange(256) for _ in range(r.choice([0, 1, 2, 3, 4, 5, 255, r.randint(0, 30)]))]]
            for _ in range(r.choice([0, 1, 1, 2, 4]))]} for _ in range(nch)]}
    if t == "bye":
        return {"t": "bye", "sources": [rword(r) for _ in range(r.choice([0, 1, 2, 31, r.randint(0, 31)]))]}
    if t == "rtpfb":
        return {"t": "rtpfb", "fmt": 1, "ssrc": rword(r), "mssrc": rword(r), "lost": gen_lost(r)}
    if t == "pli":
        return {"t": "psfb", "fmt": 1, "ssrc": rword(r), "mssrc": rword(r), "fci": []}
    if t == "psfb":
        return {"t": "psfb", "fmt": r.choice([2, 3, 4, 15, 31, r.randint(0, 31)]), "ssrc": rword(r), "mssrc": rword(r),
                "fci": [r.randrange(256) for _ in range(4 * r.choice([0, 1, 2, 3, 10]))]}
    if t == "remb":
        # opaque FCI bytes in REMB shape (pack_remb_fci itself is judged by the "remb" traces)
        ss = [rword(r) for _ in range(r.choice([0, 1, 2, 3]))]
        mant, e = bint(r, 18), r.randint(0, 63)
        fci = b"REMB" + bytes([len(ss), (e << 2) | (mant >> 16)]) + struct.pack("!H", mant & 0xFFFF) + b"".join(bytes(x) for x in ss)
        return {"t": "psfb", "fmt": 15, "ssrc": rword(r), "mssrc": [0, 0, 0, 0], "fci": list(fci)}
    raise ValueError(t)


def gen_nack_bytes(r):
    npairs = r.choice([1, 1, 2, 3, 8])
    pairs = []
    for _ in range(npairs):
        pid = r.choice([65535, 65534, 65530, 65520, 65519, 0, 1, r.randint(65400, 65535), r.randint(0, 65535)])
        blp = r.choice([0, 1, 0x8000, 0xFFFF, 0x0001, 0x4001, r.getrandbits(16), r.getrandbits(16)])
        pairs.append([pid, blp])
    data = struct.pack("!BBHLL", 0x80 | 1, 205, 2 + len(pairs), bint(r, 32), bint(r, 32))
    for pid, blp in pairs:
        data += struct.pack("!HH", pid, blp)
    return list(data)


def gen_loss_n(r):
    x = r.random()
    if x < 0.5:
        n = r.choice([0, 1, -1, 8388606, 8388607, 8388608, 8388609, -8388607, -8388608, -8388609, -8388610,
                      1 << 24, -(1 << 24), (1 << 24) - 1, (1 << 31) - 1, 1 << 31, -(1 << 31), (1 << 31) + 1,
                      1 << 32, -(1 << 32), 1 << 40, -(1 << 40), (1 << 63) - 1, -(1 << 63), 1 << 64])
    elif x < 0.75:
        n = bint(r, 26, signed=True)
    else:
        n = bint(r, r.choice([32, 33, 48, 64]), signed=True)
    return {"neg": 1 if n < 0 else 0, "mag": limbs(abs(n))}


def gen_trace(r):
    """One random call-trace input (kind, inp)."""
    x = r.random()
    if x < 0.40:
        m = gen_map(r)
        return "rtp", {"map": m, "v": gen_rtp(r, m)}
    if x < 0.62:
        n = r.choice([1, 1, 2, 3, 4, 5])
        return "rtcp", {"v": [gen_rtcp_packet(r) for _ in range(n)]}
    if x < 0.70:
        return "rtcp", {"v": [gen_rtcp_packet(r, "rtpfb")]}
    if x < 0.77:
        return "nack_parse", {"bytes": gen_nack_bytes(r)}
    if x < 0.82:
        return "loss", {"n": gen_loss_n(r)}
    if x < 0.90:
        return "remb", {"rate": limbs(gen_remb_rate(r)), "ssrcs": [rword(r) for _ in range(r.choice([0, 1, 2, 3, 50, 255]))],
                        "ssrc": rword(r), "mssrc": r.choice([[0, 0, 0, 0], rword(r)])}
    m = gen_map(r)
    return "rtx", {"map": m, "v": gen_rtp(r, m), "rpt": bint(r, 7), "rseq": bint(r, 16), "rssrc": rword(r),
                   "wire": r.random() < 0.6}


# ------------------------------------------------------------------ TLC-enumerated values -> inputs


def _py(v):
    """TLC value (parse_value output) -> JSON-able."""
    if isinstance(v, dict):
        if v and all(isinstance(k, int) for k in v):  # function with domain 1..n
            return [_py(v[k]) for k in sorted(v)]
        return {k: _py(x) for k, x in v.items()}
    if isinstance(v, (list, T.TlaSet)):
        return [_py(x) for x in v]
    return v


def inputs_from_act(act):
    """The trace inputs for one done state of the builder: [(kind, inp, expected bytes or None)]."""
    a = _py(act)
    cls = a["cls"]
    if cls in ("rtp_hdr", "rtp_ext"):
        return [("rtp", {"map": a["map"], "v": a["v"]}, a["enc"])]
    if cls == "rtx":
        return [("rtx", {"map": a["map"], "v": a["v"], "rpt": a["rpt"], "rseq": a["rseq"], "rssrc": a["rssrc"], "wire": w}, a["enc"] if w else None)
                for w in (True, False)]
    if cls == "nack":
        return [("rtcp", {"v": a["v"]}, a["enc"]), ("nack_parse", {"bytes": a["enc"]}, None)]
    if cls == "loss":
        n = a["n"]
        return [("loss", {"n": {"neg": 1 if n < 0 else 0, "mag": limbs(abs(n))}}, None), ("rtcp", {"v": a["v"]}, a["enc"])]
    if cls == "remb":
        p = a["v"][0]
        return [("remb", {"rate": a["rate"], "ssrcs": a["ssrcs"], "ssrc": p["ssrc"], "mssrc": p["mssrc"]}, a["enc"]),
                ("rtcp", {"v": a["v"]}, a["enc"])]
    return [("rtcp", {"v": a["v"]}, a["enc"])]


# ------------------------------------------------------------------ judging


def _judge_batch(batch):
    """One TLC invocation over a batch of traces (like tlc.validate_traces, with a larger Java stack
    for the recursive layout operators)."""
    import os
    import time
    with T.Scratch(prefix="verif_c07_") as sc:
        path = os.path.join(sc.dir, "traces_%d.ndjson" % time.time_ns())
        with open(path, "w") as f:
            for t in batch:
                f.write(json.dumps(t, separators=(",", ":")) + "\n")
        res = T.tlc(sc, "TraceRtpWire", TRACE_CFG, workers=1, timeout=1500, java_opts=["-Xss256m"],
                    env={"TRACE_FILE": path})
        v = {x[1]: (x[2], x[3]) for x in res.printed("RESULT")}
        agree = {a[1]: a[2:6] for a in res.printed("AGREE")}
    return res, v, agree


def judge(traces, parallel=6):
    """TLC verdicts for all traces: ({id: (verdict, pos)}, {id: [lay, layn, dec, decn]}, states, transitions)."""
    if not traces:
        return {}, {}, 0, 0
    nb = max(1, min(parallel, len(traces) // 200 + 1))
    batches = [traces[i::nb] for i in range(nb)]
    verdicts, agree, states, trans = {}, {}, 0, 0
    with cf.ThreadPoolExecutor(max_workers=nb) as ex:
        for (res, v, a), batch in zip(ex.map(_judge_batch, batches), batches):
            if len(v) != len(batch):
                raise T.MachineryError("trace validation incomplete: %d of %d verdicts\n%s" % (len(v), len(batch), res.out[-2500:]))
            verdicts.update(v)
            agree.update(a)
            states += res.distinct
            trans += res.generated
    return verdicts, agree, states, trans


def _descends(lost):
    return any(b < a for a, b in zip(lost, lost[1:]))


def tags(trace):
    """Input-class tags of a trace (classification for signatures only, never the oracle)."""
    toff = nack_wrap = False
    for s in trace["steps"]:
        if s["op"] == "rtp_ser" and s["map"]["toff"] and s["v"]["x"]["toff"]:
            toff = True
        if s["op"] == "rtcp_ser":
            nack_wrap = nack_wrap or any(p["t"] == "rtpfb" and _descends(p["lost"]) for p in s["v"])
        if s["op"] == "nack_parse":
            b = bytes(s["bytes"])
            for pos in range(12, len(b) - 3, 4):
                pid, blp = struct.unpack("!HH", b[pos:pos + 4])
                if blp and pid + blp.bit_length() > 65535:
                    nack_wrap = True
    return {"toff": toff, "nack_wrap": nack_wrap}


def signature(trace, verdict, pos):
    step = trace["steps"][pos - 1] if 1 <= pos <= len(trace["steps"]) else {}
    sig = {"clause": verdict, "op": step.get("op", "?")}
    if step.get("st") == "raise":
        sig.update({"stage": step["stage"], "exc": step["exc"], "where": step["where"]})
    sig.update(tags(trace))
    return sig, step


# regression inputs for the recorded findings (always re-run)
REGRESSIONS = [
    ("rtp", {"map": {"mid": 0, "rrid": 0, "rid": 0, "ast": 0, "toff": 3, "al": 0, "tcc": 0},
             "v": {"m": 0, "pt": 96, "seq": 1, "ts": [0, 0, 0, 1], "ssrc": [0, 0, 0, 2], "csrc": [],
                   "x": {"mid": [], "rrid": [], "rid": [], "ast": [], "toff": [5], "al": [], "tcc": []},
                   "payload": [1, 2, 3], "pad": 0}}),
    ("rtcp", {"v": [{"t": "rtpfb", "fmt": 1, "ssrc": [0, 0, 0, 1], "mssrc": [0, 0, 0, 2], "lost": [65535, 0]}]}),
    ("nack_parse", {"bytes": [129, 205, 0, 3, 0, 0, 0, 1, 0, 0, 0, 2, 255, 255, 0, 1]}),
]


def corrupt(trace):
    """(corrupted copy, expected clause) for the binding self-test, by trace kind; None if not applicable."""
    t = copy.deepcopy(trace)
    k = t["kind"]
    s = t["steps"]
    if k == "rtp" and len(s) == 2:
        s[1]["p"]["seq"] = (s[1]["p"]["seq"] + 1) % 65536
        return t, "C07.rtp_roundtrip"
    if k == "rtcp" and len(s) == 2 and s[1].get("p"):
        p = s[1]["p"][0]
        if p["t"] == "rtpfb":
            if not p["lost"]:
                return None
            p["lost"] = p["lost"] + [(p["lost"][-1] + 1) % 65536]
            return t, "C07.nack_set"
        if p["t"] in ("sr", "rr", "psfb"):
            p["ssrc"][3] ^= 1
            return t, "C07.rtcp_roundtrip"
        return None
    if k == "nack_parse" and s[0].get("p"):
        p = s[0]["p"][0]
        p["lost"] = p["lost"][:-1] + [(p["lost"][-1] + 7) % 65536]
        return t, "C07.nack_set"
    if k == "loss":
        s[0]["got"] = s[0]["got"] - 1 if s[0]["got"] > 0 else s[0]["got"] + 1
        return t, "C07.loss_saturation"
    if k == "remb":
        s[0]["got"] = limbs(unlimbs(s[0]["rate"]) + 1)      # rounds up
        return t, "C07.remb_bound"
    if k == "rtx":
        s[-1]["u"]["m"] ^= 1
        return t, "C07.rtx_inverse"
    return None


def is_nontrivial(t):
    s = t["steps"][0]
    if t["kind"] == "rtp":
        return any(s["v"]["x"][k] for k in EXT) or bool(s["v"]["csrc"]) or s["v"]["pad"] > 0
    if t["kind"] == "rtcp":
        return len(s["v"]) > 1 or any(p.get("reports") or p.get("lost") or p.get("chunks") or p.get("fci") or p.get("sources") for p in s["v"])
    return True


def run():
    import time
    rep = Report("C07")
    thorough = tier() == "thorough"
    t0 = time.time()
    phase = {}
    r = rng(7)
    try:
        # 1. design level (exhaustive TLC run, witness run) and the enumeration for 2. run concurrently
        nsim = 2400 if thorough else 420

        def job_exh():
            with T.Scratch(prefix="verif_c07_") as sc:
                return T.tlc(sc, "RtpWire", model_cfg(ALL_CLASSES, 2 if thorough else 1, LEMMAS),
                             workers=12, args=["-coverage", "1"], timeout=3000)

        def job_wit():
            with T.Scratch(prefix="verif_c07_") as sc:
                return T.tlc(sc, "RtpWire", model_cfg(["nack"], 1, ["WitnessNackNeverWraps"]), workers=2, timeout=600)

        def job_sim(classes, sd):
            with T.Scratch(prefix="verif_c07_") as sc:
                return T.simulate(sc, "RtpWire", model_cfg(classes, 3, LEMMAS), num=nsim // 2, depth=16,
                                  seed=sd, timeout=1200, workers=4)

        pool = cf.ThreadPoolExecutor(max_workers=4)
        f_exh = pool.submit(job_exh)
        f_wit = pool.submit(job_wit)
        f_sim = [pool.submit(job_sim, ALL_CLASSES, seed()),
                 pool.submit(job_sim, ["rtp_ext", "rtp_hdr", "nack", "rtx"], seed() + 1)]
        pool.shutdown(wait=False)

        # 3. (prepared while TLC runs) code -> spec: seeded random values at real ranges
        nrand = 24000 if thorough else 3000
        random_inputs = [gen_trace(r) for _ in range(nrand)]

        acts = []
        for f in f_sim:
            sim, behs = f.result()
            if sim.violated:
                raise T.MachineryError("wire model fails a lemma in simulation: %s\n%s" % (sim.violated, sim.out[-2000:]))
            for b in behs:
                done = [st["act"] for _, st in b if st.get("stage") == "done"]
                if done:
                    acts.append(done[-1])
        if len(acts) < nsim // 2:
            raise T.MachineryError("too few simulated values: %d\n%s" % (len(acts), sim.out[-1500:]))

        phase["simulate_done"] = round(time.time() - t0, 1)
        traces = []
        lock = {"values": 0, "bytes_compared": 0, "bytes_equal": 0, "by_class": {}}

        def add(kind, inp, src, expect=None, cls=None):
            steps = execute(kind, inp)
            t = {"id": len(traces) + 1, "src": src, "kind": kind, "inp": inp, "steps": steps}
            traces.append(t)
            if expect is not None:
                got = next((s.get("bytes") for s in steps if s["op"] in ("rtp_ser", "rtcp_ser", "remb") and s.get("st") == "ok"), None)
                if got is not None:
                    pad = steps[0]["v"]["pad"] if kind in ("rtp",) else 0
                    if kind == "rtx":
                        pad = 0
                    same = len(got) == len(expect) and (got[:len(got) - pad] == expect[:len(expect) - pad] if pad else got == expect) \
                        and (not pad or got[-1] == expect[-1])
                    lock["bytes_compared"] += 1
                    lock["bytes_equal"] += 1 if same else 0
                    c = lock["by_class"].setdefault(cls, [0, 0])
                    c[0] += 1 if same else 0
                    c[1] += 1
            return t

        for kind, inp in REGRESSIONS:
            add(kind, inp, "regression")
        for act in acts:
            lock["values"] += 1
            for kind, inp, enc in inputs_from_act(act):
                add(kind, inp, "tlc-simulate", enc, act["cls"])

        # 3. code -> spec: seeded random values at real ranges
        for kind, inp in random_inputs:
            add(kind, inp, "random")

        phase["executed_on_real_code"] = round(time.time() - t0, 1)
        # 5. (prepared) binding self-test: corrupted copies of recorded traces, judged in the same TLC batches;
        #    a copy counts only if TLC accepts its original
        def bind_key(t):
            if t["kind"] == "rtcp":
                return "rtcp:rtpfb" if t["steps"][0]["v"][0]["t"] == "rtpfb" else "rtcp:other"
            return t["kind"]
        BIND_KEYS = ["rtp", "rtp:raise", "rtcp:rtpfb", "rtcp:other", "nack_parse", "loss", "remb", "rtx"]
        cands = []      # (key, original id, corrupted trace, expected clause)
        per_key = {}
        for t in traces:
            if t["src"] == "regression" or any(s_.get("st") != "ok" for s_ in t["steps"]) or any(tags(t).values()):
                continue
            for key in ([bind_key(t)] + (["rtp:raise"] if t["kind"] == "rtp" else [])):
                if per_key.get(key, 0) >= 3:
                    continue
                if key == "rtp:raise":
                    c = copy.deepcopy(t)
                    c["steps"][1] = {"op": "rtp_parse", "st": "raise", "stage": "parse", "exc": "X", "where": "x"}
                    c = (c, "C07.raises")
                else:
                    c = corrupt(t)
                if c:
                    per_key[key] = per_key.get(key, 0) + 1
                    c[0]["id"] = 1000000 + len(cands)
                    cands.append((key, t["id"], c[0], c[1]))

        # 4. judge every recorded trace with TLC
        verdicts, agree, jstates, jtrans = judge(traces + [c[2] for c in cands], parallel=8 if thorough else 6)

        phase["judged"] = round(time.time() - t0, 1)
        exh = f_exh.result()
        phase["exhaustive_done"] = round(time.time() - t0, 1)
        phase["exhaustive_tlc_wall"] = round(exh.wall, 1)
        if not exh.complete or exh.violated:
            raise T.MachineryError("wire model RtpWire fails its own lemmas: %s\n%s" % (exh.violated, exh.out[-2500:]))
        cov = {k: v[1] for k, v in exh.action_counts().items()}
        never = [k for k, n in cov.items() if n == 0] + [k for k in WITNESS_ACTIONS if k not in cov]
        if never or len(cov) < 30:
            raise T.MachineryError("builder / witness actions never taken or coverage missing: %s %s" % (never, sorted(cov)))
        wit = f_wit.result()
        if "WitnessNackNeverWraps" not in wit.violated:
            raise T.MachineryError("vacuity: witness invariant WitnessNackNeverWraps not violated\n" + wit.out[-1500:])

        # 5. binding self-test, evaluation
        bind = {}
        for key, oid, c, exp in cands:
            if key not in bind and verdicts[oid][0] == "ok":
                bind[key] = (verdicts[c["id"]][0], exp)
        wrong = {k: v for k, v in bind.items() if v[0] != v[1]}
        missing = [k for k in BIND_KEYS if k not in bind]
        if wrong:
            raise T.MachineryError("binding self-test failed: corrupted copies judged (got, expected) %s" % (wrong,))
        phase["binding_done"] = round(time.time() - t0, 1)
        # verdicts -> violations / known findings
        by_kind, nontrivial, ag = {}, 0, {}
        for t in traces:
            v, pos = verdicts[t["id"]]
            by_kind[t["kind"]] = by_kind.get(t["kind"], 0) + 1
            nontrivial += 1 if is_nontrivial(t) else 0
            a = agree.get(t["id"], [0, 0, 0, 0])
            g = ag.setdefault(t["kind"], [0, 0, 0, 0])
            for i in range(4):
                g[i] += a[i]
            if v.startswith("machinery"):
                raise T.MachineryError("trace %d: %s %s" % (t["id"], v, json.dumps(t)[:600]))
            if v != "ok":
                sig, step = signature(t, v, pos)
                small = {k: (x if k not in ("bytes", "v", "p", "w", "u") else "...") for k, x in step.items()}
                rep.violation(v, sig, {"step": small, "position": pos, "source": t["src"], "kind": t["kind"]}, t)

        if missing and not rep.violations:
            # (with violations present a kind may have no accepted original; that is not a machinery failure)
            raise T.MachineryError("binding self-test: no accepted original trace for %s" % (missing,))
        tot = [sum(g[i] for g in ag.values()) for i in range(4)]
        samples = [{"kind": t["kind"], "src": t["src"], "steps": t["steps"]}
                   for t in traces[::max(1, len(traces) // 40)] if len(json.dumps(t["steps"])) < 2500][:4]
        samples = samples or [{"kind": traces[0]["kind"], "inp": traces[0]["inp"]}]
        rep.coverage = {
            "states": exh.distinct, "transitions": exh.generated, "exhaustive": True, "model_depth": exh.depth,
            "model_scale": 2 if thorough else 1,
            "lemmas_checked": LEMMAS,
            "witness_invariant_violated": "WitnessNackNeverWraps", "witness_actions_taken": {k: cov[k] for k in WITNESS_ACTIONS},
            "action_coverage": cov,
            "traces_validated_against_impl": len(traces),
            "trace_calls_validated": sum(len(t["steps"]) for t in traces),
            "trace_validation_states": jstates,
            "traces_by_kind": by_kind,
            "traces_nontrivial": nontrivial,
            "traces_rejected": sum(1 for t in traces if verdicts[t["id"]][0] != "ok"),
            "spec_to_code_values": lock["values"],
            "lockstep_bytes_compared": lock["bytes_compared"], "lockstep_bytes_equal": lock["bytes_equal"],
            "lockstep_mismatches": lock["bytes_compared"] - lock["bytes_equal"],
            "lockstep_by_class_equal_of_total": lock["by_class"],
            "layout_agreement": {"equal": tot[0], "of": tot[1]},
            "decode_agreement": {"equal": tot[2], "of": tot[3]},
            "agreement_by_kind_layout_decode": {k: {"layout": "%d/%d" % (g[0], g[1]), "decode": "%d/%d" % (g[2], g[3])} for k, g in ag.items()},
            "binding_selftest": {k: "corrupted copy rejected with " + v[0] for k, v in bind.items()},
            "binding_selftest_kinds_without_accepted_original": missing,
            "phase_wall_s_cumulative": phase,
            "samples": samples,
        }
        rep.assumptions = [
            "the harness' construction of aiortc objects from abstract values and the projection back are trusted (32-bit fields as byte lists, big integers as 16-bit limbs, text as UTF-8 bytes)",
            "values are within wire range: NACK lists ascending in serial order without duplicates and spanning < 2^15; counts <= 31; FCI length multiple of 4; extension ids distinct; only configured extensions are set",
            "RTX inverse ignores padding_size (RFC 4588: padding of the original packet is removed)",
            "ordered equality of the NACK list and byte equality with the RFC layout are agreement measures, not clauses",
            "TLC evaluates the clauses; bounded domains for the lemmas, sampling for the conformance directions",
        ]
        return rep.finish()
    except T.MachineryError as e:
        return rep.finish(machinery_error=e)


def replay(path):
    """Re-execute the calls of a saved failing trace on the current tree and re-judge it."""
    obj = json.load(open(path))
    t = obj["replay"]
    steps = execute(t["kind"], t["inp"])
    nt = {"id": 1, "src": "replay", "kind": t["kind"], "inp": t["inp"], "steps": steps}
    verdicts, _, _, _ = judge([nt], parallel=1)
    verdict, pos = verdicts.get(1, ("machinery", 0))
    if verdict == "ok":
        print("replay: trace accepted on the current tree")
        return 0
    sig, step = signature(nt, verdict, pos)
    print("VIOLATION property=C07 replay=%s clause=%s signature=%s" % (path, verdict, json.dumps(sig)))
    return 1
