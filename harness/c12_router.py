"""C12 - RTP/RTCP routing.  Spec: specs/RtpRouter.tla, specs/TraceRouter.tla.

quick / thorough:
  1. TLC exhaustively checks the design theorems of RtpRouter.tla (small constants).
  2. spec -> code: `tlc -simulate` behaviours are replayed step by step into a real
     aiortc RtpRouter (real packet objects, packets go through serialise + parse);
     the executions are recorded.
  3. code -> spec: seeded random histories over larger universes are executed on
     the real router and recorded.
  4. All recorded traces are validated by TraceRouter.tla (TLC); a rejected trace
     names the failing clause of the property => VIOLATION.
"""
MANIFEST = dict(
    technique="TLA+ spec RtpRouter.tla model-checked with TLC; TLC-simulated behaviours replayed into the real RtpRouter; the same histories one level up through a real RTCDtlsTransport (registration calls, RTP and compound RTCP datagrams, callbacks of the registered objects); recorded executions validated by TraceRouter.tla (TLC trace validation)",
    text="Exhaustive TLC check of the routing design (all register/unregister/packet histories of a small universe) plus conformance of the real RtpRouter to the spec's routing rules in both directions: every recorded routing decision is judged by the TLA+ rule operators.",
    note="Trusted: TLC, the harness' packet construction, REMB media SSRC 0 unregistered. Conformance is sampled (simulated + seeded random histories), the design check is exhaustive within the stated constants.",
    design_ref="5/C12")

from . import common  # noqa: F401,E402  (sets sys.path for aiortc)
from .common import Report, rng, seed, tier
from . import tlc as T

EXH_CFG = """SPECIFICATION Spec
CONSTANTS
 Receivers = {"r1","r2"%(r3)s}
 Senders = {"s1","s2"}
 Ssrcs = {1,2,3}
 Pts = {1,2}
 MaxOps = %(maxops)d
VIEW View
INVARIANT NoRouteToUnregistered
INVARIANT TablesClean
INVARIANT AmbiguousDropped
CHECK_DEADLOCK FALSE
"""

WITNESS_CFG = """SPECIFICATION Spec
CONSTANTS
 Receivers = {"r1","r2"}
 Senders = {"s1"}
 Ssrcs = {1,2}
 Pts = {1,2}
 MaxOps = 3
INVARIANT WitnessNeverLatched
CHECK_DEADLOCK FALSE
"""

SIM_CFG = """SPECIFICATION Spec
CONSTANTS
 Receivers = {"r1","r2","r3"}
 Senders = {"s1","s2","s3"}
 Ssrcs = {1,2,3,4}
 Pts = {1,2,3}
 MaxOps = 40
CHECK_DEADLOCK FALSE
"""

TRACE_CFG = """SPECIFICATION TraceSpec
CONSTANTS
 Receivers = {}
 Senders = {}
 Ssrcs = {}
 Pts = {}
 MaxOps = 0
CHECK_DEADLOCK FALSE
"""


class Party:
    def __init__(self, name):
        self.name = name

    def __repr__(self):
        return self.name


class Exec:
    """Executes abstract router operations on a real RtpRouter and records a trace."""

    def __init__(self, ssrc_map=None, pt_map=None):
        from aiortc.rtcdtlstransport import RtpRouter
        self.router = RtpRouter()
        self.parties = {}
        self.steps = []
        self.ssrc_map = ssrc_map or (lambda s: s)
        self.pt_map = pt_map or (lambda p: p)

    def party(self, name):
        if name not in self.parties:
            self.parties[name] = Party(name)
        return self.parties[name]

    def do(self, op):
        from aiortc import rtp
        k = op["op"]
        sm, pm = self.ssrc_map, self.pt_map
        rec = dict(op)
        if k == "reg_recv":
            self.router.register_receiver(self.party(op["r"]), [sm(s) for s in op["ssrcs"]],
                                          [pm(p) for p in op["pts"]])
        elif k == "unreg_recv":
            self.router.unregister_receiver(self.party(op["r"]))
        elif k == "reg_send":
            self.router.register_sender(self.party(op["s"]), sm(op["ssrc"]))
        elif k == "unreg_send":
            self.router.unregister_sender(self.party(op["s"]))
        elif k == "rtp":
            pkt = rtp.RtpPacket(payload_type=pm(op["pt"]), ssrc=sm(op["ssrc"]), sequence_number=len(self.steps) & 0xFFFF,
                                payload=b"x")
            pkt = rtp.RtpPacket.parse(pkt.serialize())
            res = self.router.route_rtp(pkt)
            rec["res"] = res.name if res is not None else "none"
        elif k == "rtcp":
            kind = op["kind"]
            ssrc = sm(op["ssrc"]) if op["ssrc"] else 0          # (SSRC 0 = "none": never registered)
            ssrcs = [sm(s) for s in op["ssrcs"]]

            def ri(s):
                return rtp.RtcpReceiverInfo(ssrc=s, fraction_lost=0, packets_lost=0, highest_sequence=0,
                                            jitter=0, lsr=0, dlsr=0)
            if kind == "SR":
                pkt = rtp.RtcpSrPacket(ssrc=ssrc, sender_info=rtp.RtcpSenderInfo(1, 2, 3, 4),
                                       reports=[ri(s) for s in ssrcs])
            elif kind == "RR":
                pkt = rtp.RtcpRrPacket(ssrc=ssrc, reports=[ri(s) for s in ssrcs])
            elif kind == "BYE":
                pkt = rtp.RtcpByePacket(sources=ssrcs)
            elif kind == "RTPFB":
                pkt = rtp.RtcpRtpfbPacket(fmt=rtp.RTCP_RTPFB_NACK, ssrc=12345, media_ssrc=ssrc, lost=[1, 2])
            elif kind == "PSFB":
                pkt = rtp.RtcpPsfbPacket(fmt=rtp.RTCP_PSFB_PLI, ssrc=12345, media_ssrc=ssrc)
            elif kind == "REMB":
                pkt = rtp.RtcpPsfbPacket(fmt=rtp.RTCP_PSFB_APP, ssrc=12345, media_ssrc=ssrc,
                                         fci=rtp.pack_remb_fci(1000000, ssrcs))
            elif kind == "SDES":
                pkt = rtp.RtcpSdesPacket(chunks=[rtp.RtcpSourceInfo(ssrc=ssrc, items=[(1, b"cname")])])
            else:
                raise ValueError(kind)
            parsed = rtp.RtcpPacket.parse(bytes(pkt))
            assert len(parsed) == 1
            res = self.router.route_rtcp(parsed[0])
            rec["res"] = sorted(p.name for p in res)
        else:
            raise ValueError(k)
        for f in ("ssrcs", "pts"):
            if f in rec:
                rec[f] = sorted(rec[f])
        self.steps.append(rec)
        return rec


class _FakeIce:
    role = "controlling"
    state = "completed"

    def on(self, *a, **k):
        return None


class _Endpoint:
    """A receiver / sender behind the transport: records what is handed to it."""

    def __init__(self, name, log):
        self.name = name
        self._ssrc = 0
        self._log = log

    def __repr__(self):
        return self.name

    async def _handle_rtp_packet(self, packet, arrival_time_ms=0):
        self._log.append((self.name, "rtp", packet.serialize()))

    async def _handle_rtcp_packet(self, packet):
        self._log.append((self.name, "rtcp", bytes(packet)))


_CERT = []


class TransportExec(Exec):
    """The same abstract operations executed one level up, where the property says the effect is
    observed: registrations go through RTCDtlsTransport._register_rtp_receiver / _register_rtp_sender /
    _unregister_*, packets enter as datagrams through _handle_rtp_data / _handle_rtcp_data (several
    RTCP packets may share one compound datagram) and the trace records which registered object's
    callback received which packet.  The recorded steps have the router-level format, one step per
    RTCP packet, so TraceRouter.tla judges them with the same rule operators."""

    def __init__(self, ssrc_map=None, pt_map=None):
        super().__init__(ssrc_map, pt_map)
        import asyncio
        from aiortc.rtcdtlstransport import RTCCertificate, RTCDtlsTransport
        if not _CERT:
            _CERT.append(RTCCertificate.generateCertificate())
        self.loop = asyncio.new_event_loop()
        asyncio.set_event_loop(self.loop)
        self.transport = RTCDtlsTransport(_FakeIce(), [_CERT[0]])
        self.router = self.transport._rtp_router
        self.log = []

    def close(self):
        import asyncio
        self.loop.close()
        asyncio.set_event_loop(None)

    def party(self, name):
        if name not in self.parties:
            self.parties[name] = _Endpoint(name, self.log)
        return self.parties[name]

    def _rtcp_packet(self, op):
        from aiortc import rtp
        sm = self.ssrc_map
        kind, ssrc, ssrcs = op["kind"], (sm(op["ssrc"]) if op["ssrc"] else 0), [sm(x) for x in op["ssrcs"]]

        def ri(x):
            return rtp.RtcpReceiverInfo(ssrc=x, fraction_lost=0, packets_lost=0, highest_sequence=0, jitter=0, lsr=0, dlsr=0)
        if kind == "SR":
            return rtp.RtcpSrPacket(ssrc=ssrc, sender_info=rtp.RtcpSenderInfo(1, 2, 3, 4), reports=[ri(x) for x in ssrcs])
        if kind == "RR":
            return rtp.RtcpRrPacket(ssrc=ssrc, reports=[ri(x) for x in ssrcs])
        if kind == "BYE":
            return rtp.RtcpByePacket(sources=ssrcs)
        if kind == "RTPFB":
            return rtp.RtcpRtpfbPacket(fmt=rtp.RTCP_RTPFB_NACK, ssrc=12345, media_ssrc=ssrc, lost=[1, 2])
        if kind == "PSFB":
            return rtp.RtcpPsfbPacket(fmt=rtp.RTCP_PSFB_PLI, ssrc=12345, media_ssrc=ssrc)
        if kind == "REMB":
            return rtp.RtcpPsfbPacket(fmt=rtp.RTCP_PSFB_APP, ssrc=12345, media_ssrc=ssrc, fci=rtp.pack_remb_fci(1000000, ssrcs))
        if kind == "SDES":
            return rtp.RtcpSdesPacket(chunks=[rtp.RtcpSourceInfo(ssrc=ssrc, items=[(1, b"cname")])])
        raise ValueError(kind)

    def do(self, op):
        from aiortc import rtp
        from aiortc.rtcrtpparameters import (RTCRtpCodecParameters, RTCRtpDecodingParameters, RTCRtpReceiveParameters,
                                             RTCRtpSendParameters)
        k = op["op"]
        sm, pm = self.ssrc_map, self.pt_map
        if k == "reg_recv":
            params = RTCRtpReceiveParameters(
                codecs=[RTCRtpCodecParameters(mimeType="video/X", clockRate=90000, payloadType=pm(p)) for p in op["pts"]],
                encodings=[RTCRtpDecodingParameters(ssrc=sm(x), payloadType=pm(op["pts"][0]) if op["pts"] else 0) for x in op["ssrcs"]])
            self.transport._register_rtp_receiver(self.party(op["r"]), params)
        elif k == "unreg_recv":
            self.transport._unregister_rtp_receiver(self.party(op["r"]))
        elif k == "reg_send":
            snd = self.party(op["s"])
            snd._ssrc = sm(op["ssrc"])
            self.transport._register_rtp_sender(snd, RTCRtpSendParameters())
        elif k == "unreg_send":
            self.transport._unregister_rtp_sender(self.party(op["s"]))
        elif k == "rtp":
            pkt = rtp.RtpPacket(payload_type=pm(op["pt"]), ssrc=sm(op["ssrc"]), sequence_number=len(self.steps) & 0xFFFF, payload=b"x")
            del self.log[:]
            self.loop.run_until_complete(self.transport._handle_rtp_data(pkt.serialize(), arrival_time_ms=0))
            got = sorted(n for n, kind, _ in self.log if kind == "rtp")
            rec = dict(op)
            rec["res"] = "none" if not got else (got[0] if len(got) == 1 else "+".join(got))
            self.steps.append(rec)
            return rec
        elif k in ("rtcp", "rtcp_compound"):
            parts = op["parts"] if k == "rtcp_compound" else [op]
            uniq, raws = [], []
            for part in parts:              # byte-identical packets could not be told apart afterwards
                raw = bytes(self._rtcp_packet(part))
                if raw not in raws:
                    uniq.append(part)
                    raws.append(raw)
            del self.log[:]
            self.loop.run_until_complete(self.transport._handle_rtcp_data(b"".join(raws)))
            rec = None
            for part, raw in zip(uniq, raws):
                rec = dict(part)
                rec["op"] = "rtcp"
                rec["ssrcs"] = sorted(rec["ssrcs"])
                rec["res"] = sorted(n for n, kind, data in self.log if kind == "rtcp" and data == raw)
                rec["compound"] = len(uniq)
                self.steps.append(rec)
            stray = [n for n, kind, data in self.log if kind != "rtcp" or data not in raws]
            if stray:                        # something that was not in the datagram was delivered
                self.steps.append({"op": "rtcp", "kind": "SDES", "ssrc": 0, "ssrcs": [], "res": sorted(stray), "compound": -1})
            return rec
        else:
            raise ValueError(k)
        rec = dict(op)
        for f in ("ssrcs", "pts"):
            if f in rec:
                rec[f] = sorted(rec[f])
        self.steps.append(rec)
        return rec


def compound_history(r, length):
    """random_history with runs of RTCP packets merged into compound datagrams."""
    out = []
    for op in random_history(r, length):
        if op["op"] == "rtcp" and out and out[-1]["op"] in ("rtcp", "rtcp_compound") and r.random() < 0.6:
            prev = out.pop()
            parts = prev["parts"] if prev["op"] == "rtcp_compound" else [prev]
            out.append({"op": "rtcp_compound", "parts": parts + [op]})
        else:
            out.append(op)
    return out


def ops_from_behaviour(beh):
    ops = []
    for action, state in beh[1:]:
        a = dict(state["act"])
        a.pop("res", None)
        for f in ("ssrcs", "pts"):
            if f in a:
                a[f] = list(a[f])
        ops.append(a)
    return ops


def random_history(r, length):
    """A seeded random history over a larger universe than the model's."""
    recvs = ["r%d" % i for i in range(1, r.randint(2, 6))]
    sends = ["s%d" % i for i in range(1, r.randint(2, 5))]
    ssrcs = list(range(1, r.randint(3, 9)))
    pts = list(range(1, r.randint(2, 6)))
    ops = []
    for _ in range(length):
        x = r.random()
        if x < 0.22:
            ops.append({"op": "reg_recv", "r": r.choice(recvs),
                        "ssrcs": r.sample(ssrcs, r.randint(0, min(3, len(ssrcs)))),
                        "pts": r.sample(pts, r.randint(0, min(3, len(pts))))})
        elif x < 0.32:
            ops.append({"op": "unreg_recv", "r": r.choice(recvs)})
        elif x < 0.42:
            ops.append({"op": "reg_send", "s": r.choice(sends), "ssrc": r.choice(ssrcs)})
        elif x < 0.48:
            ops.append({"op": "unreg_send", "s": r.choice(sends)})
        elif x < 0.75:
            ops.append({"op": "rtp", "ssrc": r.choice(ssrcs), "pt": r.choice(pts)})
        else:
            ops.append({"op": "rtcp", "kind": r.choice(["SR", "RR", "BYE", "RTPFB", "PSFB", "REMB", "SDES"]),
                        "ssrc": r.choice(ssrcs + [0]), "ssrcs": r.sample(ssrcs, r.randint(0, min(4, len(ssrcs))))})
    return ops


def run():
    rep = Report("C12")
    thorough = tier() == "thorough"
    r = rng(12)
    try:
        with T.Scratch() as sc:
            # 1. design-level: exhaustive TLC
            exh = T.tlc(sc, "RtpRouter", EXH_CFG % {"r3": ',"r3"' if thorough else "", "maxops": 5},
                        args=["-coverage", "1"] if not thorough else [], timeout=1500)
            if not exh.complete or exh.violated:
                raise T.MachineryError("design model RtpRouter failed: %s\n%s" % (exh.violated, exh.out[-1500:]))
            wit = T.tlc(sc, "RtpRouter", WITNESS_CFG, workers=4, timeout=300)
            if "WitnessNeverLatched" not in wit.violated:
                raise T.MachineryError("vacuity: no SSRC latch reachable in the model")

            # 2. spec -> code replay
            nsim = 1500 if thorough else 300
            sim, behs = T.simulate(sc, "RtpRouter", SIM_CFG, num=nsim, depth=41, seed=seed(), timeout=600, workers=16)
            if not behs:
                raise T.MachineryError("no simulated behaviours\n" + sim.out[-1500:])
            traces = []
            # three SSRC/PT renamings: model numbers, real-looking 32-bit values, boundary values
            renames = [
                (lambda s: s, lambda p: p),
                (lambda s: (0x9E3779B1 * s) & 0xFFFFFFFF or 1, lambda p: 95 + p),
                (lambda s: 0xFFFFFFFF - s + 1, lambda p: 128 - p),
            ]
            lock_steps = 0
            lock_mismatch = 0
            for bi, beh in enumerate(behs):
                ex = Exec(*renames[bi % 3])
                for (action, state), op in zip(beh[1:], ops_from_behaviour(beh)):
                    rec = ex.do(op)
                    lock_steps += 1
                    exp = state["act"].get("res")
                    if exp is not None:
                        got = rec["res"]
                        if isinstance(got, list):
                            if sorted(exp) != got:
                                lock_mismatch += 1
                        elif exp != got:
                            lock_mismatch += 1
                traces.append({"id": len(traces) + 1, "src": "tlc-simulate", "steps": ex.steps})

            # 3. code -> spec: random histories
            nrand = 3000 if thorough else 600
            for _ in range(nrand):
                ex = Exec(*renames[r.randint(0, 2)])
                for op in random_history(r, r.randint(5, 60)):
                    ex.do(op)
                traces.append({"id": len(traces) + 1, "src": "random", "steps": ex.steps})

            # 3b. the same one level up: registrations and datagrams through a real RTCDtlsTransport
            # (compound RTCP datagrams, callbacks of the registered objects as the observation)
            ntr = 1500 if thorough else 300
            tsteps = 0
            for i in range(ntr):
                ex = TransportExec(*renames[r.randint(0, 2)])
                try:
                    ops = compound_history(r, r.randint(5, 60)) if i % 4 else ops_from_behaviour(behs[i % len(behs)])
                    for op in ops:
                        ex.do(op)
                finally:
                    ex.close()
                tsteps += len(ex.steps)
                traces.append({"id": len(traces) + 1, "src": "transport", "steps": ex.steps})

            # 4. validate all recorded traces against the spec
            val, verdicts = T.validate_traces(sc, "TraceRouter", TRACE_CFG, traces, timeout=1500)
            if len(verdicts) != len(traces):
                raise T.MachineryError("trace validation incomplete: %d of %d verdicts\n%s"
                                       % (len(verdicts), len(traces), val.out[-2000:]))
            # binding self-test: a corrupted copy of a trace must be rejected
            bind = None
            for t in traces:
                if verdicts[t["id"]][0] != "ok":
                    continue        # (on a tree that violates the property: use an accepted trace)
                idx = [i for i, s in enumerate(t["steps"]) if s["op"] == "rtp" and s["res"] != "none"]
                if idx:
                    import copy
                    bad = copy.deepcopy(t)
                    bad["steps"][idx[0]]["res"] = "none"
                    bad["id"] = 1
                    _, bv = T.validate_traces(sc, "TraceRouter", TRACE_CFG, [bad], timeout=300)
                    bind = bv.get(1, ("?", 0))[0]
                    break
            if bind != "C12.rtp_rule" and all(v[0] == "ok" for v in verdicts.values()):
                raise T.MachineryError("binding self-test: corrupted trace not rejected (%r)" % (bind,))

        nontrivial = 0
        for t in traces:
            v, pos = verdicts[t["id"]]
            if any(s["op"] in ("rtp", "rtcp") and s["res"] not in ("none", []) for s in t["steps"]):
                nontrivial += 1
            if v.startswith("machinery"):
                raise T.MachineryError("trace %d: %s" % (t["id"], v))
            if v != "ok":
                step = t["steps"][pos - 1] if pos >= 1 else None
                rep.violation(v, {"op": step and step["op"]}, {"step": step, "position": pos, "source": t["src"]}, t)
        rep.coverage = {
            "states": exh.distinct, "transitions": exh.generated, "exhaustive": True,
            "model_depth": exh.depth,
            "traces_validated_against_impl": len(traces),
            "trace_events_validated": sum(len(t["steps"]) for t in traces),
            "trace_validation_states": val.distinct,
            "traces_with_routed_packet": nontrivial,
            "lockstep_behaviours": len(behs), "lockstep_steps": lock_steps, "lockstep_mismatches": lock_mismatch,
            "transport_level_traces": ntr, "transport_level_steps": tsteps,
            "compound_rtcp_datagrams": sum(1 for t in traces if t["src"] == "transport" for st in t["steps"]
                                           if st.get("compound", 1) > 1),
            "binding_selftest": "corrupted trace rejected with " + str(bind),
            "action_coverage": {k: v[1] for k, v in exh.action_counts().items()},
            "samples": [traces[0]["steps"][:8], traces[-1]["steps"][:8]],
        }
        rep.assumptions = ["no party is registered on SSRC 0 (the conventional media SSRC of a REMB; other values are exercised too)",
                           "receivers/senders are opaque objects compared by identity",
                           "A = M for this property: the property text states the routing rule"]
        return rep.finish()
    except T.MachineryError as e:
        return rep.finish(machinery_error=e)


def replay(path):
    """Re-execute the operations of a saved failing trace on the current tree and re-judge it."""
    import json
    obj = json.load(open(path))
    t = obj["replay"]
    if t.get("src") == "transport" or any("compound" in st for st in t["steps"]):
        ex = TransportExec()
        steps = [st for st in t["steps"] if st.get("compound", 1) != -1]
        i = 0
        try:
            while i < len(steps):
                st = steps[i]
                n = st.get("compound", 1) if st["op"] == "rtcp" else 1
                parts = [{k: v for k, v in x.items() if k not in ("res", "compound")} for x in steps[i:i + max(1, n)]]
                ex.do(parts[0] if len(parts) == 1 else {"op": "rtcp_compound", "parts": parts})
                i += max(1, n)
        finally:
            ex.close()
    else:
        ex = Exec()
        for st in t["steps"]:
            op = {k: v for k, v in st.items() if k != "res"}
            ex.do(op)
    with T.Scratch() as sc:
        _, v = T.validate_traces(sc, "TraceRouter", TRACE_CFG, [{"id": 1, "steps": ex.steps}])
    verdict, pos = v.get(1, ("machinery", 0))
    if verdict == "ok":
        print("replay: trace accepted on the current tree")
        return 0
    print("VIOLATION property=C12 replay=%s clause=%s step=%s" % (path, verdict, ex.steps[pos - 1]))
    return 1
