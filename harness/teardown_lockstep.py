"""spec -> code for SctpTeardown.tla: the environment plays a remote stack that sends SHUTDOWN,
SHUTDOWN-COMPLETE and ABORT to one endpoint of a real, established pair (with one open data
channel); T2 fires when the model says so.  After every action the model's variables are
compared with the endpoint's state (association state, T2 armed, _t2_failures, SHUTDOWN-ACKs
put on the wire, the channel's readyState).  MaxRetrans is the code's own constant."""
from . import common  # noqa: F401
from .sctp_env import Env

ST = {"ESTABLISHED": "established", "SHUTDOWN_ACK_SENT": "ackSent", "CLOSED": "closed"}


class TeardownLockStep:
    def __init__(self, side="B"):
        self.env = Env(origin_a=1000, origin_b=2000)
        env = self.env
        self.x = side
        self.y = Env.peer(side)
        env.start("AB")
        env.heal_and_drain()
        self.tok = env.create("A", label="t")
        env.heal_and_drain()
        env.healed = False
        self.steps = 0
        self.matched = 0
        self.mismatch = None
        self.acts = []
        self.stopped = False
        ch = env.chan[self.tok][self.x]
        if ch is None or ch.readyState != "open" or env.ep[self.x]._association_state.name != "ESTABLISHED":
            raise RuntimeError("teardown lock-step: the pair did not come up")
        self.ch = ch

    def _inject(self, chunk):
        env = self.env
        S = env.S
        peer = env.ep[self.y]
        data = S.serialize_packet(peer._local_port, peer._remote_port, peer._remote_verification_tag, chunk)
        env.net_add(self.y, data)
        env.deliver(env.net[-1])

    def apply(self, act):
        env = self.env
        S = env.S
        op = act["op"]
        if op == "shutdown":
            c = S.ShutdownChunk()
            c.cumulative_tsn = env.ep[self.x]._last_sacked_tsn
            self._inject(c)
        elif op == "complete":
            self._inject(S.ShutdownCompleteChunk())
        elif op == "abort":
            self._inject(S.AbortChunk())
        elif op == "t2":
            ts = [h for side, name, h in env.timers(self.x) if name == "_t2_expired"]
            if not ts:
                return False
            env.fire(ts[0])
        elif op == "stop":
            env.stop(self.x)
            self.stopped = True
        else:
            return False
        return True

    def project(self):
        env = self.env
        S = env.S
        ep = env.ep[self.x]
        acks = 0
        for pkt in env.net:
            if pkt["src"] != self.x:
                continue
            try:
                chunks = S.parse_packet(pkt["data"])[3]
            except Exception:  # noqa
                continue
            acks += sum(1 for c in chunks if isinstance(c, S.ShutdownAckChunk))
        name = ep._association_state.name
        return {"st": ST.get(name, name), "t2": ep._t2_handle is not None, "fails": ep._t2_failures, "acks": acks,
                "chan": "open" if self.ch.readyState == "open" else self.ch.readyState}

    def run(self, behaviour):
        for action, state in behaviour[1:]:
            act = state["act"]
            self.acts.append(act)
            try:
                ok = self.apply(act)
            except Exception as exc:  # noqa
                ok = False
                self.mismatch = self.mismatch or "step %d (%s): harness exception %r" % (self.steps + 1, act, exc)
            if not ok:
                self.mismatch = self.mismatch or "step %d: model action %s not applicable to the code" % (self.steps + 1, act)
                break
            self.steps += 1
            if self.mismatch is None:
                p = self.project()
                d = [k for k in ("st", "t2", "fails", "acks", "chan") if p[k] != state[k]]
                if not d:
                    self.matched += 1
                else:
                    self.mismatch = "step %d (%s): %s" % (self.steps, act["op"], ", ".join(
                        "%s model=%s code=%s" % (k, state[k], p[k]) for k in d))
        return {"events": self.env.events, "pr": False, "matched": self.matched, "steps": self.steps,
                "mismatch": self.mismatch, "ops": [], "origin": [None, None]}

    def close(self):
        self.env.close()
