"""SctpAssoc.tla (layer M): configurations, TLC runs, and lock-step replay of TLC
behaviours into a real pair of RTCSctpTransport objects (spec -> code direction).

A configuration = channels + messages + fault budgets.  The MC module with the
constant definitions is generated into the scratch directory.
"""
from . import tlc as T
from .sctp_env import Env

MTU = 1200
LIFETIME_MS = 60000   # far above the wall-clock advance of the few T3 firings of a replay (RTO <= 3 s each)


class Config:
    def __init__(self, name, chans, msgs, drop=1, dup=0, t3=1, maxnet=3, cntcap=3, mod=0, origin=0, smod=0, sorigin=0):
        self.name = name
        self.mod, self.origin, self.smod, self.sorigin = mod, origin, smod, sorigin
        self.chans = chans      # {ch: dict(sid=, ordered=, maxRtx=)}   maxRtx -1 = reliable
        self.msgs = msgs        # [(ch, [frag sizes])]
        self.drop, self.dup, self.t3, self.maxnet, self.cntcap = drop, dup, t3, maxnet, cntcap

    def wrapped(self, mod, origin, smod=0, sorigin=0):
        """The same configuration with TSNs modulo `mod` starting at `origin` (and stream sequence
        numbers modulo `smod` starting at `sorigin`)."""
        c = Config(self.name + "@%d+%d/%d+%d" % (mod, origin, smod, sorigin), self.chans, self.msgs, self.drop, self.dup,
                   self.t3, self.maxnet, self.cntcap, mod, origin, smod, sorigin)
        return c

    def mc_module(self):
        ch = " @@ ".join("%d :> [sid |-> %d, ordered |-> %s, maxRtx |-> %d, life |-> %s]" % (
            c, v["sid"], "TRUE" if v["ordered"] else "FALSE", v["maxRtx"], "TRUE" if v.get("life") else "FALSE")
            for c, v in sorted(self.chans.items()))
        ms = ", ".join("[ch |-> %d, frags |-> <<%s>>]" % (c, ", ".join(str(x) for x in fr)) for c, fr in self.msgs)
        return ("---- MODULE MC_SctpAssoc ----\nEXTENDS SctpAssoc\nMCChans == (%s)\nMCMsgs == << %s >>\n====\n" % (ch, ms))

    def cfg(self, invariants=(), dev=(), constraint=True, spec="Spec", properties=()):
        lines = ["SPECIFICATION " + spec, "CONSTANTS", " Chans <- MCChans", " Msgs <- MCMsgs",
                 " MaxDrop = %d" % self.drop, " MaxDup = %d" % self.dup, " MaxT3 = %d" % self.t3,
                 " MaxNet = %d" % self.maxnet, " CntCap = %d" % self.cntcap,
                 " Mod = %d" % self.mod, " Origin = %d" % self.origin, " SMod = %d" % self.smod, " SOrigin = %d" % self.sorigin,
                 " Dev = {%s}" % ", ".join('"%s"' % d for d in dev), "VIEW View"]
        if constraint:
            lines.append("CONSTRAINT NetBound")
        for i in invariants:
            lines.append("INVARIANT " + i)
        for p in properties:
            lines.append("PROPERTY " + p)
        lines.append("CHECK_DEADLOCK FALSE")
        return "\n".join(lines) + "\n"


REL = {1: dict(sid=1, ordered=True, maxRtx=-1), 2: dict(sid=2, ordered=False, maxRtx=-1)}
MIX = {1: dict(sid=1, ordered=True, maxRtx=-1), 2: dict(sid=2, ordered=True, maxRtx=0)}
MIXU = {1: dict(sid=1, ordered=True, maxRtx=-1), 2: dict(sid=2, ordered=False, maxRtx=0),
        3: dict(sid=3, ordered=True, maxRtx=1)}

CONFIGS = {
    # reliable channels only: one ordered, one unordered; two size classes
    "rel-small": Config("rel-small", REL, [(1, [1200, 10]), (2, [10]), (1, [1200])], drop=1, t3=1, maxnet=3),
    "rel-mid": Config("rel-mid", REL, [(1, [1200, 10]), (2, [10]), (1, [1200]), (1, [1200, 1200])], drop=1, t3=1, maxnet=3),
    "rel-burst": Config("rel-burst", REL, [(1, [1200, 1200, 1200, 10]), (2, [10]), (2, [1200, 10]), (1, [10])],
                        drop=2, t3=1, maxnet=3),
    # one reliable + one partially reliable (rtx 0) ordered channel, PR message larger than the window share
    "pr-tiny": Config("pr-tiny", MIX, [(2, [1200, 10]), (1, [10]), (2, [10])], drop=1, t3=1, maxnet=3),
    # two retransmit-limited ordered streams: FORWARD-TSN with entries for several streams
    "pr-back": Config("pr-back", {1: dict(sid=1, ordered=True, maxRtx=-1), 2: dict(sid=2, ordered=True, maxRtx=0),
                                   3: dict(sid=3, ordered=True, maxRtx=0)},
                      [(2, [10]), (3, [10]), (2, [10]), (2, [10])], drop=2, t3=1, maxnet=3),
    # a lost FORWARD-TSN
    "pr-fwdloss": Config("pr-fwdloss", MIX, [(2, [10]), (1, [10])], drop=2, t3=2, maxnet=3),
    # a lifetime-limited ordered channel next to a reliable one
    "pr-life": Config("pr-life", {1: dict(sid=1, ordered=True, maxRtx=-1), 2: dict(sid=2, ordered=True, maxRtx=-1, life=True)},
                      [(2, [1200, 10]), (1, [10]), (2, [10])], drop=1, t3=1, maxnet=3),
    "pr-small": Config("pr-small", MIX, [(2, [1200, 10]), (1, [10]), (2, [10]), (1, [1200, 10])], drop=1, t3=1, maxnet=3),
    "pr-big": Config("pr-big", MIX, [(2, [1200, 1200, 1200, 1200, 10]), (1, [1200, 10]), (2, [10])], drop=2, t3=1, maxnet=3),
    "pr-mix": Config("pr-mix", MIXU, [(2, [1200, 10]), (3, [1200, 10]), (1, [10]), (3, [10]), (2, [10])],
                     drop=2, t3=1, maxnet=3),
}

# larger configurations for -simulate (replay material)
MIXL = {1: dict(sid=1, ordered=True, maxRtx=-1), 2: dict(sid=2, ordered=False, maxRtx=0),
        3: dict(sid=3, ordered=True, maxRtx=1), 4: dict(sid=4, ordered=True, maxRtx=-1, life=True)}

SIM_CONFIGS = {
    "sim-life": Config("sim-life", MIXL, [(4, [1200, 1200, 10]), (1, [10]), (2, [1200, 10]), (4, [10]), (3, [1200, 10]),
                                          (1, [1200, 1200, 10]), (4, [1200, 10]), (2, [10]), (4, [10])],
                       drop=5, dup=2, t3=3, maxnet=99, cntcap=5),
    "sim-rel": Config("sim-rel", REL, [(1, [1200, 1200, 10]), (2, [10]), (1, [1200]), (2, [1200, 1200, 1200, 10]),
                                        (1, [10]), (1, [1200, 10]), (2, [10]), (1, [1200, 1200, 1200, 1200, 1200, 10])],
                      drop=5, dup=2, t3=3, maxnet=99, cntcap=5),
    "sim-pr": Config("sim-pr", MIXU, [(2, [1200, 1200, 10]), (1, [10]), (3, [1200, 10]), (1, [1200, 1200, 10]),
                                       (2, [10]), (3, [10]), (3, [1200, 1200, 1200, 1200, 10]), (1, [10]), (2, [1200, 10])],
                     drop=5, dup=2, t3=3, maxnet=99, cntcap=5),
}


def run_tlc(sc, config, invariants, dev=(), timeout=900, coverage=False, workers=16, spec="Spec",
            properties=(), constraint=True, keep_going=False):
    sc.write("MC_SctpAssoc.tla", config.mc_module())
    args = (["-coverage", "1"] if coverage else []) + (["-continue"] if keep_going else [])
    return T.tlc(sc, "MC_SctpAssoc", config.cfg(invariants, dev, constraint=constraint, spec=spec,
                                                properties=properties),
                 workers=workers, args=args, timeout=timeout)


def simulate(sc, config, num, depth, seed, dev=(), timeout=600):
    sc.write("MC_SctpAssoc.tla", config.mc_module())
    return T.simulate(sc, "MC_SctpAssoc", config.cfg((), dev, constraint=False), num=num, depth=depth,
                      seed=seed, timeout=timeout)


# --------------------------------------------------------------------------- lock-step


class LockStep:
    """Replays one TLC behaviour of SctpAssoc into a real pair and compares the projected
    state after every step.  The executed trace is returned for validation against layer A."""

    def __init__(self, config, origin_a=None, origin_b=None, sseq=0):
        self.cfg = config
        self.env = Env(origin_a, origin_b)
        env = self.env
        env.start("AB")
        self._settle()
        self.tok = {}
        for c, v in sorted(config.chans.items()):
            kw = dict(label="c%d" % c, protocol="", ordered=v["ordered"])
            if v["maxRtx"] >= 0:
                kw["maxRetransmits"] = v["maxRtx"]
            elif v.get("life"):
                kw["maxPacketLifeTime"] = LIFETIME_MS
            self.tok[c] = env.create("A", **kw)
            self._settle()
            if sseq:       # C17: the stream sequence numbers continue at `sseq` (next to the 16-bit wrap)
                env.shift_sseq(self.tok[c], sseq)
        a, b = env.ep["A"], env.ep["B"]
        S = env.S
        self.base = S.tsn_minus_one(a._local_tsn)        # model TSN t <-> base + t
        self.sid = {c: env.chan[self.tok[c]]["A"].id for c in config.chans}
        self.sseq0 = {self.sid[c]: a._outbound_stream_seq.get(self.sid[c], 0) for c in config.chans}
        self.rseq0 = {self.sid[c]: b._get_inbound_stream(self.sid[c]).sequence_number for c in config.chans}
        self.model_sid = {c: config.chans[c]["sid"] for c in config.chans}
        self.real_of_model_sid = {config.chans[c]["sid"]: self.sid[c] for c in config.chans}
        assert not env.net and not env.timers(), "setup did not settle"
        self.mid_of_msg = {}
        self.steps = 0
        self.mismatch = None
        # (with rtx-limited channels a message sent after Heal may still be abandoned when the
        #  loss-free network reorders it by three or more positions - fast retransmit counts as a
        #  retransmission - so model sends are recovery probes only when the act says so)

    def _settle(self):
        env = self.env
        n = 0
        while env.net and n < 200:
            env.deliver(env.net[0])
            n += 1

    def rel(self, tsn):
        return (tsn - self.base) % 2 ** 32

    # -- finding the real datagram that corresponds to a model packet -----------------
    def find(self, p):
        env = self.env
        S = env.S
        src = "B" if p["k"] == "SACK" else "A"
        for pkt in env.net:
            if pkt["src"] != src:
                continue
            try:
                ch = S.parse_packet(pkt["data"])[3][0]
            except Exception:
                continue
            if p["k"] == "DATA" and isinstance(ch, S.DataChunk) and self.rel(ch.tsn) == p["a"]:
                return pkt
            if p["k"] == "SACK" and isinstance(ch, S.SackChunk) and self.rel(ch.cumulative_tsn) == p["a"]:
                gaps = set()
                for g0, g1 in ch.gaps:
                    for pos in range(g0, g1 + 1):
                        gaps.add(self.rel(ch.cumulative_tsn) + pos)
                if gaps == set(p["g"]):
                    return pkt
            if p["k"] == "FWD" and isinstance(ch, S.ForwardTsnChunk) and self.rel(ch.cumulative_tsn) == p["a"]:
                st = {self._msid(sid) * 1000 + ((sseq - self.sseq0.get(sid, 0)) % 65536) for sid, sseq in ch.streams}
                if st == set(p["st"]):
                    return pkt
        return None

    def _msid(self, real_sid):
        for c, s in self.sid.items():
            if s == real_sid:
                return self.model_sid[c]
        return 999

    def apply(self, act):
        env = self.env
        op = act["op"]
        if op == "send":
            ch, frags = self.cfg.msgs[act["m"] - 1]
            # a message sent after the network healed must be delivered (C06 recovery / C02)
            self.mid_of_msg[act["m"]] = env.send("A", self.tok[ch], sum(frags), "bytes", probe=bool(act.get("probe")))
        elif op in ("deliver", "dup", "drop"):
            pkt = self.find(act["p"])
            if pkt is None:
                return False
            if op == "deliver":
                env.deliver(pkt)
            elif op == "dup":
                env.deliver(pkt, keep=True)
            else:
                env.drop(pkt)
        elif op == "t3":
            ts = [h for side, name, h in env.timers("A") if name == "_t3_expired"]
            if not ts:
                return False
            env.fire(ts[0])
        elif op == "expire":
            env.advance(LIFETIME_MS / 1000.0 + 0.5)
        elif op == "heal":
            env.healed = True
            env.ev(k="heal")
        return True

    # -- projection of the real objects onto the model's variables --------------------
    def project(self):
        env = self.env
        a, b = env.ep["A"], env.ep["B"]
        cap = self.cfg.cntcap
        snd = {
            "outq": [self.rel(c.tsn) for c in a._outbound_queue],
            "sentq": [[self.rel(c.tsn), bool(c._acked), bool(c._retransmit), c._misses, min(c._sent_count, cap),
                       bool(c._abandoned), bool(c._in_flight)] for c in a._sent_queue],
            "flight": a._flight_size, "cwnd": a._cwnd, "ssthresh": a._ssthresh, "pba": a._partial_bytes_acked,
            "frExit": self.rel(a._fast_recovery_exit) if a._fast_recovery_exit is not None else 0,
            "frTx": bool(a._fast_recovery_transmit),
            "lastSacked": self.rel(a._last_sacked_tsn), "adv": self.rel(a._advanced_peer_ack_tsn),
            "fwd": bool(a._forward_tsn_chunk is not None),
            "t3": bool(a._t3_handle is not None),
            "dcq": len([1 for (c, pp, d) in a._data_channel_queue if pp != env.S.WEBRTC_DCEP]),
        }
        streams = {}
        for c in self.cfg.chans:
            rs = self.sid[c]
            st = b._inbound_streams.get(rs)
            streams[self.model_sid[c]] = {
                "re": [self.rel(x.tsn) for x in st.reassembly] if st else [],
                "seq": ((st.sequence_number - self.rseq0[rs]) % 65536) if st else 0}
        rcv = {"last": self.rel(b._last_received_tsn), "mis": sorted(self.rel(x) for x in b._sack_misordered),
               "streams": streams}
        return snd, rcv

    @staticmethod
    def model_projection(state):
        s, r = state["snd"], state["rcv"]
        snd = {
            "outq": list(s["outq"]),
            "sentq": [[e["tsn"], e["acked"], e["retx"], e["misses"], e["cnt"], e["aband"], e["infl"]] for e in s["sentq"]],
            "flight": s["flight"], "cwnd": s["cwnd"], "ssthresh": s["ssthresh"], "pba": s["pba"],
            "frExit": s["frExit"] if s["frOn"] else 0, "frTx": s["frTx"], "lastSacked": s["lastSacked"], "adv": s["adv"],
            "fwd": s["fwd"]["on"], "t3": s["t3"], "dcq": len(s["dcq"]),
        }
        streams = {}
        st = r["streams"]
        items = st.items() if isinstance(st, dict) else enumerate(st, 1)
        for sd, v in items:
            streams[sd] = {"re": list(v["re"]), "seq": v["seq"]}
        rcv = {"last": r["last"], "mis": sorted(r["mis"]), "streams": streams}
        return snd, rcv

    def compare(self, state):
        ms, mr = self.model_projection(state)
        cs, cr = self.project()
        for k in ms:
            if ms[k] != cs[k]:
                return "snd.%s model=%s code=%s" % (k, ms[k], cs[k])
        for k in ("last", "mis"):
            if mr[k] != cr[k]:
                return "rcv.%s model=%s code=%s" % (k, mr[k], cr[k])
        for sd in mr["streams"]:
            if mr["streams"][sd] != cr["streams"].get(sd):
                return "rcv.streams[%s] model=%s code=%s" % (sd, mr["streams"][sd], cr["streams"].get(sd))
        return None

    def run(self, behaviour, drain=True, probe=True):
        """behaviour: [(action name, state)] from TLC; returns the recorded trace dict."""
        matched = 0
        for action, state in behaviour[1:]:
            act = state["act"]
            if not self.apply(act):
                self.mismatch = self.mismatch or ("step %d: model action %s not applicable to the code" % (self.steps + 1, act))
                break
            self.steps += 1
            if self.mismatch is None:
                d = self.compare(state)
                if d is None:
                    matched += 1
                else:
                    self.mismatch = "step %d (%s): %s" % (self.steps, act["op"], d)
        env = self.env
        if drain:
            env.heal_and_drain()
            # C06 recovery probe / C02: traffic flows again on every open channel
            for c in sorted(self.cfg.chans) if probe else []:
                chobj = env.chan[self.tok[c]]
                if chobj["A"].readyState == "open" and chobj["B"] is not None:
                    env.send("A", self.tok[c], 10, "bytes", probe=True)
            env.heal_and_drain()
            env.quiesce()
        pr = any(v["maxRtx"] >= 0 or v.get("life") for v in self.cfg.chans.values())
        return {"events": env.events, "pr": pr, "matched": matched, "steps": self.steps,
                "mismatch": self.mismatch, "ops": [], "origin": [None, None]}

    def close(self):
        self.env.close()


# --------------------------------------------------------------------------- handshake model

HS_INV = ["Agreement", "NoDeadSetup", "TimerOnlyInSetup", "DataArrives"]
HS_WIT = ["W_NeverEstablished", "W_NeverGaveUp", "W_NoRetransmission"]


def hs_cfg(retrans, drop, dup, data, dev=(), inv=HS_INV, props=("ReceiveStateMonotone",), spec="Spec"):
    lines = ["SPECIFICATION " + spec, "CONSTANTS", " MaxInitRetrans = %d" % retrans, " MaxDrop = %d" % drop,
             " MaxDup = %d" % dup, " MaxData = %d" % data, " Dev = {%s}" % ", ".join('"%s"' % d for d in dev),
             "VIEW View"]
    lines += ["INVARIANT " + i for i in inv]
    lines += ["PROPERTY " + x for x in props]
    lines.append("CHECK_DEADLOCK FALSE")
    return "\n".join(lines) + "\n"


class HandshakeLockStep:
    """Replays a behaviour of SctpHandshake.tla (MaxInitRetrans = 8 as in the code) into a real pair."""

    ST_A = {"CLOSED": None, "COOKIE_WAIT": "cookieWait", "COOKIE_ECHOED": "cookieEchoed", "ESTABLISHED": "established"}

    def __init__(self, origin_a=None, origin_b=None):
        self.env = Env(origin_a, origin_b)
        env = self.env
        self.base = env.S.tsn_minus_one(env.ep["A"]._local_tsn)
        spec = dict(label="neg", protocol="", ordered=True, negotiated=True, id=3)
        self.tok = env.create("A", **spec)
        env.create("B", pair=self.tok, **spec)
        self.started = False
        self.steps = 0
        self.matched = 0
        self.mismatch = None

    def rel(self, tsn):
        return 0 if tsn is None else (tsn - self.base) % 2 ** 32

    def find(self, k, n):
        env = self.env
        S = env.S
        cls = {"INIT": S.InitChunk, "INITACK": S.InitAckChunk, "ECHO": S.CookieEchoChunk, "ACK": S.CookieAckChunk,
               "DATA": S.DataChunk}[k]
        for pkt in env.net:
            try:
                ch = S.parse_packet(pkt["data"])[3][0]
            except Exception:
                continue
            if type(ch) is cls and (k != "DATA" or (pkt["src"] == "A" and self.rel(ch.tsn) == n)):
                return pkt
        return None

    def apply(self, act):
        env = self.env
        op = act["op"]
        if op == "start":
            env.start("AB")
            self.started = True
        elif op == "data":
            if env.send("A", self.tok, 10, "bytes") is None:
                return False
        elif op in ("deliver", "dup", "drop"):
            pkt = self.find(act["k"], act["n"])
            if pkt is None:
                return False
            if op == "deliver":
                env.deliver(pkt)
            elif op == "dup":
                env.deliver(pkt, keep=True)
            else:
                env.drop(pkt)
        elif op == "t1":
            ts = [h for side, name, h in env.timers("A") if name == "_t1_expired"]
            if not ts:
                return False
            env.fire(ts[0])
        elif op == "heal":
            env.healed = True
            env.ev(k="heal")
        return True

    def project(self):
        a, b = self.env.ep["A"], self.env.ep["B"]
        ast = a._association_state.name
        if ast == "CLOSED":
            st = "closed" if self.started else "closed0"
        else:
            st = self.ST_A.get(ast, ast)
        chunk = {None: "none", "InitChunk": "INIT", "CookieEchoChunk": "ECHO"}.get(
            type(a._t1_chunk).__name__ if a._t1_chunk is not None else None, "?")
        pa = {"st": st, "t1": a._t1_handle is not None, "fails": a._t1_failures, "chunk": chunk}
        pb = {"st": "established" if b._association_state.name == "ESTABLISHED" else "closed",
              "rtsn": self.rel(b._last_received_tsn), "mis": sorted(self.rel(x) for x in b._sack_misordered)}
        return pa, pb

    def run(self, behaviour):
        for action, state in behaviour[1:]:
            act = state["act"]
            if not self.apply(act):
                self.mismatch = self.mismatch or ("step %d: model action %s not applicable to the code" % (self.steps + 1, act))
                break
            self.steps += 1
            if self.mismatch is None:
                pa, pb = self.project()
                ma, mb = state["a"], state["b"]
                d = None
                for k in ("st", "t1", "chunk"):
                    if ma[k] != pa[k]:
                        d = "a.%s model=%s code=%s" % (k, ma[k], pa[k])
                if ma["st"] != "closed" and min(ma["fails"], 9) != min(pa["fails"], 9):
                    d = "a.fails model=%s code=%s" % (ma["fails"], pa["fails"])
                if mb["st"] != pb["st"] or mb["rtsn"] != pb["rtsn"] or sorted(mb["mis"]) != pb["mis"]:
                    d = "b model=%s code=%s" % (mb, pb)
                if d is None:
                    self.matched += 1
                else:
                    self.mismatch = "step %d (%s): %s" % (self.steps, act["op"], d)
        env = self.env
        env.heal_and_drain()
        if env.ep["A"].state == "connected":
            env.send("A", self.tok, 10, "bytes", probe=True)
            env.heal_and_drain()
        env.quiesce()
        return {"events": env.events, "pr": False, "matched": self.matched, "steps": self.steps,
                "mismatch": self.mismatch, "ops": [], "origin": [None, None]}

    def close(self):
        self.env.close()
