"""C05 - no received datagram can crash, hang or wedge the receive path.

Specs: specs/Hostile.tla (fault model: protocol states x hostile alphabet, clauses NoEscape /
Terminates / StillUp / ServesValidTraffic, deviation constants), specs/TraceHostile.tla (total
verdict function over recorded executions of the real code).

quick / thorough:
  1. TLC checks Hostile.tla exhaustively (Deviations = {}): the four clauses hold for every
     (reachable protocol state) x (hostile input) pair; a witness invariant must be violated;
     `-coverage 1`; every pair is announced (PrintT) = the fault enumeration.  With every single
     deviation constant (one per known code defect class) TLC must produce a counter-example.
  2. spec -> code: every announced pair is realised on the real objects: a pair of real
     RTCSctpTransport objects (harness/sctp_env.Env) resp. a real RTCDtlsTransport (stub SRTP, its
     real receive loop running) with real RTCRtpReceiver / RTCRtpSender objects is driven into the
     state, the hostile datagram (correct checksum and verification tag unless the class says
     otherwise) is injected under a step/CPU budget, then valid traffic continues.  The model's
     prediction (state after, crash under the deviations still present) is compared = agreement.
  3. code -> spec: every execution (pairs x variants, byte-level mutations at every field
     boundary / bit, seeded random byte strings up to MTU size, direct calls of the wire parsers)
     is recorded and judged by TraceHostile.tla with TLC.  Only its clauses produce VIOLATION.
  4. binding self-test: corrupted copies of recorded traces must be rejected with the expected
     clause.
"""
MANIFEST = dict(
    technique="TLA+ fault model Hostile.tla (protocol state machine x alphabet of well-formed-but-nonsensical inputs and byte-level mutation tags) model-checked with TLC; every (state, input) pair TLC enumerates is realised on real RTCSctpTransport pairs / a real RTCDtlsTransport receive loop with real RTCRtpReceiver and RTCRtpSender under a step+CPU budget, followed by valid traffic; wire parsers called directly; recorded executions judged by TraceHostile.tla (TLC trace validation)",
    text="Fault enumeration: TLC enumerates all (reachable protocol state) x (hostile input class) pairs of the model (SCTP: server closed / closed after INIT, client cookie-wait / cookie-echoed, established idle / with data outstanding, shutdown-ack-sent, both roles; media: idle / flowing) and every pair is executed against the real code in several concrete variants (field values, every truncation point, length fields 0 / too small / too large, parameter length 0, bit flips with recomputed checksum, random bytes up to MTU size), always followed by valid traffic that must still be served; exceptions escaping _handle_data / the DTLS receive loop, parsers raising anything but ValueError, step budgets exceeded, closed transports and broken follow-up traffic are judged by the TLA+ clauses.",
    note="Not a proof over all byte strings: the byte-level space is covered by mutation tags at field boundaries plus seeded random bytes. SRTP is stubbed (identity), so some datagrams reach the RTP/RTCP handlers that libsrtp would reject. The step budget (profile events per datagram: base + per byte, constants in Hostile.tla) is a chosen bound for 'out of proportion'; memory is bounded only through it. Inputs that legitimately end or steer the association (correctly tagged ABORT / SHUTDOWN / SHUTDOWN-COMPLETE / ERROR during set-up / INIT at a listening server / INIT-ACK in cookie-wait, RTCP BYE for a received SSRC, stream reset of the probe channel) are exempt from StillUp / ServesValidTraffic. Trusted: TLC, the harness' packet builders and its structural classification of the injected bytes.",
    design_ref="5/C05",
    category="fault_enumeration")

import asyncio  # noqa: E402
import copy  # noqa: E402
import json  # noqa: E402
import os  # noqa: E402
import random  # noqa: E402
import signal  # noqa: E402
import struct  # noqa: E402
import sys  # noqa: E402
import threading  # noqa: E402
import time  # noqa: E402

from . import common  # noqa: F401,E402  (sets sys.path for aiortc)
from .common import Report, rng, seed, tier  # noqa: E402
from . import tlc as T  # noqa: E402

PROP = "C05"

# deviation constants of Hostile.tla = defect classes of the code that the model can re-enable.
# PRESENT: the ones the pinned tree still has (used for the lock-step prediction only).
ALL_DEVIATIONS = ["ParamLenZeroLoop", "ShortBody", "InitBundled", "DcepOpenExisting", "SackReversedGaps",
                  "SackGapWork", "SackGapOverflow", "NoTcb", "BadUtf8", "SackBeyondSent",
                  "RembCount", "HdrExtLen", "EmptyDatagram",
                  "SsnHeadOfLine", "ReinitKeepsSackState", "RembSsrcOverflow", "StaleFrameGuard"]

# --------------------------------------------------------------------------- budget / guard


class Hang(BaseException):
    """Budget exceeded inside the code under test (BaseException: must not be swallowed)."""


CPU_BACKSTOP = 20.0   # s of CPU time; only reached by loops that make no call at all


def _qual(frame):
    """Qualified name of the innermost aiortc function at or above `frame`."""
    f = frame
    while f is not None:
        if "aiortc" in f.f_code.co_filename and not f.f_code.co_filename.endswith("utils.py"):
            return f.f_code.co_qualname
        f = f.f_back
    return frame.f_code.co_qualname if frame is not None else "?"


def innermost(exc):
    """Qualified name of the innermost aiortc function on the exception's traceback."""
    fn = "?"
    tb = getattr(exc, "__traceback__", None)
    while tb is not None:
        code = tb.tb_frame.f_code
        if "aiortc" in code.co_filename and not code.co_filename.endswith("utils.py"):
            fn = code.co_qualname
        tb = tb.tb_next
    return fn


class Guard:
    """Counts profile events (Python and C calls/returns) of one call into the code under test and
    aborts it when the limit is exceeded; a virtual-time alarm is the backstop for call-free loops."""

    def __init__(self):
        self.count = 0
        self.limit = 0
        self.where = None

    def _prof(self, frame, event, arg):
        self.count += 1
        if self.count > self.limit:
            sys.setprofile(None)
            self.where = _qual(frame)
            raise Hang("step budget exceeded in %s" % self.where)

    def _alarm(self, signum, frame):
        sys.setprofile(None)
        self.where = _qual(frame)
        raise Hang("CPU backstop in %s" % self.where)

    def call(self, fn, limit):
        """-> dict(exc, isval, fn, timeout, work, result)"""
        self.count = 0
        self.limit = limit
        self.where = None
        res = {"exc": "none", "isval": False, "fn": "none", "timeout": False, "work": 0, "msg": ""}
        main = threading.current_thread() is threading.main_thread()
        if main:
            signal.signal(signal.SIGVTALRM, self._alarm)
            signal.setitimer(signal.ITIMER_VIRTUAL, CPU_BACKSTOP)
        sys.setprofile(self._prof)
        try:
            res["result"] = fn()
        except Hang:
            res["timeout"] = True
            res["fn"] = self.where or "?"
        except Exception as exc:
            sys.setprofile(None)
            res["exc"] = type(exc).__name__
            res["isval"] = isinstance(exc, ValueError)
            res["fn"] = innermost(exc)
            res["msg"] = str(exc)[:120]
        finally:
            sys.setprofile(None)
            if main:
                signal.setitimer(signal.ITIMER_VIRTUAL, 0)
        res["work"] = min(self.count, limit + 1)
        return res


# --------------------------------------------------------------------------- SCTP bytes (independent of aiortc)

CT = {"DATA": 0, "INIT": 1, "INIT_ACK": 2, "SACK": 3, "HEARTBEAT": 4, "HEARTBEAT_ACK": 5, "ABORT": 6,
      "SHUTDOWN": 7, "SHUTDOWN_ACK": 8, "ERROR": 9, "COOKIE_ECHO": 10, "COOKIE_ACK": 11,
      "SHUTDOWN_COMPLETE": 14, "RECONFIG": 130, "FORWARD_TSN": 192}
CT_NAME = {v: k for k, v in CT.items()}
FIXED = {0: 12, 1: 16, 2: 16, 3: 12, 7: 4, 192: 4}      # fixed part of the chunk body
PARAM_AT = {1: 16, 2: 16, 4: 0, 5: 0, 6: 0, 9: 0, 130: 0}   # where the TLV parameters start
M32 = 0xFFFFFFFF


def crc32c(b):
    from google_crc32c import value
    return value(bytes(b))


def pad4(b):
    return b + b"\x00" * ((4 - len(b) % 4) % 4)


def chunk(t, flags, body, length=None):
    """One chunk; `length` overrides the length field (framing stays as built)."""
    return pad4(struct.pack("!BBH", t, flags, (4 + len(body)) if length is None else length) + body)


def packet(tag, chunks, sport=5000, dport=5000, good_crc=True):
    body = b"".join(chunks)
    head = struct.pack("!HHL", sport, dport, tag & M32)
    c = crc32c(head + b"\x00\x00\x00\x00" + body)
    if not good_crc:
        c ^= 0x5A5A5A5A
    return head + struct.pack("<L", c) + body


def refit(data):
    """Recompute the checksum of a (mutated) datagram of at least 12 bytes."""
    if len(data) < 12:
        return data
    return data[:8] + struct.pack("<L", crc32c(data[:8] + b"\x00\x00\x00\x00" + data[12:])) + data[12:]


def params(ps):
    """TLV parameters; like RFC 4960 3.2 the padding of the last one is chunk padding, not body."""
    out = b""
    for t, v in ps:
        out = pad4(out) + struct.pack("!HH", t, 4 + len(v)) + v
    return out


def c_data(tsn, sid, sseq, ppid, data, flags=3):
    return chunk(0, flags, struct.pack("!LHHL", tsn & M32, sid, sseq, ppid) + data)


def c_sack(cum, rwnd=131072, gaps=(), dups=()):
    b = struct.pack("!LLHH", cum & M32, rwnd, len(gaps), len(dups))
    for g in gaps:
        b += struct.pack("!HH", *g)
    for d in dups:
        b += struct.pack("!L", d & M32)
    return chunk(3, 0, b)


def c_fwd(cum, streams=()):
    b = struct.pack("!L", cum & M32)
    for s in streams:
        b += struct.pack("!HH", *s)
    return chunk(192, 0, b)


def c_init(t, tag, rwnd=131072, os_=65535, is_=65535, tsn=7000, ps=((0xC000, b""), (0x8008, b"\xc0\x82"))):
    return chunk(t, 0, struct.pack("!LLHHL", tag & M32, rwnd, os_, is_, tsn & M32) + params(ps))


def c_reconfig(ps):
    return chunk(130, 0, params(ps))


def rp_reset(req, resp, last, streams):
    return (13, struct.pack("!LLL", req & M32, resp & M32, last & M32) + b"".join(struct.pack("!H", s) for s in streams))


def rp_resp(seq, result=1):
    return (16, struct.pack("!LL", seq & M32, result))


def rp_add(seq, n):
    return (17, struct.pack("!LHH", seq & M32, n, 0))


def dcep_open(label=b"hostile", proto=b"", ctype=0, prio=0, rel=0, ll=None, pl=None):
    return struct.pack("!BBHLHH", 3, ctype, prio, rel, len(label) if ll is None else ll,
                       len(proto) if pl is None else pl) + label + proto


def tlv_walk(body):
    """Tolerant TLV walk -> [(type, declared length, value bytes)] (stops at a zero length)."""
    out, pos = [], 0
    while pos <= len(body) - 4:
        t, ln = struct.unpack_from("!HH", body, pos)
        out.append((t, ln, body[pos + 4:pos + ln]))
        if ln == 0:
            break
        pos += ln + ((4 - ln % 4) % 4)
    return out


def sctp_facts(data, vtag, probe_streams=()):
    """Structural facts about an injected SCTP datagram (what was sent, not what should happen)."""
    f = {"ctl": [], "tsns": [], "dchunks": [], "fwd": None, "probe_reset": False, "cause": None, "accepted": False}
    if len(data) == 0:
        f["cause"] = "empty"
        return f
    if len(data) < 16:
        f["cause"] = "unparseable"
        return f
    tag = struct.unpack_from("!L", data, 4)[0]
    if struct.unpack_from("<L", data, 8)[0] != crc32c(data[:8] + b"\x00\x00\x00\x00" + data[12:]):
        f["cause"] = "unparseable"
        return f
    chunks, pos, framed = [], 12, True
    while pos <= len(data) - 4:
        t, fl, ln = struct.unpack_from("!BBH", data, pos)
        if ln < 4 or pos + ln > len(data):
            framed = False      # chunks before the framing error are still constructed by a one-pass parser
            break
        chunks.append((t, fl, data[pos + 4:pos + ln]))
        pos += ln + ((4 - ln % 4) % 4)
    cause = None
    for t, fl, body in chunks:
        if t in FIXED and 0 < len(body) < FIXED[t]:
            cause = "short_body"
        elif t == 3 and len(body) >= 12:
            ng, nd = struct.unpack_from("!HH", body, 8)
            if 12 + 4 * (ng + nd) > len(body):
                cause = "sack_counts_overrun"
        elif t == 192 and len(body) >= 4 and (len(body) - 4) % 4:
            cause = "fwdtsn_partial_entry"
        if cause is None and t in PARAM_AT and len(body) > PARAM_AT[t]:
            tl = tlv_walk(body[PARAM_AT[t]:])
            if any(ln == 0 for _, ln, _ in tl):
                cause = "param_len_0"
            elif t == 130:
                for pt, ln, v in tl:
                    if pt == 13 and (len(v) < 12 or (len(v) - 12) % 2):
                        cause = "reconfig_param_short"
                    elif pt in (16, 17) and len(v) < 8:
                        cause = "reconfig_param_short"
        if cause:
            break
    has_init = any(t == 1 for t, _, _ in chunks)
    if not framed:
        f["cause"] = cause or "unparseable"
        return f
    if cause is None and has_init and len(chunks) > 1:
        cause = "init_bundled"
    f["cause"] = cause
    tag_ok = (tag == 0) if has_init else (tag == vtag)
    if not tag_ok:
        return f
    f["accepted"] = cause is None
    f["ctl"] = sorted({CT_NAME.get(t, "UNKNOWN") for t, _, _ in chunks})
    for t, fl, body in chunks:
        if t == 0 and len(body) >= 12:
            f["tsns"].append(struct.unpack_from("!L", body)[0])
            f["dchunks"].append(struct.unpack_from("!LHH", body) + (fl,))
        elif t == 0 and len(body) == 0:
            f["tsns"].append(0)
        elif t == 192 and len(body) >= 4:
            f["fwd"] = struct.unpack_from("!L", body)[0]
        elif t == 130:
            for pt, ln, v in tlv_walk(body):
                if pt == 13 and len(v) >= 12:
                    ids = [struct.unpack_from("!H", v, p)[0] for p in range(12, len(v) - 1, 2)]
                    if any(s in probe_streams for s in ids):
                        f["probe_reset"] = True
    return f


def merge_facts(fs):
    """Facts of a sequence of datagrams."""
    if len(fs) == 1:
        return fs[0]
    m = {"ctl": sorted({x for f in fs for x in f["ctl"]}), "tsns": [x for f in fs for x in f["tsns"]],
         "dchunks": [x for f in fs for x in f["dchunks"]], "fwd": next((f["fwd"] for f in reversed(fs) if f["fwd"] is not None), None),
         "probe_reset": any(f["probe_reset"] for f in fs), "cause": next((f["cause"] for f in fs if f["cause"]), None),
         "accepted": all(f["accepted"] for f in fs)}
    return m


def hexdump(burst):
    h = " | ".join(d.hex() for d in burst)
    return h if len(h) <= 200 else h[:200] + "..."


def serial_gt(a, b):
    return ((a - b) & M32) < 0x80000000 and a != b


# --------------------------------------------------------------------------- SCTP: states, context

SCTP_STATES = [("server", "closed"), ("server", "closed_init"), ("client", "cookie_wait"),
               ("client", "cookie_echoed"), ("client", "est_idle"), ("client", "est_out"),
               ("client", "shut_ack"), ("server", "est_idle"), ("server", "est_out"), ("server", "shut_ack")]
ASSOC = {"CLOSED": "closed", "COOKIE_WAIT": "cookie_wait", "COOKIE_ECHOED": "cookie_echoed",
         "ESTABLISHED": "est", "SHUTDOWN_PENDING": "shut", "SHUTDOWN_SENT": "shut",
         "SHUTDOWN_RECEIVED": "shut", "SHUTDOWN_ACK_SENT": "shut_ack"}
ORIGINS = [(1000, 5000), (0xFFFFFFF0, 0xFFFFFF00)]


class SctpCtx:
    """A real endpoint pair driven into (role, st); V = victim, P = the real peer."""

    def __init__(self, role, st, origin=0):
        from .sctp_env import Env
        oa, ob = ORIGINS[origin]
        self.env = env = Env(origin_a=oa, origin_b=ob)
        self.S = env.S
        self.role, self.st = role, st
        self.v = "A" if role == "client" else "B"
        self.p = env.peer(self.v)
        self.V, self.P = env.ep[self.v], env.ep[self.p]
        self.tok = {}
        self.reset_sid = None
        if (role, st) == ("server", "closed"):
            env.start("B")
        elif (role, st) == ("server", "closed_init"):
            env.start("AB")
            env.deliver(env.net[0])
        elif st == "cookie_wait":
            env.start("AB")
        elif st == "cookie_echoed":
            env.start("AB")
            env.deliver(env.net[0])
            env.deliver(env.net[0])
        else:
            env.start("AB")
            env.heal_and_drain(200)
            self.tok["probe"] = env.create("A", label="probe")
            self.tok["second"] = env.create("A", label="second")
            self.tok["gone"] = env.create("A", label="gone")
            env.heal_and_drain(400)
            self.reset_sid = env.chan[self.tok["gone"]]["A"].id
            env.close_channel("A", self.tok["gone"])
            env.heal_and_drain(400)
            for _ in range(3):      # prior ordered traffic both ways on the probe stream (expected SSN = 3)
                env.send("A", self.tok["probe"], 24)
                env.send("B", self.tok["probe"], 24)
                env.heal_and_drain(200)
            env.healed = False
            if st == "est_out":
                env.send(self.v, self.tok["probe"], 40)
            elif st == "shut_ack":
                self.inject(packet(self.vtag, [chunk(7, 0, struct.pack("!L", self.V._last_received_tsn or 0))]))
        self.setup_events = len(env.events)
        got = ASSOC.get(self.V._association_state.name)
        want = {"closed_init": "closed", "est_idle": "est", "est_out": "est"}.get(st, st)
        if got != want:
            raise T.MachineryError("SCTP set-up did not reach %s/%s (association state %s)" % (role, st, got))
        if st == "est_out" and not self.V._sent_queue:
            raise T.MachineryError("est_out: nothing outstanding")

    # values the builders use
    @property
    def vtag(self):
        return self.V._local_verification_tag

    @property
    def base(self):          # next TSN the real peer would send = next TSN V expects
        return self.P._local_tsn

    @property
    def lastrx(self):
        v = self.V._last_received_tsn
        return v if v is not None else (self.base - 1) & M32

    @property
    def vnext(self):         # next TSN V will send
        return self.V._local_tsn

    @property
    def vacked(self):
        return self.V._last_sacked_tsn

    def sid(self, name):
        if name in self.tok:
            ch = self.env.chan[self.tok[name]]["A"]
            if ch is not None and ch.id is not None:
                return ch.id
        return {"probe": 1001, "second": 1003, "gone": 1005}[name]      # no channels yet: unused streams

    def vexp(self, sid):
        """The stream sequence number V expects next on inbound stream `sid`."""
        st = self.V._inbound_streams.get(sid)
        return st.sequence_number if st is not None else 0

    def probe_streams(self):
        return (self.sid("probe"), self.sid("second"))

    def pkt(self, *chunks, tag=None, **kw):
        return packet(self.vtag if tag is None else tag, list(chunks), **kw)

    def inject(self, data):
        env = self.env
        env.begin_step()
        try:
            env.loop.run(self.V._handle_data(data))
        finally:
            env.end_step()

    def assoc(self):
        return ASSOC.get(self.V._association_state.name, "?")

    def close(self):
        self.env.close()


# --------------------------------------------------------------------------- semantic alphabet (SCTP)

SEM = {"sctp": {}, "media": {}}


def sem(sub, kind, *classes):
    def deco(fn):
        for c in classes:
            SEM[sub][(kind, c)] = fn
        return fn
    return deco


FAR = 100000
FULL = [False]      # set per case by run_case: thorough tier builds every variant


@sem("sctp", "DATA", "tsn_far_ahead")
def _(c, cls):
    pk = [c.pkt(c_data(c.base + k, 9, 0, 53, b"far", 7)) for k in (FAR, 0x7FFFFFF0, 65534, 65535, 70000)]
    # exactly half the number space ahead of the cumulative TSN (neither newer nor older by serial
    # arithmetic), as a first fragment that stays in the reassembly queue, sent twice
    for d in (0, 1, -1):
        p = c.pkt(c_data(c.lastrx + 0x80000000 + d, 9, 0, 53, b"half", 2))
        pk.append([p, p])
    return pk


@sem("sctp", "DATA", "tsn_far_behind")
def _(c, cls):
    return [c.pkt(c_data(c.base - k, 9, 0, 53, b"old", 7)) for k in (1, FAR, 0x7FFFFFF0)]


@sem("sctp", "DATA", "tsn_gap")
def _(c, cls):
    return [c.pkt(c_data(c.base + 1, 9, 0, 53, b"gap", 7)), c.pkt(c_data(c.base + 3, 9, 0, 53, b"gap", 3))]


@sem("sctp", "DATA", "stream_huge")
def _(c, cls):
    return [c.pkt(c_data(c.base, s, 0, p, b"huge", fl)) for s in (65535, 65534) for p, fl in ((53, 3), (50, 7))]


@sem("sctp", "DATA", "stream_reset")
def _(c, cls):
    s = c.sid("gone")
    return [c.pkt(c_data(c.base, s, q, p, b"late", fl)) for q, p, fl in ((0, 53, 3), (1, 51, 3), (0, 50, 7))]


@sem("sctp", "DATA", "frag_no_first")
def _(c, cls):
    return [c.pkt(c_data(c.base, 9, 0, 53, b"tail", fl)) for fl in (1, 0, 5, 4)]


@sem("sctp", "DATA", "frag_no_last")
def _(c, cls):
    return [c.pkt(c_data(c.base, 9, 0, 53, b"head", fl)) for fl in (2, 6)] + \
           [c.pkt(c_data(c.base, 9, 0, 53, b"h1", 2), c_data(c.base + 1, 9, 1, 53, b"h2", 2))]


@sem("sctp", "DATA", "ppid_unknown")
def _(c, cls):
    return [c.pkt(c_data(c.base, s, 0, p, b"what", 7)) for s in (c.sid("second"), 9) for p in (0, 49, 52, M32)]


@sem("sctp", "DATA", "empty_user_data")
def _(c, cls):
    return [c.pkt(c_data(c.base, c.sid("second"), 0, p, b"", 7)) for p in (50, 51, 53, 56, 57)]


@sem("sctp", "DATA", "sseq_far")
def _(c, cls):
    return [c.pkt(c_data(c.base, 9, q, 53, b"seq", 3)) for q in (30000, 65535, 32768)]


@sem("sctp", "DATA", "sseq_stale")
def _(c, cls):
    # fresh TSN, complete message, ordered stream with prior traffic, stream sequence number already used
    s, e = c.sid("probe"), c.vexp(c.sid("probe"))
    return [c.pkt(c_data(c.base, s, (e - d) & 0xFFFF, 53, b"stale-ssn", 3)) for d in (2, 3, 1)] + \
           [c.pkt(c_data(c.base, s, 0, 53, b"stale-ssn", 3)),
            c.pkt(c_data(c.base, s, (e - 3) & 0xFFFF, 53, b"st1", 2), c_data(c.base + 1, s, (e - 3) & 0xFFFF, 53, b"st2", 1))]


@sem("sctp", "DATA", "sseq_wrapped")
def _(c, cls):
    s, e = c.sid("probe"), c.vexp(c.sid("probe"))
    return [c.pkt(c_data(c.base, s, (e - d) & 0xFFFF, 53, b"wrapped-ssn", 3)) for d in (30000, 32767, 32768)]


@sem("sctp", "DATA", "sseq_future")
def _(c, cls):
    s, e = c.sid("probe"), c.vexp(c.sid("probe"))
    return [c.pkt(c_data(c.base, s, (e + d) & 0xFFFF, 53, b"future-ssn", 3)) for d in (1000, 1, 32767, 5)]


@sem("sctp", "DATA", "orphan_fragment")
def _(c, cls):
    # fresh TSN, no B flag: the fragment can never be completed (the TSN before it was something else)
    s, e = c.sid("probe"), c.vexp(c.sid("probe"))
    return [c.pkt(c_data(c.base, s, (e - d) & 0xFFFF, 53, b"orphan", fl)) for d, fl in ((2, 1), (0, 1), (2, 0), (0, 0), (65535, 1))]


@sem("sctp", "ABORT", "then_reinit")
def _(c, cls):
    # a sequence of datagrams: gap DATA, ABORT, a new INIT with a distant initial TSN, DATA with that TSN
    out = []
    for back in (200000, 70000, 0x7FFF0000):
        itsn = (c.lastrx - back) & M32
        out.append([c.pkt(c_data(c.base + 3, 9, 0, 53, b"gap", 7)), c.pkt(chunk(6, 0, b"")),
                    c.pkt(c_init(1, 0xAAAA0010, tsn=itsn), tag=0), c.pkt(c_data(itsn, 9, 0, 53, b"again", 7))])
    return out


@sem("sctp", "DATA", "dcep_open_existing")
def _(c, cls):
    return [c.pkt(c_data(c.base, c.sid(n), 0, 50, dcep_open(), 7)) for n in ("second", "probe")]


@sem("sctp", "DATA", "dcep_open_new")
def _(c, cls):
    return [c.pkt(c_data(c.base, 100, 0, 50, dcep_open(ctype=t, rel=r), 7)) for t, r in ((0, 0), (0x81, 3), (0x02, M32), (0x7F, 1))]


@sem("sctp", "DATA", "dcep_open_bad_utf8")
def _(c, cls):
    return [c.pkt(c_data(c.base, 100, 0, 50, dcep_open(label=b"\xff\xfe\xfd"), 7)),
            c.pkt(c_data(c.base, 100, 0, 50, dcep_open(label=b"ok", proto=b"\xc3"), 7))]


@sem("sctp", "DATA", "dcep_open_short")
def _(c, cls):
    full = dcep_open()
    return [c.pkt(c_data(c.base, 100, 0, 50, full[:n], 7)) for n in (1, 2, 4, 8, 11)]


@sem("sctp", "DATA", "dcep_open_overrun")
def _(c, cls):
    return [c.pkt(c_data(c.base, 100, 0, 50, dcep_open(label=b"ab", ll=ll, pl=pl), 7))
            for ll, pl in ((65535, 65535), (3, 0), (0, 65535))]


@sem("sctp", "DATA", "dcep_ack_unknown")
def _(c, cls):
    return [c.pkt(c_data(c.base, s, 0, 50, b"\x02", 7)) for s in (200, 65535, c.sid("gone"))]


@sem("sctp", "DATA", "dcep_ack_open")
def _(c, cls):
    return [c.pkt(c_data(c.base, c.sid("second"), 0, 50, b"\x02", 7))]


@sem("sctp", "DATA", "dcep_unknown_type")
def _(c, cls):
    return [c.pkt(c_data(c.base, c.sid("second"), 0, 50, m, 7)) for m in (b"\x07", b"\x00", b"\xff" * 20, b"\x01\x02")]


@sem("sctp", "DATA", "string_bad_utf8")
def _(c, cls):
    return [c.pkt(c_data(c.base, c.sid("second"), 0, 51, m, 7)) for m in (b"\xff\xfe\xfd", b"abc\xc3", b"\xed\xa0\x80")]


@sem("sctp", "DATA", "unknown_stream")
def _(c, cls):
    return [c.pkt(c_data(c.base, 4242, 0, p, b"nobody", 7)) for p in (51, 53, 56)]


@sem("sctp", "DATA", "zero_body")
def _(c, cls):
    return [c.pkt(chunk(0, fl, b"")) for fl in (0, 3, 7)]


@sem("sctp", "DATA", "many_chunks")
def _(c, cls):
    return [c.pkt(*[c_data(c.base + i, 9, 0, 53, b"m", 7) for i in range(70)]),
            c.pkt(*[c_data(c.base, 9, 0, 53, b"m", 7) for i in range(70)])]


@sem("sctp", "SACK", "cum_far_ahead")
def _(c, cls):
    return [c.pkt(c_sack(c.vnext - 1 + k)) for k in (FAR, 0x7FFFFFF0, 70000)]


@sem("sctp", "SACK", "cum_unsent")
def _(c, cls):
    return [c.pkt(c_sack(c.vnext + k)) for k in (5, 1, 0)]


@sem("sctp", "SACK", "cum_far_behind")
def _(c, cls):
    return [c.pkt(c_sack(c.vacked - k)) for k in (1, FAR, 0x7FFFFFF0)]


@sem("sctp", "SACK", "gaps_reversed")
def _(c, cls):
    return [c.pkt(c_sack(c.vacked, gaps=g)) for g in ([(5, 2)], [(5, 2), (9, 1)], [(65535, 0)], [(3, 1), (1, 1)])]


@sem("sctp", "SACK", "gaps_overlapping")
def _(c, cls):
    return [c.pkt(c_sack(c.vacked, gaps=g)) for g in ([(1, 3), (2, 5), (1, 1)], [(2, 2), (2, 2)], [(4, 6), (1, 2)])]


@sem("sctp", "SACK", "gaps_out_of_range")
def _(c, cls):
    return [c.pkt(c_sack(c.vacked, gaps=g)) for g in ([(1000, 2000)], [(65535, 65535)], [(0, 0)], [(1, 1), (60000, 60010)])]


@sem("sctp", "SACK", "gaps_full_range")
def _(c, cls):
    return [c.pkt(c_sack(c.vacked, gaps=[(1, 65535)] * n)) for n in ((1, 40, 290) if FULL[0] else (1, 12))]


@sem("sctp", "SACK", "dups_many")
def _(c, cls):
    return [c.pkt(c_sack(c.vacked, dups=[c.vacked + i * 7919 for i in range(n)])) for n in (3, 280)]


@sem("sctp", "SACK", "rwnd_extreme")
def _(c, cls):
    return [c.pkt(c_sack(c.vacked, rwnd=w)) for w in (0, M32)]


@sem("sctp", "SACK", "acks_all")
def _(c, cls):
    return [c.pkt(c_sack(c.vnext - 1)), c.pkt(c_sack(c.vnext - 1), c_sack(c.vacked), c_sack(c.vnext - 1))]


@sem("sctp", "FORWARD_TSN", "backwards")
def _(c, cls):
    return [c.pkt(c_fwd(c.lastrx - k, [(9, 3)])) for k in (0, 1, FAR, 0x7FFFFFF0)]


@sem("sctp", "FORWARD_TSN", "far_ahead")
def _(c, cls):
    return [c.pkt(c_fwd(c.lastrx + k)) for k in (FAR, 0x7FFFFFF0, 65536)]


@sem("sctp", "FORWARD_TSN", "ahead_small")
def _(c, cls):
    return [c.pkt(c_fwd(c.lastrx + 3, [(9, 0)])), c.pkt(c_fwd(c.lastrx + 1))]


@sem("sctp", "FORWARD_TSN", "unknown_streams")
def _(c, cls):
    return [c.pkt(c_fwd(c.lastrx + 1, [(4242, 7), (65535, 65535), (0, 0)])),
            c.pkt(c_fwd(c.lastrx + 1, [(c.sid("gone"), 9)]))]


@sem("sctp", "FORWARD_TSN", "many_streams")
def _(c, cls):
    return [c.pkt(c_fwd(c.lastrx + 1, [(1000 + i, i) for i in range(290)])),
            c.pkt(c_fwd(c.lastrx + 1, [(777, i) for i in range(290)]))]


@sem("sctp", "INIT", "plain")
def _(c, cls):
    return [c.pkt(c_init(1, 0xAAAA0001), tag=0), c.pkt(c_init(1, 0xAAAA0001, tsn=c.lastrx + 500), tag=0)]


@sem("sctp", "INIT", "bundled")
def _(c, cls):
    i = c_init(1, 0xAAAA0002)
    d = c_data(c.base, 9, 0, 53, b"b", 7)
    out = []
    for tag in (0, c.vtag):
        out += [c.pkt(i, d, tag=tag), c.pkt(d, i, tag=tag), c.pkt(i, i, tag=tag), c.pkt(i, c_sack(c.vacked), tag=tag),
                c.pkt(i, chunk(6, 0, b""), tag=tag)]
    return out


@sem("sctp", "INIT", "tag_nonzero")
def _(c, cls):
    return [c.pkt(c_init(1, 0xAAAA0003)), c.pkt(c_init(1, 0xAAAA0003), tag=0xDEADBEEF)]


@sem("sctp", "INIT", "zero_fields")
def _(c, cls):
    return [c.pkt(c_init(1, 0, 0, 0, 0, 0, ps=()), tag=0), c.pkt(c_init(1, 0xAAAA0004, os_=0, is_=0), tag=0),
            c.pkt(c_init(1, 0xAAAA0004, rwnd=0), tag=0)]


@sem("sctp", "INIT", "params_odd")
def _(c, cls):
    return [c.pkt(c_init(1, 0xAAAA0005, ps=ps), tag=0) for ps in (
        [(0x8008, b"\xc0")], [(0x8008, bytes(range(200)))], [(0xFFFF, b"abcde")], [(5, b"\x7f\x00\x00\x01"), (7, b"x" * 24)],
        [(0xC000, b"")] * 40)]


@sem("sctp", "INIT_ACK", "plain")
def _(c, cls):
    return [c.pkt(c_init(2, 0xBBBB0001, ps=[(7, b"c" * 24), (0xC000, b"")])), c.pkt(c_init(2, 0xBBBB0001, ps=[(7, b"")]))]


@sem("sctp", "INIT_ACK", "no_cookie")
def _(c, cls):
    return [c.pkt(c_init(2, 0xBBBB0002, ps=())), c.pkt(c_init(2, 0, 0, 0, 0, 0, ps=()))]


@sem("sctp", "COOKIE_ECHO", "garbage")
def _(c, cls):
    return [c.pkt(chunk(10, 0, b)) for b in (b"g" * 24, b"", b"x" * 500, struct.pack("!L", 1) + b"m" * 20, b"short")]


@sem("sctp", "COOKIE_ACK", "plain")
def _(c, cls):
    return [c.pkt(chunk(11, 0, b"")), c.pkt(chunk(11, 0xFF, b"body?"))]


@sem("sctp", "ERROR", "plain")
def _(c, cls):
    return [c.pkt(chunk(9, 0, b"")), c.pkt(chunk(9, 0, params([(3, b"\x00" * 8)]))), c.pkt(chunk(9, 0, params([(1, b"\x00\x09\x00\x00"), (0xFFFF, b"odd")])))]


@sem("sctp", "ABORT", "plain")
def _(c, cls):
    return [c.pkt(chunk(6, 0, b"")), c.pkt(chunk(6, 1, params([(12, b"user abort")])))]


@sem("sctp", "ABORT", "wrong_tag")
def _(c, cls):
    return [c.pkt(chunk(6, fl, b""), tag=t) for t in (c.vtag ^ 1, 0, c.V._remote_verification_tag ^ 0x10) for fl in (0, 1)
            if t != c.vtag]


@sem("sctp", "SHUTDOWN", "plain")
def _(c, cls):
    return [c.pkt(chunk(7, 0, struct.pack("!L", c.vnext - 1))), c.pkt(chunk(7, 0, struct.pack("!L", (c.vnext + FAR) & M32)))]


@sem("sctp", "SHUTDOWN", "wrong_tag")
def _(c, cls):
    return [c.pkt(chunk(7, 0, struct.pack("!L", c.vnext - 1)), tag=t) for t in (c.vtag ^ 0x80000000, 0) if t != c.vtag]


@sem("sctp", "SHUTDOWN_ACK", "plain")
def _(c, cls):
    return [c.pkt(chunk(8, 0, b"")), c.pkt(chunk(8, 0, b"junk"))]


@sem("sctp", "SHUTDOWN_COMPLETE", "plain")
def _(c, cls):
    return [c.pkt(chunk(14, 0, b"")), c.pkt(chunk(14, 1, b""))]


@sem("sctp", "SHUTDOWN_COMPLETE", "wrong_tag")
def _(c, cls):
    return [c.pkt(chunk(14, fl, b""), tag=t) for t in (c.vtag ^ 2, 0) for fl in (0, 1) if t != c.vtag]


@sem("sctp", "HEARTBEAT", "odd_params")
def _(c, cls):
    return [c.pkt(chunk(4, 0, b)) for b in (b"", params([(1, b"info" * 3)]), params([(1, b"abcde")]), params([(1, b"x" * 1000)]),
                                           params([(0xFFFF, b"")] * 100), b"\x00\x01", b"\x00\x01\x00")]


@sem("sctp", "HEARTBEAT_ACK", "unsolicited")
def _(c, cls):
    return [c.pkt(chunk(5, 0, params([(1, b"never sent")]))), c.pkt(chunk(5, 0, b""))]


@sem("sctp", "RECONFIG", "reset_seq_odd")
def _(c, cls):
    r = c.V._reconfig_response_seq
    return [c.pkt(c_reconfig([rp_reset(r + d, 0, c.lastrx, [4242])])) for d in (0, -5, 1000, 0x7FFFFFF0)]


@sem("sctp", "RECONFIG", "reset_unknown_streams")
def _(c, cls):
    r = c.V._reconfig_response_seq + 1
    return [c.pkt(c_reconfig([rp_reset(r, 0, c.lastrx, ss)])) for ss in ([4242, 65535], [c.sid("gone")], [], list(range(2000, 2500)))]


@sem("sctp", "RECONFIG", "response_to_nothing")
def _(c, cls):
    q = c.V._reconfig_request_seq
    return [c.pkt(c_reconfig([rp_resp(q + d, res)])) for d, res in ((0, 1), (-1, 1), (5, 0), (0x7FFFFFF0, 6))]


@sem("sctp", "RECONFIG", "add_streams")
def _(c, cls):
    return [c.pkt(c_reconfig([rp_add(c.V._reconfig_response_seq + 1, n)])) for n in (65535, 0)]


@sem("sctp", "RECONFIG", "unknown_param")
def _(c, cls):
    return [c.pkt(c_reconfig(ps)) for ps in ([(14, b"\x00" * 12)], [(0xFFFF, b"")], [], [(15, b"\x00" * 4), (18, b"")],
                                            [rp_reset(1, 2, 3, [4242]), rp_resp(9, 1), rp_add(3, 1)])]


@sem("sctp", "UNKNOWN", "type")
def _(c, cls):
    return [c.pkt(chunk(t, 0, b)) for t in (15, 63, 64, 128, 129, 193, 255) for b in (b"", b"unknown body")]


@sem("sctp", "ANY", "wrong_tag")
def _(c, cls):
    bad = c.vtag ^ 0x00010000
    return [c.pkt(x, tag=bad) for x in (c_data(c.base, 9, 0, 53, b"t", 7), c_sack(c.vnext + FAR), c_fwd(c.lastrx + FAR),
                                        c_reconfig([rp_reset(1, 1, 1, list(c.probe_streams()))]),
                                        chunk(4, 0, params([(1, b"hb")])))] + \
           [c.pkt(c_data(c.base, 9, 0, 53, b"t", 7), tag=0)]


@sem("sctp", "ANY", "bad_checksum")
def _(c, cls):
    return [c.pkt(x, good_crc=False) for x in (c_data(c.base, 9, 0, 53, b"t", 7), chunk(6, 0, b""), c_init(1, 5))]


# valid base packets of every chunk type, for the byte-level mutation tags
def sctp_base(c, kind):
    r = c.V._reconfig_response_seq
    return {
        "DATA": lambda: c_data(c.base, 9, 0, 53, b"payload!", 7),
        "INIT": lambda: c_init(1, 0xCCCC0001),
        "INIT_ACK": lambda: c_init(2, 0xCCCC0002, ps=[(7, b"k" * 24), (0xC000, b""), (0x8008, b"\xc0\x82")]),
        "SACK": lambda: c_sack(c.vacked, gaps=[(2, 3)], dups=[c.vacked]),
        "HEARTBEAT": lambda: chunk(4, 0, params([(1, b"heartbeat123")])),
        "HEARTBEAT_ACK": lambda: chunk(5, 0, params([(1, b"heartbeat123")])),
        "ABORT": lambda: chunk(6, 0, params([(12, b"bye!")])),
        "SHUTDOWN": lambda: chunk(7, 0, struct.pack("!L", (c.vnext - 1) & M32)),
        "SHUTDOWN_ACK": lambda: chunk(8, 0, b""),
        "ERROR": lambda: chunk(9, 0, params([(3, b"\x00" * 8)])),
        "COOKIE_ECHO": lambda: chunk(10, 0, b"k" * 24),
        "COOKIE_ACK": lambda: chunk(11, 0, b""),
        "SHUTDOWN_COMPLETE": lambda: chunk(14, 0, b""),
        "RECONFIG": lambda: c_reconfig([rp_reset(r + 1, 0, c.lastrx, [1024, 1025]), rp_resp(77, 1), rp_add(r + 2, 1)]),
        "FORWARD_TSN": lambda: c_fwd(c.lastrx, [(9, 0), (1024, 5)]),
        "UNKNOWN": lambda: chunk(63, 0, b"unknown!"),
    }[kind]()


SCTP_KINDS = ["DATA", "INIT", "INIT_ACK", "SACK", "HEARTBEAT", "HEARTBEAT_ACK", "ABORT", "SHUTDOWN", "SHUTDOWN_ACK",
              "ERROR", "COOKIE_ECHO", "COOKIE_ACK", "SHUTDOWN_COMPLETE", "RECONFIG", "FORWARD_TSN", "UNKNOWN"]
SCTP_PARAM_KINDS = ["INIT", "INIT_ACK", "HEARTBEAT", "HEARTBEAT_ACK", "ABORT", "ERROR", "RECONFIG"]
SCTP_MUTS = ["trunc", "body_short", "len_zero", "len_small", "len_big", "random_body", "bitflip", "bitflip_raw",
             "dup_chunk", "pad_garbage"]
SCTP_PARAM_MUTS = ["param_len_0", "param_len_small", "param_len_big"]
RAW_MUTS = ["empty", "random_bytes", "random_chunks"]


def _positions(n, full, r, k=6):
    """All positions 0..n-1 (thorough) or a deterministic sample incl. the ends."""
    if full or n <= k:
        return list(range(n))
    pick = {0, 1, n - 1, n // 2}
    while len(pick) < k:
        pick.add(r.randrange(n))
    return sorted(pick)


def sctp_mutants(c, kind, mut, full, r):
    """Concrete variants of mutation tag `mut` applied to a valid packet of chunk type `kind`."""
    t = CT.get(kind, 63)
    tag0 = 0 if kind == "INIT" else c.vtag
    ch = sctp_base(c, kind)
    body = ch[4:4 + struct.unpack_from("!H", ch, 2)[0] - 4]
    fl = ch[1]
    good = packet(tag0, [ch])
    out = []
    if mut == "trunc":
        for p in _positions(len(good), full, r, 8):
            out.append(refit(good[:p]))
    elif mut == "body_short":
        bounds = set(range(len(body))) if full else ({0, 1, 2, 3, 4, 6, 8, 11, 12, 13, 15, 16, 17, 19} | {len(body) - 1, len(body) - 2, len(body) - 3})
        first = 8 if t == 130 else 1       # a cut the unrepaired constructors / parameter parsers trip over comes first
        for n in sorted((b for b in bounds if 0 <= b < len(body)), key=lambda x: (x != first, x)):
            out.append(packet(tag0, [chunk(t, fl, body[:n])]))
            if full or n in (0, 3, 11):
                out.append(packet(tag0, [chunk(t, fl, body[:n]), c_sack(c.vacked)]))
    elif mut == "len_zero":
        out = [packet(tag0, [chunk(t, fl, body, length=0)]), packet(tag0, [c_sack(c.vacked), chunk(t, fl, body, length=0)])]
    elif mut == "len_small":
        out = [packet(tag0, [chunk(t, fl, body, length=n)]) for n in (1, 2, 3)]
    elif mut == "len_big":
        out = [packet(tag0, [chunk(t, fl, body, length=n)]) for n in (len(body) + 5, len(body) + 8, 0xFFFF, 0x8000)]
    elif mut == "random_body":
        for n in ([0, 1, 3, 4, 8, 12, 16, 20, 33, 64, 300, 1180] if full else [4, 12, 16, 33, 300]):
            for _ in range(3 if full else 1):
                out.append(packet(tag0, [chunk(t, r.randrange(256), bytes(r.randrange(256) for _ in range(n)))]))
    elif mut in ("bitflip", "bitflip_raw"):
        nbits = (len(good) - 12) * 8
        npos = (120 if mut == "bitflip" else 16) if full else (14 if mut == "bitflip" else 3)
        for b in _positions(nbits, full and nbits <= 400 and mut == "bitflip", r, npos):
            i = 12 + b // 8
            d = good[:i] + bytes([good[i] ^ (1 << (b % 8))]) + good[i + 1:]
            out.append(refit(d) if mut == "bitflip" else d)
        for i in ((4, 5, 6, 7) if mut == "bitflip" else (0, 8, 11)):      # header bits too
            out.append((refit if mut == "bitflip" else (lambda x: x))(good[:i] + bytes([good[i] ^ 0x40]) + good[i + 1:]))
    elif mut == "dup_chunk":
        out = [packet(tag0, [ch] * n) for n in (2, 50)]
    elif mut == "pad_garbage":
        out = [refit(good + g) for g in (b"\x01", b"\xff\xff", b"\x00\x00\x07")]
    elif mut in SCTP_PARAM_MUTS:
        at = PARAM_AT[t]
        tl, pos, offs = tlv_walk(body[at:]), at, []
        for pt, ln, v in tl:
            offs.append(pos)
            pos += ln + ((4 - ln % 4) % 4)
        vals = {"param_len_0": (0,), "param_len_small": (1, 2, 3), "param_len_big": (0xFFFF, 4 + 1 + len(body))}[mut]
        for o in (offs if full or mut != "param_len_0" else offs[:1]):
            for v in vals:
                nb = body[:o + 2] + struct.pack("!H", v) + body[o + 4:]
                out.append(packet(tag0, [chunk(t, fl, nb)]))
        if mut == "param_len_0":
            out.append(packet(tag0, [chunk(t, fl, body[:at] + b"\x00\x00\x00\x00")]))
            out.append(packet(tag0, [chunk(t, fl, body[:at] + b"\xc0\x00\x00\x00" + b"\x00" * 8)]))
    else:
        raise T.MachineryError("unknown SCTP mutation tag %r" % mut)
    return out


def raw_mutants(c, mut, full, r, sub):
    if mut == "empty":
        return [b""]
    if mut == "random_bytes":
        sizes = [1, 2, 3, 4, 8, 11, 12, 15, 16, 17, 20, 28, 64, 200, 576, 1200] if full else [1, 4, 12, 16, 20, 64, 1200]
        out = []
        for n in sizes:
            for _ in range(4 if full else 1):
                b = bytes(r.randrange(256) for _ in range(n))
                if sub == "media":
                    b = bytes([0x80 | (b[0] & 0x3F)]) + b[1:]      # demultiplexed as SRTP/SRTCP
                out.append(b)
        return out
    if mut == "random_chunks":
        out = []
        for n in ([4, 5, 8, 16, 20, 24, 100, 1188] if full else [4, 16, 24, 100]):
            for _ in range(4 if full else 2):
                area = bytearray(r.randrange(256) for _ in range(n))
                k = r.random()
                if k < 0.7:      # plausible first chunk header
                    area[0] = r.choice(list(CT_NAME) + [63])
                    ln = r.choice([n, n, max(4, n - r.randrange(4)), 4, r.randrange(4, n + 1)])
                    area[2:4] = struct.pack("!H", ln)
                out.append(packet(0 if area[0] == 1 else c.vtag, [bytes(area)]))
        return out
    raise T.MachineryError("unknown raw mutation tag %r" % mut)


# --------------------------------------------------------------------------- SCTP: one case

BUDGET = {"base": 400000, "per_byte": 4000}      # overwritten with the constants TLC prints from Hostile.tla


def budget(n):
    return BUDGET["base"] + BUDGET["per_byte"] * n


def sctp_variants(c, case, full):
    r = random.Random("%s|%s|%s|%s|%d" % (case["k"], case["c"], case["m"], case["st"], case.get("seed", 1)))
    k, cl, m = case["k"], case["c"], case["m"]
    if m == "none":
        return SEM["sctp"][(k, cl)](c, cl)
    if k == "RAW":
        return raw_mutants(c, m, full, r, "sctp")
    return sctp_mutants(c, k, m, full, r)


def task_excs(env):
    out = []
    while env.loop.task_exceptions:
        name, msg, exc = env.loop.task_exceptions.pop(0)
        out.append((name, innermost(exc) if exc is not None else "?", isinstance(exc, Hang)))
    return out


def sctp_probe(c, fill=()):
    """Valid traffic after the hostile datagram -> (served, what, detail)."""
    env, v, p = c.env, c.v, c.p
    n0 = len(env.events)
    what = []
    try:
        for tsn in fill:
            c.inject(packet(c.vtag, [c_data(tsn, 9, 0, 53, b"filler", 7)]))
        if c.st == "shut_ack":
            c.inject(packet(c.vtag, [chunk(14, 0, b"")]))
            ok = c.V.state == "closed"
            return ok, ([] if ok else ["shutdown_complete_ignored"]), {}
        if c.st in ("closed", "closed_init", "cookie_wait", "cookie_echoed"):
            if c.st == "closed":
                env.start("A")
            env.heal_and_drain(600)
            if not (c.V.state == "connected" and c.P.state == "connected"):
                return False, ["handshake"], {"v": c.V.state, "p": c.P.state}
            c.tok["probe"] = env.create("A", label="probe")
            env.heal_and_drain(400)
        tok = c.tok["probe"]
        if env.chan[tok]["A"] is None or env.chan[tok]["B"] is None:
            return False, ["channel"], {}
        mvs = [env.send(v, tok, 24) for _ in range(3)]
        mps = [env.send(p, tok, 24) for _ in range(3)]
        if None in mvs or None in mps:
            return False, ["send"], {"states": [env.chan[tok][x].readyState for x in "AB"]}
        if "second" in c.tok:
            env.close_channel(v, c.tok["second"])
        steps = env.heal_and_drain(600)
        eps = env.quiesce()
        got_p = [[e for e in env.events[n0:] if e.get("k") == "msg" and e["e"] == p and e.get("m") == m] for m in mvs]
        got_v = [[e for e in env.events[n0:] if e.get("k") == "msg" and e["e"] == v and e.get("m") == m] for m in mps]
        if any(len(g) != 1 or not g[0]["intact"] for g in got_p):
            what.append("victim_to_peer_not_delivered")
        if any(len(g) != 1 or not g[0]["intact"] for g in got_v):
            what.append("peer_to_victim_not_delivered")
        order_v = [e["m"] for e in env.events[n0:] if e.get("k") == "msg" and e["e"] == v and e.get("m") in mps]
        order_p = [e["m"] for e in env.events[n0:] if e.get("k") == "msg" and e["e"] == p and e.get("m") in mvs]
        if order_v != sorted(order_v) or order_p != sorted(order_p):
            what.append("ordered_messages_reordered")
        if "second" in c.tok:
            sec = env.chan[c.tok["second"]]
            if any(sec[x] is not None and sec[x].readyState != "closed" for x in "AB"):
                what.append("close_not_completed")
        if steps >= 600 or any(eps[x]["outq"] or eps[x]["sentq"] or eps[x]["dcq"] for x in "AB"):
            what.append("not_settled")
        excs = [e for e in env.events[n0:] if e.get("k") == "exc"]
        if excs:
            what.append("exception:%s:%s" % (excs[0]["name"], excs[0]["fn"]))
        return not what, what, {"steps": steps}
    except Exception as exc:      # an exception escaping a valid step
        return False, ["exception:%s:%s" % (type(exc).__name__, innermost(exc))], {}


def sctp_case(case, full, guard):
    """Execute one (state, input) pair in all its variants -> list of traces."""
    traces = []
    c = SctpCtx(case["role"], case["st"], case.get("origin", 0))
    try:
        variants = sctp_variants(c, case, full)      # deterministic per (role, st, origin): reused for fresh contexts
    except BaseException:
        c.close()
        raise
    want = case.get("vi")
    for vi, data in enumerate(variants):
        if (want is not None and vi != want) or (want is None and vi >= case.get("vmax", 1 << 30)):
            continue
        if c is None:
            c = SctpCtx(case["role"], case["st"], case.get("origin", 0))
        try:
            burst = list(data) if isinstance(data, (list, tuple)) else [data]
            facts = merge_facts([sctp_facts(d, c.vtag, c.probe_streams()) for d in burst])
            env = c.env
            before = c.assoc()
            lastrx0 = c.V._last_received_tsn
            env.begin_step()
            for data in burst:      # a class may be a short sequence of datagrams; judged at the first that fails
                res = guard.call(lambda: env.loop.run(c.V._handle_data(data)), budget(len(data)))
                try:
                    env.loop.drain()
                except Exception:
                    pass
                if res["exc"] != "none" or res["timeout"] or env.loop.task_exceptions:
                    break
            tex = task_excs(env)
            if any(h for _, _, h in tex):
                res["timeout"] = True
            tex = [(n, f) for n, f, h in tex if not h]
            try:
                env.end_step()
            except Exception:
                pass
            cause = facts["cause"] if (case["m"] != "none" or facts["cause"] == "init_bundled") else None
            step = {"op": "hostile", "sub": "sctp", "entry": "sctp._handle_data", "st": case["st"], "role": case["role"],
                    "len": len(data), "exc": res["exc"], "fn": res["fn"], "timeout": res["timeout"], "work": res["work"],
                    "task_exc": tex[0][0] if tex else "none", "task_fn": tex[0][1] if tex else "none",
                    "ctl": facts["ctl"], "probe_reset": facts["probe_reset"], "down": c.V.state == "closed",
                    "before": before, "after": c.assoc(), "hex": hexdump(burst),
                    "cause": cause or "%s/%s" % (case["k"], case["c"] if case["m"] == "none" else "~" + case["m"])}
            steps = [step]
            clean = res["exc"] == "none" and not res["timeout"] and not tex
            fill = []
            if clean:
                # the real peer did not send the hostile datagram: make it consistent with what "it" sent
                if facts["accepted"] and c.V._last_received_tsn is not None:
                    P = c.P
                    if facts["fwd"] is not None and c.V._last_received_tsn != lastrx0:
                        # the victim took the FORWARD-TSN: a peer that sent it continues behind it
                        P._local_tsn = (c.V._last_received_tsn + 1) & M32
                    near = [x for x in facts["tsns"] if ((x - P._local_tsn) & M32) < 256]
                    if near:
                        # TSNs the hostile sender used: the peer continues behind them; holes are filled
                        # with valid chunks (part of the valid traffic that follows)
                        top = max(near, key=lambda x: (x - P._local_tsn) & M32)
                        holes = [x & M32 for x in range(P._local_tsn, P._local_tsn + ((top - P._local_tsn) & M32))
                                 if (x & M32) not in near]
                        P._local_tsn = (top + 1) & M32
                        fill = holes
                    # a complete ordered message that used the peer's next stream sequence number consumed it
                    for (tsn, sid, sseq, fl) in facts["dchunks"]:
                        if not (fl & 4) and (fl & 3) == 3 and sid in P._outbound_stream_seq and P._outbound_stream_seq[sid] == sseq:
                            P._outbound_stream_seq[sid] = (sseq + 1) & 0xFFFF
                served, what, detail = sctp_probe(c, fill)
                steps.append({"op": "probe", "sub": "sctp", "st": case["st"], "served": bool(served), "what": what[:3],
                              "ctl": facts["ctl"], "probe_reset": facts["probe_reset"], "after": c.assoc()})
            t = {"case": dict(case, vi=vi, full=bool(full)), "steps": steps}
            traces.append(t)
        finally:
            c.close()
            c = None
    if c is not None:
        c.close()
    return traces


# --------------------------------------------------------------------------- media: environment

V_SSRC, V_RTX_SSRC, A_SSRC, S_SSRC, PEER_SSRC = 0x11111111, 0x22222222, 0x33333333, 0x55555555, 0x66666666
PT_VP8, PT_RTX, PT_H264, PT_RTX_BADAPT, PT_PCMU, PT_OPUS = 100, 101, 102, 104, 0, 111
EXT = {"mid": 1, "abs_send_time": 2, "toffset": 3, "audio_level": 4, "twcc": 5, "rid": 6, "rrid": 7}
EXT_URI = {"mid": "urn:ietf:params:rtp-hdrext:sdes:mid",
           "abs_send_time": "http://www.webrtc.org/experiments/rtp-hdrext/abs-send-time",
           "toffset": "urn:ietf:params:rtp-hdrext:toffset",
           "audio_level": "urn:ietf:params:rtp-hdrext:ssrc-audio-level",
           "twcc": "http://www.ietf.org/id/draft-holmer-rmcat-transport-wide-cc-extensions-01",
           "rid": "urn:ietf:params:rtp-hdrext:sdes:rtp-stream-id",
           "rrid": "urn:ietf:params:rtp-hdrext:sdes:repaired-rtp-stream-id"}
MEDIA_STATES = ["m_idle", "m_flow"]
_CERT = []


class StubSrtp:
    """Identity SRTP session (the property is about what happens behind authentication)."""

    def unprotect(self, data):
        return data

    def unprotect_rtcp(self, data):
        return data

    protect = unprotect
    protect_rtcp = unprotect


class StubSsl:
    """No DTLS session: every record fails to decrypt (datagrams whose first byte is in the DTLS range)."""

    def bio_write(self, data):
        pass

    def recv(self, n):
        from OpenSSL import SSL
        raise SSL.Error()

    def bio_read(self, n):
        from OpenSSL import SSL
        raise SSL.Error()

    def DTLSv1_get_timeout(self):
        return None


class MediaIce:
    def __init__(self):
        self.role = "controlling"
        self.rx = asyncio.Queue()
        self.sent = []

    async def _recv(self):
        return await self.rx.get()

    async def _send(self, data):
        self.sent.append(bytes(data))

    async def stop(self):
        pass


def rtp_pkt(pt, seq, ts, ssrc, payload=b"", marker=0, csrc=(), ext=None, pad=None, version=2, cc=None):
    b0 = (version << 6) | ((1 if pad is not None else 0) << 5) | ((1 if ext is not None else 0) << 4) | \
        (len(csrc) if cc is None else cc)
    out = struct.pack("!BBHLL", b0, (marker << 7) | pt, seq & 0xFFFF, ts & M32, ssrc & M32)
    for x in csrc:
        out += struct.pack("!L", x)
    if ext is not None:
        prof, val, words = (ext + (None,))[:3]
        out += struct.pack("!HH", prof, (len(val) // 4) if words is None else words) + val
    out += payload
    if pad is not None:
        out += pad
    return out


def ext1(items):
    """One-byte-form extension block (id, value) -> (0xBEDE, padded bytes)."""
    b = b"".join(bytes([(i << 4) | ((len(v) - 1) & 0x0F)]) + v for i, v in items)
    return (0xBEDE, pad4(b))


def ext2(items):
    b = b"".join(bytes([i, len(v)]) + v for i, v in items)
    return (0x1000, pad4(b))


def rtcp_pkt(pt, count, payload, length=None, version=2, padbit=0):
    return struct.pack("!BBH", (version << 6) | (padbit << 5) | (count & 31), pt,
                       (len(payload) // 4) if length is None else length) + payload


def rr_block(ssrc, fl=0, lost=0, hi=0, jit=0, lsr=0, dlsr=0):
    return struct.pack("!LB", ssrc, fl) + struct.pack("!l", lost)[1:] + struct.pack("!LLLL", hi, jit, lsr, dlsr)


def vp8_payload(pid, start, body):
    return bytes([0x80 | (0x10 if start else 0), 0x80, 0x80 | ((pid >> 8) & 0x7F), pid & 0xFF]) + body


class MediaEnv:
    """A real RTCDtlsTransport whose receive loop (__run/_recv_next) is running on a fake ICE transport with an
    identity SRTP session; real video + audio RTCRtpReceiver and a real RTCRtpSender are registered on it."""

    def __init__(self, st):
        from .vloop import VLoop
        import datetime
        import aiortc.clock as C
        import aiortc.rtcdtlstransport as D
        import aiortc.rtcrtpreceiver as RX
        import aiortc.rtcrtpsender as TX
        from aiortc.rtcrtpparameters import (RTCRtpCodecParameters, RTCRtpDecodingParameters,
                                             RTCRtpHeaderExtensionParameters, RTCRtpReceiveParameters,
                                             RTCRtpRtxParameters, RTCRtpSendParameters, RTCRtcpFeedback,
                                             RTCRtcpParameters, RTCRtpEncodingParameters)
        self.D, self.RX, self.TX, self.C = D, RX, TX, C
        self.st = st
        self.loop = loop = VLoop()
        asyncio.set_event_loop(loop)
        self.decoded = []
        self._saved = [(RX, "decoder_worker", RX.decoder_worker), (C, "current_datetime", C.current_datetime)]
        C.current_datetime = lambda: datetime.datetime.fromtimestamp(loop.wall, datetime.timezone.utc)
        env = self
        self.taps = 0

        tapped = threading.Semaphore(0)

        self.decoder_dead = []        # (exception class, "decoder_worker") per decoder thread that would have died

        def tap_worker(loop_, input_q, output_q):
            # synchronous stand-in for the decoder thread (the thread itself ends at once): what
            # decoder_worker does per item - get_decoder() when the codec changes, decoder.decode(),
            # no exception handling - is done at once with the real decoders; an exception there
            # is the end of the real thread, after which nothing is consumed any more
            from aiortc.codecs import get_decoder
            state = {"name": None, "dec": None, "dead": False}

            def put(item):
                if state["dead"]:
                    return
                env.decoded.append(item)
                if item is None:
                    return
                codec, frame = item
                try:
                    if codec.name != state["name"]:
                        state["dec"] = get_decoder(codec)
                        state["name"] = codec.name
                    for _ in state["dec"].decode(frame):
                        pass
                except Exception as e:  # noqa
                    state["dead"] = True
                    env.decoder_dead.append((type(e).__name__, "decoder_worker"))
            input_q.put = put
            env.taps += 1
            tapped.release()
        RX.decoder_worker = tap_worker
        if not _CERT:
            from aiortc.rtcdtlstransport import RTCCertificate
            _CERT.append(RTCCertificate.generateCertificate())
        self.ice = MediaIce()
        self.dtls = dtls = D.RTCDtlsTransport(self.ice, [_CERT[0]])
        dtls.encrypted = True
        dtls._rx_srtp = StubSrtp()
        dtls._tx_srtp = StubSrtp()
        dtls._ssl = StubSsl()
        dtls._set_state(D.State.CONNECTED)
        run = getattr(dtls, "_RTCDtlsTransport__run", None)
        if run is None:
            raise T.MachineryError("RTCDtlsTransport.__run not found")
        dtls._task = asyncio.ensure_future(run())
        fb = [RTCRtcpFeedback(type="nack"), RTCRtcpFeedback(type="nack", parameter="pli"), RTCRtcpFeedback(type="goog-remb")]
        vcodecs = [RTCRtpCodecParameters(mimeType="video/VP8", clockRate=90000, payloadType=PT_VP8, rtcpFeedback=fb),
                   RTCRtpCodecParameters(mimeType="video/rtx", clockRate=90000, payloadType=PT_RTX, parameters={"apt": PT_VP8}),
                   RTCRtpCodecParameters(mimeType="video/H264", clockRate=90000, payloadType=PT_H264, rtcpFeedback=fb,
                                         parameters={"packetization-mode": "1", "profile-level-id": "42001f"}),
                   RTCRtpCodecParameters(mimeType="video/rtx", clockRate=90000, payloadType=PT_RTX_BADAPT, parameters={"apt": 99})]
        acodecs = [RTCRtpCodecParameters(mimeType="audio/PCMU", clockRate=8000, channels=1, payloadType=PT_PCMU),
                   RTCRtpCodecParameters(mimeType="audio/opus", clockRate=48000, channels=2, payloadType=PT_OPUS)]
        exts = [RTCRtpHeaderExtensionParameters(id=i, uri=EXT_URI[n]) for n, i in EXT.items()]
        self.vrx = RX.RTCRtpReceiver("video", dtls)
        self.vrx._track = RX.RemoteStreamTrack(kind="video")
        self.vrx._set_rtcp_ssrc(PEER_SSRC)
        self.arx = RX.RTCRtpReceiver("audio", dtls)
        self.arx._track = RX.RemoteStreamTrack(kind="audio")
        self.arx._set_rtcp_ssrc(PEER_SSRC + 1)
        loop.run(self.vrx.receive(RTCRtpReceiveParameters(
            codecs=vcodecs, headerExtensions=exts, muxId="v",
            encodings=[RTCRtpDecodingParameters(ssrc=V_SSRC, payloadType=PT_VP8, rtx=RTCRtpRtxParameters(ssrc=V_RTX_SSRC))])))
        loop.run(self.arx.receive(RTCRtpReceiveParameters(
            codecs=acodecs, headerExtensions=exts, muxId="a",
            encodings=[RTCRtpDecodingParameters(ssrc=A_SSRC, payloadType=PT_PCMU)])))
        if not (tapped.acquire(timeout=30) and tapped.acquire(timeout=30)) or self.taps != 2:
            raise T.MachineryError("decoder tap not installed (decoder_worker no longer used?)")
        self.tx = TX.RTCRtpSender("video", dtls)
        self.tx._ssrc = S_SSRC
        dtls._register_rtp_sender(self.tx, RTCRtpSendParameters(
            codecs=vcodecs[:1], headerExtensions=exts, muxId="s", rtcp=RTCRtcpParameters(cname="verif", ssrc=S_SSRC),
            encodings=[RTCRtpEncodingParameters(ssrc=S_SSRC, payloadType=PT_VP8)]))
        from aiortc.rtp import RtpPacket
        hist = getattr(self.tx, "_RTCRtpSender__rtp_history", None)
        self.hist_seq = None
        if isinstance(hist, dict):
            for q in range(500, 520):
                hist[q % 128] = RtpPacket(payload_type=PT_VP8, sequence_number=q, timestamp=q * 3000, ssrc=S_SSRC,
                                          payload=vp8_payload(q, 1, b"sent%d" % q))
            self.hist_seq = 510
        self.vseq, self.vts, self.vpid = 1000, 900000, 100
        self.aseq, self.ats = 2000, 160000
        self.nvalid = 0
        loop.drain()
        if st == "m_flow":
            for _ in range(6):
                self.video_frame()
            for _ in range(8):
                self.audio_packet()
            self.feed(rtcp_pkt(200, 0, struct.pack("!L", V_SSRC) + struct.pack("!QLLL", 1 << 40, 5, 6, 7)))
            if not self.decoded:
                raise T.MachineryError("media set-up: no frame reached the decoder")

    # valid traffic
    def feed(self, data):
        self.loop.wall += 0.005
        self.ice.rx.put_nowait(bytes(data))
        self.loop.drain()

    def video_frame(self):
        self.nvalid += 1
        tag = b"V%06d" % self.nvalid
        for i in range(2):
            self.feed(rtp_pkt(PT_VP8, self.vseq, self.vts, V_SSRC, vp8_payload(self.vpid, i == 0, tag + bytes(20)), marker=i,
                              ext=ext1([(EXT["mid"], b"v"), (EXT["abs_send_time"], struct.pack("!L", (self.nvalid * 9000) & 0xFFFFFF)[1:])])))
            self.vseq = (self.vseq + 1) & 0xFFFF
        self.vts += 3000
        self.vpid = (self.vpid + 1) & 0x7FFF
        return tag

    def audio_packet(self):
        self.nvalid += 1
        tag = b"A%06d" % self.nvalid
        self.feed(rtp_pkt(PT_PCMU, self.aseq, self.ats, A_SSRC, tag + bytes(153),
                          ext=ext1([(EXT["mid"], b"a"), (EXT["audio_level"], b"\x8a")])))
        self.aseq = (self.aseq + 1) & 0xFFFF
        self.ats += 160
        return tag

    def down(self):
        return self.dtls.state != "connected" or self.dtls._task.done()

    def loop_exc(self):
        t = self.dtls._task
        if t.done() and not t.cancelled():
            return t.exception()
        return None

    def close(self):
        try:
            for o, n, v in self._saved:
                setattr(o, n, v)
            tasks = [t for t in asyncio.all_tasks(self.loop)]
            for t in tasks:
                t.cancel()
            try:
                self.loop.drain()
            except Exception:
                pass
            for t in tasks:
                if t.done() and not t.cancelled():
                    t.exception()      # consume
        finally:
            try:
                self.loop.close()
            finally:
                asyncio.set_event_loop(None)


def media_facts(data):
    """Structural facts: which SSRCs a (well-framed) compound RTCP datagram says BYE for."""
    f = {"bye": [], "rtcp": len(data) >= 2 and 192 <= data[1] <= 208}
    if not f["rtcp"]:
        return f
    pos = 0
    while pos + 4 <= len(data):
        b0, pt, ln = struct.unpack_from("!BBH", data, pos)
        end = pos + 4 + 4 * ln
        if (b0 >> 6) != 2 or end > len(data):
            break
        if pt == 203:
            n = b0 & 31
            body = data[pos + 4:end]
            f["bye"] += [struct.unpack_from("!L", body, 4 * i)[0] for i in range(n) if 4 * i + 4 <= len(body)]
        pos = end
    return f


def media_probe(m):
    """Valid media / feedback after the hostile datagram -> (served, what)."""
    what = []
    try:
        n0 = len(m.decoded)
        tags, ok = [], False
        for _ in range(400):      # up to ~13 s of video
            tags.append(m.video_frame())
            new = [d for d in m.decoded[n0:] if d is not None]
            if any(any(t in getattr(fr, "data", b"") for t in tags) for _, fr in new):
                ok = True
                break
            if m.down():
                break
        if not ok:
            what.append("video_frame_not_decoded")
        n0, tags, ok = len(m.decoded), [], False
        for _ in range(700):      # up to 14 s of audio
            tags.append(m.audio_packet())
            new = [d for d in m.decoded[n0:] if d is not None]
            if any(any(t in getattr(fr, "data", b"") for t in tags) for _, fr in new):
                ok = True
                break
            if m.down():
                break
        if not ok:
            what.append("audio_frame_not_decoded")
        count = 4242 + m.nvalid
        m.feed(rtcp_pkt(200, 0, struct.pack("!L", V_SSRC) + struct.pack("!QLLL", 2 << 40, 5, count, 7)))
        rep = m.loop.run(m.vrx.getStats())
        if not any(getattr(s, "type", "") == "remote-outbound-rtp" and getattr(s, "packetsSent", None) == count
                   for s in rep.values()):
            what.append("sender_report_not_handled")
        if m.hist_seq is not None:
            k0 = len(m.ice.sent)
            m.feed(rtcp_pkt(205, 1, struct.pack("!LLHH", PEER_SSRC, S_SSRC, m.hist_seq, 0)))
            if not any(len(d) >= 12 and struct.unpack_from("!H", d, 2)[0] == m.hist_seq and not (192 <= d[1] <= 208)
                       for d in m.ice.sent[k0:]):
                what.append("nack_not_served")
        m.feed(rtcp_pkt(201, 1, struct.pack("!L", PEER_SSRC) + rr_block(S_SSRC, 3, 17, 600, 9, 0, 0)))
        rep = m.loop.run(m.tx.getStats())
        if not any(getattr(s, "type", "") == "remote-inbound-rtp" and getattr(s, "packetsLost", None) == 17 for s in rep.values()):
            what.append("receiver_report_not_handled")
        if m.down():
            what.append("transport_closed")
    except Exception as exc:
        what.append("exception:%s:%s" % (type(exc).__name__, innermost(exc)))
    return not what, what


# --------------------------------------------------------------------------- semantic alphabet (media)

def _vp(m, body=b"hostile-payload", start=1):
    return vp8_payload(m.vpid, start, body)


def _ast(v=0x123456):
    return struct.pack("!L", v)[1:]


@sem("media", "RTP", "unknown_ssrc")
def _(m, cls):
    return [rtp_pkt(PT_VP8, m.vseq, m.vts, 0xDEAD0001, _vp(m)), rtp_pkt(PT_PCMU, 7, 7, 0xDEAD0002, b"a" * 160),
            rtp_pkt(PT_H264, 1, 1, 0, b"\x65abc")]


@sem("media", "RTP", "many_ssrcs")
def _(m, cls):
    # a sequence of datagrams: one valid-looking packet from each of N distinct unknown SSRCs
    def burst(n, pt, ext):
        return [rtp_pkt(pt, 5000 + i, 90000 + i * 3000, 0xABC00000 + i, _vp(m, b"x" * 100), marker=1,
                        ext=ext1([ext(i)])) for i in range(n)]
    return [burst(300, PT_VP8, lambda i: (EXT["abs_send_time"], _ast((i * 27000) & 0xFFFFFF))),
            burst(300, PT_PCMU, lambda i: (EXT["audio_level"], b"\x85"))]


@sem("media", "RTP", "unknown_pt")
def _(m, cls):
    return [rtp_pkt(pt, m.vseq, m.vts, ssrc, _vp(m)) for pt in (77, 127, 35) for ssrc in (V_SSRC, 0xDEAD0003)]


@sem("media", "RTP", "looks_like_rtcp")
def _(m, cls):
    return [rtp_pkt(pt, m.vseq, m.vts, V_SSRC, _vp(m), marker=1) for pt in (72, 73, 74, 75, 76, 64, 80)]


@sem("media", "RTP", "rtx_short")
def _(m, cls):
    return [rtp_pkt(PT_RTX, 1, m.vts, V_RTX_SSRC, p) for p in (b"", b"\x03", b"\x03\xe8")]


@sem("media", "RTP", "rtx_unknown_ssrc")
def _(m, cls):
    return [rtp_pkt(PT_RTX, 1, m.vts, s, struct.pack("!H", m.vseq) + _vp(m)) for s in (0xDEAD0004, V_SSRC, A_SSRC)]


@sem("media", "RTP", "rtx_bad_apt")
def _(m, cls):
    return [rtp_pkt(PT_RTX_BADAPT, 1, m.vts, V_RTX_SSRC, struct.pack("!H", m.vseq) + _vp(m))]


@sem("media", "RTP", "rtx_unknown_seq")
def _(m, cls):
    return [rtp_pkt(PT_RTX, 1, m.vts, V_RTX_SSRC, struct.pack("!H", q) + _vp(m)) for q in (m.vseq + 30000, m.vseq - 500, 0, 65535)]


@sem("media", "RTP", "seq_jump")
def _(m, cls):
    return [rtp_pkt(PT_VP8, m.vseq + d, m.vts + 3000, V_SSRC, _vp(m), marker=1) for d in (30000, 32767, 32768, 40000, -30000, -50, -101, 127, 128, 5000)]


@sem("media", "RTP", "ts_nonsense")
def _(m, cls):
    return [rtp_pkt(PT_VP8, m.vseq, ts, V_SSRC, _vp(m), marker=1) for ts in (0, M32, m.vts - 90000 * 3600, m.vts ^ 0x80000000)]


@sem("media", "RTP", "csrc_max")
def _(m, cls):
    return [rtp_pkt(PT_VP8, m.vseq, m.vts, V_SSRC, _vp(m), csrc=list(range(15))), rtp_pkt(PT_VP8, m.vseq, m.vts, V_SSRC, b"", cc=15),
            rtp_pkt(PT_VP8, m.vseq, m.vts, V_SSRC, b"\x00" * 59, cc=15)]


@sem("media", "RTP", "padding_odd")
def _(m, cls):
    p = _vp(m)
    return [rtp_pkt(PT_VP8, m.vseq, m.vts, V_SSRC, b"", pad=bytes(len(p) - 1) + bytes([len(p)])),
            rtp_pkt(PT_VP8, m.vseq, m.vts, V_SSRC, p, pad=b"\x00\x00\x00\xff"), rtp_pkt(PT_VP8, m.vseq, m.vts, V_SSRC, p, pad=b"\x00"),
            rtp_pkt(PT_VP8, m.vseq, m.vts, V_SSRC, b"", pad=b""), rtp_pkt(PT_VP8, m.vseq, m.vts, V_SSRC, p, pad=b"\x00\x00\x00\x05")]


@sem("media", "RTP", "version_bad")
def _(m, cls):
    return [rtp_pkt(PT_VP8, m.vseq, m.vts, V_SSRC, _vp(m), version=v) for v in (0, 1, 3)]


@sem("media", "RTP", "ext_wrong_len")
def _(m, cls):
    out = []
    for name, lens in (("abs_send_time", (1, 2, 4, 16)), ("audio_level", (2, 3, 16)), ("twcc", (1, 3, 4)), ("toffset", (1, 2, 4))):
        for n in lens:
            out.append(rtp_pkt(PT_VP8, m.vseq, m.vts, V_SSRC, _vp(m), ext=ext1([(EXT[name], bytes(n))])))
            out.append(rtp_pkt(PT_PCMU, m.aseq, m.ats, A_SSRC, b"a" * 160, ext=ext2([(EXT[name], bytes(n))])))
        out.append(rtp_pkt(PT_VP8, m.vseq, m.vts, V_SSRC, _vp(m), ext=ext2([(EXT[name], b"")])))
    return out


@sem("media", "RTP", "ext_bad_text")
def _(m, cls):
    return [rtp_pkt(PT_VP8, m.vseq, m.vts, V_SSRC, _vp(m), ext=ext1([(EXT[n], v)])) for n, v in
            (("mid", b"\xff\xfe"), ("rid", b"\xc3\xa9"), ("rrid", b"\x80"), ("mid", b"\x00"), ("rid", bytes(16)))]


@sem("media", "RTP", "ext_framing_odd")
def _(m, cls):
    p = _vp(m)
    return [rtp_pkt(PT_VP8, m.vseq, m.vts, V_SSRC, p, ext=e) for e in (
        (0xBEDE, b""), (0xBEDE, bytes(8)), (0xBEDE, b"\xf0\x00\x00\x00"), (0xBEDE, b"\x2f\x01\x02\x03"),
        (0xBEDE, b"\x22\x01\x02\x03\x10"[:4]), (0x1000, b"\x02"), (0x1000, b"\x02\xff\x00\x00"), (0x1000, b"\x00\x00\x02\x03"),
        (0x1234, b"\x22\x01\x02\x03"), (0xBEDE, b"\x22\x01\x02\x03", 2), (0xBEDE, b"\x22\x01\x02\x03", 0xFFFF), (0, b""),
        (0xBEDE, b"\x00" * 3 + b"\x10"), (0xBEDE, bytes([0x22, 1, 2, 3] * 60)), (0x100F, b"\x02\x03\x01\x02\x03\x00\x00\x00"))]


@sem("media", "RTP", "vp8_desc_trunc")
def _(m, cls):
    full = bytes([0x90, 0xF0, 0x80 | 0x12, 0x34, 0x07, 0xE5]) + b"data"
    out = [rtp_pkt(PT_VP8, m.vseq, m.vts, V_SSRC, full[:n], marker=1) for n in range(0, 7)]
    out += [rtp_pkt(PT_VP8, m.vseq, m.vts, V_SSRC, p, marker=1) for p in (b"\x80", b"\x90\x80", b"\x90\x80\x80", b"\x90\x40", b"\x90\x20",
                                                                        b"\x90\x10", b"\x00", b"\x10", b"\xff" * 3, b"\x0f" + b"x" * 30)]
    out += [rtp_pkt(PT_RTX, 5, m.vts, V_RTX_SSRC, struct.pack("!H", m.vseq) + p) for p in (b"", b"\x80", b"\x90\x80\x80")]
    return out


@sem("media", "RTP", "h264_odd")
def _(m, cls):
    ps = [b"\x65", b"\x7c", b"\x7c\x85", b"\x7c\x45", b"\x7c\x05rest", b"\x7c\xc5both", b"\x78", b"\x78\x00", b"\x78\x00\x05ab",
          b"\x78\xff\xffab", b"\x78\x00\x00", b"\x78\x00\x00\x00\x00\x00\x01\x65", b"\x78" + b"\x00\x00" * 590, b"\x78\x00\x02\x65\x01\x00",
          b"\x60ab", b"\x79ab", b"\x7aab", b"\x7bab", b"\x7dab", b"\x7eab", b"\x7fab", b"\x00\x00", b"\xff" * 40, b"\x1c\x00", b"\x1c\x80"]
    return [rtp_pkt(PT_H264, m.vseq, m.vts, V_SSRC, p, marker=1) for p in ps]


@sem("media", "RTP", "audio_odd")
def _(m, cls):
    return [rtp_pkt(PT_PCMU, m.aseq, m.ats, A_SSRC, b""), rtp_pkt(PT_OPUS, m.aseq, m.ats, A_SSRC, b"\xff" * 7),
            rtp_pkt(PT_OPUS, m.aseq, m.ats, A_SSRC, b""), rtp_pkt(PT_PCMU, m.aseq + 20000, m.ats, A_SSRC, b"a" * 160),
            rtp_pkt(PT_PCMU, m.aseq, m.ats, A_SSRC, b"a" * 1188), rtp_pkt(PT_VP8, m.aseq, m.ats, A_SSRC, b"\x90\x80")]


@sem("media", "RTP", "abs_send_time_odd")
def _(m, cls):
    return [rtp_pkt(PT_VP8, m.vseq, m.vts, V_SSRC, _vp(m), marker=1, ext=ext1([(EXT["abs_send_time"], _ast(v))]))
            for v in (0, 0xFFFFFF, 0x800000, 1)] + \
           [rtp_pkt(PT_VP8, m.vseq, m.vts, s, _vp(m), ext=ext1([(EXT["abs_send_time"], _ast(5))] * 3)) for s in (V_SSRC, 0xDEAD0009)]


def _sr(ssrc, n=0, count=None, extra=b"", cut=0):
    p = struct.pack("!L", ssrc) + struct.pack("!QLLL", 3 << 40, 1, 2, 3) + b"".join(rr_block(S_SSRC + i) for i in range(n)) + extra
    return rtcp_pkt(200, n if count is None else count, p[:len(p) - cut] if cut else p)


def _rr(ssrc, blocks, count=None):
    p = struct.pack("!L", ssrc) + b"".join(blocks)
    return rtcp_pkt(201, len(blocks) if count is None else count, p)


@sem("media", "SR", "odd")
def _(m, cls):
    return [_sr(0xDEAD0010), _sr(V_SSRC, 2, count=5), _sr(V_SSRC, 2, count=0), _sr(V_SSRC, 0, count=31), _sr(V_SSRC, 31),
            _sr(V_SSRC, 1, extra=b"\x00" * 4), _sr(A_SSRC, 1), _sr(S_SSRC, 1),
            rtcp_pkt(200, 0, struct.pack("!L", V_SSRC) + struct.pack("!QLLL", (1 << 64) - 1, M32, M32, M32)),
            rtcp_pkt(200, 0, struct.pack("!L", V_SSRC) + struct.pack("!QLLL", 0, 0, 0, 0))]


@sem("media", "RR", "odd")
def _(m, cls):
    return [_rr(PEER_SSRC, [rr_block(S_SSRC, 255, -(1 << 23), M32, M32, M32, M32)]), _rr(PEER_SSRC, [rr_block(S_SSRC, 0, (1 << 23) - 1)]),
            _rr(PEER_SSRC, [rr_block(S_SSRC)], count=3), _rr(PEER_SSRC, [rr_block(S_SSRC)] * 3, count=1), _rr(PEER_SSRC, [], count=0),
            _rr(PEER_SSRC, [rr_block(0xDEAD0011)]), _rr(PEER_SSRC, [rr_block(S_SSRC)] * 31), _rr(PEER_SSRC, [rr_block(S_SSRC, 1, 1, 1, 1, 0, 1)])]


def _sdes(chunks, count=None, raw=None):
    p = b""
    for ssrc, items in chunks:
        p += struct.pack("!L", ssrc) + b"".join(bytes([t, len(v)]) + v for t, v in items) + b"\x00"
        p = pad4(p)
    if raw is not None:
        p = raw
    return rtcp_pkt(202, len(chunks) if count is None else count, pad4(p))


@sem("media", "SDES", "odd")
def _(m, cls):
    return [_sdes([(V_SSRC, [(1, b"cname")])], count=3), _sdes([(V_SSRC, [(1, b"cname")])] * 3, count=1), _sdes([], count=0), _sdes([], count=31),
            _sdes([], count=1, raw=struct.pack("!L", V_SSRC) + b"\x01\xffab"), _sdes([], count=1, raw=struct.pack("!L", V_SSRC) + b"\x01\x00\x01\x00\x01\x00"),
            _sdes([], count=1, raw=struct.pack("!L", V_SSRC) + b"\x01\x02ab\x02\x02cd\x03"), _sdes([], count=2, raw=struct.pack("!L", V_SSRC) + b"\x00\x00"),
            _sdes([(V_SSRC, [(t, bytes([65 + t]) * 3) for t in range(1, 9)])]), _sdes([], count=1, raw=struct.pack("!L", V_SSRC) + b"\x01\x00" * 200),
            _sdes([], count=1, raw=b"\x00\x00"), _sdes([(V_SSRC, [(1, b"\xff\xfe")])])]


def _bye(ssrcs, count=None, reason=b""):
    p = b"".join(struct.pack("!L", s) for s in ssrcs)
    if reason:
        p += bytes([len(reason)]) + reason
    return rtcp_pkt(203, len(ssrcs) if count is None else count, pad4(p))


@sem("media", "BYE", "unknown")
def _(m, cls):
    return [_bye([0xDEAD0012]), _bye([0xDEAD0012, 0xDEAD0013], count=5), _bye([0xDEAD0012] * 3, count=1), _bye([], count=0),
            _bye([], count=31), _bye([0xDEAD0012], reason=b"gone"), _bye([0xDEAD0012] * 31), _bye([S_SSRC]), _bye([PEER_SSRC])]


@sem("media", "BYE", "known")
def _(m, cls):
    return [_bye([V_SSRC]), _bye([A_SSRC, 0xDEAD0014]), _bye([V_RTX_SSRC])]


def _fb(pt, fmt, sender, media, fci=b"", length=None):
    return rtcp_pkt(pt, fmt, struct.pack("!LL", sender, media) + fci, length=length)


@sem("media", "RTPFB", "nack_odd")
def _(m, cls):
    h = m.hist_seq or 510
    return [_fb(205, 1, PEER_SSRC, S_SSRC), _fb(205, 1, PEER_SSRC, S_SSRC, struct.pack("!HH", 65535, 0xFFFF)),
            _fb(205, 1, PEER_SSRC, S_SSRC, struct.pack("!HH", h, 0xFFFF) * 290), _fb(205, 1, PEER_SSRC, 0xDEAD0015, struct.pack("!HH", h, 1)),
            _fb(205, 1, PEER_SSRC, S_SSRC, struct.pack("!HH", h, 0) + b"\x01\x02"), _fb(205, 1, PEER_SSRC, S_SSRC, b"\x01"),
            _fb(205, 1, PEER_SSRC, V_SSRC, struct.pack("!HH", h, 0)), _fb(205, 1, PEER_SSRC, S_SSRC, struct.pack("!HH", 0, 0xFFFF)),
            rtcp_pkt(205, 1, struct.pack("!L", PEER_SSRC)), rtcp_pkt(205, 1, b"")]


@sem("media", "RTPFB", "unknown_fmt")
def _(m, cls):
    return [_fb(205, f, PEER_SSRC, S_SSRC, bytes(n)) for f in (0, 3, 15, 31) for n in (0, 4, 20)]


@sem("media", "PSFB", "pli_fir_odd")
def _(m, cls):
    return [_fb(206, 1, PEER_SSRC, 0xDEAD0016), _fb(206, 1, PEER_SSRC, S_SSRC, b"extra---"), _fb(206, 4, PEER_SSRC, S_SSRC),
            _fb(206, 4, PEER_SSRC, 0, struct.pack("!LBBH", S_SSRC, 1, 0, 0)), _fb(206, 2, PEER_SSRC, S_SSRC, bytes(4)), _fb(206, 3, PEER_SSRC, S_SSRC, bytes(3) + b"\x00"),
            _fb(206, 1, PEER_SSRC, V_SSRC), rtcp_pkt(206, 1, struct.pack("!L", PEER_SSRC)), rtcp_pkt(206, 1, b""), _fb(206, 0, PEER_SSRC, S_SSRC), _fb(206, 31, PEER_SSRC, S_SSRC)]


def _remb(count, exp, mant, ssrcs, prefix=b"REMB"):
    return prefix + bytes([count, ((exp << 2) | (mant >> 16)) & 0xFF, (mant >> 8) & 0xFF, mant & 0xFF]) + b"".join(struct.pack("!L", s) for s in ssrcs)


@sem("media", "PSFB", "remb_odd")
def _(m, cls):
    out = [_fb(206, 15, PEER_SSRC, ms, _remb(c, e, mt, ss)) for ms in (0, S_SSRC) for c, e, mt, ss in (
        (2, 3, 1000, [S_SSRC]), (255, 3, 1000, [S_SSRC]), (1, 3, 1000, []), (0, 3, 1000, [S_SSRC, S_SSRC]), (0, 0, 0, []),
        (1, 63, 0x3FFFF, [S_SSRC]), (1, 0, 0, [S_SSRC]), (3, 10, 5, [0xDEAD0017, S_SSRC, V_SSRC]))]
    out += [_fb(206, 15, PEER_SSRC, ms, f) for ms in (0, S_SSRC) for f in (b"", b"REM", b"REMB", b"REMB\x01\x00\x00", b"XXXX\x01\x00\x00\x01" + struct.pack("!L", S_SSRC),
                                                                           b"remb\x01\x00\x00\x01" + struct.pack("!L", S_SSRC), bytes(40), _remb(1, 1, 1, [S_SSRC])[:-1] + b"\x00\x00")]
    return [x for x in out if len(x) % 4 == 0] + [rtcp_pkt(206, 15, pad4(struct.pack("!LL", PEER_SSRC, 0) + b"REMB\x05"))]


@sem("media", "RTCP", "unknown_type")
def _(m, cls):
    return [rtcp_pkt(pt, c, p) for pt in (192, 193, 194, 195, 204, 207, 208) for c, p in ((0, b""), (1, struct.pack("!L", V_SSRC) + b"name" + b"data"))]


@sem("media", "RTCP", "framing_odd")
def _(m, cls):
    sr = _sr(V_SSRC)
    return [rtcp_pkt(201, 0, struct.pack("!L", PEER_SSRC), version=v) for v in (0, 1, 3)] + \
           [rtcp_pkt(201, 0, struct.pack("!L", PEER_SSRC), length=n) for n in (0, 2, 100, 0xFFFF)] + \
           [sr + b"\x80", sr + b"\x80\xc9", sr + b"\x80\xc9\x00", sr + b"\x80\xc9\x00\x05", b"\x80\xc8", b"\x80\xc8\x00",
            rtcp_pkt(201, 0, struct.pack("!L", PEER_SSRC) + b"\x00\x00\x00\x04", padbit=1), rtcp_pkt(201, 0, struct.pack("!L", PEER_SSRC), padbit=1),
            rtcp_pkt(201, 0, struct.pack("!L", PEER_SSRC) + b"\x00\x00\x00\x00", padbit=1), rtcp_pkt(201, 0, struct.pack("!L", PEER_SSRC) + b"\x00\x00\x00\xff", padbit=1),
            rtcp_pkt(201, 0, b"", padbit=1), rtcp_pkt(201, 0, b"\x00\x00\x00\x08" + b"\x00\x00\x00\x08", padbit=1),
            (rtcp_pkt(201, 0, struct.pack("!L", PEER_SSRC)) * 150), sr + _bye([0xDEAD0018]) + _fb(206, 1, PEER_SSRC, S_SSRC) + _sdes([(V_SSRC, [(1, b"c")])])]


def media_base(m, kind):
    return {
        "RTP_VP8": lambda: rtp_pkt(PT_VP8, m.vseq, m.vts, V_SSRC, _vp(m), marker=1, csrc=[7],
                                   ext=ext1([(EXT["mid"], b"v"), (EXT["abs_send_time"], _ast())])),
        "RTP_H264": lambda: rtp_pkt(PT_H264, m.vseq, m.vts, V_SSRC, b"\x78\x00\x03\x67\x42\x00\x00\x02\x68\xce", marker=1,
                                    ext=ext2([(EXT["twcc"], b"\x00\x07"), (EXT["toffset"], b"\x00\x00\x09")])),
        "RTP_RTX": lambda: rtp_pkt(PT_RTX, 9, m.vts, V_RTX_SSRC, struct.pack("!H", m.vseq) + _vp(m), pad=b"\x00\x00\x00\x04"),
        "RTP_AUDIO": lambda: rtp_pkt(PT_PCMU, m.aseq, m.ats, A_SSRC, b"a" * 40, ext=ext1([(EXT["audio_level"], b"\x85"), (EXT["mid"], b"a")])),
        "SR": lambda: _sr(V_SSRC, 1),
        "RR": lambda: _rr(PEER_SSRC, [rr_block(S_SSRC, 1, 2, 600, 4, 5, 6)]),
        "SDES": lambda: _sdes([(V_SSRC, [(1, b"cname"), (2, b"nm")]), (A_SSRC, [(1, b"x")])]),
        "BYE": lambda: _bye([0xDEAD0020, 0xDEAD0021], reason=b"bye"),
        "RTPFB": lambda: _fb(205, 1, PEER_SSRC, S_SSRC, struct.pack("!HHHH", m.hist_seq or 510, 5, 600, 0)),
        "PSFB_PLI": lambda: _fb(206, 1, PEER_SSRC, S_SSRC),
        "PSFB_REMB": lambda: _fb(206, 15, PEER_SSRC, 0, _remb(2, 4, 70000, [S_SSRC, 0xDEAD0022])),
        "COMPOUND": lambda: _rr(PEER_SSRC, [rr_block(S_SSRC)]) + _sdes([(PEER_SSRC, [(1, b"c")])]) + _fb(205, 1, PEER_SSRC, S_SSRC, struct.pack("!HH", 505, 3)),
    }[kind]()


MEDIA_KINDS = ["RTP_VP8", "RTP_H264", "RTP_RTX", "RTP_AUDIO", "SR", "RR", "SDES", "BYE", "RTPFB", "PSFB_PLI", "PSFB_REMB", "COMPOUND"]
MEDIA_MUTS = ["trunc", "len_zero", "len_small", "len_big", "count_odd", "random_body", "bitflip", "append_garbage"]


def media_mutants(m, kind, mut, full, r):
    good = media_base(m, kind)
    is_rtp = kind.startswith("RTP_")
    out = []
    # offsets of length-like fields: RTCP length of every sub-packet; RTP extension length
    lens = []
    if is_rtp:
        cc = good[0] & 15
        if good[0] & 0x10:
            lens.append(12 + 4 * cc + 2)
    else:
        pos = 0
        while pos + 4 <= len(good):
            lens.append(pos + 2)
            pos += 4 + 4 * struct.unpack_from("!H", good, pos + 2)[0]

    def setlen(d, o, v):
        return d[:o] + struct.pack("!H", v & 0xFFFF) + d[o + 2:]
    if mut == "trunc":
        out = [good[:p] for p in _positions(len(good), full, r, 10)]
    elif mut == "len_zero":
        out = [setlen(good, o, 0) for o in lens]
    elif mut == "len_small":
        out = [setlen(good, o, max(0, struct.unpack_from("!H", good, o)[0] - d)) for o in lens for d in (1, 2)]
    elif mut == "len_big":
        out = [setlen(good, o, v) for o in lens for v in (struct.unpack_from("!H", good, o)[0] + 1, 0xFFFF, 0x4000)]
    elif mut == "count_odd":
        outs = [0] if is_rtp else [o - 2 for o in lens]
        mask = 0x0F if is_rtp else 0x1F
        out = [good[:o] + bytes([(good[o] & ~mask & 0xFF) | v]) + good[o + 1:] for o in outs for v in (0, 1, 2, 7, mask)]
        out += [good[:o] + bytes([good[o] | 0x20]) + good[o + 1:] for o in outs]      # padding bit
    elif mut == "random_body":
        hdr = 12 if is_rtp else 4
        for n in ([0, 1, 2, 3, 4, 7, 8, 12, 20, 24, 28, 60, 1188] if full else [0, 3, 8, 20, 28, 60]):
            for _ in range(3 if full else 1):
                body = bytes(r.randrange(256) for _ in range(n))
                h = good[:hdr]
                if is_rtp:
                    h = bytes([(h[0] & 0xC0) | r.randrange(64)]) + h[1:]
                else:
                    h = bytes([(h[0] & 0xC0) | r.randrange(64)]) + h[1:2] + struct.pack("!H", r.choice([n // 4, n // 4, (n + 3) // 4, r.randrange(0, 8)]))
                out.append(h + body)
    elif mut == "bitflip":
        nbits = len(good) * 8
        for b in _positions(nbits, full and nbits <= 480, r, 16 if not full else 160):
            i = b // 8
            out.append(good[:i] + bytes([good[i] ^ (1 << (b % 8))]) + good[i + 1:])
    elif mut == "append_garbage":
        out = [good + g for g in (b"\x00", b"\x80\xc9\x00", b"\xff" * 5, bytes(r.randrange(256) for _ in range(40)))]
    else:
        raise T.MachineryError("unknown media mutation tag %r" % mut)
    return [x for x in out if len(x) == 0 or 128 <= x[0] <= 191] + [x for x in out if len(x) and not 128 <= x[0] <= 191][:2]


def media_variants(m, case, full):
    r = random.Random("%s|%s|%s|%s|%d" % (case["k"], case["c"], case["m"], case["st"], case.get("seed", 1)))
    if case["m"] == "none":
        return SEM["media"][(case["k"], case["c"])](m, case["c"])
    if case["k"] == "RAW":
        return raw_mutants(None, case["m"], full, r, "media") if case["m"] != "random_chunks" else []
    return media_mutants(m, case["k"], case["m"], full, r)


def media_case(case, full, guard):
    traces = []
    m = MediaEnv(case["st"])
    try:
        variants = media_variants(m, case, full)
    except BaseException:
        m.close()
        raise
    want = case.get("vi")
    for vi, data in enumerate(variants):
        if (want is not None and vi != want) or (want is None and vi >= case.get("vmax", 1 << 30)):
            continue
        if m is None:
            m = MediaEnv(case["st"])
        try:
            burst = list(data) if isinstance(data, (list, tuple)) else [data]
            known = [s for d in burst for s in media_facts(d)["bye"] if s in (V_SSRC, A_SSRC, V_RTX_SSRC)]
            # structural fact: an RTP datagram for one of the receivers whose timestamp is ahead of the valid stream
            ts_ahead = False
            for d in burst:
                if len(d) >= 12 and (d[0] >> 6) == 2 and not (192 <= d[1] <= 208):
                    pt, ts = d[1] & 0x7F, struct.unpack_from("!L", d, 4)[0]
                    ref = m.vts if pt in (PT_VP8, PT_RTX, PT_H264, PT_RTX_BADAPT) else m.ats if pt in (PT_PCMU, PT_OPUS) else None
                    if ref is not None and 1 <= ((ts - ref) & M32) <= 0x80000000:
                        ts_ahead = True
            for data in burst:      # a class may be a sequence of datagrams; judged at the first that fails
                m.loop.wall += 0.005 if len(burst) == 1 else 0.03
                m.ice.rx.put_nowait(bytes(data))
                res = guard.call(lambda: m.loop.drain(), budget(len(data)))
                if res["exc"] != "none" or res["timeout"] or m.down():
                    break
            lexc = m.loop_exc()
            exc, fn, timeout = res["exc"], res["fn"], res["timeout"]
            if isinstance(lexc, Hang):
                timeout, fn = True, guard.where or "?"
            elif lexc is not None and exc == "none":
                exc, fn = type(lexc).__name__, innermost(lexc)
            tex = [(n, f, h) for n, f, h in task_excs(m) if not (lexc is not None and n == type(lexc).__name__)]
            if any(h for _, _, h in tex):
                timeout = True
            tex = [(n, f) for n, f, h in tex if not h]
            tex += list(m.decoder_dead)          # the decoder thread died while handling the hostile datagram(s)
            step = {"op": "hostile", "sub": "media", "entry": "dtls._recv_next", "st": case["st"], "role": "receiver",
                    "len": len(data), "exc": exc, "fn": fn, "timeout": timeout, "work": res["work"],
                    "task_exc": tex[0][0] if tex else "none", "task_fn": tex[0][1] if tex else "none",
                    "ctl": ["BYE_KNOWN"] if known else [], "probe_reset": False, "down": bool(m.down()),
                    "before": case["st"], "after": "closed" if m.down() else "up",
                    "hex": hexdump(burst[:3]),
                    "cause": "empty" if not data else "rtp_timestamp_ahead" if ts_ahead else
                             "%s/%s" % (case["k"], case["c"] if case["m"] == "none" else "~" + case["m"])}
            steps = [step]
            if exc == "none" and not timeout and not tex and not m.down():
                # the valid stream continues behind the sequence numbers the hostile sender used on its SSRCs
                for d in burst:
                    if len(d) >= 12 and (d[0] >> 6) == 2 and not (192 <= d[1] <= 208):
                        q, ssrc = struct.unpack_from("!H", d, 2)[0], struct.unpack_from("!L", d, 8)[0]
                        if ssrc == V_SSRC and ((q - m.vseq) & 0xFFFF) < 64:
                            m.vseq = (q + 1) & 0xFFFF
                        elif ssrc == A_SSRC and ((q - m.aseq) & 0xFFFF) < 64:
                            m.aseq = (q + 1) & 0xFFFF
                served, what = media_probe(m)
                steps.append({"op": "probe", "sub": "media", "st": case["st"], "served": bool(served), "what": what[:3],
                              "ctl": step["ctl"], "probe_reset": False, "after": "closed" if m.down() else "up"})
            traces.append({"case": dict(case, vi=vi, full=bool(full)), "steps": steps})
        finally:
            m.close()
            m = None
    if m is not None:
        m.close()
    return traces


# --------------------------------------------------------------------------- wire parsers called directly

PARSERS = ["parse_packet", "decode_params", "RtpPacket.parse", "RtcpPacket.parse", "unpack_header_extensions",
           "unpack_remb_fci", "H264PayloadDescriptor.parse", "VpxPayloadDescriptor.parse"]


def _parser_fn(name):
    import aiortc.rtcsctptransport as S
    from aiortc import rtp
    from aiortc.codecs.h264 import H264PayloadDescriptor
    from aiortc.codecs.vpx import VpxPayloadDescriptor
    if name == "parse_packet":
        return S.parse_packet
    if name == "decode_params":
        return S.decode_params
    if name == "RtpPacket.parse":
        from aiortc.rtcrtpparameters import RTCRtpHeaderExtensionParameters, RTCRtpParameters
        hm = rtp.HeaderExtensionsMap()
        hm.configure(RTCRtpParameters(headerExtensions=[RTCRtpHeaderExtensionParameters(id=i, uri=EXT_URI[n]) for n, i in EXT.items()]))
        return lambda d: rtp.RtpPacket.parse(d, hm)
    if name == "RtcpPacket.parse":
        return rtp.RtcpPacket.parse
    if name == "unpack_header_extensions":
        return lambda d: rtp.unpack_header_extensions(struct.unpack_from("!H", d)[0] if len(d) >= 2 else 0xBEDE, d[2:])
    if name == "unpack_remb_fci":
        return rtp.unpack_remb_fci
    if name == "H264PayloadDescriptor.parse":
        return H264PayloadDescriptor.parse
    if name == "VpxPayloadDescriptor.parse":
        return VpxPayloadDescriptor.parse
    raise T.MachineryError("unknown parser %r" % name)


def _flat(variants):
    """Variants that are sequences of datagrams contribute their (first few) datagrams."""
    out = []
    for v in variants:
        out += list(v)[:4] if isinstance(v, (list, tuple)) else [v]
    return out


def _sctp_corpus(full):
    c = SctpCtx("client", "est_out")
    out = []
    try:
        for (k, cl) in sorted(SEM["sctp"]):
            out += [("%s/%s" % (k, cl), d) for d in _flat(SEM["sctp"][(k, cl)](c, cl))]
        for k in SCTP_KINDS:
            for mu in SCTP_MUTS + (SCTP_PARAM_MUTS if k in SCTP_PARAM_KINDS else []):
                r = random.Random("p|%s|%s" % (k, mu))
                out += [("%s/~%s" % (k, mu), d) for d in sctp_mutants(c, k, mu, full, r)]
        for mu in RAW_MUTS:
            out += [("RAW/~" + mu, d) for d in raw_mutants(c, mu, full, random.Random("p|" + mu), "sctp")]
    finally:
        c.close()
    return out


def _media_corpus(full):
    m = MediaEnv("m_flow")
    out = []
    try:
        for (k, cl) in sorted(SEM["media"]):
            out += [("%s/%s" % (k, cl), d) for d in _flat(SEM["media"][(k, cl)](m, cl))]
        for k in MEDIA_KINDS:
            for mu in MEDIA_MUTS:
                out += [("%s/~%s" % (k, mu), d) for d in media_mutants(m, k, mu, full, random.Random("p|%s|%s" % (k, mu)))]
        out += [("RAW/~random_bytes", d) for d in raw_mutants(None, "random_bytes", full, random.Random("p|rb"), "media")]
        out.append(("RAW/~empty", b""))
    finally:
        m.close()
    return out


def _rtp_parts(d):
    """(extension block as profile+value, payload) of an RTP datagram, tolerant."""
    if len(d) < 12 or (d[0] >> 6) != 2:
        return None, None
    pos = 12 + 4 * (d[0] & 15)
    ext = None
    if d[0] & 0x10 and len(d) >= pos + 4:
        prof, n = struct.unpack_from("!HH", d, pos)
        ext = d[pos:pos + 2] + d[pos + 4:pos + 4 + 4 * n]
        pos += 4 + 4 * n
    return ext, d[pos:]


def parser_inputs(name, source, full):
    """Inputs (tag, bytes) for one parser from one source: the hostile corpus (resp. the piece of each
    datagram this parser sees), every prefix of the valid pieces, or seeded random bytes."""
    r = random.Random("parser|%s|%s|%d" % (name, source, seed()))
    sctp = name in ("parse_packet", "decode_params")
    if source == "random":
        sizes = list(range(0, 40)) + [64, 100, 255, 256, 576, 1199, 1200] if full else [0, 1, 2, 3, 4, 5, 7, 8, 11, 12, 13, 16, 20, 28, 64, 1200]
        out = []
        for n in sizes:
            for _ in range(12 if full else 4):
                b = bytearray(r.randrange(256) for _ in range(n))
                if n and name in ("RtpPacket.parse", "RtcpPacket.parse") and r.random() < 0.8:
                    b[0] = 0x80 | (b[0] & 0x3F)
                if n > 1 and name == "RtcpPacket.parse" and r.random() < 0.8:
                    b[1] = r.choice([200, 201, 202, 203, 205, 206])
                if n >= 4 and name == "unpack_remb_fci" and r.random() < 0.8:
                    b[0:4] = b"REMB"
                if n >= 2 and name == "unpack_header_extensions":
                    b[0:2] = r.choice([b"\xbe\xde", b"\x10\x00", b"\x10\x0f", bytes(b[0:2])])
                if n >= 12 and name == "parse_packet" and r.random() < 0.8:
                    b = bytearray(refit(bytes(b)))
                out.append(("random", bytes(b)))
        return out
    corpus = _sctp_corpus(full) if sctp else _media_corpus(full)
    pieces = []
    for tag, d in corpus:
        if name in ("parse_packet", "RtpPacket.parse", "RtcpPacket.parse"):
            if name == "parse_packet" or (name == "RtcpPacket.parse") == (len(d) >= 2 and 192 <= d[1] <= 208):
                pieces.append((tag, d))
        elif name == "decode_params":
            pos = 12
            while pos + 4 <= len(d):
                t, fl, ln = struct.unpack_from("!BBH", d, pos)
                if ln < 4 or pos + ln > len(d):
                    break
                if t in PARAM_AT and ln - 4 > PARAM_AT[t]:
                    pieces.append((tag, d[pos + 4 + PARAM_AT[t]:pos + ln]))
                pos += ln + ((4 - ln % 4) % 4)
        elif name == "unpack_remb_fci":
            if len(d) >= 12 and d[1] == 206 and (d[0] & 31) == 15:
                pieces.append((tag, d[12:]))
        else:
            if len(d) >= 2 and 192 <= d[1] <= 208:
                continue
            ext, payload = _rtp_parts(d)
            if name == "unpack_header_extensions":
                if ext is not None:
                    pieces.append((tag, ext))
            elif payload is not None:
                pieces.append((tag, payload))
    seen, uniq = set(), []
    for tag, b in pieces:
        if b not in seen:
            seen.add(b)
            uniq.append((tag, b))
    if source == "corpus":
        return uniq
    # source == "trunc": every prefix of the pieces that come from unmutated / semantic inputs
    out, seen = [], set()
    base = [(t, b) for t, b in uniq if "~" not in t and len(b) <= 400]
    if not full:
        base = base[::5]
    for tag, b in base:
        for n in range(len(b)):
            p = b[:n]
            if name == "parse_packet" and n >= 12:
                p = refit(p)
            if p not in seen:
                seen.add(p)
                out.append((tag + "[:%d]" % n, p))
    return out


def parser_case(case, full, guard):
    name, source = case["k"], case["c"]
    fn = _parser_fn(name)
    traces = []
    want = case.get("vi")
    for vi, (tag, data) in enumerate(parser_inputs(name, source, full)):
        if want is not None and vi != want:
            continue
        res = guard.call(lambda: fn(data), budget(len(data)))
        cause = tag
        if name == "parse_packet":
            f = sctp_facts(data, 0)
            cause = f["cause"] or "wellformed"
        elif name == "decode_params":
            cause = "param_len_0" if any(ln == 0 for _, ln, _ in tlv_walk(data)) else "params"
        elif len(data) == 0:
            cause = "empty"
        step = {"op": "parse", "sub": "parser", "entry": "parser." + name, "st": "p", "len": len(data), "exc": res["exc"],
                "isval": res["isval"], "fn": res["fn"], "timeout": res["timeout"], "work": res["work"], "task_exc": "none",
                "cause": cause, "src": tag, "hex": data.hex() if len(data) <= 96 else data[:96].hex() + "..."}
        traces.append({"case": dict(case, vi=vi, full=bool(full)), "steps": [step]})
    return traces


# --------------------------------------------------------------------------- running cases

def run_case(args):
    case, full, bud = args
    BUDGET.update(bud)
    FULL[0] = bool(full)
    import logging
    logging.disable(logging.CRITICAL)
    guard = Guard()
    try:
        if case["sub"] == "sctp":
            return sctp_case(case, full, guard)
        if case["sub"] == "media":
            return media_case(case, full, guard)
        return parser_case(case, full, guard)
    except T.MachineryError as e:
        return {"machinery": "%s: %s" % (case, e)}
    except Exception as e:      # harness failure, never the code's verdict
        import traceback
        return {"machinery": "%s: %s" % (case, traceback.format_exc()[-1500:])}


def run_cases(cases, full, procs):
    import concurrent.futures
    import multiprocessing as mp
    args = [(c, full, dict(BUDGET)) for c in cases]
    traces = []
    if procs <= 1:
        results = [run_case(a) for a in args]
    else:
        try:
            with concurrent.futures.ProcessPoolExecutor(max_workers=procs, mp_context=mp.get_context("fork")) as ex:
                results = list(ex.map(run_case, args, chunksize=4))
        except concurrent.futures.process.BrokenProcessPool as e:
            raise T.MachineryError("a worker process died: %s" % e)
    for res in results:
        if isinstance(res, dict):
            raise T.MachineryError(res["machinery"])
        traces.extend(res)
    for i, t in enumerate(traces):
        t["id"] = i + 1
    return traces


# --------------------------------------------------------------------------- TLC plumbing

def model_cfg(devs=(), present=(), announce=False, invariants=("NoEscape", "Terminates", "StillUp", "ServesValidTraffic", "TypeOK")):
    return ("SPECIFICATION Spec\nCONSTANTS\n Deviations = %s\n Present = %s\n Announce = %s\nVIEW View\n"
            % (T.to_tla(set(devs)), T.to_tla(set(present)), "TRUE" if announce else "FALSE")
            + "".join("INVARIANT %s\n" % i for i in invariants) + "CHECK_DEADLOCK FALSE\n")


TRACE_CFG = "SPECIFICATION TraceSpec\nCONSTANTS\n Deviations = {}\n Present = {}\n Announce = FALSE\nCHECK_DEADLOCK FALSE\n"


def printed_strings(res, tag):
    """Values printed with PrintT(ToString(<<tag, ...>>))."""
    import re
    out = []
    for m in re.finditer(r'^"(<<\\"%s\\".*>>)"$' % re.escape(tag), res.out, re.M):
        out.append(T.parse_value(m.group(1).replace('\\"', '"')))
    return out


def present_deviations():
    """Deviation names of the known findings still present in the code (known_findings.json)."""
    return sorted({k["deviation"] for k in common.load_known()
                   if k["property"] == PROP and k["status"] == "finding" and k.get("deviation") in ALL_DEVIATIONS})


def judge(traces, par, timeout):
    """Validate traces with TraceHostile.tla in `par` parallel TLC runs -> {id: (verdict, pos)}, states."""
    import concurrent.futures
    par = max(1, min(par, (len(traces) + 1999) // 2000))
    batches = [traces[i::par] for i in range(par)]

    def one(batch):
        with T.Scratch(prefix="verif_c05_") as sc:
            res, v = T.validate_traces(sc, "TraceHostile", TRACE_CFG, batch, timeout=timeout)
        if len(v) != len(batch):
            raise T.MachineryError("trace validation incomplete: %d of %d verdicts\n%s" % (len(v), len(batch), res.out[-2500:]))
        return v, res.distinct
    verdicts, states = {}, 0
    with concurrent.futures.ThreadPoolExecutor(max_workers=par) as ex:
        for v, d in ex.map(one, batches):
            verdicts.update(v)
            states += d
    return verdicts, states


JUDGED = ("op", "st", "len", "exc", "isval", "timeout", "work", "task_exc", "down", "ctl", "probe_reset", "served")


def slim(t):
    """What TraceHostile.tla reads (hex dumps, function names, details stay in the replay file)."""
    return {"id": t["id"], "steps": [{k: s[k] for k in JUDGED if k in s} for s in t["steps"]]}


def signature_of(t, verdict, pos):
    step = t["steps"][pos - 1] if 1 <= pos <= len(t["steps"]) else {}
    first = t["steps"][0]
    case = t["case"]
    sig = {"entry": step.get("entry", first.get("entry")), "st": case.get("st", "p"), "kind": case["k"],
           "cause": first.get("cause")}
    if step.get("op") == "probe":
        sig.update(entry="probe", what=(step.get("what") or ["?"])[0])
    else:
        exc, fn = step.get("exc", "none"), step.get("fn", "none")
        if exc == "none" and step.get("task_exc", "none") != "none":
            exc, fn = step["task_exc"], step.get("task_fn", "none")
        sig.update(exc=exc, fn=fn)
    return sig, step


def nontrivial_key(t):
    s = t["steps"][0]
    case = t["case"]
    if s["len"] == 0:
        return None
    if s["op"] == "parse":
        return ("parser", case["k"], s["hex"], s["len"])
    reached = s["exc"] != "none" or s["timeout"] or s["cause"] != "unparseable"
    return (case["sub"], case["st"], case["role"], s["hex"], s["len"]) if reached else None


def build_cases(pairs, thorough):
    cases = []
    anchors = {("client", "est_out"), ("server", "closed_init"), ("receiver", "m_flow")}
    for (sub, role, st, k, c, m, pred, news) in pairs:
        case = {"sub": sub, "role": role, "st": st, "k": k, "c": c, "m": m, "seed": seed()}
        if sub == "sctp":
            if m == "none":
                if (k, c) not in SEM["sctp"]:
                    raise T.MachineryError("no builder for SCTP input class %s/%s" % (k, c))
            elif k == "RAW":
                if m not in RAW_MUTS:
                    raise T.MachineryError("no builder for raw tag %s" % m)
            elif k not in SCTP_KINDS or m not in SCTP_MUTS + SCTP_PARAM_MUTS:
                raise T.MachineryError("no builder for SCTP mutation %s/%s" % (k, m))
        elif sub == "media":
            if m == "none":
                if (k, c) not in SEM["media"]:
                    raise T.MachineryError("no builder for media input class %s/%s" % (k, c))
            elif k != "RAW" and (k not in MEDIA_KINDS or m not in MEDIA_MUTS):
                raise T.MachineryError("no builder for media mutation %s/%s" % (k, m))
        elif k not in PARSERS:
            raise T.MachineryError("no parser %s" % k)
        # quick tier: every variant in the anchor states, the first variant(s) of every pair elsewhere
        if not thorough and m != "none" and sub != "parser" and (role, st) not in anchors:
            case["vmax"] = 1
        if not thorough and m == "none" and sub != "parser" and (role, st) not in anchors:
            case["vmax"] = 2
        cases.append(case)
        if thorough and sub == "sctp" and m == "none" and st in ("est_idle", "est_out", "cookie_echoed"):
            cases.append(dict(case, origin=1))
    return cases


def check_alphabet(pairs):
    """The model's alphabet and the harness' builder tables must be the same sets."""
    got = {"sctp": set(), "media": set()}
    for (sub, role, st, k, c, m, pred, news) in pairs:
        if sub in got and m == "none":
            got[sub].add((k, c))
    for sub in got:
        if got[sub] != set(SEM[sub]):
            raise T.MachineryError("alphabet mismatch (%s): model-only %s, harness-only %s"
                                   % (sub, sorted(got[sub] - set(SEM[sub])), sorted(set(SEM[sub]) - got[sub])))
    muts = {(k, m) for (sub, role, st, k, c, m, pred, news) in pairs if sub == "sctp" and m != "none" and k != "RAW"}
    want = {(k, m) for k in SCTP_KINDS for m in SCTP_MUTS} | {(k, m) for k in SCTP_PARAM_KINDS for m in SCTP_PARAM_MUTS}
    if muts != want:
        raise T.MachineryError("SCTP mutation tags differ between model and harness: %s" % sorted(muts ^ want)[:6])
    muts = {(k, m) for (sub, role, st, k, c, m, pred, news) in pairs if sub == "media" and m != "none" and k != "RAW"}
    if muts != {(k, m) for k in MEDIA_KINDS for m in MEDIA_MUTS}:
        raise T.MachineryError("media mutation tags differ between model and harness")


def builder_selftest():
    """The raw builders agree with the real chunk classes where those can express the input."""
    import aiortc.rtcsctptransport as S
    d = S.DataChunk(flags=7)
    d.tsn, d.stream_id, d.stream_seq, d.protocol, d.user_data = 77, 9, 2, 53, b"abcde"
    k = S.SackChunk()
    k.cumulative_tsn, k.advertised_rwnd, k.gaps, k.duplicates = 5, 131072, [(2, 3)], [9]
    f = S.ForwardTsnChunk()
    f.cumulative_tsn, f.streams = 12, [(9, 0)]
    i = S.InitChunk()
    i.initiate_tag, i.advertised_rwnd, i.outbound_streams, i.inbound_streams, i.initial_tsn = 5, 131072, 65535, 65535, 7000
    i.params = [(0xC000, b""), (0x8008, b"\xc0\x82")]
    r = S.ReconfigChunk()
    r.params = [(13, bytes(S.StreamResetOutgoingParam(1, 2, 3, [4])))]
    pairs = [(d, c_data(77, 9, 2, 53, b"abcde", 7)), (k, c_sack(5, gaps=[(2, 3)], dups=[9])), (f, c_fwd(12, [(9, 0)])),
             (i, c_init(1, 5)), (r, c_reconfig([rp_reset(1, 2, 3, [4])]))]
    for obj, raw in pairs:
        if S.serialize_packet(5000, 5000, 0x1234, obj) != packet(0x1234, [raw]):
            raise T.MachineryError("raw builder disagrees with the real %s" % type(obj).__name__)


# --------------------------------------------------------------------------- run / replay

def run():
    rep = Report(PROP, level="fault_enumeration")
    thorough = tier() == "thorough"
    t0 = time.time()
    try:
        builder_selftest()
        present = present_deviations()
        with T.Scratch(prefix="verif_c05_") as sc:
            exh = T.tlc(sc, "Hostile", model_cfg(present=present, announce=True), workers=8, args=["-coverage", "1"],
                        timeout=900 if thorough else 240)
            if not exh.complete or exh.violated:
                raise T.MachineryError("design model Hostile failed: %s\n%s" % (exh.violated, exh.out[-2000:]))
            counts = exh.action_counts()
            dead = [a for a in ("ClientStart", "ClientInitAck", "ClientUp", "ServerInit", "ServerUp", "SendData", "Shutdown",
                                "MediaFlows", "Hostile", "Probe") if counts.get(a, (0, 0))[1] == 0]
            if dead:
                raise T.MachineryError("model actions never taken: %s" % dead)
            bud = printed_strings(exh, "BUDGET")
            if not bud:
                raise T.MachineryError("budget constants not announced by the model")
            BUDGET.update(base=bud[0][1], per_byte=bud[0][2])
            pairs = {}
            for v in printed_strings(exh, "PAIR"):
                pairs[tuple(v[1:7])] = (v[7], tuple(v[8]))
            pairs = [k + v for k, v in sorted(pairs.items())]
            if len(pairs) < 2000:
                raise T.MachineryError("only %d pairs announced" % len(pairs))
            check_alphabet(pairs)
            wits = ["WitnessNeverEnded"] + (["WitnessNeverProbed", "WitnessNoHostileInShutAck"] if thorough else [])
            for w in wits:
                wr = T.tlc(sc, "Hostile", model_cfg(invariants=[w]), workers=4, timeout=300)
                if w not in wr.violated:
                    raise T.MachineryError("vacuity: witness %s not violated" % w)
            # sensitivity: statically for every deviation (ASSUME in Hostile.tla, every run); as TLC
            # counter-examples for all of them in the thorough tier
            devs = ALL_DEVIATIONS if thorough else []
            dev_results = {}
            for d in devs:
                dr = T.tlc(sc, "Hostile", model_cfg(devs=[d]), workers=4, timeout=300)
                dev_results[d] = dr.violated[:1]
                if not dr.violated:
                    raise T.MachineryError("sensitivity: deviation %s produces no counter-example" % d)
        t_model = time.time() - t0
        cpu0 = os.times()

        cases = build_cases(pairs, thorough)
        traces = run_cases(cases, thorough, 12)
        t_exec = time.time() - t0 - t_model
        cpu1 = os.times()
        cpu_exec = (cpu1.children_user + cpu1.children_system + cpu1.user + cpu1.system) - \
                   (cpu0.children_user + cpu0.children_system + cpu0.user + cpu0.system)
        if not traces:
            raise T.MachineryError("no executions recorded")

        verdicts, vstates = judge([slim(t) for t in traces], 6 if thorough else 5, 1500)
        # binding self-test: corrupted copies of recorded traces must be rejected with the expected clause
        okp = next((t for t in traces if t["case"]["sub"] != "parser" and len(t["steps"]) == 2 and verdicts[t["id"]][0] == "ok"
                    and not t["steps"][0]["ctl"]), None)
        okq = next((t for t in traces if t["case"]["sub"] == "parser" and verdicts[t["id"]][0] == "ok"), None)
        if okp is None or okq is None:
            raise T.MachineryError("binding self-test: no accepted trace to corrupt")
        bad = []
        for field, val, exp in (("exc", "KeyError", "C05.exception_escaped"), ("work", 99999999, "C05.hang"),
                                ("down", True, "C05.transport_down"), ("task_exc", "ValueError", "C05.exception_escaped")):
            b = copy.deepcopy(slim(okp))
            b["steps"][0][field] = val
            bad.append((b, exp))
        b = copy.deepcopy(slim(okp))
        b["steps"][1]["served"] = False
        bad.append((b, "C05.valid_traffic_broken"))
        b = copy.deepcopy(slim(okq))
        b["steps"][0].update(exc="KeyError", isval=False)
        bad.append((b, "C05.parser_wrong_exception"))
        b = copy.deepcopy(slim(okq))
        b["steps"][0].update(exc="ValueError", isval=True)
        bad.append((b, "ok"))
        for n, (b, _) in enumerate(bad):
            b["id"] = n + 1
        bv, _ = judge([b for b, _ in bad], 1, 300)
        for b, exp in bad:
            if bv[b["id"]][0] != exp:
                raise T.MachineryError("binding self-test: expected %s, got %s" % (exp, bv[b["id"]][0]))

        # verdicts -> report
        by_clause = {}
        for t in traces:
            v, pos = verdicts[t["id"]]
            if v.startswith("machinery"):
                raise T.MachineryError("trace %d: %s" % (t["id"], v))
            if v != "ok":
                sig, step = signature_of(t, v, pos)
                by_clause[v] = by_clause.get(v, 0) + 1
                rep.violation(v, sig, {"case": t["case"], "step": {k: step.get(k) for k in ("entry", "exc", "fn", "timeout", "work", "len", "what", "hex", "cause", "after", "task_exc", "task_fn")}}, t)

        # agreement with the model's prediction (deviations still present in the code)
        pred = {p[:6]: (p[6], p[7]) for p in pairs}
        obs = {}
        for t in traces:
            c = t["case"]
            key = (c["sub"], c["role"] if c["sub"] != "parser" else "parser", c.get("st", "p") if c["sub"] != "parser" else "p", c["k"], c["c"], c["m"])
            o = obs.setdefault(key, {"bad": 0, "n": 0, "after": set()})
            o["n"] += 1
            if verdicts[t["id"]][0] in ("C05.exception_escaped", "C05.hang", "C05.parser_wrong_exception", "C05.valid_traffic_broken"):
                o["bad"] += 1
            elif c["sub"] == "sctp":
                a = t["steps"][0]["after"]
                o["after"].add("est" if a == "est" else a)
        agree = {"pred_bad_seen": 0, "pred_bad_not_seen": 0, "pred_clean_ok": 0, "pred_clean_but_bad": 0, "maybe": 0,
                 "state_agree": 0, "state_differs": 0}
        examples = []
        for key, o in obs.items():
            p, news = pred.get(key, ("?", ()))
            if p in ("crash", "over", "unserved"):
                agree["pred_bad_seen" if o["bad"] else "pred_bad_not_seen"] += 1
            elif p == "clean":
                agree["pred_clean_ok" if not o["bad"] else "pred_clean_but_bad"] += 1
                if o["bad"] and len(examples) < 8:
                    examples.append(list(key))
            else:
                agree["maybe"] += 1
            if key[0] == "sctp" and o["after"]:
                exp = {("est" if s in ("est_idle", "est_out") else "closed" if s in ("closed_init", "ended") else s) for s in news}
                agree["state_agree" if o["after"] <= exp else "state_differs"] += 1
        nontrivial = {nontrivial_key(t) for t in traces} - {None}
        samples = []
        for sub in ("sctp", "media", "parser"):
            for want in ("ok", "bad"):
                s = next((t for t in traces if t["case"]["sub"] == sub and (verdicts[t["id"]][0] == "ok") == (want == "ok")), None)
                if s is not None:
                    samples.append({"case": s["case"], "verdict": verdicts[s["id"]][0], "steps": s["steps"]})
        rep.coverage = {
            "evaluations": len(traces),
            "distinct_nontrivial": len(nontrivial),
            "rule": "cases = every (protocol state, hostile input class) pair TLC enumerates from Hostile.tla, each realised in its concrete variants (field values / truncation points / length values / bit positions / seeded random bytes) on the real objects, plus direct parser calls on the same corpus; a case is counted as distinct and non-trivial when its (subsystem, state, datagram bytes) is unique, the datagram is non-empty and it got past checksum and framing into chunk construction / the handlers (SCTP: not classified 'unparseable' by the harness' own framing walk, or it raised/hung anyway; media: every datagram, since SRTP is stubbed; parsers: unique (parser, bytes))",
            "samples": samples,
            "exhaustive": False,
            "states": exh.distinct, "transitions": exh.generated, "model_depth": exh.depth,
            "pairs_enumerated_by_tlc": len(pairs),
            "pairs_by_subsystem": {s: sum(1 for p in pairs if p[0] == s) for s in ("sctp", "media", "parser")},
            "cases_executed": len(cases),
            "traces_validated_against_impl": len(traces),
            "trace_validation_states": vstates,
            "verdicts_by_clause": by_clause,
            "witnesses_violated": wits,
            "deviations_with_counterexample": dev_results,
            "deviations_present_in_code": present,
            "prediction_agreement": agree,
            "prediction_mismatch_examples": examples,
            "action_coverage": {k: v[1] for k, v in counts.items()},
            "budget_events": dict(BUDGET),
            "binding_selftest": "6 corrupted traces rejected with the expected clauses, 1 ValueError parse accepted",
            "timing_s": {"model": round(t_model, 1), "execution": round(t_exec, 1), "execution_cpu": round(cpu_exec, 1), "total": round(time.time() - t0, 1)},
        }
        rep.assumptions = [
            "SRTP is an identity stub: datagrams libsrtp would reject also reach _handle_rtp_data/_handle_rtcp_data",
            "the decoder threads are replaced by a synchronous stand-in that performs decoder_worker's per-item work (get_decoder, decode, no exception handling) with the real decoders",
            "the step budget counts profile events (Python and C calls/returns); loops without any call are only caught by the %.0f s CPU backstop" % CPU_BACKSTOP,
            "exemptions (Hostile.tla Exempt): correctly tagged ABORT/SHUTDOWN(-COMPLETE), ERROR during set-up, INIT at a listening server, INIT-ACK in cookie-wait, BYE for a received SSRC, reset of the probe streams",
            "after an accepted hostile DATA / FORWARD-TSN the real peer's next TSN is moved behind the TSNs the hostile sender used and holes are filled with valid chunks (the peer did not send the hostile datagram)",
            "the harness' structural classification of injected bytes (ctl, cause) is trusted",
        ]
        return rep.finish()
    except T.MachineryError as e:
        return rep.finish(machinery_error=e)


def replay(path):
    """Re-execute the case of a saved failing trace on the current tree and re-judge it."""
    obj = json.load(open(path))
    t = obj["replay"]
    case = dict(t["case"])
    full = bool(case.pop("full", False))
    case.pop("vmax", None)
    with T.Scratch(prefix="verif_c05_") as sc:
        r = T.tlc(sc, "Hostile", model_cfg(invariants=["TypeOK"]), workers=2, timeout=300)
        bud = printed_strings(r, "BUDGET")
        if bud:
            BUDGET.update(base=bud[0][1], per_byte=bud[0][2])
        res = run_case((case, full, dict(BUDGET)))
        if isinstance(res, dict):
            print("MACHINERY-ERROR property=%s %s" % (PROP, res["machinery"][:1500]))
            return 2
        for i, x in enumerate(res):
            x["id"] = i + 1
        _, v = T.validate_traces(sc, "TraceHostile", TRACE_CFG, [slim(x) for x in res], timeout=300)
    rc = 0
    for x in res:
        verdict, pos = v.get(x["id"], ("machinery", 0))
        if verdict == "ok":
            print("replay: trace accepted on the current tree (%s)" % x["case"])
        else:
            sig, step = signature_of(x, verdict, pos)
            print("VIOLATION property=%s replay=%s clause=%s signature=%s" % (PROP, path, verdict, json.dumps(sig, sort_keys=True)))
            rc = 1
    return rc
