"""Shared check for the SCTP / data-channel properties C01 C02 C06 C13 C17.

Per property (see PROPS):
  1. design level: TLC checks SctpAssoc.tla (layer M) exhaustively for small
     configurations against the property's clauses (layer A on the history
     variables), checks witnesses (non-vacuity) and deviation constants (each seeded
     model defect must be found);
  2. spec -> code: TLC-simulated behaviours are replayed in lock step into a real
     pair of RTCSctpTransport objects (agreement measure, and the executions are
     recorded);
  3. code -> spec: the recorded executions, the saved regression schedules and seeded
     random programs / fault schedules at real sizes are judged by TraceDataChannel.tla
     (TLC) against the clauses of DataChannelObs.tla; only that produces VIOLATION;
  4. binding self-test.
"""
import concurrent.futures as cf
import copy
import json
import multiprocessing as mp
import os
import random
import sys

from . import common  # noqa: F401
from . import sctp_driver as D
from . import sctp_judge as J
from . import sctp_model as M
from . import tlc as T
from .common import Report, seed, tier

WRAP32 = [2 ** 32 - 1, 2 ** 32 - 2, 2 ** 32 - 5, 2 ** 32 - 40, 2 ** 32 - 300, 2 ** 31 - 3, 2 ** 31 + 2]


def _cfg_c01(r):
    # (a third of the runs also close channels and reuse their ids: "any number of channels" over time)
    # (and a third share the association with partially reliable channels: what those abandon must
    #  not damage the reliable ones - reported here with the C01 clause names)
    return D.Cfg(p_close=r.choice([0.0, 0.0, 0.05]), n_rel=r.randint(1, 4), n_pr=r.choice([0, 0, 1]), steps=r.choice([60, 90, 140]), p_drop=r.choice([0.05, 0.12, 0.25]),
                 p_dup=r.choice([0.0, 0.05, 0.12]), p_fire=0.05, p_app=0.3, max_msgs=r.choice([8, 14, 24]),
                 burst=r.choice([0, 0, 4]), origin_a=r.choice(D.ORIGINS), origin_b=r.choice(D.ORIGINS),
                 handshake_faults=r.random() < 0.2, unicode_labels=True)


def _cfg_c02(r):
    # (a third of the programs share the association with a partially reliable channel: what that
    #  abandons must not keep reliable traffic from draining - reported with the C02 clause names)
    return D.Cfg(n_rel=r.randint(1, 3), n_pr=r.choice([0, 0, 1]), steps=r.choice([80, 140, 220]), p_drop=r.choice([0.1, 0.2, 0.35]),
                 p_dup=r.choice([0.0, 0.05]), p_fire=r.choice([0.03, 0.08, 0.15]), p_app=0.3,
                 max_msgs=r.choice([12, 20, 40]), burst=r.choice([4, 8, 8, 12]),
                 sizes=[10, 10, 1200, 1200, 2400, 3600, 100, 0, 12000],
                 origin_a=r.choice(D.ORIGINS), origin_b=r.choice(D.ORIGINS), handshake_faults=r.random() < 0.5)


def _cfg_c06(r):
    return D.Cfg(n_rel=r.randint(1, 2), n_pr=r.randint(1, 3), steps=r.choice([80, 140, 220]),
                 p_drop=r.choice([0.1, 0.2, 0.35]), p_dup=r.choice([0.0, 0.05]), p_fire=r.choice([0.03, 0.08, 0.15]),
                 p_app=0.3, max_msgs=r.choice([12, 20, 40]), burst=r.choice([0, 4, 8]),
                 sizes=[10, 1200, 2400, 3600, 5000, 12000, 0, 100],
                 origin_a=r.choice(D.ORIGINS), origin_b=r.choice(D.ORIGINS))


def _cfg_c13(r):
    return D.Cfg(n_rel=r.randint(1, 3), n_pr=r.choice([0, 1]), negotiated=r.choice([0, 0, 1, 2]),
                 steps=r.choice([60, 100, 160]), p_drop=r.choice([0.0, 0.08, 0.2]), p_dup=r.choice([0.0, 0.05]),
                 p_fire=0.04, p_app=0.25, p_close=r.choice([0.03, 0.06, 0.1]), p_thr=0.05,
                 early_ops=r.random() < 0.5, handshake_faults=r.random() < 0.3, unicode_labels=True,
                 burst=r.choice([0, 4]), max_msgs=16, protect_reconfig=r.random() < 0.4,
                 origin_a=r.choice(D.ORIGINS), origin_b=r.choice(D.ORIGINS))


def _cfg_c17(r):
    c = r.choice([_cfg_c01, _cfg_c02, _cfg_c06, _cfg_c13])(r)
    c.p_close = 0.0                          # (closing is C13's business: K01-K03 and their consequences)
    c.origin_a, c.origin_b = 1000, 2000      # the reference run; shifted origins are replays
    c.unicode_labels = False
    c.protect_reconfig = True
    c.sseq_ops = True
    return c


DESIGN_INV = ["C01_Delivery", "C01_Intact", "C06_Delivery", "C02_NoDeadStall", "C02_NoLoss", "C06_CaughtUp",
              "C06_NoOrphans", "FlightConsistent"]

PROPS = {
    "C01": dict(focus=["C01", "EXC"], gen=_cfg_c01, nrand=(260, 2500), nsim=(60, 600), sim="sim-rel",
                design=(["rel-small"], ["rel-small", "rel-mid", "rel-burst"]),
                witnesses=["W_NoRetransmission", "W_NoReassembly", "W_NotAllDelivered"],
                deviations=[("DupNotFiltered", "rel-small")],
                bind="C01"),
    "C02": dict(focus=["C02", "EXC"], gen=_cfg_c02, nrand=(220, 2500), nsim=(60, 600), sim="sim-rel",
                design=(["rel-small"], ["rel-small", "rel-mid", "rel-burst"]),
                witnesses=["W_NoRetransmission", "W_NoReassembly", "W_NotAllDelivered"],
                witnesses_thorough=[("W_NoFastRecovery", "rel-mid")],
                deviations=[("NoT3OnRetx", "rel-small"), ("NoFlushOnSack", "rel-small")],
                liveness=True, bind="C02"),
    "C06": dict(focus=["C06", "EXC"], gen=_cfg_c06, nrand=(220, 2500), nsim=(60, 600), sim="sim-pr", sim2="sim-life",
                design=(["pr-tiny", "pr-fwdloss"], ["pr-tiny", "pr-fwdloss", "pr-back", "pr-life", "pr-small", "pr-big", "pr-mix"]),
                witnesses=["W_NoAbandon", "W_NoRetransmission", "W_NotAllDelivered"],
                deviations=[("NoFwdResend", "pr-fwdloss"), ("FwdSeqBackward", "pr-back"),
                            ("AbandonSentOnly", "pr-big"), ("PruneAllStreams", "pr-small"), ("FlightLeakOnAbandon", "pr-big")],
                bind="C06"),
    "C13": dict(focus=["C13", "EXC"], gen=_cfg_c13, nrand=(300, 3000), nsim=(0, 0), sim=None,
                design=([], []), witnesses=[], deviations=[], bind="C13"),
    "C17": dict(focus=["C17", "EXC"], gen=_cfg_c17, nrand=(70, 600), nsim=(40, 300),
                sim="sim-pr", design=([], []), witnesses=[], deviations=[], bind="C17"),
}


# --------------------------------------------------------------------------- workers


def _random_batch(args):
    prop, sd, k0, k1 = args
    p = PROPS[prop]
    out = []
    for k in range(k0, k1):
        r = random.Random(sd * 7919 + k * 104729 + int(prop[1:]))
        cfg = p["gen"](r)
        tr = D.random_ops(r, cfg)
        tr["focus"] = p["focus"]
        tr["meta"] = {"src": "random", "k": k}
        if prop in ("C01", "C02"):
            tr["pr"] = False      # name damage to reliable channels C01.* / C02.* even when PR channels exist
        if prop == "C17":
            ref = tr["events"]
            tr["ref"] = ref
            out.append(tr)
            # shifted replays of the very same op list
            for j in range(2):
                oa, ob = r.choice(WRAP32), r.choice(WRAP32 + [5])
                sq = r.choice([65535, 65533, 65500, 32767])
                ops = [(o[0], o[1], sq) if o[0] == "sseq" else tuple(o) for o in tr["ops"]]
                t2 = D.run_ops(ops, oa, ob, meta={"src": "origin-shift", "k": k})
                t2["focus"] = p["focus"]
                t2["ref"] = ref
                out.append(t2)
        else:
            out.append(tr)
    return out


def _lockstep_batch(args):
    prop, cfgname, behs, origins = args
    config = M.SIM_CONFIGS.get(cfgname) or M.CONFIGS[cfgname]
    out = []
    for i, beh in enumerate(behs):
        acts = [st["act"] for _, st in beh[1:]]
        variants = [(None, None)] if not origins else origins
        ref = None
        for vi, (oa, ob) in enumerate(variants):
            sq = [0, 65535, 65534, 65533][vi % 4] if origins else 0
            ls = M.LockStep(config, oa, ob, sseq=sq)
            try:
                tr = ls.run(beh)
            finally:
                ls.close()
            tr["focus"] = PROPS[prop]["focus"]
            tr["meta"] = {"src": "lockstep", "config": cfgname, "acts": acts, "origin": [oa, ob], "sseq": sq}
            if origins:
                if ref is None:
                    ref = _strip_setup(tr["events"])
                tr["ref"] = ref
                tr["events"] = _strip_setup(tr["events"])
            out.append(tr)
    return out


def _strip_setup(events):
    return events


def _pool(fn, jobs, procs):
    if procs <= 1 or len(jobs) <= 1:
        return [fn(j) for j in jobs]
    ctx = mp.get_context("fork")
    with cf.ProcessPoolExecutor(max_workers=procs, mp_context=ctx) as ex:
        return list(ex.map(fn, jobs))


# --------------------------------------------------------------------------- C17 part 1: serial arithmetic

SERIAL_CFG = """SPECIFICATION Spec
CONSTANT M = %d
INVARIANT FormulaIsReference
INVARIANT Antisymmetric
INVARIANT AddConsistent
INVARIANT TotalBelowHalf
INVARIANT OriginFree
CHECK_DEADLOCK FALSE
"""


def _limbs(x):
    return [(x >> 16) & 0xFFFF, x & 0xFFFF]


def _serial_calls(r, thorough):
    """Call the real helpers on boundary-biased operand pairs; returns batches of call records."""
    from aiortc import utils
    from aiortc import rtcsctptransport as S
    calls = []

    def pairs(bits, n_a):
        mod = 1 << bits
        half = mod >> 1
        specials = [0, 1, 2, half - 2, half - 1, half, half + 1, half + 2, mod - 3, mod - 2, mod - 1]
        avals = list(specials)
        if bits == 16 and thorough:
            avals = list(range(mod))
        else:
            avals += [r.randrange(mod) for _ in range(n_a)]
        for a in avals:
            deltas = [0, 1, 2, 3, half - 2, half - 1, half, half + 1, half + 2, mod - 2, mod - 1,
                      r.randrange(mod), r.randrange(1, 300)]
            for d in deltas:
                yield a, (a + d) % mod
                yield a, (a - d) % mod
            for b in specials[:4] + specials[-2:]:
                yield a, b

    for a, b in pairs(16, 400 if not thorough else 0):
        calls.append({"fn": "uint16_gt", "a": a, "b": b, "res": bool(utils.uint16_gt(a, b))})
        calls.append({"fn": "uint16_gte", "a": a, "b": b, "res": bool(utils.uint16_gte(a, b))})
    for a, b in pairs(16, 60):
        d = b % 1000
        calls.append({"fn": "uint16_add", "a": a, "b": d, "res": utils.uint16_add(a, d)})
    for a, b in pairs(32, 600 if not thorough else 6000):
        calls.append({"fn": "uint32_gt", "a": _limbs(a), "b": _limbs(b), "res": bool(utils.uint32_gt(a, b))})
        calls.append({"fn": "uint32_gte", "a": _limbs(a), "b": _limbs(b), "res": bool(utils.uint32_gte(a, b))})
    for a, b in pairs(32, 40):
        d = b % 60000
        calls.append({"fn": "uint32_add", "a": _limbs(a), "b": d, "res": _limbs(utils.uint32_add(a, d))})
        calls.append({"fn": "tsn_plus_one", "a": _limbs(a), "res": _limbs(S.tsn_plus_one(a))})
        calls.append({"fn": "tsn_minus_one", "a": _limbs(a), "res": _limbs(S.tsn_minus_one(a))})
    return calls


def _apalache(sc, cinit, inv, timeout=300):
    """One symbolic run of SerialApa.tla (length 0: the invariant over all initial states, i.e.
    over all integer triples below the modulus).  Returns (holds, counterexample state or None)."""
    import glob
    import json as _json
    import shutil as _sh
    exe = _sh.which("apalache-mc")
    if exe is None:
        return None, None
    out = os.path.join(sc.dir, "apa_%s_%s" % (cinit, inv))
    rc, txt, _, timed_out = T._run([exe, "check", "--cinit=" + cinit, "--inv=" + inv, "--length=0",
                                    "--out-dir=" + out, "SerialApa.tla"], sc.dir, timeout,
                                   env={"JVM_ARGS": "-Xmx2g", "TMPDIR": sc.dir})   # the launcher puts its SANY temp dir under $TMPDIR
    if timed_out:
        return None, "apalache timed out on %s/%s" % (cinit, inv)
    if "The outcome is: NoError" in txt:
        return True, None
    if "The outcome is: Error" in txt:
        cex = None
        for f in sorted(glob.glob(os.path.join(out, "*", "*", "violation.itf.json")) +
                        glob.glob(os.path.join(out, "*", "*", "violation1.itf.json"))):
            st = _json.load(open(f))["states"][-1]
            cex = {k: int(v["#bigint"]) if isinstance(v, dict) else int(v) for k, v in st.items() if k in ("a", "b", "d")}
            break
        return False, cex
    return None, "apalache gave no verdict on %s/%s: %s" % (cinit, inv, txt[-300:].replace("\n", " "))


def _serial_symbolic(sc):
    """C17 lemmas for the real moduli 2^16 and 2^32, all operand pairs (SerialApa.tla, Apalache/SMT);
    the counter-examples of the two witness invariants are returned as operand pairs for the real code."""
    from concurrent.futures import ThreadPoolExecutor
    jobs = [("CInit16", "AllLemmas"), ("CInit32", "AllLemmas"), ("CInit32", "W_NumericOrder"),
            ("CInit32", "W_TotalEverywhere"), ("CInit16", "W_NumericOrder"), ("CInit32", "W_NumericSortKey")]
    with ThreadPoolExecutor(max_workers=len(jobs)) as ex:
        res = list(ex.map(lambda j: _apalache(sc, *j), jobs))
    unavailable = [c for h, c in res if h is None]
    if unavailable:
        # the solver stage is an addition: without it the small-modulus TLC result decides, as before
        return {"serial_symbolic": "Apalache stage unavailable (%s): lemmas decided for the small modulus by TLC only"
                                   % (unavailable[0] or "apalache-mc not on PATH")}, []
    pairs = []
    for (cinit, inv), (holds, cex) in zip(jobs, res):
        if inv == "AllLemmas" and not holds:
            raise T.MachineryError("SerialApa.tla: lemmas refuted for %s: %r" % (cinit, cex))
        if inv != "AllLemmas":
            if holds or cex is None:
                raise T.MachineryError("SerialApa.tla: witness %s not refuted for %s" % (inv, cinit))
            pairs.append((32 if cinit == "CInit32" else 16, cex["a"], cex["b"]))
    return {"serial_symbolic": "Apalache: AllLemmas (formula = reference order, antisymmetry, consistency with addition, "
                               "totality, transitivity and monotonicity below half, origin freedom, successor/predecessor inverse, "
                               "distance sort key = serial order) hold for ALL operand triples at M = 2^16 "
                               "and M = 2^32; witnesses W_NumericOrder / W_TotalEverywhere / W_NumericSortKey refuted",
            "serial_symbolic_counterexample_pairs": [list(p) for p in pairs]}, pairs


def _serial_stage(rep, thorough):
    r = random.Random(seed() * 31 + 17)
    with T.Scratch() as sc:
        sym_cov, sym_pairs = _serial_symbolic(sc)
        res = T.tlc(sc, "Serial", SERIAL_CFG % (1024 if thorough else 256), workers=8, timeout=600)
        if res.violated or not res.complete:
            raise T.MachineryError("Serial.tla lemmas failed: %s\n%s" % (res.violated, res.out[-800:]))
        wit = T.tlc(sc, "Serial", "SPECIFICATION Spec\nCONSTANT M = 16\nINVARIANT W_NoWrapCase\nCHECK_DEADLOCK FALSE\n",
                    workers=2, timeout=120)
        if "W_NoWrapCase" not in wit.violated:
            raise T.MachineryError("Serial.tla: wrap witness not reached")
        calls = _serial_calls(r, thorough)
        # spec -> code: the solver's wrap-point / antipode counter-examples go through the real functions
        from aiortc import utils as _u
        for bits, a, b in sym_pairs:
            for x, y in ((a, b), (b, a)):
                if bits == 16:
                    calls.append({"fn": "uint16_gt", "a": x, "b": y, "res": bool(_u.uint16_gt(x, y))})
                    calls.append({"fn": "uint16_gte", "a": x, "b": y, "res": bool(_u.uint16_gte(x, y))})
                else:
                    calls.append({"fn": "uint32_gt", "a": _limbs(x), "b": _limbs(y), "res": bool(_u.uint32_gt(x, y))})
                    calls.append({"fn": "uint32_gte", "a": _limbs(x), "b": _limbs(y), "res": bool(_u.uint32_gte(x, y))})
        size = 20000
        batches = [{"id": i + 1, "calls": calls[k:k + size]} for i, k in enumerate(range(0, len(calls), size))]
        val, verdicts = T.validate_traces(sc, "TraceSerial", "SPECIFICATION TraceSpec\nCHECK_DEADLOCK FALSE\n",
                                          batches, timeout=1500)
        if len(verdicts) != len(batches):
            raise T.MachineryError("TraceSerial incomplete\n" + val.out[-1500:])
        # binding: one wrong result must be rejected
        bad = {"id": 1, "calls": [dict(calls[0], res=not calls[0]["res"])]}
        _, bv = T.validate_traces(sc, "TraceSerial", "SPECIFICATION TraceSpec\nCHECK_DEADLOCK FALSE\n", [bad], timeout=120)
        if bv.get(1, ("?", 0))[0] != "C17.serial_compare":
            raise T.MachineryError("TraceSerial binding self-test failed: %r" % (bv,))
    for b in batches:
        v, pos = verdicts[b["id"]]
        if v.startswith("machinery"):
            raise T.MachineryError(v)
        if v != "ok":
            c = b["calls"][pos - 1]
            rep.violation(v, {"clause": v, "fn": c["fn"]}, {"call": c}, {"serial_call": c})
    return {**sym_cov, "serial_model_states": res.distinct, "serial_modulus_exhaustive": 1024 if thorough else 256,
            "serial_calls_validated": len(calls), "serial_16bit_first_operand_exhaustive": bool(thorough)}


# --------------------------------------------------------------------------- C17 for the RTP sequence spaces


def _rtp_origin_stage(rep, thorough):
    """C17 names the RTP sequence numbers and timestamps in the jitter buffer, loss detection,
    receiver statistics and retransmission history too.  The harnesses of C10 and C11 run every
    schedule under several origins (next to 2^16 / 2^32 and small) and their trace specifications
    carry the clauses C17.jitter_origin / C17.media_origin; this stage runs those origin groups
    here and reports the C17 clauses (the other clauses of those traces belong to C10 / C11)."""
    import random as _random
    from . import c10_jitterbuffer as J10
    from . import c11_medialoop as M11
    out = {}
    r = _random.Random(seed() * 977 + 1710)
    # jitter buffer: schedules x origins, judged by TraceJitterBuffer.tla
    jt = []
    J10.random_traces(False, r, jt)
    if not thorough:
        jt = jt[:160]
    for i, t in enumerate(jt):
        t["id"] = i + 1
    with T.Scratch(prefix="verif_c17j_") as sc:
        _, jv = J10.judge(sc, jt, timeout=1500)
    nj = 0
    for t in jt:
        v = jv[t["id"]][0]
        if v.startswith("C17."):
            nj += 1
            rep.violation(v, {"clause": v}, {"capacity": t.get("cap"), "prefetch": t.get("pf"), "video": t.get("video"),
                                             "origins": [x["origin"] for x in t.get("runs", [])]},
                          {"kind": "jitter", "trace": t})
    out["rtp_jitter_schedules_x_origins"] = sum(len(t.get("runs", [])) for t in jt)
    # media loop: schedules x all origins, judged by TraceMediaLoop.tla (origin groups only)
    nspec = 160 if thorough else 24
    jobs = [(s_, list(range(len(M11.ORIGINS)))) for s_ in M11.REGRESSION_SPECS]
    for i in range(nspec):
        jobs.append((M11.random_spec(r, i, thorough), list(range(len(M11.ORIGINS)))))
    groups = []
    nruns = 0
    for trs in M11.run_schedules(jobs, min(12, os.cpu_count() or 2)):
        nruns += len(trs)
        groups.append({"id": len(groups) + 1, "kind": "origins", "obs": [M11.digest(t) for t in trs],
                       "spec": trs[0]["spec"], "origins": [t["origin"] for t in trs]})
    with T.Scratch(prefix="verif_c17m_") as sc:
        _, mv = M11.judge(sc, [{k: g[k] for k in ("id", "kind", "obs")} for g in groups], timeout=1500)
    for g in groups:
        v, pos = mv[g["id"]]
        if v.startswith("C17."):
            rep.violation(v, {"clause": v}, {"variant": pos, "origins": g["origins"], "class": g["spec"].get("cls")},
                          {"kind": "origins", "spec": g["spec"], "origins": g["origins"], "obs": g["obs"]})
        elif v.startswith("machinery"):
            raise T.MachineryError("media origin group: " + v)
    out["rtp_media_schedules"] = len(groups)
    out["rtp_media_runs"] = nruns
    # receiver statistics: arrival histories in ideal (origin-free) terms executed on a real
    # RTCRtpReceiver with small origins and with sequence numbers / timestamps next to the wrap
    # points; what the receiver reports (relative to the origins) must be the same
    from . import c18_rrstats as R18
    sgroups = []
    nh = 60 if thorough else 18
    for i in range(nh):
        h = R18.gen_history(r, ["plain", "wrapts", "transit0"][i % 3])
        step = R18.STEP[h["clock"]]
        obs, origins = [], []
        for vi in range(3):
            hv = copy.deepcopy(h)
            for si, stm in enumerate(hv["streams"]):
                if vi == 0:
                    stm["seq0"], stm["tso"] = 100 + si, str(5000 + si)
                elif vi == 1:
                    stm["seq0"], stm["tso"] = 65535 - 2 - si, str((1 << 32) - 3 * step - 7 - si)
                else:
                    stm["seq0"], stm["tso"] = 32767 - si, str((1 << 31) - 2 * step - si)
            tr = R18.execute(hv)
            d = []
            for stp in tr["steps"]:
                if stp["op"] == "add":
                    d.append([1, stp["s"], stp["recv"]])
                elif stp["op"] == "report":
                    for b in sorted(stp["reps"], key=lambda x: x["s"]):
                        ext = ((b["hh"] << 16) | b["hl"]) - hv["streams"][b["s"] - 1]["seq0"]
                        d.append([2, b["s"], b["fl"], b["pl"], ext >> 16, ext & 0xFFFF, b["jh"], b["jl"], stp["failed"]])
                    if not stp["reps"]:
                        d.append([2, 0, stp["failed"]])
            obs.append(d)
            origins.append([[stm["seq0"], stm["tso"]] for stm in hv["streams"]])
        sgroups.append({"id": len(sgroups) + 1, "kind": "origins", "obs": obs, "origins": origins, "hist": h})
    with T.Scratch(prefix="verif_c17s_") as sc:
        _, sv = M11.judge(sc, [{k: g[k] for k in ("id", "kind", "obs")} for g in sgroups], timeout=900)
    for g in sgroups:
        v, pos = sv[g["id"]]
        if v.startswith("C17."):
            rep.violation(v, {"clause": v, "stage": "receiver_statistics"},
                          {"stage": "receiver statistics (StreamStatistics / receiver reports)", "variant": pos, "origins": g["origins"]},
                          {"kind": "stats_origins", "hist": g["hist"], "origins": g["origins"], "obs": g["obs"]})
        elif v.startswith("machinery"):
            raise T.MachineryError("statistics origin group: " + v)
    out["rtp_statistics_histories_x_origins"] = 3 * len(sgroups)
    return out


# --------------------------------------------------------------------------- C17 design level: SctpAssoc modulo M


def _wrap_stage(thorough):
    """SctpAssoc.tla with TSNs modulo 16 and stream sequence numbers modulo 8, started at origins
    next to the wrap points: the clauses of C01 / C02 / C06 hold for every origin and the state
    graph has the same size as with unbounded numbers; comparing TSNs numerically breaks them."""
    out = {"wrap_runs": []}
    with T.Scratch() as sc:
        bases = ["rel-small", "pr-tiny"] + (["pr-life", "pr-back"] if thorough else [])
        origins = ([(o, (o * 3 + 5) % 8) for o in range(16)] if thorough else [(0, 0), (13, 6), (15, 7)])
        ref = {}
        states = trans = 0
        for b in bases:
            r0 = M.run_tlc(sc, M.CONFIGS[b], DESIGN_INV, timeout=1500)
            ref[b] = r0.distinct
            for o, so in (origins if thorough or b == "rel-small" else origins[-1:]):
                cfg = M.CONFIGS[b].wrapped(16, o, 8, so)
                res = M.run_tlc(sc, cfg, DESIGN_INV, timeout=1500)
                if res.violated or not res.complete:
                    raise T.MachineryError("SctpAssoc modulo 16 at origin %d/%d (%s) fails: %s\n%s" % (
                        o, so, b, res.violated, res.out[-1000:]))
                if res.distinct != ref[b]:
                    raise T.MachineryError("SctpAssoc modulo 16 at origin %d/%d (%s): %d states, unbounded %d" % (
                        o, so, b, res.distinct, ref[b]))
                states += res.distinct
                trans += res.generated
                out["wrap_runs"].append([b, o, so, res.distinct])
        dv = M.run_tlc(sc, M.CONFIGS["rel-small"].wrapped(16, 14, 8, 7), DESIGN_INV, dev=["NumericTsnCompare"], timeout=900)
        if not dv.violated:
            raise T.MachineryError("sensitivity: NumericTsnCompare not detected at origin 14")
        out["wrap_deviation_NumericTsnCompare"] = dv.violated[:1]
        out["wrap_states"], out["wrap_transitions"] = states, trans
    return out


# --------------------------------------------------------------------------- C13 design level: DcLifecycle.tla

DCL_INV = ["EventsOnce", "IdParity", "NoCollision", "Faithful", "NoBad", "EndClosesAll", "CloseCompleteWhenQuiet"]
DCL_WIT = ["W_NeverBothClosed", "W_NoIdReuse", "W_NoMessage"]
DCL_DEVS = [("AckReopens", "StateForward"), ("ResetBeforeAck", "CloseCompleteWhenQuiet"),
            ("CloseNoIdQueuesReset", "NoBad"), ("QueuedNotClosedAtEnd", "EndClosesAll"),
            ("NoReconfigRetx", "CloseCompleteWhenQuiet")]


def _dcl_cfg(maxobj, creates, sends, reuse, dev=(), inv=DCL_INV, forward=True, spec="Spec", props=(), loss=1):
    lines = ["SPECIFICATION " + spec, "CONSTANTS", " MaxObj = %d" % maxobj, " MaxApiCreate = %d" % creates,
             " MaxSend = %d" % sends, " AllowReuse = %s" % ("TRUE" if reuse else "FALSE"), " MaxLoss = %d" % loss,
             " Dev = {%s}" % ", ".join('"%s"' % d for d in dev)]
    lines += ["INVARIANT " + i for i in inv]
    if forward:
        lines.append("PROPERTY StateForward")
    lines += ["PROPERTY " + x for x in props]
    if spec == "Spec":
        lines.append("VIEW View")      # `act` is history
    lines.append("CHECK_DEADLOCK FALSE")
    return "\n".join(lines) + "\n"


def _lifecycle_stage(thorough):
    """Design-level check of the channel lifecycle model (C13): clauses hold when ids are not
    reused and RE-CONFIG is not lost; each repaired defect (deviation) is found; the two
    recorded findings K02 / K03 are reproduced as model-level counter-examples."""
    out = {}
    with T.Scratch() as sc:
        size = (4, 2, 1) if thorough else (3, 2, 1)
        res = T.tlc(sc, "DcLifecycle", _dcl_cfg(*size, reuse=False), workers=16, args=["-coverage", "1"], timeout=2400)  # small model: coverage is cheap
        if res.violated or not res.complete:
            raise T.MachineryError("DcLifecycle fails its own clauses: %s\n%s" % (res.violated, res.out[-1200:]))
        out["lifecycle_states"], out["lifecycle_transitions"] = res.distinct, res.generated
        cov = {k: v[1] for k, v in res.action_counts().items()}
        out["lifecycle_action_coverage"] = cov
        dead = [a for a in ("Create", "FlushTask", "Send", "Close", "AssocEnd", "Establish", "RetxReconfig")
                if not cov.get(a)]
        if dead:
            raise T.MachineryError("vacuity: lifecycle actions never taken: %s" % dead)
        for x in DCL_WIT:      # one run each: TLC stops at the first violation
            w = T.tlc(sc, "DcLifecycle", _dcl_cfg(4, 2, 1, reuse=True, inv=[x], forward=False), workers=4, timeout=1500)
            if x not in w.violated:
                raise T.MachineryError("vacuity: lifecycle witness not reached: %s" % x)
        devs = {}
        for d, clause in (DCL_DEVS if thorough else DCL_DEVS[:2]):
            r = T.tlc(sc, "DcLifecycle", _dcl_cfg(4, 2, 1, reuse=False, dev=[d]), workers=8, timeout=1500)
            devs[d] = r.violated[:1]
            if clause not in r.violated:
                raise T.MachineryError("sensitivity: lifecycle deviation %s not detected (%s)" % (d, r.violated))
        out["lifecycle_deviations_detected"] = devs
        k3 = T.tlc(sc, "DcLifecycle", _dcl_cfg(4, 2, 1, reuse=True), workers=8, timeout=1500)
        out["K03_reproduced_in_model"] = "NoBad" in k3.violated
        if thorough:
            lv = T.tlc(sc, "DcLifecycle", _dcl_cfg(3, 1, 1, reuse=False, inv=[], forward=False, spec="FairSpec",
                                                   props=["CloseCompletes"]), workers=8, timeout=2400)
            if lv.violated or lv.error:
                raise T.MachineryError("DcLifecycle fails CloseCompletes: %s\n%s" % (lv.violated, lv.out[-800:]))
            out["lifecycle_liveness_CloseCompletes"] = bool(lv.complete)
            out["lifecycle_states"] += lv.distinct
            out["lifecycle_transitions"] += lv.generated
    return out


def _dcl_lockstep_stage(prop, thorough, sd):
    """spec -> code for the lifecycle model: simulated behaviours of DcLifecycle.tla (without
    and with id reuse, and with RE-CONFIG loss = K02) are replayed into real pairs, all model
    variables compared after every action (harness/dcl_lockstep.py).  Sensitivity: behaviours of
    the model with a repaired defect re-enabled must DISAGREE with the (repaired) code."""
    from .dcl_lockstep import DclLockStep
    out = {}
    traces = []
    n = 1500 if thorough else 200
    faithful = [("plain", False, 0), ("id-reuse", True, 0), ("reconfig-loss", False, 2), ("reconfig-loss-id-reuse", True, 1)]
    sens = ["AckReopens", "ResetBeforeAck", "CloseNoIdQueuesReset", "QueuedNotClosedAtEnd", "DupRequestReprocessed"]
    behs = {}
    with T.Scratch() as sc:
        for name, reuse, loss in faithful:
            r, b = T.simulate(sc, "DcLifecycle", _dcl_cfg(4, 3, 2, reuse=reuse, loss=loss, inv=[], forward=False, spec="SimSpec"),
                              num=n, depth=40, seed=sd + len(behs), timeout=900)
            if not b:
                raise T.MachineryError("no simulated lifecycle behaviours (%s)\n%s" % (name, r.out[-800:]))
            behs[name] = b
        for d in sens:
            r, b = T.simulate(sc, "DcLifecycle", _dcl_cfg(4, 3, 2, reuse=(d == "DupRequestReprocessed"), dev=[d], inv=[], forward=False,
                                                         spec="SimSpec", loss=2),
                              num=600 if d == "DupRequestReprocessed" else 150, depth=40, seed=sd + 7, timeout=600)
            behs["dev:" + d] = b
    steps = matched = 0
    mism = []
    acts = {}
    for name, _, _ in faithful:
        for beh in behs[name]:
            ls = DclLockStep()
            try:
                tr = ls.run(beh)
            finally:
                ls.close()
            steps += tr["steps"]
            matched += tr["matched"]
            for a in ls.acts:
                acts[a["op"]] = acts.get(a["op"], 0) + 1
            if tr["mismatch"] and len(mism) < 5:
                mism.append("%s: %s" % (name, tr["mismatch"]))
            if len(traces) < (400 if thorough else 120) and not tr.pop("unjudged", False):
                tr["focus"] = PROPS[prop]["focus"]
                tr["meta"] = {"src": "lifecycle-lockstep", "acts": [_jsonable(a) for a in ls.acts]}
                traces.append(tr)
    out["lifecycle_lockstep_behaviours"] = sum(len(behs[x[0]]) for x in faithful)
    out["lifecycle_lockstep_steps"], out["lifecycle_lockstep_agreeing"] = steps, matched
    out["lifecycle_lockstep_first_mismatches"] = mism
    out["lifecycle_lockstep_actions"] = acts
    div = {}
    for d in sens:
        k = 0
        for beh in behs["dev:" + d]:
            ls = DclLockStep()
            try:
                tr = ls.run(beh)
            finally:
                ls.close()
            k += 1 if tr["mismatch"] else 0
        div[d] = k
    # (per deviation the number of diverging behaviours depends on the seed - some need a rare
    #  interleaving - so the self-test asks for divergence of the family as a whole)
    if sum(div.values()) == 0 and steps == matched:
        raise T.MachineryError("lock-step binding lost: behaviours of DcLifecycle with repaired defects re-enabled agree with the code")
    out["lifecycle_lockstep_deviating_models_diverge"] = div
    return out, traces


REPO_TESTS = [("tests/test_rtcsctptransport.py", "RTCSctpTransportTest"),
              ("tests/test_rtcpeerconnection.py", "datachannel")]


def _repo_tests_stage(prop):
    """The repository's own tests as a trace source: the tests that use data channels are run
    under pytest in the tree under test with the recorder plugin harness/pytest_plugin/verif_trace.py
    (loaded with -p; nothing in the repository changes) and every recorded execution is judged
    like any other trace (event-driven clauses only: the tests have no final quiescence).  The
    tests' own verdicts are not used; a tree on which no trace can be recorded at all is a
    machinery failure."""
    import subprocess
    import tempfile
    from .common import REPO
    plug = os.path.join(os.path.dirname(os.path.abspath(__file__)), "pytest_plugin")
    fd, path = tempfile.mkstemp(prefix="verif_rt_", suffix=".ndjson")
    os.close(fd)
    env = dict(os.environ, VERIF_TRACE_OUT=path, PYTHONPATH=os.path.join(REPO, "src") + os.pathsep + plug,
               PYTHONDONTWRITEBYTECODE="1")
    out = {"repo_tests_recorded": 0, "repo_tests_run": 0}
    traces = []
    try:
        for f, k in REPO_TESTS:
            try:
                subprocess.run([sys.executable, "-m", "pytest", "-q", "-p", "no:cacheprovider", "-p", "verif_trace",
                                f, "-k", k, "--timeout=300"],
                               cwd=REPO, env=env, stdout=subprocess.DEVNULL, stderr=subprocess.DEVNULL, timeout=900)
            except subprocess.TimeoutExpired:
                out["repo_tests_timeout"] = f
        for line in open(path):
            o = json.loads(line)
            out["repo_tests_run"] += 1
            if not o.get("events"):
                continue
            tr = {"events": o["events"], "pr": bool(o.get("pr")) and prop != "C01", "ops": [], "origin": [None, None],
                  "focus": PROPS[prop]["focus"], "meta": {"src": "repo-test", "test": o["test"]}}
            traces.append(tr)
    finally:
        os.unlink(path)
    out["repo_tests_recorded"] = len(traces)
    out["repo_test_events"] = sum(len(t["events"]) for t in traces)
    if not traces:
        raise T.MachineryError("no trace could be recorded from the repository's own tests (%d run)" % out["repo_tests_run"])
    return out, traces


TEARDOWN_INV = ["TimerIffAckSent", "EndClosesChannel", "EndsForAReason", "Bounded", "ChannelOpenWhileUp"]
TEARDOWN_DEVS = [("CompleteAnyState", "EndsForAReason"), ("NoT2Restart", "TimerIffAckSent"),
                 ("ChannelsSurviveEnd", "EndClosesChannel"), ("NoGiveUp", "Bounded")]
TEARDOWN_WIT = ["W_NeverGaveUp", "W_NeverCompleted", "W_NoRevival"]


def _td_cfg(retrans, inject, dev=(), inv=TEARDOWN_INV, spec="Spec", props=()):
    lines = ["SPECIFICATION " + spec, "CONSTANTS", " MaxRetrans = %d" % retrans, " MaxInject = %d" % inject,
             " Dev = {%s}" % ", ".join('"%s"' % d for d in dev)]
    lines += ["INVARIANT " + i for i in inv] + ["PROPERTY " + x for x in props]
    if spec == "Spec":
        lines.append("VIEW View")
    lines.append("CHECK_DEADLOCK FALSE")
    return "\n".join(lines) + "\n"


def _teardown_stage(prop, thorough, sd):
    """SctpTeardown.tla (passive SHUTDOWN handshake, T2, ABORT, stop): exhaustive check, witnesses,
    deviations, liveness `Ends`; lock-step replay with the code's own retransmission limit."""
    from .teardown_lockstep import TeardownLockStep
    out = {}
    traces = []
    with T.Scratch() as sc:
        res = T.tlc(sc, "SctpTeardown", _td_cfg(3, 4), workers=4, timeout=600)
        if res.violated or not res.complete:
            raise T.MachineryError("SctpTeardown fails its own clauses: %s\n%s" % (res.violated, res.out[-1000:]))
        out["teardown_states"], out["teardown_transitions"] = res.distinct, res.generated
        for w in TEARDOWN_WIT:
            r = T.tlc(sc, "SctpTeardown", _td_cfg(2, 3, inv=[w]), workers=2, timeout=300)
            if w not in r.violated:
                raise T.MachineryError("vacuity: teardown witness %s not reached" % w)
        devs = {}
        for d, clause in TEARDOWN_DEVS:
            r = T.tlc(sc, "SctpTeardown", _td_cfg(2, 3, dev=[d]), workers=2, timeout=300)
            hit = clause in r.violated
            devs[d] = r.violated[:1]
            if not hit:
                raise T.MachineryError("sensitivity: teardown deviation %s not detected (%s)" % (d, r.violated))
        out["teardown_deviations_detected"] = devs
        lv = T.tlc(sc, "SctpTeardown", _td_cfg(3, 3, inv=[], spec="FairSpec", props=["Ends"]), workers=2, timeout=600)
        if lv.violated or lv.error:
            raise T.MachineryError("SctpTeardown fails Ends: %s\n%s" % (lv.violated, lv.out[-800:]))
        out["teardown_liveness_Ends"] = bool(lv.complete)
        import aiortc.rtcsctptransport as S
        limit = S.SCTP_MAX_ASSOCIATION_RETRANS
        r, behs = T.simulate(sc, "SctpTeardown", _td_cfg(limit, 4, inv=[], spec="SimSpec"), num=300 if thorough else 60,
                             depth=48, seed=sd, timeout=600)
        if not behs:
            raise T.MachineryError("no simulated teardown behaviours\n" + r.out[-800:])
    # a behaviour of the model with CompleteAnyState (SHUTDOWN-COMPLETE honoured although no SHUTDOWN was
    # received), written down by hand so that the binding self-test does not depend on the seed
    dbehs = [[("Init", {}), ("RecvComplete", {"act": {"op": "complete"}, "st": "closed", "t2": False, "fails": 0, "acks": 0,
                                               "chan": "closed"})]] * 2
    steps = matched = 0
    mism = []
    acts = {}
    for i, beh in enumerate(behs):
        ls = TeardownLockStep("AB"[i % 2])
        try:
            tr = ls.run(beh)
        finally:
            ls.close()
        steps += tr["steps"]
        matched += tr["matched"]
        for a in ls.acts:
            acts[a["op"]] = acts.get(a["op"], 0) + 1
        if tr["mismatch"] and len(mism) < 5:
            mism.append(tr["mismatch"])
        if len(traces) < 60:
            tr["focus"] = PROPS[prop]["focus"]
            tr["meta"] = {"src": "teardown-lockstep", "side": "AB"[i % 2], "acts": [_jsonable(a) for a in ls.acts]}
            traces.append(tr)
    out["teardown_retransmission_limit"] = limit
    out["teardown_lockstep_steps"], out["teardown_lockstep_agreeing"] = steps, matched
    out["teardown_lockstep_first_mismatches"] = mism
    out["teardown_lockstep_actions"] = acts
    div = 0
    for i, beh in enumerate(dbehs):
        ls = TeardownLockStep("AB"[i % 2])
        try:
            div += 1 if ls.run(beh)["mismatch"] else 0
        finally:
            ls.close()
    if div == 0 and steps == matched:
        raise T.MachineryError("lock-step binding lost: SctpTeardown with CompleteAnyState agrees with the code")
    out["teardown_lockstep_deviating_model_diverges"] = div
    return out, traces


def _jsonable(a):
    return {k: (sorted(v) if not isinstance(v, (str, int, bool)) else v) for k, v in a.items()}


# --------------------------------------------------------------------------- C02: association set-up model


def _handshake_stage(prop, thorough, sd):
    """SctpHandshake.tla: exhaustive check, witnesses, deviation, liveness; lock-step replay of
    simulated behaviours (MaxInitRetrans = 8 as in the code) into real pairs."""
    out = {}
    traces = []
    with T.Scratch() as sc:
        size = (3, 3, 1, 3) if thorough else (2, 2, 1, 2)
        res = T.tlc(sc, "SctpHandshake", M.hs_cfg(*size), workers=8, timeout=1500)
        if res.violated or not res.complete:
            raise T.MachineryError("SctpHandshake fails its own clauses: %s\n%s" % (res.violated, res.out[-1000:]))
        out["handshake_states"], out["handshake_transitions"] = res.distinct, res.generated
        for w in M.HS_WIT:
            r = T.tlc(sc, "SctpHandshake", M.hs_cfg(2, 2, 1, 2, inv=[w], props=()), workers=4, timeout=600)
            if w not in r.violated:
                raise T.MachineryError("vacuity: handshake witness %s not reached" % w)
        r = T.tlc(sc, "SctpHandshake", M.hs_cfg(2, 2, 1, 2, dev=["LateInitResets"]), workers=4, timeout=600)
        if "ReceiveStateMonotone" not in r.violated:
            raise T.MachineryError("sensitivity: LateInitResets not detected (%s)" % r.violated)
        out["handshake_deviation_LateInitResets"] = "ReceiveStateMonotone violated as required"
        lv = T.tlc(sc, "SctpHandshake", M.hs_cfg(2, 2, 1, 1, inv=[], props=("Terminates",), spec="FairSpec"),
                   workers=4, timeout=1500)
        if lv.violated or lv.error:
            raise T.MachineryError("SctpHandshake fails Terminates: %s\n%s" % (lv.violated, lv.out[-800:]))
        out["handshake_liveness_Terminates"] = bool(lv.complete)
        n = 300 if thorough else 50
        simres, behs = T.simulate(sc, "SctpHandshake", M.hs_cfg(8, 5, 2, 3, inv=[], props=()), num=n, depth=45, seed=sd,
                                  timeout=600)
        if not behs:
            raise T.MachineryError("no simulated handshake behaviours\n" + simres.out[-800:])
    steps = matched = 0
    mism = []
    for beh in behs:
        ls = M.HandshakeLockStep()
        try:
            tr = ls.run(beh)
        finally:
            ls.close()
        tr["focus"] = PROPS[prop]["focus"]
        tr["meta"] = {"src": "handshake-lockstep", "acts": [st["act"] for _, st in beh[1:]]}
        steps += tr["steps"]
        matched += tr["matched"]
        if tr["mismatch"] and len(mism) < 5:
            mism.append(tr["mismatch"])
        traces.append(tr)
    out["handshake_lockstep_steps"], out["handshake_lockstep_agreeing"] = steps, matched
    out["handshake_lockstep_first_mismatches"] = mism
    return out, traces


# --------------------------------------------------------------------------- main


def run(prop):
    p = PROPS[prop]
    rep = Report(prop)
    thorough = tier() == "thorough"
    ti = 1 if thorough else 0
    sd = seed()
    procs = min(14, os.cpu_count() or 4)
    cov = {}
    try:
        design_states = design_trans = 0
        acts_cov = {}
        with T.Scratch() as sc:
            # 1. design level
            for ci, cname in enumerate(p["design"][ti]):
                # (no -coverage here: cost accounting on the recursive operators exhausts the heap;
                #  action coverage is measured on the simulated behaviours below, vacuity by witnesses)
                res = M.run_tlc(sc, M.CONFIGS[cname], DESIGN_INV, timeout=2400)
                if res.violated or not res.complete:
                    raise T.MachineryError("design model SctpAssoc/%s failed its own clauses: %s\n%s" % (
                        cname, res.violated, res.out[-1500:]))
                design_states += res.distinct
                design_trans += res.generated
            wit = {}
            if p["design"][ti]:
                cname = p["design"][ti][0]
                res = M.run_tlc(sc, M.CONFIGS[cname], p["witnesses"], timeout=900, workers=8, keep_going=True)
                for w in p["witnesses"]:
                    wit[w] = w in res.violated
                    if not wit[w]:
                        raise T.MachineryError("vacuity: witness %s not violated in %s\n%s" % (w, cname, res.out[-600:]))
            for w, cname in (p.get("witnesses_thorough", []) if thorough else []):
                res = M.run_tlc(sc, M.CONFIGS[cname], [w], timeout=900, workers=4)
                wit[w] = w in res.violated
                if not wit[w]:
                    raise T.MachineryError("vacuity: witness %s not violated in %s" % (w, cname))
            devs = {}
            for dname, cname in (p["deviations"] if thorough else p["deviations"][:2]):
                res = M.run_tlc(sc, M.CONFIGS[cname], DESIGN_INV, dev=[dname], timeout=1500)
                devs[dname] = res.violated[:1] or None
                if not res.violated:
                    raise T.MachineryError("sensitivity: deviation %s not detected in %s" % (dname, cname))
            live = None
            if p.get("liveness"):
                res = M.run_tlc(sc, M.CONFIGS["rel-small"], [], spec="FairSpec", properties=["C02_Drains"],
                                timeout=1500, workers=8)
                live = bool(res.complete and not res.violated)
                if res.violated or res.error:
                    raise T.MachineryError("design model fails C02_Drains: %s\n%s" % (res.violated, res.out[-1200:]))
                design_states += res.distinct
                design_trans += res.generated

            # 2. spec -> code
            traces = []
            ls_steps = ls_matched = 0
            ls_mismatch = []
            nsim = p["nsim"][ti]
            if nsim:
                simres, behs = M.simulate(sc, M.SIM_CONFIGS[p["sim"]], nsim, 70, sd, timeout=600)
                if not behs:
                    raise T.MachineryError("no simulated behaviours\n" + simres.out[-1200:])
                behs2 = []
                if p.get("sim2"):
                    simres2, behs2 = M.simulate(sc, M.SIM_CONFIGS[p["sim2"]], max(8, nsim // 2), 70, sd + 1, timeout=600)
                    if not behs2:
                        raise T.MachineryError("no simulated behaviours (%s)\n%s" % (p["sim2"], simres2.out[-1200:]))
                for beh in behs:
                    for _, st in beh[1:]:
                        acts_cov[st["act"]["op"]] = acts_cov.get(st["act"]["op"], 0) + 1
                dead = [k for k in ("send", "deliver", "drop", "dup", "t3", "heal") if not acts_cov.get(k)]
                if dead:
                    raise T.MachineryError("vacuity: model actions never taken in the simulated behaviours: %s" % dead)
                origins = None
                if prop == "C17":
                    origins = [(1000, 2000), (2 ** 32 - 3, 2 ** 32 - 1), (2 ** 32 - 40, 7), (2 ** 31 - 2, 2 ** 31 + 5)]
                chunks = [behs[i::procs] for i in range(procs) if behs[i::procs]]
                jobs = [(prop, p["sim"], c, origins) for c in chunks]
                jobs += [(prop, p["sim2"], behs2[i::procs], origins) for i in range(procs) if behs2[i::procs]]
                for beh in behs2:
                    for _, st in beh[1:]:
                        acts_cov[st["act"]["op"]] = acts_cov.get(st["act"]["op"], 0) + 1
                for out in _pool(_lockstep_batch, jobs, procs):
                    for tr in out:
                        ls_steps += tr["steps"]
                        ls_matched += tr["matched"]
                        if tr["mismatch"] and len(ls_mismatch) < 5:
                            ls_mismatch.append(tr["mismatch"])
                        traces.append(tr)

        # 3. code -> spec: regressions + random programs
        for rg in J.load_regress():
            # a regression schedule is judged by the checks of the properties it was found for
            # (its consequences for other properties are not that property's root cause)
            if prop not in rg.get("props", [prop]):
                continue
            if "lockstep" in rg:      # a TLC counter-example kept as a schedule of model actions
                lsr = rg["lockstep"]
                ls = M.LockStep(M.SIM_CONFIGS.get(lsr["config"]) or M.CONFIGS[lsr["config"]])
                try:
                    ls.compare = lambda state: None
                    tr = ls.run([("init", {})] + [("x", {"act": a}) for a in lsr["acts"]],
                                probe=not lsr.get("no_probe"))
                finally:
                    ls.close()
                tr["meta"] = {"src": "regress", "name": rg["name"]}
            else:
                tr = D.run_ops([tuple(o) for o in rg["ops"]], *rg["origin"], meta={"src": "regress", "name": rg["name"]})
            tr["focus"] = p["focus"]
            traces.append(tr)
        nrand = p["nrand"][ti]
        per = max(1, (nrand + procs - 1) // procs)
        jobs = [(prop, sd, k, min(k + per, nrand)) for k in range(0, nrand, per)]
        for out in _pool(_random_batch, jobs, procs):
            traces.extend(out)

        hs_extra = {}
        if prop == "C02":
            hs_extra, hs_traces = _handshake_stage(prop, thorough, sd)
            traces.extend(hs_traces)
            design_states += hs_extra["handshake_states"]
            design_trans += hs_extra["handshake_transitions"]

        rt_extra = {}
        if prop in ("C01", "C13"):
            rt_extra, rt_traces = _repo_tests_stage(prop)
            traces.extend(rt_traces)
        dcl_extra = {}
        if prop == "C13":
            dcl_extra, dcl_traces = _dcl_lockstep_stage(prop, thorough, sd)
            traces.extend(dcl_traces)
            td_extra, td_traces = _teardown_stage(prop, thorough, sd)
            dcl_extra.update(td_extra)
            traces.extend(td_traces)

        verdicts, tstates, ttrans = J.judge(traces, parallel=8)

        # 4. binding self-test
        bind = _binding(prop, traces, verdicts)

        nontriv = 0
        tainted = 0
        for tr, (v, pos) in zip(traces, verdicts):
            kinds = {e["k"] for e in tr["events"]}
            if "msg" in kinds and ("drop" in kinds or any(o and o[0] in ("dup", "fire") for o in tr.get("ops", []))
                                   or tr["meta"].get("src") == "lockstep"):
                nontriv += 1
            if v.startswith("machinery"):
                raise T.MachineryError("trace: " + v)
            if v == "tainted":
                tainted += 1
                continue
            if v != "ok":
                ev = tr["events"][pos - 1] if 0 < pos <= len(tr["events"]) else None
                rep.violation(v, {"clause": v}, {"event": ev, "position": pos, "source": tr["meta"]},
                              {"ops": tr.get("ops"), "origin": tr.get("origin"), "meta": tr["meta"],
                               "focus": p["focus"], "has_ref": "ref" in tr})
        extra = _serial_stage(rep, thorough) if prop == "C17" else {}
        if prop == "C17":
            wr = _wrap_stage(thorough)
            extra.update(wr)
            extra.update(_rtp_origin_stage(rep, thorough))
            design_states, design_trans = wr["wrap_states"], wr["wrap_transitions"]
        if prop == "C13":
            extra = _lifecycle_stage(thorough)
            design_states, design_trans = extra["lifecycle_states"], extra["lifecycle_transitions"]
        rep.coverage = {
            "states": design_states or tstates, "transitions": design_trans or ttrans,
            "exhaustive": bool(p["design"][ti]) or prop in ("C13", "C17"),
            "design_configs": p["design"][ti], "design_invariants": DESIGN_INV if p["design"][ti] else [],
            "witnesses_violated_as_required": wit, "deviations_detected": devs, "liveness_C02_Drains": live,
            "action_coverage": acts_cov,
            "traces_validated_against_impl": len(traces),
            "trace_events_validated": sum(len(t["events"]) for t in traces),
            "trace_validation_states": tstates,
            "traces_with_faults_and_deliveries": nontriv,
            "traces_ended_at_a_finding_of_another_property": tainted,
            "lockstep_steps": ls_steps, "lockstep_steps_agreeing": ls_matched, "lockstep_first_mismatches": ls_mismatch,
            "binding_selftest": bind,
            "samples": [_sample(traces[0]), _sample(traces[-1])],
        }
        rep.coverage.update(extra)
        rep.coverage.update(hs_extra)
        rep.coverage.update(dcl_extra)
        rep.coverage.update(rt_extra)
        if not p["design"][ti] and prop not in ("C13", "C17"):
            rep.coverage["explanation"] = ("design-level model for this property: see the property's own "
                                           "specification module; states/transitions are those of the TLC trace validation")
        rep.assumptions = [
            "datagram transport below SCTP replaced by a driver-controlled in-memory network (fake DTLS objects)",
            "virtual time: timers fire when the driver says so; sends never suspend",
            "TLC, the TLA+ trace specification TraceDataChannel.tla and the event recorder in harness/sctp_env.py are trusted",
        ]
        return rep.finish()
    except T.MachineryError as e:
        return rep.finish(machinery_error=e)


def _sample(tr):
    return {"ops": (tr.get("ops") or tr["meta"].get("acts") or [])[:12], "events": tr["events"][:10], "meta_src": tr["meta"].get("src")}


def _binding(prop, traces, verdicts):
    """Corrupt one accepted trace in one field; TLC must reject it with the expected clause."""
    want = {"C01": "C01.nodup", "C02": "C02.lost", "C06": "C06.pr_nodup", "C13": "C13.state_backward",
            "C17": "C17.origin_divergence"}[prop]
    for tr, (v, pos) in zip(traces, verdicts):
        if v != "ok":
            continue
        bad = copy.deepcopy({k: tr[k] for k in ("events", "pr", "focus")})
        if "ref" in tr:
            bad["ref"] = tr["ref"]
        evs = bad["events"]
        done = False
        if prop == "C01" and not tr["pr"]:
            idx = [i for i, e in enumerate(evs) if e["k"] == "msg" and e["intact"]]
            if idx:
                evs.insert(idx[0] + 1, dict(evs[idx[0]]))
                done = True
        elif prop == "C02" and not tr["pr"]:
            idx = [i for i, e in enumerate(evs) if e["k"] == "msg" and e["intact"]]
            if idx and evs[-1]["k"] == "quiesce" and not any(e["k"] == "close" for e in evs):
                del evs[idx[-1]]
                done = True
        elif prop == "C06" and tr["pr"]:
            pr_ch = {e["c"] for e in evs if e["k"] == "create" and e["rel"] != "rel"}
            idx = [i for i, e in enumerate(evs) if e["k"] == "msg" and e["intact"] and e["c"] in pr_ch]
            if idx:
                evs.insert(idx[0] + 1, dict(evs[idx[0]]))
                done = True
        elif prop == "C13":
            idx = [i for i, e in enumerate(evs) if e["k"] == "state" and e["s"] == 1]
            if idx:
                e = dict(evs[idx[0]])
                e["s"] = 0
                evs.insert(idx[0] + 1, e)
                done = True
        elif prop == "C17" and "ref" in tr:
            idx = [i for i, e in enumerate(evs) if e["k"] == "msg"]
            if idx:
                del evs[idx[-1]]
                bad["focus"] = ["C17"]
                done = True
        if not done:
            continue
        bad["meta"] = {}
        bv, _, _ = J.judge([bad], parallel=1)
        if bv[0][0] != want:
            raise T.MachineryError("binding self-test: corrupted trace judged %r, expected %r" % (bv[0][0], want))
        return "corrupted trace rejected with " + bv[0][0]
    raise T.MachineryError("binding self-test: no suitable accepted trace to corrupt")


def replay(prop, path):
    obj = json.load(open(path))
    rp = obj["replay"]
    p = PROPS[prop]
    meta = rp.get("meta") or {}
    if rp.get("kind") == "origins":          # an RTP media schedule under all origins (C17 stage)
        from . import c11_medialoop as M11
        trs = M11._job_random((rp["spec"], list(range(len(M11.ORIGINS)))))
        g = {"id": 1, "kind": "origins", "obs": [M11.digest(t) for t in trs]}
        with T.Scratch(prefix="verif_c17m_") as sc:
            _, mv = M11.judge(sc, [g], timeout=900)
        v = mv[1][0]
        if v == "ok":
            print("replay: trace accepted on the current tree")
            return 0
        print("VIOLATION property=%s replay=%s clause=%s" % (prop, path, v))
        return 1
    if rp.get("kind") == "stats_origins":     # receiver statistics under three origins (C17 stage)
        from . import c11_medialoop as M11
        from . import c18_rrstats as R18
        obs = []
        for org in rp["origins"]:
            hv = copy.deepcopy(rp["hist"])
            for stm, (sq, ts) in zip(hv["streams"], org):
                stm["seq0"], stm["tso"] = sq, ts
            tr = R18.execute(hv)
            d = []
            for stp in tr["steps"]:
                if stp["op"] == "add":
                    d.append([1, stp["s"], stp["recv"]])
                elif stp["op"] == "report":
                    for b in sorted(stp["reps"], key=lambda x: x["s"]):
                        ext = ((b["hh"] << 16) | b["hl"]) - hv["streams"][b["s"] - 1]["seq0"]
                        d.append([2, b["s"], b["fl"], b["pl"], ext >> 16, ext & 0xFFFF, b["jh"], b["jl"], stp["failed"]])
                    if not stp["reps"]:
                        d.append([2, 0, stp["failed"]])
            obs.append(d)
        with T.Scratch(prefix="verif_c17s_") as sc:
            _, mv = M11.judge(sc, [{"id": 1, "kind": "origins", "obs": obs}], timeout=600)
        v = mv[1][0]
        if v == "ok":
            print("replay: trace accepted on the current tree")
            return 0
        print("VIOLATION property=%s replay=%s clause=%s" % (prop, path, v))
        return 1
    if rp.get("kind") == "jitter":
        from . import c10_jitterbuffer as J10
        tr = J10.rerun(rp["trace"] if "runs" in rp["trace"] else dict(rp["trace"], runs=[]))
        tr["id"] = 1
        with T.Scratch(prefix="verif_c17j_") as sc:
            _, jv = J10.judge(sc, [tr], timeout=900)
        v = jv[1][0]
        if not v.startswith("C17."):
            print("replay: trace accepted on the current tree")
            return 0
        print("VIOLATION property=%s replay=%s clause=%s" % (prop, path, v))
        return 1
    if meta.get("src") == "handshake-lockstep":
        ls = M.HandshakeLockStep()
        try:
            beh = [("init", {})] + [("x", {"act": a}) for a in meta["acts"]]
            ls.project = lambda: ({}, {})
            ls.mismatch = "replay"      # no state comparison
            tr = ls.run(beh)
        finally:
            ls.close()
    elif meta.get("src") == "lifecycle-lockstep":
        from .dcl_lockstep import DclLockStep
        ls = DclLockStep()
        try:
            ls.mismatch = "replay"          # no state comparison
            tr = ls.run([("init", {})] + [("x", {"act": a}) for a in meta["acts"]])
        finally:
            ls.close()
    elif meta.get("src") == "repo-test":
        _, rts = _repo_tests_stage(prop)
        hit = [t for t in rts if t["meta"]["test"] == meta["test"]]
        if not hit:
            print("MACHINERY-ERROR replay: test %s recorded no trace" % meta["test"])
            return 2
        tr = hit[0]
    elif meta.get("src") == "teardown-lockstep":
        from .teardown_lockstep import TeardownLockStep
        ls = TeardownLockStep(meta.get("side", "B"))
        try:
            ls.mismatch = "replay"
            tr = ls.run([("init", {})] + [("x", {"act": a}) for a in meta["acts"]])
        finally:
            ls.close()
    elif meta.get("src") == "lockstep":
        config = M.SIM_CONFIGS.get(meta["config"]) or M.CONFIGS[meta["config"]]
        ls = M.LockStep(config, *meta.get("origin", [None, None]), sseq=meta.get("sseq", 0))
        try:
            beh = [("init", {})] + [("x", {"act": a, "snd": None}) for a in meta["acts"]]
            ls.compare = lambda state: None
            tr = ls.run(beh)
        finally:
            ls.close()
    else:
        tr = D.run_ops([tuple(o) for o in rp["ops"]], *(rp.get("origin") or [None, None]))
    tr["focus"] = [f for f in p["focus"] if f != "C17"] or p["focus"]
    v, _, _ = J.judge([tr], parallel=1)
    if v[0][0] == "ok":
        print("replay: trace accepted on the current tree")
        return 0
    print("VIOLATION property=%s replay=%s clause=%s position=%d" % (prop, path, v[0][0], v[0][1]))
    return 1
