"""Deterministic event loop: frozen loop clock, explicit draining, explicit timer firing.

The loop's own clock never advances, so no `call_later` timer ever becomes due by
itself; the driver decides when a timer fires (`fire(handle)`).  A separate
`wall` clock (what `time.time()` returns inside shimmed aiortc modules) is moved by the
driver.  One "step" of the system = one handler invocation + `drain()`.
"""
import asyncio
import heapq


class VLoop(asyncio.SelectorEventLoop):
    def __init__(self):
        super().__init__()
        self._vtime = 1000.0
        self.wall = 1_700_000_000.0
        self.task_exceptions = []
        self.set_exception_handler(self._on_exception)

    def time(self):
        return self._vtime

    def _on_exception(self, loop, context):
        exc = context.get("exception")
        self.task_exceptions.append((type(exc).__name__ if exc else "error", str(context.get("message")), exc))

    # -- stepping -----------------------------------------------------------------
    def drain(self, limit=100000):
        """Run ready callbacks (and their consequences) without advancing any clock."""
        n = 0
        while self._ready:
            self.call_soon(self.stop)
            self.run_forever()
            n += 1
            if n > limit:
                raise RuntimeError("drain: no quiescence after %d iterations (livelock)" % limit)

    def run(self, coro):
        """Run a coroutine to completion, then drain."""
        res = self.run_until_complete(coro)
        self.drain()
        return res

    def timers(self):
        """Armed (non-cancelled) timer handles, earliest first."""
        hs = [h for h in self._scheduled if not h._cancelled]
        hs.sort(key=lambda h: h._when)
        return hs

    def fire(self, handle):
        """Fire one armed timer now (out of order if need be), then drain."""
        if handle._cancelled:
            return False
        cb, args = handle._callback, handle._args
        handle.cancel()
        self.wall += max(0.0, handle._when - self._vtime)
        cb(*args)
        self.drain()
        return True

    def purge_cancelled(self):
        self._scheduled = [h for h in self._scheduled if not h._cancelled]
        heapq.heapify(self._scheduled)
        self._timer_cancelled_count = 0


class ShimTime:
    """Replacement for the `time` module inside an aiortc module."""

    def __init__(self, loop):
        self._loop = loop

    def time(self):
        return self._loop.wall

    def __getattr__(self, name):
        import time as _t
        return getattr(_t, name)
