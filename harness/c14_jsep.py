"""C14 - signalling follows the JSEP state machine; illegal calls have no side effects.

Specs: specs/Jsep.tla (the table + a model of a pair of peers), specs/TraceJsep.tla.

quick / thorough:
  1. TLC checks Jsep.tla exhaustively over all call sequences up to MaxCalls calls on
     either peer (action properties, invariants, witness invariants, -coverage).
  2. spec -> code: paths of the dumped state graph of a small configuration (a cover of
     all abstract edges; thorough: all leaves) and `tlc -simulate` behaviours of a longer
     configuration are executed call by call on REAL RTCPeerConnection pairs; outcome,
     signalling state and slots are compared with the model (agreement measure).
  3. code -> spec: those executions plus seeded random call sequences (longer, both
     peers, several negotiation rounds, asymmetric and changing media) are recorded and
     judged by TraceJsep.tla with TLC.  Only a clause of TraceJsep produces VIOLATION.
  4. binding self-test: corrupted copies of a recorded trace must be rejected.

No network traffic: the peers only gather host candidates, and candidate lines are removed
from every description that is passed on (trickle style), so ICE never connects and a
close on one side cannot close the other side behind the harness' back.
"""
MANIFEST = dict(
    technique="TLA+ spec Jsep.tla (JSEP state/type table + model of a peer pair) model-checked with TLC over all call sequences up to a length bound; graph paths and TLC-simulated behaviours executed on real RTCPeerConnection pairs; recorded executions (plus seeded random long call sequences) judged by TraceJsep.tla (TLC trace validation)",
    text="Exhaustive TLC check that the table implies: errors change nothing, closed is absorbing, every state change is a JSEP edge; conformance of the real RTCPeerConnection in both directions: for every recorded call TLC evaluates the allowed outcomes and the prescribed signalling state from the table and compares exception class, signalingState, the four description slots, localDescription/remoteDescription and the signalingstatechange events.",
    note="Trusted: TLC, the harness' own SDP line scanner (media sections, ICE credentials, rtcp-mux, a=setup), its s= line stamping used as description identity, reading of the name-mangled slot attributes. pranswer/rollback are outside the alphabet. createOffer in have-remote-offer and the error class of a call that is both illegal and defective are left open (either accepted). Slots after SUCCESSFUL calls are not prescribed. Conformance is sampled; the design check is exhaustive within MaxCalls.",
    design_ref="5/C14")

import asyncio  # noqa: E402
import atexit  # noqa: E402
import copy  # noqa: E402
import hashlib  # noqa: E402
import json  # noqa: E402
import os  # noqa: E402
import random  # noqa: E402
import re  # noqa: E402
import signal  # noqa: E402
import threading  # noqa: E402
import time  # noqa: E402

from . import common  # noqa: F401,E402  (sets sys.path for aiortc)
from .common import Report, rng, seed, tier  # noqa: E402
from . import tlc as T  # noqa: E402

PEERS = ("A", "B")
REGRESS = os.path.join(T.VERIF, "regress", "jsep")


def other(p):
    return "B" if p == "A" else "A"


def _dbg(*a):
    if os.environ.get("C14_DEBUG"):
        import sys
        print("[c14 %.1f]" % time.time(), *a, file=sys.stderr, flush=True)


# ----------------------------------------------------------------------------- cfgs

PROPS = """INVARIANT TypeOK
INVARIANT PendingMatchesState
PROPERTY ErrorNoSideEffect
PROPERTY ClosedAbsorbing
PROPERTY ClosedRejects
PROPERTY FollowsJsep
PROPERTY OkTakesEdge
PROPERTY AnswersAnswerPendingOffer
"""

EXH_CFG = """SPECIFICATION Spec
CONSTANTS
 MaxCalls = %(n)d
 MaxDescs = %(d)d
 KeepPending = %(keep)s
VIEW View
""" + PROPS + """CHECK_DEADLOCK FALSE
"""

WITNESS_CFG = """SPECIFICATION Spec
CONSTANTS
 MaxCalls = %(n)d
 MaxDescs = 2
 KeepPending = FALSE
INVARIANT %(w)s
CHECK_DEADLOCK FALSE
"""

GRAPH_CFG = """SPECIFICATION Spec
CONSTANTS
 MaxCalls = %(n)d
 MaxDescs = %(n)d
 KeepPending = TRUE
""" + PROPS + """CHECK_DEADLOCK FALSE
"""

SIM_CFG = """SPECIFICATION Spec
CONSTANTS
 MaxCalls = %(n)d
 MaxDescs = %(n)d
 KeepPending = TRUE
CHECK_DEADLOCK FALSE
"""

TRACE_CFG = """SPECIFICATION TraceSpec
CONSTANTS
 MaxCalls = 0
 MaxDescs = 0
 KeepPending = TRUE
CHECK_DEADLOCK FALSE
"""

# two JVM starts in the quick tier; the other two witnesses only in thorough
WITNESSES = {"WitnessNoRound": 4, "WitnessNoValueError": 2}
WITNESSES_THOROUGH = {"WitnessNoCallAfterClose": 2, "WitnessNoOpenCase": 3}
ACTIONS = ("CreateOffer", "CreateAnswer", "SetLocal", "SetLocalImplicit", "SetRemote", "SetRemoteBad", "Close")


def action_counts(out):
    """-coverage lines: <Name line a, col b to line c, col d of module M (...)>: distinct:total"""
    res = {}
    for m in re.finditer(r"^<(\w+) line \d+, col \d+ to line \d+, col \d+ of module Jsep(?: \([\d ]+\))?>: (\d+):(\d+)",
                         out, re.M):
        res[m.group(1)] = (int(m.group(2)), int(m.group(3)))
    return res


# ----------------------------------------------------------------------------- SDP text (harness-side scanner)

def _lines(text):
    return text.replace("\r\n", "\n").split("\n")


def _join(lines):
    return "\r\n".join(lines)


def split_sdp(text):
    """-> (header lines, [section lines])"""
    header, secs = [], []
    for ln in _lines(text):
        if ln == "":
            continue
        if ln.startswith("m="):
            secs.append([ln])
        elif secs:
            secs[-1].append(ln)
        else:
            header.append(ln)
    return header, secs


def join_sdp(header, secs):
    out = list(header)
    for s in secs:
        out.extend(s)
    return _join(out) + "\r\n"


def strip_candidates(text):
    return _join([ln for ln in _lines(text)
                  if not ln.startswith("a=candidate:") and not ln.startswith("a=end-of-candidates")])


def stamp(text, k):
    """Mark a description with its identity: the session name line (free text in SDP)."""
    return _join([("s=d%d" % k) if ln.startswith("s=") else ln for ln in _lines(text)])


def _attr(sec, header, prefix):
    for ln in sec:
        if ln.startswith(prefix):
            return ln[len(prefix):]
    for ln in header:
        if ln.startswith(prefix):
            return ln[len(prefix):]
    return None


def facts(text):
    """What the property statement talks about, read off the SDP text."""
    header, secs = split_sdp(text)
    ms, ice, mux, role = [], True, True, True
    for sec in secs:
        kind = sec[0][2:].split(" ")[0]
        mid = _attr(sec, [], "a=mid:")
        ms.append("%s:%s" % (kind, mid))
        if not _attr(sec, header, "a=ice-ufrag:") or not _attr(sec, header, "a=ice-pwd:"):
            ice = False
        if kind in ("audio", "video") and "a=rtcp-mux" not in sec:
            mux = False
        if _attr(sec, header, "a=setup:") not in ("active", "passive"):
            role = False
    return {"ms": ms, "ice": ice, "mux": mux, "role": role}


def _fix_bundle(header, secs):
    mids = [_attr(s, [], "a=mid:") for s in secs]
    return [("a=group:BUNDLE " + " ".join(m for m in mids if m is not None)) if ln.startswith("a=group:BUNDLE") else ln
            for ln in header]


def as_answer(text):
    """An offer's text turned into an answer to itself (definite role)."""
    return text.replace("a=setup:actpass", "a=setup:active")


def make_defective(text, defect, r):
    """-> text with exactly one kind of defect, or None when not applicable."""
    header, secs = split_sdp(text)
    if not secs:
        return None
    if defect == "noice":
        v = r.randint(0, 3)
        which = range(len(secs)) if v == 0 else [r.randrange(len(secs))] if v in (1, 2) else [len(secs) - 1]
        drop = ("a=ice-ufrag:", "a=ice-pwd:") if v != 2 else (r.choice(["a=ice-ufrag:", "a=ice-pwd:"]),)
        for i in which:
            secs[i] = [ln for ln in secs[i] if not ln.startswith(drop)]
        header = [ln for ln in header if not ln.startswith(("a=ice-ufrag:", "a=ice-pwd:"))]
    elif defect == "nomux":
        av = [i for i, s in enumerate(secs) if s[0][2:].split(" ")[0] in ("audio", "video")]
        if not av:
            return None
        which = av if r.random() < 0.3 else [r.choice(av)]
        for i in which:
            secs[i] = [ln for ln in secs[i] if ln != "a=rtcp-mux"]
    elif defect == "badrole":
        which = range(len(secs)) if r.random() < 0.4 else [r.randrange(len(secs))]
        for i in which:
            secs[i] = [("a=setup:actpass" if ln.startswith("a=setup:") else ln) for ln in secs[i]]
    elif defect == "mismatch":
        kinds = [s[0][2:].split(" ")[0] for s in secs]
        opts = ["dup"]
        if len(secs) >= 2:
            opts.append("drop")
            if kinds[0] != kinds[1]:
                opts.append("swap")
        if any(k in ("audio", "video") for k in kinds):
            opts.append("kind")
        v = r.choice(opts)
        if v == "drop":
            secs.pop(r.choice([0, len(secs) - 1]))
        elif v == "dup":
            extra = [("a=mid:99" if ln.startswith("a=mid:") else ln) for ln in secs[-1]]
            secs.append(extra)
        elif v == "swap":
            secs[0], secs[1] = secs[1], secs[0]
        elif v == "kind":
            i = [j for j, k in enumerate(kinds) if k in ("audio", "video")][0]
            k2 = "video" if kinds[i] == "audio" else "audio"
            secs[i][0] = "m=" + k2 + secs[i][0][2 + len(kinds[i]):]
        header = _fix_bundle(header, secs)
    else:
        raise ValueError(defect)
    return join_sdp(header, secs)


# ----------------------------------------------------------------------------- executor

class Desc:
    __slots__ = ("k", "type", "text", "by", "for_k", "ep", "epo")

    def __init__(self, k, type_, text, by, for_k=0, ep=-1, epo=-1):
        self.k, self.type, self.text, self.by, self.for_k, self.ep, self.epo = k, type_, text, by, for_k, ep, epo


_SLOTS = (("pl", "_RTCPeerConnection__pendingLocalDescription"), ("cl", "_RTCPeerConnection__currentLocalDescription"),
          ("pr", "_RTCPeerConnection__pendingRemoteDescription"), ("cr", "_RTCPeerConnection__currentRemoteDescription"))
_MISSING = object()
_DONORS = {}
CALL_TIMEOUT = 20.0


class Pair:
    """Two real RTCPeerConnections; executes abstract calls and records a trace.

    Besides the pcs it keeps the generator's book-keeping (which description was created
    last, epochs, pending offers) that mirrors the argument rules of Jsep.tla.  The
    book-keeping chooses ARGUMENTS only; it is not an oracle.
    """

    def __init__(self, cfg, sd=0):
        self.cfg = {p: list(cfg[p]) for p in PEERS}
        self.sd = sd
        self.pc = {}
        self.events = {p: [] for p in PEERS}
        self.kctr = 0
        self.anon = {}
        self.descs = {}
        self.lastO = {p: None for p in PEERS}
        self.lastA = {p: None for p in PEERS}
        self.epoch = {p: 0 for p in PEERS}
        self.pend_l = {p: 0 for p in PEERS}
        self.pend_r = {p: 0 for p in PEERS}
        self.steps = []
        self.calls = []       # the abstract program actually executed (for replay)
        self.media = []       # media added between calls: [step index, peer, item]
        self.init = None
        self.donor = None
        self.has_slots = True

    # ---- setup / teardown
    @staticmethod
    def _add_media(pc, item):
        if item == "dc":
            pc.createDataChannel("chan")
        else:
            kind, _, direction = item.partition(":")
            pc.addTransceiver(kind, direction=direction or "sendrecv")

    def _mkpc(self, items):
        from aiortc import RTCConfiguration, RTCPeerConnection
        pc = RTCPeerConnection(RTCConfiguration(iceServers=[]))
        for it in items:
            self._add_media(pc, it)
        return pc

    async def setup(self):
        for p in PEERS:
            pc = self._mkpc(self.cfg[p])
            self.pc[p] = pc
            pc.on("signalingstatechange", lambda p=p, pc=pc: self.events[p].append(pc.signalingState))
        self.init = {p: self.observe(p) for p in PEERS}

    async def teardown(self):
        for pc in self.pc.values():
            try:
                await asyncio.wait_for(pc.close(), CALL_TIMEOUT)
            except Exception:  # noqa: BLE001  (a pc that cannot be closed is C19's business)
                pass

    async def get_donor(self):
        """Descriptions of an unrelated pair with the same media: {(peer, type): text}."""
        if self.donor is None:
            key = json.dumps(self.cfg, sort_keys=True)
            if key not in _DONORS:
                from aiortc import RTCSessionDescription
                d = {}
                for p in PEERS:
                    q = other(p)
                    a, b = self._mkpc(self.cfg[p]), self._mkpc(self.cfg[q])
                    try:
                        o = await a.createOffer()
                        d[(p, "offer")] = stamp(strip_candidates(o.sdp), 9000 + len(d))
                        await b.setRemoteDescription(RTCSessionDescription(d[(p, "offer")], "offer"))
                        an = await b.createAnswer()
                        d[(q, "answer")] = stamp(strip_candidates(an.sdp), 9000 + len(d))
                    finally:
                        await a.close()
                        await b.close()
                _DONORS[key] = d
            self.donor = _DONORS[key]
        return self.donor

    # ---- observation
    def _ident(self, text, type_):
        h = hashlib.sha1((type_ + "\n" + text).encode()).hexdigest()[:6]
        m = re.search(r"^s=d(\d+)\s*$", text, re.M)
        if m:
            k = int(m.group(1))
        else:
            if h not in self.anon:
                self.kctr += 1
                self.anon[h] = self.kctr
            k = self.anon[h]
        return "d%d:%s" % (k, h)

    def observe(self, p):
        pc = self.pc[p]
        o = {"sig": str(pc.signalingState)}
        for name, attr in _SLOTS:
            v = getattr(pc, attr, _MISSING)
            if v is _MISSING:
                self.has_slots = False
                o[name] = "n/a"
            elif v is None:
                o[name] = "none"
            else:
                o[name] = self._ident(str(v), str(v.type))
        for name, d in (("loc", pc.localDescription), ("rem", pc.remoteDescription)):
            o[name] = "none" if d is None else self._ident(d.sdp, d.type)
        return o

    # ---- the rules of Jsep.tla for choosing arguments
    def sig(self, p):
        return self.pc[p].signalingState

    def _new_desc(self, p, type_, text, k=None):
        if k is None:
            self.kctr += 1
            k = self.kctr
        q = other(p)
        d = Desc(k, type_, stamp(strip_candidates(text), k), p,
                 for_k=self.pend_r[p] if type_ == "answer" else 0, ep=self.epoch[p], epo=self.epoch[q])
        self.descs[k] = d
        if type_ == "offer":
            self.lastO[p] = d
        else:
            self.lastA[p] = d
        return d

    def local_arg(self, p, type_):
        """-> (enabled, Desc or None=donor)"""
        s = self.sig(p)
        if type_ == "offer":
            d = self.lastO[p]
            if s in ("stable", "have-local-offer"):
                return (d is not None and d.ep == self.epoch[p]), d
        else:
            d = self.lastA[p]
            if s == "have-remote-offer":
                return (d is not None and d.for_k == self.pend_r[p] and d.ep == self.epoch[p]), d
        return True, d

    def remote_arg(self, p, type_):
        s, q = self.sig(p), other(p)
        if type_ == "offer":
            d = self.lastO[q]
            if s in ("stable", "have-remote-offer"):
                return (d is not None and d.epo == self.epoch[p]
                        and (d.ep == self.epoch[q] or self.pend_l[q] == d.k)), d
        else:
            d = self.lastA[q]
            if s == "have-local-offer":
                return (d is not None and d.for_k == self.pend_l[p]), d
        return True, d

    def enabled(self, call):
        op, p, ty = call["op"], call["p"], call.get("type", "none")
        if op == "setLocal" and ty in ("offer", "answer"):
            return self.local_arg(p, ty)[0]
        if op == "setRemote" and call.get("defect", "none") == "none":
            return self.remote_arg(p, ty)[0]
        return True

    # ---- one call
    async def call(self, c):
        """Execute abstract call c = {p, op, type, defect}; returns the step record or None (skipped)."""
        from aiortc import RTCSessionDescription
        from aiortc.exceptions import InvalidStateError
        p, op = c["p"], c["op"]
        ty, defect = c.get("type", "none"), c.get("defect", "none")
        q = other(p)
        pc = self.pc[p]
        r = random.Random((self.sd * 1000003 + len(self.calls)) * 31 + 7)
        arg, argk, base = None, "none", "none"
        if op in ("setLocal", "setRemote") and ty in ("offer", "answer"):
            if defect == "none":
                ok, d = (self.local_arg if op == "setLocal" else self.remote_arg)(p, ty)
                if not ok:
                    return None
                if d is None:
                    text = (await self.get_donor())[(p if op == "setLocal" else q, ty)]
                    base = "donor"
                else:
                    text, argk, base = d.text, d.k, "desc"
            else:
                if op != "setRemote" or (defect in ("badrole", "mismatch") and ty != "answer"):
                    return None
                if ty == "answer" and self.sig(p) == "have-local-offer" and self.pend_l[p] in self.descs:
                    text, base = as_answer(self.descs[self.pend_l[p]].text), "derived"
                    argk = self.pend_l[p]
                else:
                    d = self.lastO[q] if ty == "offer" else self.lastA[q]
                    if d is None:
                        text, base = (await self.get_donor())[(q, ty)], "donor"
                    else:
                        text, argk, base = d.text, d.k, "desc"
                text = make_defective(text, defect, r)
                if text is None:
                    return None
                text = stamp(text, 8000 + len(self.calls))
            arg = RTCSessionDescription(sdp=text, type=ty)
        f = facts(arg.sdp) if arg is not None else {"ms": [], "ice": True, "mux": True, "role": True}
        marks = {x: len(self.events[x]) for x in PEERS}
        pre_epoch = dict(self.epoch)
        res = None
        try:
            if op == "createOffer":
                coro = pc.createOffer()
            elif op == "createAnswer":
                coro = pc.createAnswer()
            elif op == "setLocal":
                coro = pc.setLocalDescription(arg) if arg is not None else pc.setLocalDescription()
            elif op == "setRemote":
                coro = pc.setRemoteDescription(arg)
            elif op == "close":
                coro = pc.close()
            else:
                raise T.MachineryError("unknown op %r" % (op,))
            res = await asyncio.wait_for(coro, CALL_TIMEOUT)
            out = "ok"
        except asyncio.TimeoutError:
            raise T.MachineryError("call %r did not return within %.0f s" % (c, CALL_TIMEOUT))
        except T.MachineryError:
            raise
        except InvalidStateError:
            out = "InvalidStateError"
        except ValueError as e:
            out = "ValueError"
            res = e
        except Exception as e:  # noqa: BLE001
            out = "other:" + type(e).__name__
            res = e
        post = {x: self.observe(x) for x in PEERS}
        step = {"p": p, "op": op, "type": ty, "defect": defect, "base": base, "k": argk,
                "ms": f["ms"], "ice": f["ice"], "mux": f["mux"], "role": f["role"],
                "out": out, "nk": 0, "nms": [], "post": post,
                "ev": {x: [str(s) for s in self.events[x][marks[x]:]] for x in PEERS}}
        if out != "ok" and res is not None:
            step["msg"] = str(res)[:120]
        # book-keeping from what actually happened
        if out == "ok":
            if op == "createOffer":
                step["nk"] = self._new_desc(p, "offer", res.sdp).k
            elif op == "createAnswer":
                step["nk"] = self._new_desc(p, "answer", res.sdp).k
            elif op in ("setLocal", "setRemote"):
                eff = ty
                if ty == "implicit":
                    ld = pc.localDescription
                    eff = ld.type if ld is not None else "offer"
                    if ld is not None:
                        k = int(post[p]["loc"].split(":")[0][1:])
                        nd = self._new_desc(p, eff, ld.sdp, k=k)
                        nd.ep, nd.epo = pre_epoch[p], pre_epoch[q]
                        step["nk"] = k
                        step["nms"] = facts(nd.text)["ms"]
                        argk = k
                self.epoch[p] += 1
                if eff == "offer":
                    if op == "setLocal":
                        self.pend_l[p] = argk if argk != "none" else -1
                    else:
                        self.pend_r[p] = argk if argk != "none" else -1
        self.calls.append({"p": p, "op": op, "type": ty, "defect": defect})
        self.steps.append(step)
        return step

    def add_media(self, p, item):
        """Configuration change between calls (only used while p is stable)."""
        try:
            self._add_media(self.pc[p], item)
        except Exception:
            # not a judged call: e.g. the connection is closed although signalingState (on a
            # broken tree) says otherwise - the judged calls around it expose that
            return
        self.media.append([len(self.calls), p, item])
        if self.lastO[p] is not None:
            self.lastO[p].ep = -2     # an offer created before the change is not used in a legal call

    def trace(self, tid, src):
        return {"id": tid, "src": src, "cfg": self.cfg, "sd": self.sd, "init": self.init, "steps": self.steps,
                "calls": self.calls, "media": self.media}


def run_program(cfg, calls, sd=0, media=(), chooser=None, maxlen=None):
    """Execute a fixed program (list of abstract calls) or a chooser-driven one on a fresh pair.

    Returns (pair, skipped).  Everything runs in its own event loop; both pcs are closed.
    """
    async def main():
        # background __connect tasks of a pc that gets closed die with an exception nobody
        # retrieves; that is not this property's business, keep stderr clean
        asyncio.get_running_loop().set_exception_handler(lambda loop, ctx: None)
        pair = Pair(cfg, sd)
        skipped = 0
        media_at = {}
        for i, p, item in media:
            media_at.setdefault(i, []).append((p, item))
        try:
            await pair.setup()
            if chooser is None:
                for c in calls:
                    for p, item in media_at.get(len(pair.calls), []):
                        if pair.sig(p) != "closed":
                            pair.add_media(p, item)
                    media_at.pop(len(pair.calls), None)
                    if (await pair.call(c)) is None:
                        skipped += 1
            else:
                for _ in range(maxlen):
                    c = chooser(pair)
                    if c is None:
                        break
                    if (await pair.call(c)) is None:
                        skipped += 1
        finally:
            await pair.teardown()
        return pair, skipped

    return asyncio.run(main())


# ----------------------------------------------------------------------------- model behaviours -> programs

def call_of_act(a):
    c = {"p": a["p"], "op": a["op"], "type": a["type"], "defect": a["defect"]}
    return c


SYM_CFGS = [
    {"A": ["audio", "video", "dc"], "B": ["audio", "video", "dc"]},
    {"A": ["audio"], "B": ["audio"]},
    {"A": ["video", "audio"], "B": ["video", "audio"]},
    {"A": ["audio", "dc"], "B": ["audio", "dc"]},
    {"A": ["audio", "audio", "video"], "B": ["audio", "audio", "video"]},
    {"A": ["video:sendonly", "audio:recvonly"], "B": ["video:recvonly", "audio:sendonly"]},
]


def lockstep(pair, states):
    """Compare the recorded steps with the model states of the same behaviour.

    -> (steps compared, outcome agreed, signalling agreed, slots agreed)"""
    m2r = {}
    n = oc = sg = sl = 0
    for step, state in zip(pair.steps, states):
        a = state["act"]
        n += 1
        if step["out"] in a["alw"]:
            oc += 1
        if a["new"] and step["nk"]:
            m2r[a["new"]] = step["nk"]
        if all(step["post"][p]["sig"] == state["st"][p]["sig"] for p in PEERS):
            sg += 1
        good = True
        for p in PEERS:
            for s in ("pl", "cl", "pr", "cr"):
                mv = state["st"][p][s]
                ov = step["post"][p][s]
                if ov == "n/a":
                    continue
                ok_ = (ov == "none") if mv == 0 else (mv in m2r and ov.split(":")[0] == "d%d" % m2r[mv])
                good = good and ok_
        if good:
            sl += 1
    return n, oc, sg, sl


def parse_dot(path):
    """TLC `-dump dot,actionlabels` (no VIEW) -> (root id, {id: state}, {id: parent id}).

    Node ids are TLC fingerprints (they change from run to run), and the order of the dump
    depends on worker scheduling; the spanning tree is therefore made canonical: the parent
    of a node is the predecessor with the smallest call sequence, and nodes carry that
    sequence as `key`."""
    nodes, preds, root = {}, {}, None
    node_re = re.compile(r'^(-?\d+) \[label="(.*?)",(?:style|tooltip)')
    edge_re = re.compile(r'^(-?\d+) -> (-?\d+) \[')
    with open(path) as f:
        for ln in f:
            m = edge_re.match(ln)
            if m:
                if m.group(1) != m.group(2):
                    preds.setdefault(m.group(2), set()).add(m.group(1))
                continue
            m = node_re.match(ln)
            if m:
                nid = m.group(1)
                if nid in nodes:
                    continue
                body = m.group(2).replace("\\n", "\n").replace('\\"', '"').replace("\\\\", "\\")
                parts = re.split(r"^/\\ (\w+) = ", body, flags=re.M)
                st = {}
                for k in range(1, len(parts), 2):
                    if parts[k] in ("st", "act", "n"):
                        st[parts[k]] = T.parse_value(parts[k + 1].strip())
                nodes[nid] = st
                if st.get("n") == 0:
                    root = nid
    parent = {}
    if root is not None:
        nodes[root]["key"] = ()
        for nid in sorted((i for i in nodes if i != root), key=lambda i: nodes[i]["n"]):
            cands = [(nodes[a]["key"], a) for a in preds.get(nid, ()) if "key" in nodes[a]]
            if not cands:
                continue
            k, a = min(cands)
            parent[nid] = a
            nodes[nid]["key"] = k + (json.dumps(nodes[nid]["act"], sort_keys=True),)
    return root, nodes, parent


def graph_paths(root, nodes, parent, want_all, r, cap):
    """Paths (lists of states after each call) from the root.

    Cover: for every abstract edge class (signalling states of both peers before the call,
    whether the callee has a current description, the call, its outcome) at least one path;
    want_all: additionally up to `cap` leaves."""
    def path_to(nid):
        p = []
        while nid != root:
            p.append(nid)
            nid = parent[nid]
        p.reverse()
        return p

    def cls(nid):
        a = nodes[nid]["act"]
        pre = nodes[parent[nid]]["st"]
        p = a["p"]
        return (pre[p]["sig"], pre[other(p)]["sig"], pre[p]["cl"] != 0 or pre[p]["cr"] != 0,
                p, a["op"], a["type"], a["defect"], a["out"], a["base"])

    ids = [i for i in nodes if i != root and i in parent]
    ids.sort(key=lambda i: (-nodes[i]["n"], nodes[i]["key"]))
    classes = {}
    for i in ids:
        classes.setdefault(cls(i), []).append(i)
    chosen, covered = [], set()
    # deepest representatives first: a long path covers the classes of all its prefixes
    for c in sorted(classes, key=lambda c: (-nodes[classes[c][0]]["n"], str(c))):
        if c in covered:
            continue
        nid = classes[c][0]
        pth = path_to(nid)
        chosen.append(pth)
        for x in pth:
            covered.add(cls(x))
    if want_all:
        has_child = set(parent.values())
        leaves = sorted((i for i in ids if i not in has_child), key=lambda i: nodes[i]["key"])
        r.shuffle(leaves)
        for nid in leaves[:cap]:
            chosen.append(path_to(nid))
    return [[nodes[x] for x in pth] for pth in chosen], len(classes)


# ----------------------------------------------------------------------------- random driver

ITEMS = ["audio", "video", "dc", "audio:sendonly", "video:recvonly", "audio:recvonly", "video:sendonly"]


def random_cfg(r):
    """Media of the two peers: identical / same kinds in another order and direction / unrelated."""
    def items(n):
        it = [r.choice(ITEMS) for _ in range(n)]
        if it.count("dc") > 1:
            it = [i for i in it if i != "dc"] + ["dc"]
        return it

    x = r.random()
    if x < 0.40:
        it = [i.partition(":")[0] for i in items(r.randint(1, 3))]
        return {"A": list(it), "B": list(it)}
    if x < 0.80:
        a = items(r.randint(1, 3))
        b = [i.partition(":")[0] for i in a]
        r.shuffle(b)
        b = [i if i == "dc" else i + r.choice(["", "", ":sendonly", ":recvonly"]) for i in b]
        return {"A": a, "B": b}
    return {"A": items(r.randint(1, 3)), "B": items(r.randint(1, 3))}


def all_calls():
    cs = []
    for p in PEERS:
        cs.append({"p": p, "op": "createOffer"})
        cs.append({"p": p, "op": "createAnswer"})
        cs.append({"p": p, "op": "close"})
        cs.append({"p": p, "op": "setLocal", "type": "implicit"})
        for ty in ("offer", "answer"):
            cs.append({"p": p, "op": "setLocal", "type": ty})
            cs.append({"p": p, "op": "setRemote", "type": ty})
            for df in ("noice", "nomux", "mismatch", "badrole"):
                if ty == "answer" or df in ("noice", "nomux"):
                    cs.append({"p": p, "op": "setRemote", "type": ty, "defect": df})
    for c in cs:
        c.setdefault("type", "none")
        c.setdefault("defect", "none")
    return cs


CALLS = all_calls()


def make_chooser(r, p_progress, p_close, p_media):
    """Random call sequences biased towards completing negotiation rounds."""
    state = {"after_close": 0}

    def legal(pair, c):
        s = pair.sig(c["p"])
        op, ty = c["op"], c["type"]
        if op == "close":
            return False
        if s == "closed":
            return False
        if op == "createOffer":
            return s != "have-remote-offer"
        if op == "createAnswer":
            return s == "have-remote-offer"
        if c["defect"] != "none":
            return False
        if ty == "implicit":
            return True
        if op == "setLocal":
            return s in ("stable", "have-local-offer") if ty == "offer" else s == "have-remote-offer"
        return s in ("stable", "have-remote-offer") if ty == "offer" else s == "have-local-offer"

    def choose(pair):
        if all(pair.sig(p) == "closed" for p in PEERS):
            state["after_close"] += 1
            if state["after_close"] > 3:
                return None
        if r.random() < p_media:
            p = r.choice(PEERS)
            if pair.sig(p) == "stable":
                have_dc = "dc" in pair.cfg[p] or any(m[1] == p and m[2] == "dc" for m in pair.media)
                pair.add_media(p, r.choice(ITEMS[:2] if have_dc else ITEMS[:3]))
        en = [c for c in CALLS if pair.enabled(c)]
        x = r.random()
        if x < p_close:
            return {"p": r.choice(PEERS), "op": "close", "type": "none", "defect": "none"}
        if x < p_close + p_progress:
            good = [c for c in en if legal(pair, c)]
            # prefer calls that move the negotiation on over yet another createOffer
            movers = [c for c in good if c["op"] in ("setLocal", "setRemote", "createAnswer") and c["type"] != "implicit"]
            if movers and r.random() < 0.75:
                return r.choice(movers)
            if good:
                return r.choice(good)
        return r.choice(en)

    return choose


# ----------------------------------------------------------------------------- prefix matrix

def _c(p, op, type_="none", defect="none"):
    return {"p": p, "op": op, "type": type_, "defect": defect}


def _round(o, explicit=True):
    a = other(o)
    if explicit:
        return [_c(o, "createOffer"), _c(o, "setLocal", "offer"), _c(a, "setRemote", "offer"),
                _c(a, "createAnswer"), _c(a, "setLocal", "answer"), _c(o, "setRemote", "answer")]
    return [_c(o, "setLocal", "implicit"), _c(a, "setRemote", "offer"), _c(a, "setLocal", "implicit"),
            _c(o, "setRemote", "answer")]


def prefix_matrix():
    """Histories that a wrong guard may depend on, each followed by every call of the alphabet."""
    pre = {
        "fresh": [],
        "round": _round("A"),
        "round+offer": _round("A") + [_c("A", "createOffer"), _c("A", "setLocal", "offer")],
        "round+offer+delivered": _round("A") + [_c("A", "createOffer"), _c("A", "setLocal", "offer"),
                                                _c("B", "setRemote", "offer")],
        "round+offer+answer-made": _round("A") + [_c("B", "setLocal", "implicit"), _c("A", "setRemote", "offer"),
                                                  _c("A", "createAnswer")],
        "two-rounds": _round("A", False) + _round("B"),
        "round+glare": _round("B") + [_c("A", "setLocal", "implicit"), _c("B", "setLocal", "implicit")],
        "round+close": _round("A") + [_c("A", "close")],
        "offer+close": [_c("A", "setLocal", "implicit"), _c("B", "setRemote", "offer"), _c("B", "createAnswer"),
                        _c("A", "close"), _c("B", "close")],
    }
    progs = []
    for name, calls in pre.items():
        for c in CALLS:
            progs.append((name, calls + [dict(c)]))
    return progs


MATRIX_CFGS = SYM_CFGS[:5] + [{"A": ["audio", "video"], "B": ["video:recvonly", "audio:sendonly"]}]


# ----------------------------------------------------------------------------- judging

def _slim_obs(o):
    """For TLC: the signalling state and ONE string that identifies all slots (only equality matters)."""
    return {"sig": o["sig"], "s": ",".join(o[k] for k in ("pl", "cl", "pr", "cr", "loc", "rem"))}


def judge(sc, traces, timeout=300):
    slim = [{"id": t["id"], "init": {p: _slim_obs(t["init"][p]) for p in PEERS},
             "steps": [{"p": s["p"], "op": s["op"], "type": s["type"], "ms": s["ms"], "ice": s["ice"], "mux": s["mux"],
                        "role": s["role"], "out": s["out"], "nms": s["nms"],
                        "post": {p: _slim_obs(s["post"][p]) for p in PEERS}, "ev": s["ev"]}
                       for s in t["steps"]]} for t in traces]
    val, verdicts = T.validate_traces(sc, "TraceJsep", TRACE_CFG, slim, timeout=timeout)
    if len(verdicts) != len(traces):
        raise T.MachineryError("trace validation incomplete: %d of %d verdicts\n%s"
                               % (len(verdicts), len(traces), val.out[-2500:]))
    return val, verdicts


def binding_selftest(sc, traces, verdicts):
    """Corrupt one field of an ACCEPTED recorded trace per clause; each must be rejected by that clause."""
    def find(pred):
        for t in traces:
            if verdicts[t["id"]][0] != "ok":
                continue
            for i, s in enumerate(t["steps"]):
                if pred(t, i, s):
                    return t, i
        return None, None

    cases = []
    # an error reported as success / success reported as the wrong error
    t, i = find(lambda t, i, s: s["out"] == "InvalidStateError" and s["op"] == "setRemote" and s["defect"] == "none")
    if t:
        b = copy.deepcopy(t)
        b["steps"][i]["out"] = "ValueError"
        cases.append(("C14.outcome", b))
    # a successful setRemote(offer) that stays in the old state
    t, i = find(lambda t, i, s: s["out"] == "ok" and s["op"] == "setRemote" and s["type"] == "offer"
                and s["post"][s["p"]]["sig"] == "have-remote-offer" and i + 1 == len(t["steps"]))
    if t is None:
        t, i = find(lambda t, i, s: s["out"] == "ok" and s["op"] == "setRemote" and s["type"] == "offer")
    if t:
        b = copy.deepcopy(t)
        b["steps"] = b["steps"][:i + 1]
        b["steps"][i]["post"][b["steps"][i]["p"]]["sig"] = "stable"
        b["steps"][i]["ev"][b["steps"][i]["p"]] = []
        cases.append(("C14.state", b))
    # a failing call that moved a slot
    t, i = find(lambda t, i, s: s["out"] == "ValueError")
    if t:
        b = copy.deepcopy(t)
        b["steps"][i]["post"][b["steps"][i]["p"]]["pr"] = "d7777:deadbeef"
        cases.append(("C14.side_effect", b))
    # a closed peer that comes back
    t, i = find(lambda t, i, s: i > 0 and t["steps"][i - 1]["post"][s["p"]]["sig"] == "closed" and s["op"] != "close")
    if t:
        b = copy.deepcopy(t)
        b["steps"][i]["post"][b["steps"][i]["p"]]["sig"] = "stable"
        cases.append(("C14.closed_absorbing", b))
    res = {}
    for j, (clause, b) in enumerate(cases):
        b["id"] = j + 1
    if cases:
        _, bv = judge(sc, [b for _, b in cases])
        for j, (clause, b) in enumerate(cases):
            got = bv.get(j + 1, ("?", 0))[0]
            res[clause] = got
            if got != clause:
                raise T.MachineryError("binding self-test: corrupted trace expected %s, got %r" % (clause, got))
    missing = {"C14.outcome", "C14.state", "C14.side_effect", "C14.closed_absorbing"} - set(res)
    if missing:
        raise T.MachineryError("binding self-test: no recorded trace to corrupt for %s" % sorted(missing))
    return res


def signature(step, pre_sig):
    """Input class of a rejected step (matched against known_findings.json)."""
    eff = step["type"]
    if eff == "implicit":
        eff = "answer" if pre_sig == "have-remote-offer" else "offer"
    return {"op": step["op"], "eff": eff, "defect": step["defect"], "pre_sig": pre_sig,
            "post_sig": step["post"][step["p"]]["sig"], "out": step["out"], "msg": step.get("msg", "")[:60]}


def load_regressions():
    progs = []
    if os.path.isdir(REGRESS):
        for f in sorted(os.listdir(REGRESS)):
            if f.endswith(".json"):
                with open(os.path.join(REGRESS, f)) as fh:
                    o = json.load(fh)
                progs.append((f, o))
    return progs


# ----------------------------------------------------------------------------- run

def _reap_children(*_a):
    """Kill the TLC JVMs of this process (harness.tlc starts them in their own sessions, so a
    terminated check would otherwise leave them running)."""
    me = os.getpid()
    for d in os.listdir("/proc"):
        if not d.isdigit():
            continue
        try:
            with open("/proc/%s/stat" % d) as f:
                fields = f.read().rsplit(")", 1)[1].split()
            if int(fields[1]) == me:
                if int(fields[2]) == int(d) and int(d) != os.getpgrp():   # leads its own process group
                    os.killpg(int(d), signal.SIGKILL)
                else:
                    os.kill(int(d), signal.SIGKILL)
        except (OSError, IndexError, ValueError):
            continue
    if _a:      # called as a signal handler
        os._exit(2)


def run():
    rep = Report("C14")
    atexit.register(_reap_children)
    for sg in (signal.SIGTERM, signal.SIGINT, signal.SIGHUP):
        try:
            signal.signal(sg, _reap_children)
        except ValueError:
            pass
    thorough = tier() == "thorough"
    r = rng(14)
    t_start = time.time()
    timing = {}
    try:
        if True:    # (scratch directories are created per TLC run, right before use)
            # ---- 1. design level.  All TLC runs go ONE AFTER THE OTHER through a single
            # background thread (never two JVMs at a time), each under a timeout that fits
            # the tier; the main thread meanwhile drives the real code (3a).
            n_exh, d_exh = (7, 5) if thorough else (6, 4)
            n_graph = 4 if thorough else 3
            nsim = 800 if thorough else 250
            t_exh = 600 if thorough else 120
            t_small = 300 if thorough else 90
            box = {}

            def graph_job(sc2):
                dot = os.path.join(sc2.dir, "graph")
                res = T.tlc(sc2, "Jsep", GRAPH_CFG % {"n": n_graph}, args=["-dump", "dot,actionlabels", dot],
                            workers=4, timeout=t_small)
                if res.complete:
                    res.graph = parse_dot(dot + ".dot")
                return res

            jobs = [("graph", graph_job),
                    ("sim", lambda s: T.simulate(s, "Jsep", SIM_CFG % {"n": 14}, num=nsim, depth=15, seed=seed(),
                                                 timeout=t_small, workers=4)),
                    ("exh", lambda s: T.tlc(s, "Jsep", EXH_CFG % {"n": n_exh, "d": d_exh, "keep": "FALSE"},
                                            args=["-coverage", "1"], timeout=t_exh, workers=8))]
            wit = dict(WITNESSES)
            if thorough:
                wit.update(WITNESSES_THOROUGH)
            for w, n in wit.items():
                jobs.append((w, lambda s, w=w, n=n: T.tlc(s, "Jsep", WITNESS_CFG % {"n": n, "w": w}, workers=2,
                                                          timeout=t_small)))
            if thorough:
                jobs.append(("exh_keep", lambda s: T.tlc(s, "Jsep", EXH_CFG % {"n": n_exh - 1, "d": d_exh, "keep": "TRUE"},
                                                         timeout=t_exh, workers=8)))

            ready = {name: threading.Event() for name, _ in jobs}

            def tlc_worker():
                for name, fn in jobs:
                    try:
                        with T.Scratch() as sc2:
                            t1 = time.time()
                            box[name] = fn(sc2)
                            timing["tlc_%s_s" % name] = round(time.time() - t1, 1)
                    except Exception as e:  # noqa: BLE001
                        box[name] = e
                    ready[name].set()
                    _dbg("tlc job done", name, timing.get("tlc_%s_s" % name))

            tlc_thread = threading.Thread(target=tlc_worker, daemon=True)
            tlc_thread.start()

            # ---- 3a. meanwhile: seeded random call sequences on the real code
            t0 = time.time()
            traces = []
            nrand = 8000 if thorough else 600
            skipped = 0
            for i in range(nrand):
                cfg = random_cfg(r)
                sd = r.randrange(1 << 30)
                long_ = r.random() < 0.3
                ch = make_chooser(random.Random(sd), p_progress=r.choice([0.5, 0.7, 0.85]),
                                  p_close=r.choice([0.01, 0.03, 0.08]), p_media=r.choice([0.0, 0.0, 0.05]))
                pair, sk = run_program(cfg, None, sd=sd, chooser=ch, maxlen=r.randint(25, 60) if long_ else r.randint(6, 24))
                skipped += sk
                traces.append(pair.trace(len(traces) + 1, "random"))
            timing["random_s"] = round(time.time() - t0, 1)
            _dbg("random done", timing)

            # regressions (saved programs)
            for name, o in load_regressions():
                pair, sk = run_program(o["cfg"], o["calls"], sd=o.get("sd", 0), media=o.get("media", ()))
                traces.append(pair.trace(len(traces) + 1, "regress:" + name))

            # every call of the alphabet after each of a few negotiation histories
            t0 = time.time()
            nmatrix = 0
            for rep_i in range(3 if thorough else 1):
                for j, (name, calls) in enumerate(prefix_matrix()):
                    pair, sk = run_program(MATRIX_CFGS[(j + rep_i) % len(MATRIX_CFGS)], calls, sd=j + 1000 * rep_i)
                    traces.append(pair.trace(len(traces) + 1, "matrix:" + name))
                    nmatrix += 1
            timing["matrix_s"] = round(time.time() - t0, 1)

            for name in ("graph", "sim"):
                ready[name].wait()
                if isinstance(box[name], Exception):
                    raise T.MachineryError("TLC run %s failed: %r" % (name, box[name]))
            if not box["graph"].complete or box["graph"].violated:
                raise T.MachineryError("design model Jsep (graph) failed: %s\n%s"
                                       % (box["graph"].violated, box["graph"].out[-2000:]))

            # ---- 2. spec -> code
            t0 = time.time()
            root, nodes, parent = box["graph"].graph
            if root is None or len(nodes) != box["graph"].distinct:
                raise T.MachineryError("state graph dump not understood: %d nodes parsed, TLC reports %d"
                                       % (len(nodes), box["graph"].distinct))
            paths, nclasses = graph_paths(root, nodes, parent, thorough, r, 1500)
            sim, behs = box["sim"]
            if not behs:
                raise T.MachineryError("no simulated behaviours\n" + sim.out[-1500:])
            agree = [0, 0, 0, 0]
            lock_skipped = 0
            model_runs = [("tlc-graph", p) for p in paths] + [("tlc-simulate", [s for _, s in b[1:]]) for b in behs]
            for bi, (src, states) in enumerate(model_runs):
                cfg = SYM_CFGS[bi % len(SYM_CFGS)]
                calls = [call_of_act(s["act"]) for s in states]
                pair, sk = run_program(cfg, calls, sd=bi)
                lock_skipped += sk
                if sk == 0:
                    for j, v in enumerate(lockstep(pair, states)):
                        agree[j] += v
                traces.append(pair.trace(len(traces) + 1, src))
            timing["replay_s"] = round(time.time() - t0, 1)
            _dbg("replay done", timing, len(paths), len(behs))

            # ---- 1 (cont.): results of the exhaustive run and the witnesses
            tlc_thread.join()
            for k, v in box.items():
                if isinstance(v, Exception):
                    raise T.MachineryError("TLC run %s failed: %r" % (k, v))
            exh = box["exh"]
            for name in ("exh", "exh_keep", "graph"):
                res = box.get(name)
                if res is not None and (not res.complete or res.violated):
                    raise T.MachineryError("design model Jsep (%s) failed%s: %s\n%s"
                                           % (name, " (timeout)" if res.timed_out else "", res.violated, res.out[-2000:]))
            for w in wit:
                if w not in box[w].violated:
                    raise T.MachineryError("vacuity: witness %s not violated\n%s" % (w, box[w].out[-1500:]))
            cov = action_counts(exh.out)
            for a in ACTIONS:
                if cov.get(a, (0, 0))[1] == 0:
                    raise T.MachineryError("coverage: action %s never taken (%r)" % (a, cov))


            # ---- 3b. code -> spec: judge everything with TLC
            t0 = time.time()
            with T.Scratch() as sc:
                val, verdicts = judge(sc, traces, timeout=1200 if thorough else 300)
            # ---- 4. binding self-test
            with T.Scratch() as sc:
                bind = binding_selftest(sc, traces, verdicts)
            timing["judge_s"] = round(time.time() - t0, 1)
            _dbg("judge done", timing)

        outcomes = {}
        pre_cov = set()
        for t in traces:
            sg = {p: "stable" for p in PEERS}
            for s in t["steps"]:
                outcomes[s["out"].split(":")[0]] = outcomes.get(s["out"].split(":")[0], 0) + 1
                pre_cov.add((sg[s["p"]], s["op"], s["type"], s["defect"], s["out"]))
                sg = {p: s["post"][p]["sig"] for p in PEERS}
        rounds = sum(1 for t in traces for s in t["steps"]
                     if s["out"] == "ok" and s["op"] == "setRemote" and s["type"] == "answer")
        for t in traces:
            v, pos = verdicts[t["id"]]
            if v.startswith("machinery"):
                raise T.MachineryError("trace %d: %s" % (t["id"], v))
            if v != "ok":
                step = t["steps"][pos - 1] if pos >= 1 else None
                show, pre_sig = None, None
                if step:
                    pre_sig = (t["steps"][pos - 2]["post"] if pos >= 2 else t["init"])[step["p"]]["sig"]
                    show = {k: step[k] for k in ("p", "op", "type", "defect", "out", "ev") if k in step}
                    show["msg"] = step.get("msg")
                    show["post_sig"] = step["post"][step["p"]]["sig"]
                    show["pre_sig"] = pre_sig
                rep.violation(v, signature(step, pre_sig) if step else {},
                              {"step": show, "position": pos, "source": t["src"], "cfg": t["cfg"],
                               "calls": [(c["p"], c["op"], c["type"], c["defect"]) for c in t["calls"][:pos]]},
                              {"cfg": t["cfg"], "sd": t["sd"], "calls": t["calls"][:pos], "media": t["media"],
                               "recorded": {"init": t["init"], "steps": t["steps"][:pos]}})
        rep.coverage = {
            "states": exh.distinct, "transitions": exh.generated, "exhaustive": True, "model_depth": exh.depth,
            "max_calls": n_exh, "max_descs": d_exh,
            "states_keep_pending_cfg": box["exh_keep"].distinct if "exh_keep" in box else box["graph"].distinct,
            "graph_states": box["graph"].distinct, "graph_edge_classes": nclasses, "graph_paths_replayed": len(paths),
            "simulated_behaviours": len(behs),
            "witnesses_violated": sorted(wit),
            "action_coverage": {a: cov[a][1] for a in ACTIONS},
            "traces_validated_against_impl": len(traces),
            "trace_events_validated": sum(len(t["steps"]) for t in traces),
            "trace_validation_states": val.distinct,
            "random_sequences": nrand, "random_calls_skipped": skipped, "prefix_matrix_sequences": nmatrix,
            "regressions": len(load_regressions()),
            "negotiation_rounds_completed": rounds,
            "outcomes": outcomes,
            "distinct_state_call_outcome_triples": len(pre_cov),
            "lockstep_steps": agree[0], "lockstep_outcome_agree": agree[1], "lockstep_signalling_agree": agree[2],
            "lockstep_slots_agree": agree[3], "lockstep_calls_skipped": lock_skipped,
            "slots_observed": "private" if all(s["post"]["A"]["pl"] != "n/a" for s in traces[0]["steps"]) else "public only",
            "binding_selftest": bind,
            "timing": timing,
            "samples": [[{k: s[k] for k in ("p", "op", "type", "defect", "out")} | {"sig": s["post"][s["p"]]["sig"]}
                         for s in t["steps"][:10]] for t in (traces[0], traces[-1])],
        }
        rep.assumptions = [
            "description identity = s= line stamped by the harness (session name has no meaning in WebRTC) + SHA-1 of type and text",
            "media sections / ICE credentials / rtcp-mux / a=setup of a description are read by the harness' own line scanner",
            "candidate lines are removed from every description passed on, so ICE never connects (signalling only)",
            "legal calls get fresh descriptions only (created since the last description was applied; answers answer the pending offer); stale descriptions are used in illegal calls only",
            "pranswer / rollback are outside the alphabet; createOffer in have-remote-offer may succeed or raise InvalidStateError",
            "slots after successful calls are adopted, not prescribed; on errors all four slots, localDescription, remoteDescription, signalingState and events must be unchanged",
        ]
        return rep.finish()
    except T.MachineryError as e:
        return rep.finish(machinery_error=e)


def replay(path):
    """Re-execute the saved program on the current tree and re-judge it."""
    obj = json.load(open(path))
    t = obj.get("replay") or obj
    pair, sk = run_program(t["cfg"], t["calls"], sd=t.get("sd", 0), media=t.get("media", ()))
    tr = pair.trace(1, "replay")
    with T.Scratch() as sc:
        _, v = judge(sc, [tr])
    verdict, pos = v.get(1, ("machinery", 0))
    for s in tr["steps"]:
        print("  %s.%s(%s%s) -> %s   %s" % (s["p"], s["op"], s["type"], "" if s["defect"] == "none" else "/" + s["defect"],
                                              s["out"], s["post"][s["p"]]["sig"]))
    if verdict == "ok":
        print("replay: trace accepted on the current tree (%d calls, %d skipped)" % (len(tr["steps"]), sk))
        return 0
    print("VIOLATION property=C14 replay=%s clause=%s step=%d" % (path, verdict, pos))
    return 1
