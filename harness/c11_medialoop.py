"""C11 (+ the RTP part of C17) - video frames reach the decoder unspliced; NACK/RTX recovery.

Specs: specs/MediaLoopObs.tla (A), specs/MediaLoop.tla (M), specs/TraceMediaLoop.tla.

quick / thorough:
  1. TLC checks MediaLoop.tla (sender history ring, retransmission, lossy media path,
     RTX unwrap, NACK generator, small jitter buffer, PLI) exhaustively for small
     constants against the clauses of MediaLoopObs.tla; witnesses, coverage, deviations.
  2. spec -> code: `tlc -simulate` behaviours of MediaLoop at the REAL constants (history
     128, jitter capacity 128, mis-order limit 100) are replayed packet by packet into a
     real RTCRtpSender / RTCRtpReceiver pair joined by fake transports under virtual
     time; agreement = decoder input sequence equal to the model's.
  3. code -> spec: seeded random loss / duplication / reordering schedules at real sizes,
     each under several sequence-number / timestamp origins (C17), recorded as traces.
  4. All traces are judged by TraceMediaLoop.tla (TLC); binding self-test.
"""
MANIFEST = dict(
    technique="TLA+ specs MediaLoopObs.tla (observable clauses) and MediaLoop.tla (sender history ring, RTX, NACK generator, jitter buffer, PLI) model-checked with TLC; TLC-simulated fault schedules replayed into a real RTCRtpSender/RTCRtpReceiver pair over a driver-controlled fake network under virtual time; seeded random loss/duplication/reordering schedules at real sizes and wrap-adjacent origins recorded and judged by TraceMediaLoop.tla (TLC trace validation)",
    text="Exhaustive TLC check of the closed retransmission loop design for small constants (frames of 1-3 packets, history 4, jitter capacity 4, bounded faults, RTX on/off) against the property clauses (decoder inputs are whole sent frames or an allowed tail, in sending order, NACK <= history size, recovery under loss-free feedback), plus conformance of the real sender/receiver pair in both directions; every recorded decoder input, NACK and retransmission is judged by the TLA+ clause operators, and every schedule is run under several RTP sequence/timestamp origins that must give equal observable results (C17).",
    note="Trusted: TLC, the harness' fake transports/network and byte-segment projection of decoder inputs, the real VP8/H264 packetisers as frame sources (codecs are not run). PLI on the wire is taken as the observable sign of a buffer discard. Recovery is only demanded for frames sent after the receiver's first packet and after the last discard, whose lost packets were within 128 of the sender's newest packet when the gap became visible, and not for the trailing frames. Conformance is sampled; the design check is exhaustive within the stated constants.",
    design_ref="5/C11",
    category="model_checking")

import asyncio  # noqa: E402
import copy  # noqa: E402
import fractions  # noqa: E402
import heapq  # noqa: E402
import json  # noqa: E402
import struct  # noqa: E402

from . import common  # noqa: F401,E402  (sets sys.path for aiortc)
from .common import Report, rng, seed, tier  # noqa: E402
from . import tlc as T  # noqa: E402
from .vloop import ShimTime, VLoop  # noqa: E402

HISTORY = 128          # the property's "128-packet retransmission history"
TS_STEP = 3000         # 90 kHz / 30 fps
MEDIA_SSRC = 0x1234ABCD
RTX_SSRC = 0x2345BCDE
RTCP_SSRC = 0x0BADCAFE
PT_MEDIA = 100
PT_RTX = 101


# ----------------------------------------------------------------------------- frames


def make_frame(codec, fid, npkts, r):
    """An opaque, self-describing frame of `npkts` packets (after the real packetiser).

    Content: 12-byte ASCII tokens "<fid:04d>.<index:06d>;" - any 24-byte window occurs at
    most once over all frames of a run, so a byte string decomposes uniquely into
    segments of sent frames.  Neither token contains a zero byte (H.264 start codes).
    """
    if codec == "VP8":
        # capacity per packet is 1296 or 1297 bytes (2- or 1-byte picture id)
        size = (npkts - 1) * 1297 + r.randint(10, 1200)
        body = _tokens(fid, size)
        return body
    # H264: NAL units with 4-byte start codes.  One FU-A fragmented NAL gives the bulk,
    # optionally preceded by small NALs (aggregated into one STAP-A packet).
    small = []
    if npkts >= 2 and r.random() < 0.5:
        small = [r.randint(5, 60) for _ in range(r.randint(2, 3))]
        npkts -= 1
    elif npkts == 1 and r.random() < 0.5:
        small = [r.randint(5, 60) for _ in range(r.randint(2, 3))]
        npkts = 0
    out = b""
    pos = 0
    for n in small:
        out += b"\x00\x00\x00\x01\x41" + _tokens(fid, n, pos)
        pos += n
    if npkts == 1:
        # too big to be aggregated with the small NALs, small enough for one packet
        n = r.randint(1285, 1295) if small else r.randint(100, 1200)
        out += b"\x00\x00\x00\x01\x41" + _tokens(fid, n, pos)
    elif npkts >= 2:
        # FU-A: payload (len - 1) split over ceil(payload / 1298) packets
        n = (npkts - 1) * 1298 + r.randint(10, 1200)
        out += b"\x00\x00\x00\x01\x41" + _tokens(fid, n, pos)
    return out


def _tokens(fid, size, start=0):
    first = start // 12
    n = (start % 12 + size + 11) // 12 + 1
    s = b"".join(b"%04d.%06d;" % (fid % 10000, i) for i in range(first, first + n))
    off = start % 12
    return s[off:off + size]


def segments(data, frames):
    """Decompose `data` into [fid, a, b] pieces of sent frames (fid 0 = unknown bytes).

    A projection, not an oracle: it only names where the bytes come from."""
    # fast paths
    for fid, fb in frames.items():
        if data == fb:
            return [[fid, 0, len(fb)]]
    for fid, fb in frames.items():
        if len(data) < len(fb) and fb.endswith(data) and data:
            return [[fid, len(fb) - len(data), len(fb)]]
    segs = []
    p = 0
    n = len(data)
    while p < n:
        best = None
        probe = data[p:p + 24]
        for fid, fb in frames.items():
            q = fb.find(probe)
            while q >= 0:
                # extend
                m = len(probe)
                while p + m < n and q + m < len(fb) and data[p + m] == fb[q + m]:
                    m += 1
                if best is None or m > best[3] - best[2] + 0:
                    best = (fid, q, p, p + m)
                q = fb.find(probe, q + 1) if len(probe) < 24 else -1
        if best is None:
            # unknown byte(s): extend the unknown run by one byte
            if segs and segs[-1][0] == 0:
                segs[-1][2] += 1
            else:
                segs.append([0, 0, 1])
            p += 1
            continue
        fid, q, p0, p1 = best
        segs.append([fid, q, q + (p1 - p0)])
        p = p1
    return segs or [[0, 0, 0]]


# ----------------------------------------------------------------------------- environment


class FakeDtls:
    """Harness-side stand-in for RTCDtlsTransport: real RtpRouter and header-extension
    map, parsing as in RTCDtlsTransport._handle_rtp_data/_handle_rtcp_data; outgoing
    datagrams go to the driver-controlled network."""

    def __init__(self, env, name):
        from aiortc import rtp
        from aiortc.rtcdtlstransport import RtpRouter
        self.env = env
        self.name = name
        self.state = "connected"
        self._stats_id = "transport_" + name
        self._rtp_router = RtpRouter()
        self._rtp_header_extensions_map = rtp.HeaderExtensionsMap()

    def _get_stats(self):
        from aiortc.stats import RTCStatsReport
        return RTCStatsReport()

    def _register_rtp_receiver(self, receiver, parameters):
        ssrcs = set()
        for encoding in parameters.encodings:
            ssrcs.add(encoding.ssrc)
        self._rtp_header_extensions_map.configure(parameters)
        self._rtp_router.register_receiver(receiver, ssrcs=list(ssrcs),
                                           payload_types=[c.payloadType for c in parameters.codecs],
                                           mid=parameters.muxId)

    def _register_rtp_sender(self, sender, parameters):
        self._rtp_header_extensions_map.configure(parameters)
        self._rtp_router.register_sender(sender, ssrc=sender._ssrc)

    def _unregister_rtp_receiver(self, receiver):
        self._rtp_router.unregister_receiver(receiver)

    def _unregister_rtp_sender(self, sender):
        self._rtp_router.unregister_sender(sender)

    async def _send_rtp(self, data):
        if self.state != "connected":
            raise ConnectionError("not connected")
        self.env.on_wire(self.name, bytes(data))

    async def handle(self, data, arrival_time_ms):
        from aiortc import rtp
        if rtp.is_rtcp(data):
            try:
                packets = rtp.RtcpPacket.parse(data)
            except ValueError:
                return
            for packet in packets:
                for recipient in self._rtp_router.route_rtcp(packet):
                    await recipient._handle_rtcp_packet(packet)
        else:
            try:
                packet = rtp.RtpPacket.parse(data, self._rtp_header_extensions_map)
            except ValueError:
                return
            receiver = self._rtp_router.route_rtp(packet)
            if receiver is not None:
                await receiver._handle_rtp_packet(packet, arrival_time_ms=arrival_time_ms)


def PacketTrack():
    """A video track of pre-encoded av.Packet objects, fed by the driver."""
    from aiortc.mediastreams import MediaStreamError, MediaStreamTrack

    class _Track(MediaStreamTrack):
        kind = "video"

        def __init__(self):
            super().__init__()
            self.q = asyncio.Queue()

        async def recv(self):
            item = await self.q.get()
            if item is None:
                raise MediaStreamError
            return item
    return _Track()


def nack_seqs(data):
    """Sequence numbers listed by the generic NACKs (RTPFB fmt 1) of an RTCP datagram,
    and the number of PLIs (PSFB fmt 1).  Own parser: only the wire format is trusted."""
    out = []
    plis = 0
    pos = 0
    while pos + 4 <= len(data):
        b0, pt, length = struct.unpack("!BBH", data[pos:pos + 4])
        end = pos + 4 + 4 * length
        body = data[pos + 4:end]
        fmt = b0 & 0x1F
        if pt == 205 and fmt == 1:
            lost = []
            for i in range(8, len(body) - 3, 4):
                pid, blp = struct.unpack("!HH", body[i:i + 4])
                lost.append(pid)
                for d in range(16):
                    if (blp >> d) & 1:
                        lost.append((pid + d + 1) & 0xFFFF)
            out.append(lost)
        elif pt == 206 and fmt == 1:
            plis += 1
        pos = end
    return out, plis


class Env:
    """A real RTCRtpSender and a real RTCRtpReceiver over a driver-controlled network.

    `on_wire` only classifies and queues datagrams; the driver decides their fate.
    Events (origin-relative numbers only) are appended to `self.events`.
    """

    def __init__(self, codec="VP8", rtx=True, seq0=1000, ts0=100000, rtxseq0=2000, picid=200,
                 hdrext=True):
        import aiortc.clock as C
        import aiortc.rtcrtpreceiver as RX
        import aiortc.rtcrtpsender as TX
        from aiortc.rtcrtpparameters import (RTCRtcpParameters, RTCRtpCodecParameters,
                                             RTCRtpDecodingParameters, RTCRtpEncodingParameters,
                                             RTCRtpHeaderExtensionParameters, RTCRtpReceiveParameters,
                                             RTCRtpRtxParameters, RTCRtpSendParameters, RTCRtcpFeedback)
        self.codec, self.rtx = codec, rtx
        self.seq0, self.ts0, self.rtxseq0 = seq0 & 0xFFFF, ts0 & 0xFFFFFFFF, rtxseq0 & 0xFFFF
        self.loop = VLoop()
        asyncio.set_event_loop(self.loop)
        self.events = []
        self.frames = {}         # fid -> bytes
        self.frame_seqs = {}     # fid -> (first relseq, npackets)
        self.payloads = {}       # relseq -> (payload bytes, marker, timestamp) of the original
        self.hi = -1             # highest relseq put on the wire by the sender
        self.outbox = []         # datagrams put on the wire in the current step
        self.nrtx = {}           # relseq -> number of retransmissions seen
        self.dec_q = None
        self._step_decs = []
        self._step_fb = []
        self._sent_now = []

        # -- module-level replacements (restored by close()) --------------------------
        self._saved = [(TX, "time", TX.time), (RX, "time", RX.time),
                       (C, "current_datetime", C.current_datetime),
                       (TX, "random_sequence_number", TX.random_sequence_number),
                       (TX, "random32", TX.random32),
                       (TX, "get_encoder", TX.get_encoder),
                       (RX, "decoder_worker", RX.decoder_worker),
                       (TX, "random", TX.random), (RX, "random", RX.random)]
        import random as _random
        TX.random = _random.Random(1)      # RTCP interval jitter: seeded, module-local
        RX.random = _random.Random(2)
        TX.time = ShimTime(self.loop)
        RX.time = ShimTime(self.loop)
        import datetime
        loop = self.loop
        C.current_datetime = lambda: datetime.datetime.fromtimestamp(loop.wall, datetime.timezone.utc)
        seqs = iter([self.rtxseq0, self.seq0])
        TX.random_sequence_number = lambda: next(seqs, self.seq0)
        r32 = iter([MEDIA_SSRC, RTX_SSRC, self.ts0])
        TX.random32 = lambda: next(r32, self.ts0)
        real_get_encoder = self._saved[5][2]

        def get_encoder(c):
            enc = real_get_encoder(c)       # the real packetiser (Vp8Encoder / H264Encoder)
            if hasattr(enc, "picture_id"):
                enc.picture_id = picid & 0x7FFF
            return enc
        TX.get_encoder = get_encoder
        env = self
        import threading
        tapped = threading.Event()

        def tap_worker(loop_, input_q, output_q):
            # synchronous tap instead of the decoder thread: record what is handed over
            # (the thread ends at once; nothing runs concurrently with the event loop)
            env.dec_q = input_q
            input_q.put = env._on_decoder_put
            tapped.set()
        RX.decoder_worker = tap_worker

        # -- parameters ---------------------------------------------------------------
        fb = [RTCRtcpFeedback(type="nack"), RTCRtcpFeedback(type="nack", parameter="pli"),
              RTCRtcpFeedback(type="goog-remb")]
        params = {}
        if codec == "H264":
            params = {"level-asymmetry-allowed": "1", "packetization-mode": "1", "profile-level-id": "42001f"}
        media = RTCRtpCodecParameters(mimeType="video/" + codec, clockRate=90000, payloadType=PT_MEDIA,
                                      rtcpFeedback=fb, parameters=params)
        codecs = [media]
        if rtx:
            codecs.append(RTCRtpCodecParameters(mimeType="video/rtx", clockRate=90000, payloadType=PT_RTX,
                                                parameters={"apt": PT_MEDIA}))
        ext = []
        if hdrext:
            ext = [RTCRtpHeaderExtensionParameters(id=1, uri="urn:ietf:params:rtp-hdrext:sdes:mid"),
                   RTCRtpHeaderExtensionParameters(id=3, uri="http://www.webrtc.org/experiments/rtp-hdrext/abs-send-time")]
        self.tS = FakeDtls(self, "S")
        self.tR = FakeDtls(self, "R")
        self.track = PacketTrack()
        self.sender = TX.RTCRtpSender(self.track, self.tS)
        self.sender._ssrc = MEDIA_SSRC
        self.sender._rtx_ssrc = RTX_SSRC
        self.receiver = RX.RTCRtpReceiver("video", self.tR)
        self.receiver._track = RX.RemoteStreamTrack(kind="video")
        self.receiver._set_rtcp_ssrc(RTCP_SSRC)
        rtxp = RTCRtpRtxParameters(ssrc=RTX_SSRC) if rtx else None
        self.loop.run(self.receiver.receive(RTCRtpReceiveParameters(
            codecs=codecs, headerExtensions=ext, muxId="0",
            encodings=[RTCRtpDecodingParameters(ssrc=MEDIA_SSRC, payloadType=PT_MEDIA, rtx=rtxp)])))
        self.loop.run(self.sender.send(RTCRtpSendParameters(
            codecs=codecs, headerExtensions=ext, muxId="0",
            rtcp=RTCRtcpParameters(cname="verif", ssrc=MEDIA_SSRC),
            encodings=[RTCRtpEncodingParameters(ssrc=MEDIA_SSRC, payloadType=PT_MEDIA,
                                                rtx=RTCRtpRtxParameters(ssrc=RTX_SSRC) if rtx else None)])))
        if not tapped.wait(30) or self.dec_q is None:
            raise T.MachineryError("decoder tap not installed (decoder_worker no longer used?)")
        self.nframes = 0
        self.arrival_ms = 0

    # -- teardown -------------------------------------------------------------------------
    def close(self):
        try:
            try:
                self.track.q.put_nowait(None)
                self.loop.run(self.sender.stop())
                self.loop.run(self.receiver.stop())
            except Exception:
                pass
            for t in asyncio.all_tasks(self.loop):
                t.cancel()
            try:
                self.loop.drain()
            except Exception:
                pass
        finally:
            for mod, name, val in self._saved:
                setattr(mod, name, val)
            self.loop.close()
            asyncio.set_event_loop(None)

    # -- observation ----------------------------------------------------------------------
    def rel(self, seq):
        return (seq - self.seq0) & 0xFFFF

    def _on_decoder_put(self, item, *a, **kw):
        if item is None:
            return
        codec, frame = item
        data = bytes(frame.data)
        segs = segments(data, self.frames)
        ts = frame.timestamp
        self._step_decs.append({"k": "dec", "segs": segs, "ts": int(ts) if abs(int(ts)) < 2 ** 30 else -1,
                                "tsok": bool(int(ts) % TS_STEP == 0)})

    def on_wire(self, src, data):
        """Classify a datagram put on the wire; queue it for the driver."""
        first = data[1] if len(data) > 1 else 0
        is_rtcp = len(data) >= 2 and 192 <= first <= 223
        if src == "S":
            if is_rtcp:
                self.outbox.append({"dir": "m", "kind": "sr", "data": data})
                return
            pt = data[1] & 0x7F
            seq, ts, ssrc = struct.unpack("!HLL", data[2:12])
            hdr = self._rtp_header_len(data)
            payload = data[hdr:]
            marker = data[1] >> 7
            if ssrc == RTX_SSRC:
                osn = struct.unpack("!H", payload[:2])[0] if len(payload) >= 2 else -1
                s = self.rel(osn)
                orig = self.payloads.get(s)
                same = bool(orig is not None and pt == PT_RTX and payload[2:] == orig[0]
                            and marker == orig[1] and ts == orig[2])
                n = self.nrtx[s] = self.nrtx.get(s, 0) + 1
                self.events.append({"k": "rtx", "s": s if s < 40000 else -1, "form": "rtx", "same": same})
                self.outbox.append({"dir": "m", "kind": "re", "s": s, "n": n, "data": data})
                return
            s = self.rel(seq)
            if s in self.payloads or s > 40000:
                # a sequence number sent before: verbatim retransmission
                orig = self.payloads.get(s)
                same = bool(orig is not None and pt == PT_MEDIA and payload == orig[0]
                            and marker == orig[1] and ts == orig[2])
                n = self.nrtx[s] = self.nrtx.get(s, 0) + 1
                self.events.append({"k": "rtx", "s": s if s < 40000 else -1, "form": "plain", "same": same})
                self.outbox.append({"dir": "m", "kind": "re", "s": s, "n": n, "data": data})
                return
            self.payloads[s] = (payload, marker, ts)
            self.hi = max(self.hi, s)
            self._sent_now.append((s, ts, marker))
            self.outbox.append({"dir": "m", "kind": "orig", "s": s, "n": 0, "data": data})
        else:
            if not is_rtcp:
                self.outbox.append({"dir": "f", "kind": "other", "data": data})
                return
            nacks, plis = nack_seqs(data)
            kind = "nack" if nacks else ("pli" if plis else "other")
            for lost in nacks:
                rl = sorted(self.rel(x) for x in lost)
                self._step_fb.append({"k": "nack", "n": len(lost), "lost": [x if x < 40000 else -1 for x in rl]})
            for _ in range(plis):
                self._step_fb.append({"k": "pli"})
            self.outbox.append({"dir": "f", "kind": kind, "data": data})

    @staticmethod
    def _rtp_header_len(data):
        cc = data[0] & 0x0F
        n = 12 + 4 * cc
        if data[0] & 0x10:
            xl = struct.unpack("!H", data[n + 2:n + 4])[0]
            n += 4 + 4 * xl
        return n

    def _flush_step(self):
        # within one step a discard signal is logged before the frame it precedes
        self._step_fb.sort(key=lambda e: 0 if e["k"] == "pli" else 1)
        self.events.extend([e for e in self._step_fb if e["k"] == "pli"])
        self.events.extend(self._step_decs)
        self.events.extend([e for e in self._step_fb if e["k"] != "pli"])
        self._step_fb, self._step_decs = [], []
        while self.loop.task_exceptions:
            name, msg, exc = self.loop.task_exceptions.pop(0)
            self.events.append({"k": "exc", "name": name})

    # -- driver API (each call is one run-to-completion step) -------------------------------
    def send_frame(self, npkts, r):
        """Feed one pre-encoded frame to the sender; returns the datagrams it put on the wire."""
        import av
        self.nframes += 1
        fid = self.nframes
        data = make_frame(self.codec, fid, npkts, r)
        self.frames[fid] = data
        pkt = av.Packet(data)
        pkt.pts = (fid - 1) * TS_STEP
        pkt.time_base = fractions.Fraction(1, 90000)
        self.outbox = []
        self._sent_now = []
        self.track.q.put_nowait(pkt)
        self.loop.drain()
        self.loop.wall += 1 / 30
        sent = self._sent_now
        first = sent[0][0] if sent else -1
        tsrel = ((sent[0][1] - self.ts0) & 0xFFFFFFFF) if sent else -1
        self.frame_seqs[fid] = (first, len(sent))
        self.events.append({"k": "send", "f": fid, "len": len(data), "n": len(sent), "s0": first,
                            "contig": bool([x[0] for x in sent] == list(range(first, first + len(sent)))),
                            "onets": bool(len(set(x[1] for x in sent)) <= 1),
                            "ts": tsrel if tsrel < 2 ** 30 else -1})
        self._flush_step()
        return self.outbox

    def deliver(self, p):
        """Deliver one datagram to the other side; returns the datagrams put on the wire."""
        self.outbox = []
        self._sent_now = []
        if p["dir"] == "m":
            self.arrival_ms += 3
            if p["kind"] in ("orig", "re"):
                self.events.append({"k": "arr", "s": p["s"], "re": 1 if p["kind"] == "re" else 0, "hi": self.hi})
            coro = self.tR.handle(p["data"], self.arrival_ms)
        else:
            coro = self.tS.handle(p["data"], self.arrival_ms)
        try:
            self.loop.run(coro)
        except Exception as exc:   # an exception escaping a handler of the code: recorded, the run goes on
            self.events.append({"k": "exc", "name": type(exc).__name__})   # (lock-step replays and random runs alike)
        self._flush_step()
        return self.outbox

    def fire_rtcp_timer(self):
        """Fire the earliest armed timer (the SR / RR interval sleeps)."""
        self.outbox = []
        self._sent_now = []
        ts = self.loop.timers()
        if ts:
            self.loop.fire(ts[0])
        self._flush_step()
        return self.outbox


# ----------------------------------------------------------------------------- schedules

ORIGINS = [
    # (label, seq0, ts0, rtxseq0); the first is the reference ("small starting values")
    ("small", 1000, 100000, 2000),
    ("seq-wrap", 65536 - 7, 2 ** 32 - 5 * TS_STEP - 11, 65536 - 2),
    ("seq-wrap-late", 65536 - 150, 2 ** 32 - 40 * TS_STEP - 1, 65536 - 30),
    ("half", 32768 - 9, 2 ** 31 - 3 * TS_STEP - 5, 32768 - 3),
    ("max", 65535, 2 ** 32 - 1, 65535),
    ("zero", 0, 0, 0),
]


def _u(spec, kind, key):
    """Deterministic per-packet randomness, keyed by the packet's identity (not by the
    order in which the code happened to emit it)."""
    import random
    return random.Random("%d|%s|%s" % (spec["seed"], kind, key))


def fate_media(spec, s):
    """Fate of the original transmission of relative sequence number s:
    list of delays (one per delivered copy; [] = lost)."""
    if s >= spec.get("clean_from", 1 << 30):
        return [0]
    for a, n in spec.get("bursts", ()):
        if a <= s < a + n:
            return []
    res = None
    for a, n, d in spec.get("late", ()):
        if a <= s < a + n:
            res = [0, d]            # a second copy arrives d positions late
    for a, n, d in spec.get("held", ()):
        if a <= s < a + n:
            return [d]              # the only copy arrives d positions late
    r = _u(spec, "m", s)
    x = r.random()
    if res is not None:
        return res
    if x < spec["p_drop"]:
        return []
    if x < spec["p_drop"] + spec["p_dup"]:
        return [0, r.randint(0, spec["max_delay"])]
    if x < spec["p_drop"] + spec["p_dup"] + spec["p_delay"]:
        return [r.randint(1, spec["max_delay"])]
    return [0]


def fate_re(spec, s, n):
    if spec["lossfree"]:
        return [0]
    r = _u(spec, "r", "%d.%d" % (s, n))
    x = r.random()
    if x < spec["re_p_drop"]:
        return []
    if x < spec["re_p_drop"] + 0.1:
        return [r.randint(1, spec["max_delay"])]
    if x < spec["re_p_drop"] + 0.15:
        return [0, r.randint(0, spec["max_delay"])]
    return [0]


def fate_fb(spec, n):
    if spec["lossfree"]:
        return [0]
    r = _u(spec, "f", n)
    x = r.random()
    if x < spec["fb_p_drop"]:
        return []
    if x < spec["fb_p_drop"] + 0.15:
        return [r.randint(1, spec["max_delay"])]
    return [0]


def random_spec(r, idx, thorough):
    """One schedule at real sizes."""
    cls = r.choice(["light", "light", "heavy", "burst", "burst", "reorder", "longburst", "late", "held", "start"])
    spec = {
        "seed": r.randrange(1 << 30), "cls": cls,
        "codec": r.choice(["VP8", "VP8", "H264"]), "rtx": r.random() < 0.6,
        "picid": r.choice([200, 5000, 32767 - r.randint(0, 20), 120, 0]),
        "hdrext": r.random() < 0.8,
        "lossfree": r.random() < 0.65,
        "p_drop": 0.0, "p_dup": 0.0, "p_delay": 0.0, "max_delay": 6,
        "re_p_drop": 0.25, "fb_p_drop": 0.25,
        "bursts": [], "late": [], "held": [], "timers": [],
    }
    nfr = r.randint(12, 40)
    if cls == "light":
        spec.update(p_drop=r.uniform(0.01, 0.08), p_dup=r.uniform(0, 0.05), p_delay=r.uniform(0, 0.08),
                    max_delay=r.randint(1, 8))
    elif cls == "heavy":
        spec.update(p_drop=r.uniform(0.1, 0.35), p_dup=r.uniform(0, 0.15), p_delay=r.uniform(0.05, 0.3),
                    max_delay=r.randint(2, 40))
    elif cls == "reorder":
        spec.update(p_drop=r.uniform(0, 0.03), p_dup=r.uniform(0, 0.1), p_delay=r.uniform(0.2, 0.6),
                    max_delay=r.randint(1, 30))
    elif cls == "burst":
        spec.update(p_drop=r.uniform(0, 0.03))
        for _ in range(r.randint(1, 3)):
            spec["bursts"].append([r.randint(0, 150), r.randint(2, 40)])
    elif cls == "longburst":
        nfr = r.randint(50, 75)
        spec.update(p_drop=r.uniform(0, 0.02))
        spec["bursts"].append([r.randint(5, 120), r.choice([90, 99, 100, 101, 120, 126, 127, 128, 129, 130, 140, 200])])
    elif cls == "late":
        # second copies of a run of packets arrive very late (around the 100 / 128 marks)
        nfr = r.randint(45, 70)
        spec.update(p_drop=r.uniform(0, 0.03))
        spec["late"].append([r.randint(0, 60), r.randint(1, 12), r.choice([60, 95, 99, 100, 101, 110, 127, 128, 129, 150])])
    elif cls == "held":
        # the only copy of a run of packets arrives very late
        nfr = r.randint(45, 70)
        spec.update(p_drop=r.uniform(0, 0.03))
        spec["held"].append([r.randint(0, 60), r.randint(1, 10), r.choice([30, 60, 99, 100, 101, 127, 128, 129, 150])])
    elif cls == "start":
        # trouble right at the start of the stream
        spec.update(p_drop=r.uniform(0, 0.05), p_delay=r.uniform(0, 0.1))
        k = r.randint(1, 6)
        if r.random() < 0.5:
            spec["bursts"].append([0, k])
        else:
            spec["held"].append([0, k, r.randint(1, 20)])
    spec["sizes"] = [r.randint(1, 8) for _ in range(nfr)]
    if r.random() < 0.3:
        spec["sizes"] = [r.choice([1, 1, 1, 2]) for _ in range(nfr)]
    if r.random() < 0.3:
        spec["timers"] = sorted(r.sample(range(nfr), r.randint(1, 3)))
    return spec


# ----------------------------------------------------------------------------- driver


class Net:
    """The driver-controlled network: a priority queue of datagrams with due positions.

    Position = relative sequence number of the newest original packet on the wire.
    Order among equal dues: feedback, then retransmissions, then originals, then by
    identity - never by the order in which the code emitted them."""

    def __init__(self):
        self.heap = []
        self.n = 0

    def put(self, due, cls, key, pkt):
        self.n += 1
        heapq.heappush(self.heap, (due, cls, key, self.n, pkt))

    def pop_due(self, now):
        if self.heap and self.heap[0][0] <= now:
            return heapq.heappop(self.heap)
        return None


def execute(spec, origin, max_heal_surplus=150):
    """Run one schedule under one origin; returns the trace object (kind "run")."""
    import random
    label, seq0, ts0, rtxseq0 = origin
    env = Env(codec=spec["codec"], rtx=spec["rtx"], seq0=seq0, ts0=ts0, rtxseq0=rtxseq0,
              picid=spec["picid"], hdrext=spec.get("hdrext", True))
    net = Net()
    nfb = [0]
    stats = {"fb_lost": 0, "re_lost": 0, "media_lost": 0, "delivered": 0}
    fr = random.Random(spec["seed"] ^ 0x5EED)

    def route(out, t):
        for p in out:
            if p["dir"] == "m" and p["kind"] == "orig":
                f = fate_media(spec, p["s"])
                if not f:
                    stats["media_lost"] += 1
                for i, d in enumerate(f):
                    net.put(p["s"] + (d + 0.5 if d else 0), 2, (p["s"], i), p)
            elif p["dir"] == "m" and p["kind"] == "re":
                f = fate_re(spec, p["s"], p["n"])
                if not f:
                    stats["re_lost"] += 1
                for i, d in enumerate(f):
                    net.put(t + (d + 0.25 if d else 0), 1, (p["s"], p["n"], i), p)
            elif p["dir"] == "f" and p["kind"] in ("nack", "pli"):
                nfb[0] += 1
                f = fate_fb(spec, nfb[0])
                if not f:
                    stats["fb_lost"] += 1
                for i, d in enumerate(f):
                    net.put(t + (d + 0.125 if d else 0), 0, (nfb[0], i), p)
            else:
                net.put(t, 0, (0, 0), p)      # SR / RR / REMB: delivered at once

    def pump(now):
        while True:
            it = net.pop_due(now)
            if it is None:
                return
            t = max(it[0], 0)
            try:
                out = env.deliver(it[4])
            except Exception as exc:   # an exception escaping a handler of the code
                env.events.append({"k": "exc", "name": type(exc).__name__})
                out = env.outbox
            stats["delivered"] += 1
            route(out, t)

    try:
        sizes = list(spec["sizes"])
        for i, n in enumerate(sizes):
            out = env.send_frame(n, fr)
            route(out, env.hi)
            if i in spec.get("timers", ()):
                route(env.fire_rtcp_timer(), env.hi)
            pump(env.hi)
        # "while traffic continues": fault-free frames until nothing more comes out
        pre = env.nframes
        spec["clean_from"] = env.hi + 1
        trail = 0
        surplus = 0
        while True:
            got = set(e["segs"][0][0] for e in env.events if e["k"] == "dec")
            if trail >= 6 and not net.heap and (surplus >= max_heal_surplus or not spec["lossfree"]
                                                or all(f in got for f in range(1, pre + 1))):
                break
            if trail >= 400:
                break
            n = fr.randint(4, 8)
            out = env.send_frame(n, fr)
            trail += 1
            surplus += len(out) - 1
            route(out, env.hi)
            pump(env.hi)
        del spec["clean_from"]
        prompt = spec["lossfree"] and stats["fb_lost"] == 0 and stats["re_lost"] == 0
        return {"kind": "run", "rtx": bool(spec["rtx"]), "lossfree": bool(prompt), "trail": trail,
                "origin": label, "events": env.events, "stats": stats}
    finally:
        spec.pop("clean_from", None)
        env.close()


def digest(trace):
    """Origin-relative observable result of a run, as lists of small integers (C17)."""
    out = []
    grp = []
    for e in trace["events"]:
        if e["k"] == "rtx":
            grp.append([4, e["s"], 1 if e["form"] == "rtx" else 0, 1 if e["same"] else 0])
            continue
        if grp:
            out.extend(sorted(grp))
            grp = []
        if e["k"] == "dec":
            out.append([1] + [x for sg in e["segs"] for x in sg] + [e["ts"]])
        elif e["k"] == "nack":
            out.append([2] + list(e["lost"]))
        elif e["k"] == "pli":
            out.append([3])
    out.extend(sorted(grp))
    return out


# ----------------------------------------------------------------------------- spec -> code

EXH_CFG = """SPECIFICATION Spec
CONSTANTS
 HistorySize = 4
 LateBound = 2
 MaxFrames = %(mf)d
 MaxPkts = %(mp)d
 Capacity = %(cap)d
 MaxMisorder = 3
 MaxFaults = %(flt)d
 MaxFbFaults = %(fbf)d
 MaxRe = 2
 RunAhead = %(ra)d
 RtxModes = {TRUE, FALSE}
 Dev = {%(dev)s}
VIEW View
%(inv)s
CHECK_DEADLOCK FALSE
"""

SIM_CFG = """SPECIFICATION Spec
CONSTANTS
 HistorySize = 128
 LateBound = 64
 MaxFrames = %(mf)d
 MaxPkts = 8
 Capacity = 128
 MaxMisorder = 100
 MaxFaults = %(flt)d
 MaxFbFaults = 2
 MaxRe = 3
 RunAhead = 40
 RtxModes = {TRUE, FALSE}
 Dev = {%(dev)s}
CHECK_DEADLOCK FALSE
"""

TRACE_CFG = """SPECIFICATION TraceSpec
CONSTANTS
 HistorySize = 128
 LateBound = 64
CHECK_DEADLOCK FALSE
"""


def exh_cfg(inv, mf=4, mp=2, flt=2, fbf=0, ra=2, cap=4, dev=()):
    return EXH_CFG % dict(mf=mf, mp=mp, flt=flt, fbf=fbf, ra=ra, cap=cap, dev=", ".join('"%s"' % d for d in dev),
                          inv="\n".join("INVARIANT " + i for i in inv))


def simulate_acts(sc, cfg, num, depth, seed_, workers=8, timeout=900):
    """tlc -simulate; returns (result, [[act record, ...] per behaviour], rtx flags).
    Only `act` and `rtx` are parsed (states at the real constants are large)."""
    import os
    import re
    import shutil
    import time
    d = os.path.join(sc.dir, "sim_%d" % time.time_ns())
    os.makedirs(d)
    workers = max(1, min(workers, num))
    per = (num + workers - 1) // workers
    res = T.tlc(sc, "MediaLoop", cfg, workers=workers,
                args=["-simulate", "file=%s/tr,num=%d" % (d, per), "-depth", str(depth), "-seed", str(seed_)],
                timeout=timeout)
    behs = []
    act_re = re.compile(r"^/\\ act = (.*?)(?=^/\\ |\Z)", re.S | re.M)
    rtx_re = re.compile(r"^/\\ rtx = (TRUE|FALSE)", re.M)
    for f in sorted(os.listdir(d)):
        try:
            text = open(os.path.join(d, f)).read()
            acts = [T.parse_value(m.group(1).strip()) for m in act_re.finditer(text)]
            m = rtx_re.search(text)
        except Exception:
            continue
        if len(acts) > 1 and m:
            behs.append((m.group(1) == "TRUE", acts[1:]))
    shutil.rmtree(d, ignore_errors=True)
    return res, behs


def replay_behaviour(rtx, acts, origin, codec="VP8"):
    """Step one TLC behaviour through the real pair; returns (trace, agreement info).

    The model names packets by (sequence number, copy); the harness looks the real
    datagram up by the same identity, whatever order the code emitted it in."""
    import random
    label, seq0, ts0, rtxseq0 = origin
    env = Env(codec=codec, rtx=rtx, seq0=seq0, ts0=ts0, rtxseq0=rtxseq0)
    fr = random.Random(len(acts))
    net, held, fbq = [], [], []
    steps = mismatches = 0
    model_out, lossfree = [], True

    def absorb(out):
        for p in out:
            if p["dir"] == "m" and p["kind"] in ("orig", "re"):
                net.append(p)
            elif p["dir"] == "f" and p["kind"] in ("nack", "pli"):
                fbq.append(p)
            else:
                absorb(env.deliver(p))          # SR / RR / REMB are not modelled

    def find(lst, a):
        for p in lst:
            if p["s"] == a["s"] and p["n"] == a["re"]:
                return p
        return None

    def code_out(ev0):
        return [(e["segs"][0][0], e["segs"][0][1] > 0) for e in env.events[ev0:] if e["k"] == "dec"]

    try:
        for a in acts:
            steps += 1
            op = a["op"]
            ev0 = len(env.events)
            if op == "send":
                out = env.send_frame(a["n"], fr)
                if len(out) != a["n"]:
                    raise T.MachineryError("packetiser gave %d packets for a frame of %d" % (len(out), a["n"]))
                absorb(out)
                continue
            if op in ("deliver", "drop", "hold", "dup", "release"):
                src = held if op == "release" else net
                p = find(src, a)
                if p is None:
                    mismatches += 1
                    continue
                if op != "dup":
                    src.remove(p)
                if op in ("hold", "dup"):
                    held.append(p)
                if op in ("drop", "hold", "dup") and p["kind"] == "re":
                    lossfree = False
                if op in ("deliver", "dup", "release"):
                    absorb(env.deliver(p))
                    exp = [(sg[0], sg[1] > 0) for sg in a.get("out", [])][:1]
                    model_out.extend(exp)
                    if exp != code_out(ev0):
                        mismatches += 1
                continue
            if op in ("fbdeliver", "fbdrop"):
                if not fbq or fbq[0]["kind"] != a["k"]:
                    mismatches += 1
                    continue
                p = fbq.pop(0)
                if op == "fbdrop":
                    lossfree = False
                else:
                    absorb(env.deliver(p))
                continue
            raise T.MachineryError("unknown model action %r" % (a,))
        ndec_model = len(model_out)
        code_seq = [(e["segs"][0][0], e["segs"][0][1] > 0) for e in env.events if e["k"] == "dec"]
        agree = (code_seq == model_out)
        # end of the model behaviour: flush the network, then keep the traffic going
        pre = env.nframes
        while held or net or fbq:
            if fbq:
                absorb(env.deliver(fbq.pop(0)))
            elif net:
                absorb(env.deliver(net.pop(0)))
            else:
                absorb(env.deliver(held.pop(0)))
        trail = surplus = 0
        while trail < 6 or (lossfree and surplus < 150 and not all(
                f in set(e["segs"][0][0] for e in env.events if e["k"] == "dec") for f in range(1, pre + 1))):
            out = env.send_frame(fr.randint(4, 8), fr)
            trail += 1
            surplus += len(out) - 1
            q = list(out)
            while q:
                q.extend(env.deliver(q.pop(0)))
        trace = {"kind": "run", "rtx": bool(rtx), "lossfree": bool(lossfree), "trail": trail, "origin": label,
                 "events": env.events, "stats": {"src": "tlc-simulate"}}
        return trace, {"steps": steps, "mismatches": mismatches, "agree": agree, "model_decoded": ndec_model}
    finally:
        env.close()


# ----------------------------------------------------------------------------- the check

WITNESSES = {
    # invariant that must be VIOLATED -> configuration in which the situation is reachable
    "WitnessNoTail": dict(mf=3, mp=2, flt=1, ra=2),
    "WitnessNoRetransmit": dict(mf=3, mp=2, flt=1, ra=2),
    "WitnessNoDiscard": dict(mf=3, mp=3, flt=2, ra=3),
    "WitnessNoUnrec": dict(mf=3, mp=3, flt=1, ra=3),
    "WitnessNackNotFull": dict(mf=2, mp=3, flt=4, ra=3),
    "WitnessNoRepair": dict(mf=3, mp=2, flt=1, ra=2),
    "WitnessAllDelivered": dict(mf=3, mp=3, flt=2, ra=3),
    "WitnessNoBacklog": dict(mf=3, mp=2, flt=1, ra=2),
}
DEVIATIONS = {
    # seeded model defect -> (invariant TLC must refute, configuration, thorough only)
    "misorder_redeliver": ("ClausesHold", dict(mf=3, mp=3, flt=2, ra=3), False),
    "jb_hole": ("ClausesHold", dict(mf=3, mp=3, flt=1, ra=3), False),
    "hist_modulus": ("RecoveryHolds", dict(mf=3, mp=2, flt=1, ra=2, cap=8), False),
    "no_truncate": ("ClausesHold", dict(mf=3, mp=3, flt=5, ra=3), True),
    # not a Dev element but a constant: a jitter buffer no larger than the sender history
    # cannot hold an in-history gap plus the frame it is still waiting to complete
    "tight_capacity": ("RecoveryHolds", dict(mf=4, mp=2, flt=2, ra=2, cap=4), False),
}
# Safety clauses are checked with jitter capacity 4 (= history, as in the code) and 8;
# the recovery clause needs Capacity >= HistorySize + MaxPkts (see tight_capacity).
EXHAUSTIVE = {
    "quick": [dict(mf=4, mp=2, flt=2, fbf=1, ra=2, cap=8)],
    "thorough": [dict(mf=4, mp=2, flt=2, fbf=1, ra=2, cap=8), dict(mf=4, mp=2, flt=2, fbf=1, ra=2, cap=4),
                 dict(mf=6, mp=2, flt=1, fbf=1, ra=2, cap=8),
                 dict(mf=5, mp=2, flt=2, fbf=1, ra=2, cap=8), dict(mf=4, mp=3, flt=2, fbf=0, ra=3, cap=8),
                 dict(mf=4, mp=3, flt=2, fbf=0, ra=3, cap=4), dict(mf=3, mp=3, flt=3, fbf=1, ra=3, cap=8)],
}
KNOWN_LATE = "packet_100_or_more_late"
KNOWN_SPAN = "gap_plus_pending_frame_spans_128_or_more"

# schedules that are always re-run (the recorded finding and near misses of it)
REGRESSION_SPECS = [
    {"seed": 7, "cls": "late", "codec": "VP8", "rtx": True, "picid": 200, "hdrext": True, "lossfree": True,
     "p_drop": 0, "p_dup": 0, "p_delay": 0, "max_delay": 3, "re_p_drop": 0, "fb_p_drop": 0, "bursts": [],
     "late": [[10, 8, 110]], "held": [], "timers": [], "sizes": [2] * 70},
    {"seed": 8, "cls": "late", "codec": "H264", "rtx": False, "picid": 200, "hdrext": False, "lossfree": True,
     "p_drop": 0, "p_dup": 0, "p_delay": 0, "max_delay": 3, "re_p_drop": 0, "fb_p_drop": 0, "bursts": [],
     "late": [[10, 8, 97]], "held": [], "timers": [], "sizes": [2] * 70},
    {"seed": 9, "cls": "longburst", "codec": "VP8", "rtx": True, "picid": 32760, "hdrext": True, "lossfree": True,
     "p_drop": 0, "p_dup": 0, "p_delay": 0, "max_delay": 3, "re_p_drop": 0, "fb_p_drop": 0,
     "bursts": [[20, 127]], "late": [], "held": [], "timers": [5], "sizes": [3] * 70},
    {"seed": 12, "cls": "longburst", "codec": "VP8", "rtx": True, "picid": 300, "hdrext": True, "lossfree": True,
     "p_drop": 0, "p_dup": 0, "p_delay": 0, "max_delay": 3, "re_p_drop": 0, "fb_p_drop": 0,
     "bursts": [[23, 121]], "late": [], "held": [], "timers": [], "sizes": [8] * 18 + [1] * 12},
    {"seed": 13, "cls": "longburst", "codec": "H264", "rtx": True, "picid": 300, "hdrext": False, "lossfree": False,
     "p_drop": 0.01, "p_dup": 0, "p_delay": 0, "max_delay": 3, "re_p_drop": 0.2, "fb_p_drop": 0.1,
     "bursts": [[30, 135]], "late": [], "held": [], "timers": [], "sizes": [2, 5, 1, 8] * 16},
    {"seed": 10, "cls": "longburst", "codec": "VP8", "rtx": False, "picid": 100, "hdrext": True, "lossfree": True,
     "p_drop": 0, "p_dup": 0, "p_delay": 0, "max_delay": 3, "re_p_drop": 0, "fb_p_drop": 0,
     "bursts": [[20, 128]], "late": [], "held": [], "timers": [], "sizes": [1, 2, 3, 4] * 20},
]


def late100(trace, pos):
    """Input class of a run: did some packet (original, duplicate or retransmission) arrive
    100 or more positions behind the newest one that had arrived (before event number pos)?"""
    mx = -1
    for e in trace["events"][:pos]:
        if e["k"] == "arr":
            if mx - e["s"] >= 100:
                return True
            mx = max(mx, e["s"])
    return False


def span128(trace):
    """Input class of a run: did a gap become visible while the span from the start of the
    oldest frame not yet handed to the decoder to the arriving packet was 128 or more?"""
    frames, done = [], set()
    first, mx = None, -1
    for e in trace["events"]:
        if e["k"] == "send":
            frames.append((e["f"], e["s0"], e["n"]))
        elif e["k"] == "dec":
            done.add(e["segs"][0][0])
        elif e["k"] == "arr":
            s = e["s"]
            if first is None:
                first = s
            if s > mx + 1 and mx >= 0:
                heads = [max(s0, first) for (f, s0, n) in frames if f not in done and s0 + n - 1 >= first and s0 <= mx]
                if heads and s - min(heads) >= 128:
                    return True
            mx = max(mx, s)
    return False


def _job_random(args):
    spec, origin_idx = args
    out = []
    for oi in origin_idx:
        tr = execute(copy.deepcopy(spec), ORIGINS[oi])
        tr["spec"] = spec
        out.append(tr)
    return out


def origins_for(r, k):
    """The reference origin plus k-1 others (wrap-adjacent ones preferred)."""
    rest = list(range(1, len(ORIGINS)))
    r.shuffle(rest)
    pick = [0] + sorted(rest[:k - 1])
    return pick


def run_schedules(jobs, procs):
    if procs <= 1:
        return [_job_random(j) for j in jobs]
    import multiprocessing as mp
    ctx = mp.get_context("fork")
    with ctx.Pool(procs) as pool:
        return pool.map(_job_random, jobs, chunksize=4)


def slim(trace):
    """The part of a trace object that TLC needs."""
    return {k: trace[k] for k in ("id", "kind", "rtx", "lossfree", "trail", "events") if k in trace}


def judge(sc, traces, timeout=1800):
    val, verdicts = T.validate_traces(sc, "TraceMediaLoop", TRACE_CFG, [slim(t) if t["kind"] == "run" else t for t in traces],
                                      timeout=timeout)
    if len(verdicts) != len(traces):
        raise T.MachineryError("trace validation incomplete: %d of %d verdicts\n%s"
                               % (len(verdicts), len(traces), val.out[-3000:]))
    return val, verdicts


def binding_selftest(sc, traces, verdicts):
    """Corrupt recorded traces in one field each; every corruption must be rejected with
    the expected clause."""
    base = None
    for t in traces:
        if t["kind"] != "run" or not t["lossfree"] or verdicts[t["id"]][0] != "ok":
            continue
        if (t.get("spec") or {}).get("cls") not in ("light", "burst"):
            continue            # calm schedules: the recovery premise certainly holds
        decs = [i for i, e in enumerate(t["events"]) if e["k"] == "dec" and len(e["segs"]) == 1 and e["segs"][0][1] == 0]
        if len(decs) >= 6 and not any(e["k"] == "pli" for e in t["events"]) and \
                any(e["k"] == "nack" for e in t["events"]):
            base = t
            break
    if base is None:
        raise T.MachineryError("binding self-test: no suitable recorded trace")
    decs = [i for i, e in enumerate(base["events"]) if e["k"] == "dec" and len(e["segs"]) == 1 and e["segs"][0][1] == 0]
    bad = []

    def variant(expect, fn):
        t = copy.deepcopy(slim(base))
        fn(t["events"])
        t["id"] = len(bad) + 1
        bad.append((expect, t))

    i3, i4 = decs[3], decs[4]
    variant("C11.frame_with_hole", lambda ev: ev[i3]["segs"][0].__setitem__(2, ev[i3]["segs"][0][2] - 7))
    variant("C11.frame_with_hole", lambda ev: ev[i3].__setitem__("segs", [[ev[i3]["segs"][0][0], 0, 5], [ev[i3]["segs"][0][0], 9, ev[i3]["segs"][0][2]]]))
    variant("C11.spliced_frame", lambda ev: ev[i3].__setitem__("segs", [ev[i3]["segs"][0][:2] + [10], ev[i4]["segs"][0][:1] + [10, ev[i4]["segs"][0][2]]]))
    variant("C11.unknown_frame", lambda ev: ev[i3].__setitem__("segs", [[0, 0, 40]]))
    variant("C11.tail_not_allowed", lambda ev: ev[i3]["segs"][0].__setitem__(1, 3))

    def swap(ev):
        ev[i3]["segs"], ev[i4]["segs"] = ev[i4]["segs"], ev[i3]["segs"]
    variant("C11.order", swap)
    inack = [i for i, e in enumerate(base["events"]) if e["k"] == "nack"][0]
    variant("C11.nack_too_long", lambda ev: ev[inack].__setitem__("n", HISTORY + 1))
    variant("C11.no_recovery", lambda ev: ev.pop(i3))
    irtx = [i for i, e in enumerate(base["events"]) if e["k"] == "rtx"]
    if irtx:
        variant("C11.retransmit_form", lambda ev: ev[irtx[0]].__setitem__("same", False))
    d = digest(base)
    d2 = copy.deepcopy(d)
    for x in d2:
        if x[0] == 1:
            x[-1] += TS_STEP
            break
    bad.append(("C17.media_origin", {"id": len(bad) + 1, "kind": "origins", "obs": [d, d, d2]}))
    _, v = judge(sc, [t for _, t in bad], timeout=600)
    res = {}
    for (expect, t) in bad:
        got = v[t["id"]][0]
        res["%s#%d" % (expect, t["id"])] = got
        if got != expect:
            raise T.MachineryError("binding self-test: corruption expected %s, verdict %s" % (expect, got))
    return res


def run():
    import os
    from concurrent.futures import ThreadPoolExecutor
    import time as _time
    rep = Report("C11")
    thorough = tier() == "thorough"
    r = rng(11)
    phase = {}
    t_ph = [_time.time()]

    def mark(name):
        phase[name] = round(_time.time() - t_ph[0], 1)
        t_ph[0] = _time.time()
    try:
        with T.Scratch() as sc:
            # ---- 1. design level: exhaustive TLC, witnesses, deviations -----------------------
            def tlc_job(item):
                name, inv, kw, nw, extra = item
                with T.Scratch("verif_c11_") as s2:
                    return name, T.tlc(s2, "MediaLoop", exh_cfg(inv, **kw), workers=nw, args=extra, timeout=3000)
            items = []
            for i, kw in enumerate(EXHAUSTIVE[tier()]):
                inv = ["ClausesHold", "JbSane"] + (["RecoveryHolds"] if kw["cap"] >= 4 + kw["mp"] else [])
                items.append(("exh%d" % i, inv, kw, 8, ["-coverage", "1"] if i == 0 else []))
            for w, kw in WITNESSES.items():
                items.append(("wit:" + w, [w], dict(kw, fbf=0), 2, []))
            for d, (inv, kw, only_thorough) in DEVIATIONS.items():
                if thorough or not only_thorough:
                    items.append(("dev:" + d, [inv], dict(kw, fbf=0, dev=[] if d == "tight_capacity" else [d]), 2, []))
            with ThreadPoolExecutor(6) as ex:
                results = dict(ex.map(tlc_job, items))
            exh = []
            for name, res in sorted(results.items()):
                if name.startswith("exh"):
                    if not res.complete or res.violated:
                        raise T.MachineryError("design model MediaLoop failed (%s): %s\n%s" % (name, res.violated, res.out[-2500:]))
                    exh.append(res)
                elif name.startswith("wit:"):
                    if name[4:] not in res.violated:
                        raise T.MachineryError("vacuity: witness %s not reachable\n%s" % (name, res.out[-1500:]))
                else:
                    want = DEVIATIONS[name[4:]][0]
                    if want not in res.violated:
                        raise T.MachineryError("deviation %s not refuted by TLC\n%s" % (name, res.out[-1500:]))
            cov = exh[0].action_counts()
            never = [a for a, (d_, n_) in cov.items() if n_ == 0 and a not in ("Init",)]
            if not cov or never:
                raise T.MachineryError("coverage: actions never taken: %s" % (never or "no coverage output",))

            mark("1_tlc_design")
            # ---- 2. spec -> code: TLC behaviours at the real constants --------------------------
            finding_open = any(k["signature"].get("input") == KNOWN_LATE for k in rep.known)
            nsim = 160 if thorough else 24
            sim, behs = simulate_acts(sc, SIM_CFG % dict(mf=30 if thorough else 20, flt=14,
                                                         dev='"misorder_redeliver"' if finding_open else ""),
                                      num=nsim, depth=240 if thorough else 150, seed_=seed(), workers=8, timeout=2400)
            if len(behs) < nsim // 2:
                raise T.MachineryError("too few simulated behaviours (%d)\n%s" % (len(behs), sim.out[-1500:]))
            traces = []
            lock = {"behaviours": 0, "steps": 0, "step_mismatches": 0, "decoder_sequences_equal": 0}
            for bi, (rtx, acts) in enumerate(behs):
                tr, info = replay_behaviour(rtx, acts, ORIGINS[bi % len(ORIGINS)], codec=("VP8", "H264")[bi % 2])
                lock["behaviours"] += 1
                lock["steps"] += info["steps"]
                lock["step_mismatches"] += info["mismatches"]
                lock["decoder_sequences_equal"] += 1 if info["agree"] else 0
                tr["id"] = len(traces) + 1
                tr["replay_src"] = {"acts": acts, "rtx": rtx, "origin": bi % len(ORIGINS), "codec": ("VP8", "H264")[bi % 2]}
                traces.append(tr)

            mark("2_simulate_and_replay")
            # ---- 3. code -> spec: seeded random schedules at real sizes, several origins --------
            nrand = 1200 if thorough else 90
            norig = 3 if thorough else 2
            jobs = [(s_, list(range(len(ORIGINS)))) for s_ in REGRESSION_SPECS]
            for i in range(nrand):
                jobs.append((random_spec(r, i, thorough), origins_for(r, norig)))
            procs = min(12, os.cpu_count() or 2) if thorough else min(6, os.cpu_count() or 2)
            groups = []
            for trs in run_schedules(jobs, procs):
                ids = []
                for tr in trs:
                    tr["id"] = len(traces) + 1
                    traces.append(tr)
                    ids.append(tr["id"])
                g = {"id": len(traces) + 1, "kind": "origins", "obs": [digest(traces[i - 1]) for i in ids],
                     "members": ids, "spec": trs[0]["spec"]}
                traces.append(g)
                groups.append(g)

            mark("3_random_schedules")
            # ---- 4. TLC judges every recorded execution ------------------------------------------
            val, verdicts = judge(sc, [({k: v for k, v in t.items() if k in ("id", "kind", "obs")} if t["kind"] == "origins" else t)
                                       for t in traces])
            bind_err = None
            try:
                bind = binding_selftest(sc, traces, verdicts)
            except T.MachineryError as e:       # on a tree that violates the property the recorded
                bind_err = e                    # traces may not contain a usable base trace: judged below
                bind = {"error": str(e)}
            mark("4_trace_validation")

        counts = {}
        nrun = ngroups = nlossfree = 0
        for t in traces:
            v, pos = verdicts[t["id"]]
            counts[v] = counts.get(v, 0) + 1
            if t["kind"] == "run":
                nrun += 1
                nlossfree += 1 if t["lossfree"] else 0
            else:
                ngroups += 1
            if v.startswith("machinery"):
                raise T.MachineryError("trace %d: %s at %d" % (t["id"], v, pos))
            if v == "ok":
                continue
            if t["kind"] == "run":
                ev = t["events"][pos - 1] if 1 <= pos <= len(t["events"]) else None
                sig = {"clause": v}
                if v == "C11.no_recovery" and span128(t):
                    sig["input"] = KNOWN_SPAN
                elif late100(t, pos):
                    sig["input"] = KNOWN_LATE
                rep.violation(v, sig, {"event": ev, "position": pos, "origin": t["origin"], "lossfree": t["lossfree"],
                                       "class": (t.get("spec") or {}).get("cls", "tlc-simulate")},
                              {"kind": "run", "spec": t.get("spec"), "origin": t["origin"],
                               "replay_src": t.get("replay_src"), "events": t["events"], "rtx": t["rtx"],
                               "lossfree": t["lossfree"], "trail": t["trail"]})
            else:
                members = [traces[i - 1] for i in t["members"]]
                # a divergence that is only the recorded finding's consequence is part of it
                sig = {"clause": v}
                rep.violation(v, sig, {"variant": pos, "origins": [m["origin"] for m in members],
                                       "class": t["spec"].get("cls")},
                              {"kind": "origins", "spec": t["spec"], "origins": [m["origin"] for m in members],
                               "obs": t["obs"]})
        evk = {}
        for t in traces:
            if t["kind"] == "run":
                for e in t["events"]:
                    evk[e["k"]] = evk.get(e["k"], 0) + 1
        sample = [e for e in traces[-2]["events"] if e["k"] in ("send", "nack", "rtx", "dec", "pli")][:10] \
            if traces[-2]["kind"] == "run" else []
        if bind_err is not None and not rep.violations:
            raise bind_err              # the self-test failed although nothing violates the property: machinery
        rep.coverage = {
            "states": sum(e.distinct for e in exh), "transitions": sum(e.generated for e in exh), "exhaustive": True,
            "model_depth": max(e.depth for e in exh),
            "exhaustive_configs": [dict(kw, states=e.distinct) for kw, e in zip(EXHAUSTIVE[tier()], exh)],
            "action_coverage": {k: v[1] for k, v in cov.items()},
            "witnesses_reached": sorted(WITNESSES),
            "deviations_refuted": sorted(d for d, x in DEVIATIONS.items() if thorough or not x[2]),
            "lockstep": lock,
            "traces_validated_against_impl": nrun,
            "origin_groups_compared": ngroups,
            "runs_with_recovery_premise": nlossfree,
            "trace_events_validated": sum(evk.values()),
            "events_by_kind": evk,
            "verdict_counts": counts,
            "trace_validation_states": val.distinct,
            "binding_selftest": bind,
            "phase_wall_s": phase,
            "samples": [sample],
        }
        # extra specification beyond the listed properties (never a VIOLATION): what the real
        # sender puts on the wire, judged by RtpSenderObs.tla / TraceRtpSender.tla
        try:
            from . import x_rtpsender
            rep.coverage["extra_specs"] = {"RtpSenderObs": x_rtpsender.stage(thorough, seed())}
        except Exception as exc:      # the extra stage must never break the property check
            rep.coverage["extra_specs"] = {"RtpSenderObs": {"error": "%s: %s" % (type(exc).__name__, exc)}}
        rep.assumptions = [
            "PLI on the wire is the observable sign that the receiver's buffer discarded packets",
            "recovery is demanded only when every feedback packet and retransmission was delivered at once, "
            "no discard was signalled, for frames starting at/after the first packet the receiver got, whose "
            "gaps became visible within 128 packets of the sender's newest packet, excluding the trailing frames",
            "frames are opaque token strings packetised by the real VP8/H264 packetisers (pack()), codecs are not run",
            "decoder inputs are observed at the decoder queue (decoder_worker replaced by a synchronous tap)",
            "fake transports reproduce RTCDtlsTransport's parse-and-route steps with the real RtpRouter",
            "origins are sampled (6 origin triples incl. 2^16/2^32 wrap, 2^15/2^31), not enumerated",
        ]
        return rep.finish()
    except T.MachineryError as e:
        return rep.finish(machinery_error=e)


def replay(path):
    """Re-execute a saved failing schedule / behaviour on the current tree and re-judge it."""
    obj = json.load(open(path))
    rp = obj["replay"]
    traces = []
    if rp["kind"] == "run" and rp.get("spec"):
        o = [x for x in ORIGINS if x[0] == rp["origin"]][0]
        traces.append(execute(copy.deepcopy(rp["spec"]), o))
    elif rp["kind"] == "run":
        src = rp["replay_src"]
        tr, _ = replay_behaviour(src["rtx"], src["acts"], ORIGINS[src["origin"]], codec=src["codec"])
        traces.append(tr)
    else:
        members = [execute(copy.deepcopy(rp["spec"]), [x for x in ORIGINS if x[0] == lab][0]) for lab in rp["origins"]]
        traces.append({"kind": "origins", "obs": [digest(m) for m in members]})
    for i, t in enumerate(traces):
        t["id"] = i + 1
    with T.Scratch() as sc:
        _, v = judge(sc, traces)
    verdict, pos = v[1]
    if verdict == "ok":
        print("replay: trace accepted on the current tree")
        return 0
    t = traces[0]
    ev = t["events"][pos - 1] if t["kind"] == "run" and 1 <= pos <= len(t["events"]) else None
    print("VIOLATION property=C11 replay=%s clause=%s position=%s event=%s" % (path, verdict, pos, ev))
    return 1
